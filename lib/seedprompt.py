#!/usr/bin/env python3
"""prints the prompt given to a mutation-seeding sub-agent for one property: only the property text
and the path of its scratch worktree - nothing from /verif. Optional third arg: an extra hint line."""
import json, sys
pid, wt = sys.argv[1], sys.argv[2]
extra = sys.argv[3] if len(sys.argv) > 3 else ""
for l in open('/verif/properties.jsonl'):
    p = json.loads(l)
    if p['id'] == pid:
        break
print(f"""You are helping test a verification effort for the open-source Go project cloudflare/pint (a Prometheus rule linter).
You have your own scratch git worktree of the repository at {wt} (work ONLY there; never touch /repo or /verif, and do not read anything under /verif).

Here is a semantic property that pint is supposed to satisfy:

TITLE: {p['title']}
STATEMENT: {p['statement']}
QUANTIFIED OVER: {p['quantifier']['text']}
RELEVANT FILES: {', '.join(p['anchors']['files'])}
MECHANISMS: {'; '.join(m['name'] + ' (' + m['where'] + ')' for m in p['anchors']['mechanism'])}
{extra}
TASK: produce ONE realistic change (a plausible bug a developer could introduce: a refactor slip, an off-by-one, a wrong condition, a dropped case, two cooperating sites that each look fine alone) to the Go source in {wt} that BREAKS this property while the code still compiles and the EXISTING test suite still passes. The change must need something specific to manifest (an unusual input, a particular multi-step sequence, a particular interleaving or fault, a rarely used option or combination) - not something ordinary use would expose at once. Keep the patch small (typically 1-15 changed lines) and do not touch *_test.go files, testdata, docs, or files named verif_hooks.go.

Environment: no network. Use these env vars for every go command: GOFLAGS=-mod=mod GOPROXY=off (do NOT set GOTOOLCHAIN or GOSUMDB). Build tag used by the Makefile: -tags stringlabels. Run the relevant package tests (e.g. `go test -count=1 ./internal/... ./cmd/...`) to confirm they still pass with your change; the full suite takes a few minutes.

DELIVERABLES (write them into {wt}/SEED/):
 1. patch.diff  - `git diff` of your source change (source files only; not the SEED directory).
 2. a demonstration: a small Go test file, Go program or shell script (put it in SEED/, say how to run it, e.g. copy to a package dir and `go test -run X`) that FAILS with your change and PASSES without it, exercising the property's observable behaviour.
 3. meta.json - {{"property": "{pid}", "summary": "...what the change does...", "needs": "...what specific input/sequence/schedule makes it manifest...", "demo": "exact command(s) to run the demonstration from the worktree root", "ran": ["commands you ran and their outcome"]}}
Verify yourself that (a) the project builds, (b) the existing tests of the touched packages and ./cmd/pint pass with the change, (c) the demonstration fails with the change and passes without it (use `git diff > /tmp/x.diff; git apply -R /tmp/x.diff` and `git apply /tmp/x.diff` to restore; do NOT use `git stash`, it is shared with other worktrees). Leave the worktree with the change applied. In your final answer give a 5-line summary.""")
