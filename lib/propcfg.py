COMMON_TB = [
    "Lean 4.33.0 kernel (leanchecker re-check in thorough tier); axioms allowed: propext, Classical.choice, Quot.sound",
    "tools/extract (go/ast fact extractor regenerating lean/PintModel/Gen/*.lean on every run)",
    "correspondence harness harness/cmd/corr + Lean driver (differential testing of the hand-written model against the real Go code)",
]

PROPS = {
    "C10": {
        "level_text": "Lean proof (induction over the line list, simulation of the documented exclusion state machine by the reader's four flags) that two files agreeing outside excluded text give equal reader output, for every number of lines and every nesting/adjacency of the four forms; partial: payload lines that parse as pint control comments are excluded (the full statement is refuted by a kernel-checked witness and recorded as known findings); reader model tied to read.go/comments.go by correspondence on random files; YAML-level consequences observed on the real pipeline only",
        "technique": "Lean 4 simulation proof + differential correspondence + two-run relational search",
        "n": {"quick": 1500, "thorough": 60000},
        "rule": "reader correspondence: 4n random files of 1-8 lines (pint comment lines with random spacing/keywords/values, YAML, jinja, CR, tabs, non-ASCII) through the real ContentReader and the Lean model; observation: n two-file cases (random strict rule file, one of four exclusion forms inserted at a random rule boundary, two random payloads) through the real parse+lint pipeline, plus the insertion-only-shifts comparison; non-trivial = payloads differ; distinct = distinct file pair",
        "trusted_base": COMMON_TB + ["modelled not verified: yaml.v3 (comment attachment, insensitivity to blank-run length), unicode.IsLetter outside the sampled code points, time.Parse (parameter tsOk)"],
        "assumptions": ["snooze timestamp validity is a parameter of the model (tsOk); the harness passes Go's verdicts",
                        "equality of reader output is modulo leading blanks of blank/comment-only lines (canonLine)",
                        "C10_partial excludes payload lines that themselves parse as pint control comments (known finding C10-ctl-in-payload); C10_not_full proves the full statement false on the model"],
    },
}
