COMMON_TB = [
    "Lean 4.33.0 kernel (leanchecker re-check in thorough tier); axioms allowed: propext, Classical.choice, Quot.sound",
    "tools/extract (go/ast fact extractor regenerating lean/PintModel/Gen/*.lean on every run)",
    "correspondence harness harness/cmd/corr + Lean driver (differential testing of the hand-written model against the real Go code)",
]

PROPS = {
    "C10": {
        "level_text": "Lean proof (induction over the line list, simulation of the documented exclusion state machine by the reader's four flags) that two files agreeing outside excluded text give equal reader output, for every number of lines and every nesting/adjacency of the four forms; partial: payload lines that parse as pint control comments are excluded (the full statement is refuted by a kernel-checked witness and recorded as known findings); reader model tied to read.go/comments.go by correspondence on random files; YAML-level consequences observed on the real pipeline only",
        "technique": "Lean 4 simulation proof + differential correspondence + two-run relational search",
        "n": {"quick": 1500, "thorough": 60000},
        "rule": "reader correspondence: 4n random files of 1-8 lines (pint comment lines with random spacing/keywords/values, YAML, jinja, CR, tabs, non-ASCII) through the real ContentReader and the Lean model; observation: n two-file cases (random strict rule file, one of four exclusion forms inserted at a random rule boundary, two random payloads) through the real parse+lint pipeline, plus the insertion-only-shifts comparison; non-trivial = payloads differ; distinct = distinct file pair",
        "trusted_base": COMMON_TB + ["modelled not verified: yaml.v3 (comment attachment, insensitivity to blank-run length), unicode.IsLetter outside the sampled code points, time.Parse (parameter tsOk)"],
        "assumptions": ["snooze timestamp validity is a parameter of the model (tsOk); the harness passes Go's verdicts",
                        "equality of reader output is modulo leading blanks of blank/comment-only lines (canonLine)",
                        "C10_partial excludes payload lines that themselves parse as pint control comments (known finding C10-ctl-in-payload); C10_not_full proves the full statement false on the model"],
    },
    "C05": {
        "needs_binary": True,
        "n": {"quick": 40, "thorough": 1500},
        "level_text": "Lean proof that the modelled lint/ci decision fails iff some reported problem reaches the threshold, for every report stream, threshold, --min-severity and --show-duplicates value, over comparison operators, severity order and flag parse table REGENERATED from the source on every run (a changed operator or reordered constant breaks the theorem); the real binary's exit status is compared with its own --json report over the whole --fail-on table",
        "technique": "Lean 4 proof over regenerated severity/threshold facts + binary-level differential check",
        "rule": "n random strict rule files x random config assigning custom severities x every --fail-on spelling (default, info, warning, bug, fatal) x random --min-severity/--show-duplicates through the real pint binary (lint), plus `pint ci` in a scratch git repository for every 4th input; non-trivial = the run reported at least one problem; distinct = distinct (command, config, file, flags)",
        "trusted_base": COMMON_TB + ["the JSON reporter prints every report's severity faithfully (theorem string_roundtrip covers the spelling table)", "urfave/cli flag parsing, process exit code = 1 iff the action returned an error (cmd/pint/main.go)"],
        "assumptions": ["a report is abstracted to (severity, key) where key stands for all other fields compared by Report.isEqual",
                        "the run 'completes linting': runs that stop on configuration or discovery errors are not covered by the statement"],
    },
    "C09": {
        "n": {"quick": 400, "thorough": 20000},
        "level_text": "Lean proof that the modelled isMatch/Match.IsMatch (nine conditions, ignore-dominates, any-match, command-dependent state default) equals an independently written documented-semantics spec for every configuration, entry and command, given full-match regexps; model tied to match.go/parsed_rule.go by correspondence of GetChecksForEntry on random configs; the regexp-anchoring hypothesis is evaluated on the real strictRegex",
        "technique": "Lean 4 refinement proof to a boolean spec + differential correspondence + marker-check search",
        "rule": "n random configs of 1-3 rule blocks with random match/ignore sub-blocks over all nine condition kinds (each carrying a unique marker name-check) x two random rule files with group labels x lint/ci/watch with random entry states; correspondence: real GetChecksForEntry vs Lean getChecks per entry; observation: marker problems vs a Go reference evaluator written from the docs; non-trivial = block has at least one match/ignore sub-block; distinct = distinct (config, block, entry, command, state)",
        "trusted_base": COMMON_TB + ["Go regexp (parameter re); HCL decoding of the config; model.ParseDuration"],
        "assumptions": ["regexp matching is the parameter re; H_anchor (strictRegex = full match) is checked on the real code by the harness, not proved",
                        "rule `for` values that are not valid durations are outside the generator (Prometheus rejects such rules)"],
    },
}
