#!/bin/sh
# usage: lib/seedsweep.sh [tier] [seeds...]   : every seeded change x every VERIF_SEED, one line per run.
# Mutates /repo's working tree while it runs (and restores it): run nothing else against /repo meanwhile.
tier="${1:-quick}"; shift
seeds="${*:-1 2 3}"
cd /verif
for d in seeded/*/; do
  d=${d%/}; prop=$(basename "$d" | cut -c1-3)
  cw=$(python3 -c "import json,sys; print(json.load(open('$d/meta.json')).get('check_with',''))" 2>/dev/null); [ -n "$cw" ] && prop=$cw
  for s in $seeds; do
    out=$(VERIF_SEED=$s lib/seedrun.sh "$d" "$prop" "$tier" 2>&1 | tail -1)
    echo "$d seed=$s ${out##*-> }"
  done
done
git -C /repo status --short | head -3
