#!/bin/bash
# usage: lib/seedconfirm.sh <worktree> <seed-name> '<demo command run from worktree root; must FAIL with the change and PASS without>' [test pkgs]
# Confirms a seeded change independently, stores it under /verif/seeded/<seed-name>/, removes the worktree.
set -u
wt="$1"; name="$2"; demo="$3"; pkgs="${4:-./internal/... ./cmd/...}"
export GOFLAGS=-mod=mod GOPROXY=off
cd "$wt" || exit 2
files=$(git diff --name-only | grep -v '^SEED/' | tr '\n' ' ')
echo "changed: $files"
echo "== existing tests with the change"
go test -tags stringlabels -count=1 $pkgs 2>&1 | grep -v "no test files" | tail -15
echo "== demo WITH change (must fail)"
bash -c "$demo" > /tmp/seeddemo.with 2>&1; a=$?
echo "exit=$a"; tail -5 /tmp/seeddemo.with
git diff -- $files > /tmp/seedconfirm.$$.diff; git apply -R /tmp/seedconfirm.$$.diff   # not git stash: the stash is shared between worktrees
echo "== demo WITHOUT change (must pass)"
bash -c "$demo" > /tmp/seeddemo.without 2>&1; b=$?
echo "exit=$b"; tail -5 /tmp/seeddemo.without
git apply /tmp/seedconfirm.$$.diff; rm -f /tmp/seedconfirm.$$.diff
git status --short | grep -v SEED | head
if [ "$a" != 0 ] && [ "$b" = 0 ]; then
  mkdir -p "/verif/seeded/$name"
  git diff -- $files > "/verif/seeded/$name/patch.diff"
  cp -r SEED/* "/verif/seeded/$name/" 2>/dev/null
  [ -f "/verif/seeded/$name/meta.json" ] && mv "/verif/seeded/$name/meta.json" "/verif/seeded/$name/meta.agent.json"
  echo "CONFIRMED -> /verif/seeded/$name"
else
  echo "NOT CONFIRMED"
fi
