#!/usr/bin/env python3
"""prompt for a defect-hunting sub-agent: only the property text and a scratch worktree; nothing from /verif."""
import json, sys
pid, wt = sys.argv[1], sys.argv[2]
extra = sys.argv[3] if len(sys.argv) > 3 else ""
for l in open('/verif/properties.jsonl'):
    p = json.loads(l)
    if p['id'] == pid:
        break
print(f"""You are reviewing the open-source Go project cloudflare/pint (a Prometheus rule linter) for defects.
You have your own scratch git worktree of the repository at {wt} (work ONLY there; never touch /repo or /verif, and do not read anything under /verif). Do NOT use `git stash` (it is shared with other worktrees).

Here is a semantic property that pint is supposed to satisfy:

TITLE: {p['title']}
STATEMENT: {p['statement']}
QUANTIFIED OVER: {p['quantifier']['text']}
RELEVANT FILES: {', '.join(p['anchors']['files'])}
MECHANISMS: {'; '.join(m['name'] + ' (' + m['where'] + ')' for m in p['anchors']['mechanism'])}
{extra}
TASK: find concrete inputs (rule files, configuration files, command lines, git histories, server responses, schedules - whatever the property quantifies over) on which the UNCHANGED source code in {wt} VIOLATES this property: a crash, a hang, a wrong or missing report, a wrong position, an order or result that depends on something it should not. Read the code for suspicious spots (unchecked indexes, dropped errors, regexps built from input, maps iterated in random order, early returns, off-by-one, asymmetric special cases, state shared between calls), then CONFIRM every suspicion by actually running the code: build the binary (`go build -tags stringlabels -o /tmp/pint-{pid} ./cmd/pint`) and run it on small files, or write a small Go test in the relevant package. Only confirmed findings count; say clearly what the property requires and what happens instead. Do not modify non-test source files. Aim for 2-6 distinct findings with different root causes; prefer findings with small, obviously correct repairs, and mention the repair you would make.

Environment: no network. Use these env vars for every go command: GOFLAGS=-mod=mod GOPROXY=off (do NOT set GOTOOLCHAIN or GOSUMDB). Build tag used by the Makefile: -tags stringlabels. Other agents run on this machine at the same time.

DELIVERABLES (write them into {wt}/HUNT/): findings.json = a list of {{"title": ..., "input": "...exact files / commands...", "expected": "...what the property requires...", "observed": "...what happens...", "where": "file:function and why", "repair": "...", "reproducer": "path of a script or test in HUNT/ that shows it"}}, plus the reproducer files (name Go test files *.go.txt so that `go test ./...` does not pick them up). In your final answer give a short list of the findings (one line each).""")
