import fcntl, json, os, re, shutil, subprocess, sys, tempfile, time

VERIF = os.path.dirname(os.path.dirname(os.path.abspath(__file__)))
REPO = "/repo"
LEAN = os.path.join(VERIF, "lean")
BUILD = os.path.join(VERIF, ".build")
ALLOWED_AXIOMS = {"propext", "Classical.choice", "Quot.sound"}
FORBIDDEN = re.compile(r"\bsorry\b|\badmit\b|^axiom |native_decide|bv_decide|implemented_by|\bunsafe |maxHeartbeats 0")

import propcfg


def goenv():
    e = dict(os.environ)
    e["GOFLAGS"] = "-mod=mod"
    e["GOPROXY"] = "off"
    e.pop("GOTOOLCHAIN", None)   # the auto switch to the cached go1.24 toolchain must stay on
    e.pop("GOSUMDB", None)
    e["GOCACHE"] = os.path.join(BUILD, "gocache")
    return e


def _limit_mem():
    import resource
    lim = 20 * 1024 ** 3
    resource.setrlimit(resource.RLIMIT_AS, (lim, lim))


def sh(cmd, cwd=None, env=None, timeout=None, stdin=None, limit=False):
    try:
        p = subprocess.run(cmd, cwd=cwd, env=env, stdout=subprocess.PIPE, stderr=subprocess.STDOUT, timeout=timeout, stdin=stdin, text=True,
                           errors="replace", preexec_fn=_limit_mem if limit else None)
    except subprocess.TimeoutExpired as e:
        return 124, "TIMEOUT after %ss\n%s" % (timeout, (e.stdout or "")[-3000:] if isinstance(e.stdout, str) else "")
    return p.returncode, p.stdout


class Lock:
    def __init__(self, name):
        os.makedirs(BUILD, exist_ok=True)
        self.f = open(os.path.join(BUILD, name + ".lock"), "w")
    def __enter__(self):
        fcntl.flock(self.f, fcntl.LOCK_EX)
    def __exit__(self, *a):
        fcntl.flock(self.f, fcntl.LOCK_UN)


def strip_comments(src):
    # remove /- ... -/ (nested not needed here) and -- line comments
    src = re.sub(r"/-.*?-/", "", src, flags=re.S)
    return "\n".join(l.split("--")[0] for l in src.splitlines())


def theorem_names(prop):
    path = os.path.join(LEAN, "PintModel", "Props", prop + ".lean")
    src = strip_comments(open(path).read())
    ns = re.search(r"^namespace\s+(\S+)", src, re.M).group(1)
    return [ns + "." + m for m in re.findall(r"^theorem\s+([A-Za-z0-9_'.]+)", src, re.M)]


def regenerate():
    """delete and rewrite lean/PintModel/Gen/*.lean from /repo's working tree"""
    gen = os.path.join(LEAN, "PintModel", "Gen")
    exe = os.path.join(BUILD, "extract")
    rc, out = sh(["go", "build", "-o", exe, "."], cwd=os.path.join(VERIF, "tools", "extract"), env=goenv())
    if rc != 0:
        return False, "building tools/extract failed:\n" + out
    tmp = tempfile.mkdtemp(prefix="gen", dir=BUILD)
    rc, out = sh([exe, "-repo", REPO, "-out", tmp])
    if rc != 0:
        shutil.rmtree(tmp, ignore_errors=True)
        return False, "tools/extract failed (unrecognised source shape):\n" + out
    os.makedirs(gen, exist_ok=True)
    # only touch files whose content changed so lake stays incremental
    new = set(os.listdir(tmp))
    for f in os.listdir(gen):
        if f not in new:
            os.remove(os.path.join(gen, f))
    for f in new:
        a, b = os.path.join(tmp, f), os.path.join(gen, f)
        if not os.path.exists(b) or open(a).read() != open(b).read():
            shutil.copy(a, b)
    shutil.rmtree(tmp, ignore_errors=True)
    return True, out


def prove(prop, thorough):
    """lake build of the property's theorems + forbidden-token grep + #print axioms audit"""
    res = {"obligations": 0, "discharged": 0, "failed": [], "axioms": {}, "log": ""}
    names = theorem_names(prop)
    res["obligations"] = len(names)
    mod = "PintModel.Props." + prop
    rc, out = sh(["lake", "build", mod, "driver"], cwd=LEAN)
    res["checker_cmd"] = "cd lean && lake build %s driver && lake env lean <generated Audit/%s.lean with #print axioms>" % (mod, prop)
    res["log"] = out[-6000:]
    if rc != 0:
        # find which theorems are implicated
        bad = set()
        src = open(os.path.join(LEAN, "PintModel", "Props", prop + ".lean")).read().splitlines()
        for m in re.finditer(r"error: \S*Props/%s\.lean:(\d+):\d+" % prop, out):
            ln = int(m.group(1))
            for i in range(min(ln, len(src)) - 1, -1, -1):
                t = re.match(r"^(theorem|def|example|instance)\s+(\S+)", src[i])
                if t:
                    bad.add(t.group(2)); break
        res["failed"] = sorted(bad) or ["<build of %s failed before reaching Props>" % mod]
        return res
    # forbidden tokens (comments stripped)
    for sub in ("Props", "Model", "Spec", "Lemmas", "Gen"):
        d = os.path.join(LEAN, "PintModel", sub)
        if not os.path.isdir(d):
            continue
        for f in sorted(os.listdir(d)):
            if f.endswith(".lean"):
                for i, l in enumerate(strip_comments(open(os.path.join(d, f)).read()).splitlines()):
                    if FORBIDDEN.search(l):
                        res["failed"].append("forbidden token in %s/%s: %s" % (sub, f, l.strip()))
    os.makedirs(os.path.join(LEAN, "PintModel", "Audit"), exist_ok=True)
    audit = os.path.join(LEAN, "PintModel", "Audit", prop + ".lean")
    with open(audit, "w") as fh:
        fh.write("import %s\n" % mod)
        for n in names:
            fh.write("#print axioms %s\n" % n)
    rc, out = sh(["lake", "env", "lean", audit], cwd=LEAN)
    if rc != 0:
        res["failed"].append("axiom audit failed: " + out[-2000:])
        return res
    cur = None
    blocks = re.split(r"(?m)^'([^']+)' ", out)
    # blocks: ['', name1, rest1, name2, rest2...]
    for i in range(1, len(blocks), 2):
        name, rest = blocks[i], blocks[i + 1]
        if rest.startswith("does not depend on any axioms"):
            ax = []
        else:
            m = re.search(r"depends on axioms: \[([^\]]*)\]", rest, re.S)
            ax = [a.strip() for a in m.group(1).split(",")] if m else ["<unparsed>"]
        res["axioms"][name] = ax
    for n in names:
        ax = res["axioms"].get(n)
        if ax is None:
            res["failed"].append("no axiom report for " + n)
        elif not set(ax) <= ALLOWED_AXIOMS:
            res["failed"].append("%s depends on %s" % (n, ax))
        else:
            res["discharged"] += 1
    if thorough and not res["failed"]:
        rc, out = sh(["lake", "env", "leanchecker", mod], cwd=LEAN)
        res["leanchecker"] = "ok" if rc == 0 else out[-2000:]
        if rc != 0:
            res["failed"].append("leanchecker rejected " + mod)
    return res


def build_harness():
    h = os.path.join(VERIF, "harness")
    # go.mod of the harness follows /repo's requirements
    repo_mod = open(os.path.join(REPO, "go.mod")).read()
    reqs = "\n".join(re.findall(r"(?ms)^require \(.*?^\)", repo_mod))
    gover = re.search(r"(?m)^go (\S+)", repo_mod).group(1)
    mod = "module github.com/cloudflare/pint/verifharness\n\ngo %s\n\nrequire github.com/cloudflare/pint v0.0.0\n\n%s\n\nreplace github.com/cloudflare/pint => %s\n" % (gover, reqs, REPO)
    with open(os.path.join(h, "go.mod"), "w") as fh:
        fh.write(mod)
    shutil.copy(os.path.join(REPO, "go.sum"), os.path.join(h, "go.sum"))
    exe = os.path.join(BUILD, "corr")
    if os.path.exists(exe):
        os.remove(exe)
    rc, out = sh(["go", "build", "-tags", "verif stringlabels", "-o", exe, "./cmd/corr"], cwd=h, env=goenv())
    return rc == 0, out, exe


def build_pint(race=False):
    exe = os.path.join(BUILD, "pint-race" if race else "pint")
    if os.path.exists(exe):
        os.remove(exe)
    cmd = ["go", "build", "-tags", "stringlabels"] + (["-race"] if race else []) + ["-o", exe, "./cmd/pint"]
    rc, out = sh(cmd, cwd=REPO, env=goenv())
    return rc == 0, out, exe


def load_known(prop):
    p = os.path.join(VERIF, "known_findings.json")
    if not os.path.exists(p):
        return []
    return [f for f in json.load(open(p)).get("findings", []) if f["property"] == prop]


REPLAY_MODE = False


def write_replay(prop, seed, n, body):
    os.makedirs(os.path.join(VERIF, "out"), exist_ok=True)
    path = os.path.join(VERIF, "out", "%s-%s-%d.replay%s" % (prop, seed, n, ".again" if REPLAY_MODE else ""))
    with open(path, "w") as fh:
        json.dump(body, fh, indent=1)
    return path


def main(argv):
    if not argv:
        print(__doc__); return 2
    prop = argv[0]
    tier = os.environ.get("VERIF_TIER") or (argv[1] if len(argv) > 1 and not argv[1].startswith("--") else "quick")
    replay = argv[argv.index("--replay") + 1] if "--replay" in argv else None
    global REPLAY_MODE
    REPLAY_MODE = replay is not None
    seed = int(os.environ.get("VERIF_SEED", "1"))
    cfg = propcfg.PROPS[prop]
    t0 = time.time()
    if not replay:
        import glob
        for old in glob.glob(os.path.join(VERIF, "out", "%s-%d-*.replay" % (prop, seed))):
            os.remove(old)
    violations = []   # (replay_path, suffix)
    known_lines = []
    notes = []

    with Lock("build"):
        ok, genlog = regenerate()
        if not ok:
            notes.append(genlog)
        pr = prove(prop, tier == "thorough") if ok else {"obligations": len(theorem_names(prop)), "discharged": 0, "failed": ["Gen regeneration failed: " + genlog[-1500:]], "axioms": {}, "checker_cmd": "tools/extract", "log": genlog}
        hok, hlog, exe = build_harness()
        pint_bin = None
        if hok and cfg.get("needs_binary"):
            hok, hlog, pint_bin = build_pint()
        race_bin = None
        if hok and cfg.get("needs_race_binary") and tier == "thorough":
            hok, hlog, race_bin = build_pint(race=True)
    if not hok:
        print(hlog)
        print("harness does not build against /repo's working tree")
        # cannot evaluate: this is a broken tie, reported as such
        path = write_replay(prop, seed, 0, {"property": prop, "kind": "harness-build-failure", "log": hlog[-4000:]})
        print("VIOLATION property=%s replay=%s no-failing-input-found" % (prop, path))
        return 1

    n = cfg["n"][tier]
    outdir = tempfile.mkdtemp(prefix="%s-" % prop, dir=BUILD)
    summary = None
    corr = {"ops": 0, "mismatches": 0, "first": None}
    try:
        cmd = [exe, prop, "-seed", str(seed), "-n", str(n), "-tier", tier, "-out", outdir]
        if replay:
            body = json.load(open(replay))
            inp = os.path.join(outdir, "replay-input.json")
            json.dump(body.get("violation", body), open(inp, "w"))
            cmd += ["-replay", inp]
        rc, out = sh(cmd, env=dict(goenv(), GOMAXPROCS="16", PINT_BIN=pint_bin or "", PINT_RACE_BIN=race_bin or ""), timeout=cfg.get("timeout", {}).get(tier, 3000), limit=True)
        if rc != 0:
            notes.append("harness exited %d: %s" % (rc, out[-3000:]))
            inflight = os.path.join(outdir, "inflight.json")
            if os.path.exists(inflight) and not replay:
                # the process died (fatal error, stack overflow, killed after a hang) while evaluating this input
                try:
                    inp = json.load(open(inflight))
                except Exception:
                    inp = open(inflight, errors="replace").read()[:20000]
                m = re.search(r"(?m)^(fatal error: .*|panic: .*|runtime: goroutine stack exceeds.*)$", out)
                v = {"class": "process-crash", "known": False, "input": inp,
                     "observed": {"exit": rc, "first_fatal_line": m.group(1) if m else None, "log_tail": out[-3000:]},
                     "expected": "the implementation returns a verdict for this input"}
                path = write_replay(prop, seed, 0, {"property": prop, "kind": "failing-input", "violation": v,
                                                   "replay_cmd": "./check %s --replay <this file>" % prop})
                violations.append((path, ""))
            else:
                path = write_replay(prop, seed, 0, {"property": prop, "kind": "harness-crash", "log": out[-6000:]})
                violations.append((path, " no-failing-input-found"))
        else:
            summary = json.load(open(os.path.join(outdir, "summary.json")))
            # correspondence: same op lines through the Lean driver
            ops = os.path.join(outdir, "ops.txt")
            if os.path.getsize(ops) > 0 and not pr["failed"] or (os.path.exists(os.path.join(LEAN, ".lake/build/bin/driver")) and os.path.getsize(ops) > 0):
                with open(ops) as fin:
                    p = subprocess.run([os.path.join(LEAN, ".lake/build/bin/driver")], stdin=fin, stdout=open(os.path.join(outdir, "model.txt"), "w"), stderr=subprocess.PIPE)
                impl = open(os.path.join(outdir, "impl.txt")).read().splitlines()
                model = open(os.path.join(outdir, "model.txt")).read().splitlines()
                oplines = open(ops).read().splitlines()
                corr["ops"] = len(impl)
                corr["model_stats"] = {}
                for i, a in enumerate(impl):
                    b = model[i] if i < len(model) else "<driver produced no line>"
                    if a == "STAT":
                        k = oplines[i].split("\t", 1)[0] + ": " + b
                        corr["model_stats"][k] = corr["model_stats"].get(k, 0) + 1
                        continue
                    if a != b:
                        corr["mismatches"] += 1
                        if corr["first"] is None:
                            corr["first"] = {"op_index": i, "op": oplines[i][:4000], "impl": a[:4000], "model": b[:4000]}
    finally:
        shutil.rmtree(outdir, ignore_errors=True)

    # ---- verdict -------------------------------------------------------------------------
    known = load_known(prop)
    nviol = 0
    unlisted = []
    if summary:
        for v in summary["violations"]:
            listed = v.get("known") and any(v["class"] in f.get("classes", []) for f in known)
            if not listed:
                unlisted.append(v)
    for i, v in enumerate(unlisted[:10]):
        path = write_replay(prop, seed, i + 1, {"property": prop, "kind": "failing-input", "violation": v,
                                               "replay_cmd": "./check %s --replay <this file>" % prop})
        violations.append((path, ""))
    broken = []
    if pr["failed"]:
        broken.append({"kind": "proof", "theorems": pr["failed"], "log": pr.get("log", "")[-3000:]})
    if corr["mismatches"]:
        broken.append({"kind": "correspondence", "first_difference": corr["first"], "mismatches": corr["mismatches"]})
    if broken and not unlisted:
        path = write_replay(prop, seed, 0, {"property": prop, "kind": "broken-obligation", "broken": broken,
                                           "note": "proof obligation or model/implementation correspondence no longer checks; the search found no concrete failing input"})
        violations.append((path, " no-failing-input-found"))
    elif broken:
        notes.append("also broken: " + json.dumps(broken)[:3000])

    # known findings: replay each listed input on the real code
    if not replay:
        for f in known:
            if f.get("script"):
                # a probe script over the real binary: exit 0 = the recorded defect is (still) observed
                if not pint_bin:
                    notes.append("known finding %s not probed: no binary" % f.get("id"))
                    continue
                rc, out = sh(["bash", os.path.join(VERIF, f["script"])], env=dict(goenv(), PINT=pint_bin), timeout=300, limit=True)
                if rc == 0:
                    known_lines.append("KNOWN-FINDING: property=%s %s" % (prop, f["what"]))
                elif rc != 1:
                    notes.append("known finding probe %s did not run: %s" % (f["script"], out[-500:]))
                continue
            rp = os.path.join(VERIF, f["replay"])
            od = tempfile.mkdtemp(prefix="known-", dir=BUILD)
            try:
                rc, out = sh([exe, prop, "-seed", "0", "-n", "1", "-out", od, "-replay", rp], env=dict(goenv(), PINT_BIN=pint_bin or ""), timeout=600, limit=True)
                still = False
                if rc == 0:
                    s2 = json.load(open(os.path.join(od, "summary.json")))
                    still = len(s2["violations"]) > 0
                else:
                    still = True   # e.g. the recorded input crashes the process
                if still:
                    known_lines.append("KNOWN-FINDING: property=%s %s" % (prop, f["what"]))
            finally:
                shutil.rmtree(od, ignore_errors=True)

    wall = time.time() - t0
    ev = {
        "property_id": prop, "tier": tier, "seed": seed, "level": "proof",
        "coverage": {
            "obligations": pr["obligations"], "discharged": pr["discharged"],
            "checker_cmd": pr.get("checker_cmd", ""),
            "trusted_base": cfg["trusted_base"],
            "theorems": pr["axioms"],
            "leanchecker": pr.get("leanchecker", "not run (quick tier)"),
            "correspondence_ops": corr["ops"], "correspondence_mismatches": corr["mismatches"],
            "model_decided_statistics": corr.get("model_stats", {}),
            "evaluations": summary["evaluations"] if summary else 0,
            "distinct_nontrivial": summary["distinct_nontrivial"] if summary else 0,
            "rule": cfg["rule"],
            "samples": (summary["samples"] if summary and summary["samples"] else [{"theorems": theorem_names(prop)[:5]}]),
            "input_distribution": summary["histogram"] if summary else {},
            "known_findings_reproduced": known_lines,
            "notes": ((summary.get("notes") or []) if summary else []) + notes,
        },
        "assumptions": cfg["assumptions"],
        "wall_s": round(wall, 2),
        "violations": len(violations),
    }
    if not replay:
        # VERIF_EVIDENCE_DIR: runs against a deliberately changed tree (lib/seedrun.sh) write elsewhere, so that
        # evidence/ only ever holds what a run against /repo as it stands produced
        evdir = os.environ.get("VERIF_EVIDENCE_DIR") or os.path.join(VERIF, "evidence")
        os.makedirs(evdir, exist_ok=True)
        with open(os.path.join(evdir, prop + ".json"), "w") as fh:
            json.dump(ev, fh, indent=1)
    for l in known_lines:
        print(l)
    print("%s %s seed=%d: theorems %d/%d, correspondence %d ops / %d mismatches, %d cases (%d distinct non-trivial), %.1fs" % (
        prop, tier, seed, pr["discharged"], pr["obligations"], corr["ops"], corr["mismatches"],
        ev["coverage"]["evaluations"], ev["coverage"]["distinct_nontrivial"], wall))
    if pr["failed"]:
        print("proof obligations that no longer check:", pr["failed"][:5])
    for path, suffix in violations:
        print("VIOLATION property=%s replay=%s%s" % (prop, path, suffix))
    return 1 if violations else 0
