#!/usr/bin/env python3
"""Regenerates MANIFEST.json from lib/propcfg.py (single source of per-property metadata)."""
import json, os, sys
sys.path.insert(0, os.path.dirname(os.path.abspath(__file__)))
import propcfg
VERIF = os.path.dirname(os.path.dirname(os.path.abspath(__file__)))
props = [json.loads(l) for l in open(os.path.join(VERIF, "properties.jsonl"))]
hooks = [l.strip() for l in open(os.path.join(VERIF, "hooks_commits.txt"))] if os.path.exists(os.path.join(VERIF, "hooks_commits.txt")) else []
m = {
    "version": 1,
    "setup_cmd": "./setup.sh",
    "hooks": {
        "guard": "verif",
        "enable": "go build -tags 'verif stringlabels' (the harness module replaces github.com/cloudflare/pint with /repo)",
        "baseline_off_cmd": "cd /repo && GOFLAGS=-mod=mod GOPROXY=off go test -json -vet=off -count=1 -timeout 25m ./...",
        "source_commits": hooks,
        "add_only": True,
    },
    "engines": [
        {"name": "lean-model", "path": "lean/", "serves_properties": sorted(propcfg.PROPS), "kind_free_text": "Lean 4 models, specs and theorems (lake project PintModel), line-protocol driver"},
        {"name": "corr-harness", "path": "harness/", "serves_properties": sorted(propcfg.PROPS), "kind_free_text": "Go correspondence + property-observation harness calling /repo in-process"},
        {"name": "extract", "path": "tools/extract/", "serves_properties": sorted(propcfg.PROPS), "kind_free_text": "go/ast translator regenerating Gen/*.lean facts from /repo on every run"},
    ],
    "checks": [],
    "not_applicable": [],
    "notes": "Every check: ./check <id> quick|thorough. Technique: machine-checked proof in Lean 4 of theorems about an executable model; the model is tied to /repo on every run by regenerated facts (tools/extract) and by a correspondence run against the real Go code. See DESIGN.md.",
}
for p in props:
    pid = p["id"]
    c = propcfg.PROPS.get(pid)
    if not c or c.get("disabled"):
        m["not_applicable"].append({"property_id": pid, "reason": (c or {}).get("na_reason", "check not built yet in this session (planned, see DESIGN.md section 7)")})
        continue
    m["checks"].append({
        "property_id": pid,
        "quick_cmd": "./check %s quick" % pid,
        "thorough_cmd": "./check %s thorough" % pid,
        "evidence_file": "evidence/%s.json" % pid,
        "replay_cmd_template": "./check %s --replay {path}" % pid,
        "engine": "lean-model",
        "level_claimed": {"category": "proof", "text": c["level_text"], "design_ref": "DESIGN.md section 7, " + pid},
        "level_note": "; ".join(c["assumptions"]),
        "technique": c.get("technique", "Lean 4 proof over executable model + correspondence with the Go code"),
    })
json.dump(m, open(os.path.join(VERIF, "MANIFEST.json"), "w"), indent=1)
print("MANIFEST: %d checks, %d not_applicable" % (len(m["checks"]), len(m["not_applicable"])))
