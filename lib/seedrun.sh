#!/bin/sh
# usage: lib/seedrun.sh <seeded-dir> <Cxx> [tier]  : apply the seeded patch to /repo, run the check, undo.
set -u
d="$1"; prop="$2"; tier="${3:-quick}"
cd /verif
git -C /repo apply "/verif/$d/patch.diff" || { echo "patch does not apply"; exit 2; }
VERIF_EVIDENCE_DIR=/verif/out/evidence-seeded ./check "$prop" "$tier"; rc=$?
git -C /repo checkout -- .
echo "seedrun: $d on $prop -> exit $rc"
exit 0
