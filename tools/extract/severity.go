package main

import (
	"fmt"
	"go/ast"
	"go/token"
	"path/filepath"
	"strings"
)

func init() { gens["Severity"] = genSeverity }

func iotaNames(p *pkg, typ string) []string {
	for _, n := range p.sortedFiles() {
		for _, d := range p.files[n].Decls {
			gd, ok := d.(*ast.GenDecl)
			if !ok || gd.Tok != token.CONST || len(gd.Specs) == 0 {
				continue
			}
			vs := gd.Specs[0].(*ast.ValueSpec)
			if vs.Type == nil || identName(vs.Type) != typ || len(vs.Values) != 1 || identName(vs.Values[0]) != "iota" {
				continue
			}
			var out []string
			for _, s := range gd.Specs {
				v := s.(*ast.ValueSpec)
				if len(out) > 0 && (v.Type != nil || len(v.Values) > 0) {
					return nil // not a plain iota block
				}
				out = append(out, v.Names[0].Name)
			}
			return out
		}
	}
	return nil
}

// switchTable extracts `switch X { case A: return B ... }` as pairs (A, first result of return).
func switchTable(p *pkg, fd *ast.FuncDecl) (pairs [][2]string, def string) {
	ast.Inspect(fd.Body, func(n ast.Node) bool {
		sw, ok := n.(*ast.SwitchStmt)
		if !ok {
			return true
		}
		for _, c := range sw.Body.List {
			cc := c.(*ast.CaseClause)
			ret := ""
			for _, st := range cc.Body {
				if rs, ok := st.(*ast.ReturnStmt); ok && len(rs.Results) > 0 {
					ret = identName(rs.Results[0])
				}
			}
			if cc.List == nil {
				def = ret
				continue
			}
			for _, e := range cc.List {
				pairs = append(pairs, [2]string{identName(e), ret})
			}
		}
		return false
	})
	return
}

func genSeverity(repo, out string) error {
	cp, err := loadPkg(filepath.Join(repo, "internal/checks"))
	if err != nil {
		return err
	}
	order := iotaNames(cp, "Severity")
	if len(order) == 0 {
		return fmt.Errorf("Severity iota block not recognised")
	}
	ps := cp.funcDecl("", "ParseSeverity")
	if ps == nil {
		return fmt.Errorf("ParseSeverity not found")
	}
	parse, _ := switchTable(cp, ps)
	st := cp.funcDecl("Severity", "String")
	if st == nil {
		return fmt.Errorf("Severity.String not found")
	}
	str, _ := switchTable(cp, st)

	mp, err := loadPkg(filepath.Join(repo, "cmd/pint"))
	if err != nil {
		return err
	}
	type thr struct{ lhs, op, rhs, rhsFrom, finalCond, dflt string }
	find := func(fn, accum string) (thr, error) {
		fd := mp.funcDecl("", fn)
		if fd == nil {
			return thr{}, fmt.Errorf("%s not found", fn)
		}
		var t thr
		ast.Inspect(fd.Body, func(n ast.Node) bool {
			ifs, ok := n.(*ast.IfStmt)
			if !ok {
				return true
			}
			be, isBin := ifs.Cond.(*ast.BinaryExpr)
			touches := false
			for _, s := range ifs.Body.List {
				switch x := s.(type) {
				case *ast.AssignStmt:
					if identName(x.Lhs[0]) == accum {
						touches = true
					}
				case *ast.IncDecStmt:
					if identName(x.X) == accum {
						touches = true
					}
				}
			}
			if touches && isBin && t.op == "" {
				t.lhs, t.op, t.rhs = identName(be.X), be.Op.String(), identName(be.Y)
			}
			// final: if <accum...> { return <error> }
			if strings.Contains(mp.src(ifs.Cond), accum) && len(ifs.Body.List) == 1 {
				if rs, ok := ifs.Body.List[0].(*ast.ReturnStmt); ok && len(rs.Results) == 1 && identName(rs.Results[0]) != "nil" {
					t.finalCond = mp.src(ifs.Cond)
				}
			}
			return true
		})
		// where does rhs come from: X, err := checks.ParseSeverity(c.String(FLAG))
		ast.Inspect(fd.Body, func(n ast.Node) bool {
			as, ok := n.(*ast.AssignStmt)
			if !ok || len(as.Lhs) == 0 || identName(as.Lhs[0]) != t.rhs || len(as.Rhs) != 1 {
				return true
			}
			t.rhsFrom = mp.src(as.Rhs[0])
			return true
		})
		if t.op == "" || t.finalCond == "" || t.rhsFrom == "" {
			return t, fmt.Errorf("%s: threshold loop shape not recognised (%+v)", fn, t)
		}
		return t, nil
	}
	lint, err := find("actionLint", "failProblems")
	if err != nil {
		return err
	}
	ci, err := find("actionCI", "problemsFound")
	if err != nil {
		return err
	}
	// default of the fail-on flag(s): composite literals with Name: failOnFlag
	var defaults []string
	for _, fn := range mp.sortedFiles() {
		ast.Inspect(mp.files[fn], func(n ast.Node) bool {
			cl, ok := n.(*ast.CompositeLit)
			if !ok {
				return true
			}
			isFail, val := false, ""
			for _, e := range cl.Elts {
				if kv, ok := e.(*ast.KeyValueExpr); ok {
					if identName(kv.Key) == "Name" && identName(kv.Value) == "failOnFlag" {
						isFail = true
					}
					if identName(kv.Key) == "Value" {
						val = identName(kv.Value)
					}
				}
			}
			if isFail {
				defaults = append(defaults, strings.TrimPrefix(val, "\""))
			}
			return true
		})
	}
	var sb strings.Builder
	sb.WriteString("namespace Pint.Gen.Severity\n\n")
	fmt.Fprintf(&sb, "/-- `Severity` constants in iota order (lowest first) -/\ndef order : List String := %s\n\n", leanStrList(order))
	pr := func(name string, ps [][2]string) {
		fmt.Fprintf(&sb, "def %s : List (String × String) := [", name)
		for i, p := range ps {
			if i > 0 {
				sb.WriteString(", ")
			}
			fmt.Fprintf(&sb, "(%s, %s)", leanStr(strings.TrimPrefix(p[0], "\"")), leanStr(strings.TrimPrefix(p[1], "\"")))
		}
		sb.WriteString("]\n\n")
	}
	pr("parseTable", parse)
	pr("stringTable", str)
	fmt.Fprintf(&sb, "structure Threshold where\n  lhs : String\n  op : String\n  rhs : String\n  rhsFrom : String\n  finalCond : String\n  deriving Repr, DecidableEq\n\n")
	fmt.Fprintf(&sb, "def lint : Threshold := ⟨%s, %s, %s, %s, %s⟩\n\n", leanStr(lint.lhs), leanStr(lint.op), leanStr(lint.rhs), leanStr(lint.rhsFrom), leanStr(lint.finalCond))
	fmt.Fprintf(&sb, "def ci : Threshold := ⟨%s, %s, %s, %s, %s⟩\n\n", leanStr(ci.lhs), leanStr(ci.op), leanStr(ci.rhs), leanStr(ci.rhsFrom), leanStr(ci.finalCond))
	fmt.Fprintf(&sb, "def failOnDefaults : List String := %s\n\nend Pint.Gen.Severity\n", leanStrList(defaults))
	return writeGen(out, "Severity.lean", sb.String())
}
