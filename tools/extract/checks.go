package main

import (
	"fmt"
	"go/ast"
	"go/token"
	"path/filepath"
	"sort"
	"strings"
)

func init() { gens["Checks"] = genChecks }

type checkKind struct {
	typ, reporter, stringHead string
	online, always            bool
	states                    []string
	problemReporters          []string
}

// genChecks: check names, online list, per check type Reporter()/Meta()/String() facts, every
// registration site in config/parsed_rule.go, the Problem{Reporter: ...} expressions.
func genChecks(repo, out string) error {
	cp, err := loadPkg(filepath.Join(repo, "internal/checks"))
	if err != nil {
		return err
	}
	names, err := cp.varList("CheckNames")
	if err != nil {
		return err
	}
	online, err := cp.varList("OnlineChecks")
	if err != nil {
		return err
	}
	res := func(ids []string) ([]string, error) {
		var o []string
		for _, id := range ids {
			v, err := cp.resolve(id)
			if err != nil {
				return nil, err
			}
			o = append(o, v)
		}
		return o, nil
	}
	nameVals, err := res(names)
	if err != nil {
		return err
	}
	onlineVals, err := res(online)
	if err != nil {
		return err
	}

	// constructors: func NewXxx(...) T
	ctorType := map[string]string{}
	kinds := map[string]*checkKind{}
	for _, fn := range cp.sortedFiles() {
		for _, d := range cp.files[fn].Decls {
			fd, ok := d.(*ast.FuncDecl)
			if !ok {
				continue
			}
			if fd.Recv == nil && strings.HasPrefix(fd.Name.Name, "New") && fd.Type.Results != nil && len(fd.Type.Results.List) == 1 {
				if id, ok := fd.Type.Results.List[0].Type.(*ast.Ident); ok {
					ctorType[fd.Name.Name] = id.Name
				}
			}
			if fd.Recv != nil && recvName(fd) != "" {
				t := recvName(fd)
				k := kinds[t]
				if k == nil {
					k = &checkKind{typ: t}
					kinds[t] = k
				}
				switch fd.Name.Name {
				case "Reporter":
					if len(fd.Body.List) != 1 {
						return fmt.Errorf("%s.Reporter: expected a single return", t)
					}
					rs, ok := fd.Body.List[0].(*ast.ReturnStmt)
					if !ok || len(rs.Results) != 1 {
						return fmt.Errorf("%s.Reporter: expected a single return", t)
					}
					if id, ok := rs.Results[0].(*ast.Ident); ok {
						v, err := cp.resolve(id.Name)
						if err != nil {
							return fmt.Errorf("%s.Reporter: %v", t, err)
						}
						k.reporter = v
					} else {
						k.reporter = "<dynamic:" + cp.src(rs.Results[0]) + ">"
					}
				case "Meta":
					ast.Inspect(fd.Body, func(n ast.Node) bool {
						kv, ok := n.(*ast.KeyValueExpr)
						if !ok {
							return true
						}
						key := identName(kv.Key)
						switch key {
						case "Online":
							k.online = identName(kv.Value) == "true"
						case "AlwaysEnabled":
							k.always = identName(kv.Value) == "true"
						case "States":
							if cl, ok := kv.Value.(*ast.CompositeLit); ok {
								for _, e := range cl.Elts {
									k.states = append(k.states, identName(e))
								}
							}
						}
						return true
					})
				case "String":
					// head: first *CheckName identifier mentioned, or <dynamic>
					head := ""
					ast.Inspect(fd.Body, func(n ast.Node) bool {
						if id, ok := n.(*ast.Ident); ok && head == "" && strings.HasSuffix(id.Name, "CheckName") {
							head = id.Name
						}
						return true
					})
					if head != "" {
						v, err := cp.resolve(head)
						if err != nil {
							return err
						}
						k.stringHead = v
					} else {
						k.stringHead = "<dynamic>"
					}
				}
				// Problem{ Reporter: X } literals anywhere in methods of this type
				ast.Inspect(fd.Body, func(n ast.Node) bool {
					cl, ok := n.(*ast.CompositeLit)
					if !ok {
						return true
					}
					if id, ok := cl.Type.(*ast.Ident); !ok || id.Name != "Problem" {
						return true
					}
					for _, e := range cl.Elts {
						if kv, ok := e.(*ast.KeyValueExpr); ok && identName(kv.Key) == "Reporter" {
							k.problemReporters = append(k.problemReporters, cp.src(kv.Value))
						}
					}
					return true
				})
			}
		}
	}

	// registrations in config/parsed_rule.go
	cfg, err := loadPkg(filepath.Join(repo, "internal/config"))
	if err != nil {
		return err
	}
	type reg struct{ site, name, ctor, typ, guard string }
	var regs []reg
	for _, site := range []string{"baseRules", "parseRule"} {
		fd := cfg.funcDecl("", site)
		if fd == nil {
			return fmt.Errorf("config.%s not found", site)
		}
		var walk func(n ast.Node, guard string)
		walk = func(n ast.Node, guard string) {
			ast.Inspect(n, func(m ast.Node) bool {
				switch x := m.(type) {
				case *ast.IfStmt:
					g := guard
					if s := cfg.src(x.Cond); strings.Contains(s, "rule.") {
						g = s
					}
					walk(x.Body, g)
					if x.Else != nil {
						walk(x.Else, guard)
					}
					return false
				case *ast.RangeStmt:
					g := guard
					if s := cfg.src(x.X); strings.HasPrefix(s, "rule.") && guard == "" {
						g = "range " + s
					}
					walk(x.Body, g)
					return false
				case *ast.CallExpr:
					fn := identName(x.Fun)
					var nameArg, checkArg ast.Expr
					switch fn {
					case "baseParsedRule":
						if len(x.Args) != 4 {
							return true
						}
						nameArg, checkArg = x.Args[1], x.Args[2]
					case "newParsedRule":
						if len(x.Args) != 5 {
							return true
						}
						nameArg, checkArg = x.Args[2], x.Args[3]
					default:
						return true
					}
					call, ok := checkArg.(*ast.CallExpr)
					if !ok {
						regs = append(regs, reg{site, "<unrecognised>", cfg.src(checkArg), "?", guard})
						return false
					}
					ctor := identName(call.Fun)
					nm, err := cp.resolve(identName(nameArg))
					if err != nil {
						nm = "<dynamic:" + cfg.src(nameArg) + ">"
					}
					regs = append(regs, reg{site, nm, ctor, ctorType[ctor], guard})
					return false
				}
				return true
			})
		}
		walk(fd.Body, "")
	}
	if len(regs) < 20 {
		return fmt.Errorf("only %d registrations recognised in parsed_rule.go", len(regs))
	}

	var sb strings.Builder
	sb.WriteString("namespace Pint.Gen.Checks\n\n")
	fmt.Fprintf(&sb, "def checkNames : List String := %s\n\n", leanStrList(nameVals))
	fmt.Fprintf(&sb, "def onlineChecks : List String := %s\n\n", leanStrList(onlineVals))
	sb.WriteString("structure Kind where\n  typ : String\n  reporter : String\n  stringHead : String\n  online : Bool\n  alwaysEnabled : Bool\n  states : List String\n  problemReporters : List String\n  deriving Repr, DecidableEq\n\n")
	var ks []string
	for t := range kinds {
		ks = append(ks, t)
	}
	sort.Strings(ks)
	sb.WriteString("def kinds : List Kind := [\n")
	first := true
	for _, t := range ks {
		k := kinds[t]
		if k.reporter == "" {
			continue // helper type without Reporter()
		}
		if !first {
			sb.WriteString(",\n")
		}
		first = false
		fmt.Fprintf(&sb, "  ⟨%s, %s, %s, %s, %s, %s, %s⟩", leanStr(k.typ), leanStr(k.reporter), leanStr(k.stringHead), leanBool(k.online), leanBool(k.always), leanStrList(k.states), leanStrList(k.problemReporters))
	}
	sb.WriteString("]\n\n")
	sb.WriteString("structure Registration where\n  site : String\n  name : String\n  ctor : String\n  typ : String\n  guard : String\n  deriving Repr, DecidableEq\n\n")
	sb.WriteString("def registrations : List Registration := [\n")
	for i, r := range regs {
		if i > 0 {
			sb.WriteString(",\n")
		}
		fmt.Fprintf(&sb, "  ⟨%s, %s, %s, %s, %s⟩", leanStr(r.site), leanStr(r.name), leanStr(r.ctor), leanStr(r.typ), leanStr(r.guard))
	}
	sb.WriteString("]\n\nend Pint.Gen.Checks\n")
	_ = token.NoPos
	return writeGen(out, "Checks.lean", sb.String())
}
