package main

import (
	"fmt"
	"go/ast"
	"go/token"
	"path/filepath"
	"sort"
	"strings"
)

func init() { gens["Keys"] = genKeys }

// genKeys: the facts of internal/promapi the C14 model rests on.
//   - per endpoint method of *Prometheus: the lock keys taken (flattened "+" chains or a call with its arguments),
//     whether each lock has a matching deferred unlock, the condition (if / switch / select / inner loop) a lock call
//     sits under inside its function ("" = taken on every path), and the order lock < enqueue < receive;
//   - per query type: the arguments of hash(...) in CacheKey, the q.* fields they mention, the q.* fields the request
//     built in Run mentions, and the CacheTTL expression;
//   - processJob: the order of cache lookup, support check, request, error return and cache fill;
//   - the worker pool size and the keyed lock's wait loop.
func genKeys(repo, out string) error {
	p, err := loadPkg(filepath.Join(repo, "internal/promapi"))
	if err != nil {
		return err
	}
	var sb strings.Builder
	sb.WriteString("namespace Pint.Gen.Keys\n\n")
	sb.WriteString("structure LockKey where\n  kind : String\n  parts : List (Bool × String)\n  deferredUnlock : Bool\n  guard : String\n  deriving Repr, DecidableEq\n\n")
	sb.WriteString("structure Endpoint where\n  method : String\n  queryType : String\n  locks : List LockKey\n  order : List String\n  deriving Repr, DecidableEq\n\n")
	sb.WriteString("structure QueryType where\n  name : String\n  cacheArgs : List String\n  cacheFields : List String\n  requestFields : List String\n  ttl : String\n  deriving Repr, DecidableEq\n\n")

	methods := []string{"Query", "RangeQuery", "Config", "Flags", "Metadata"}
	qtypes := []string{"instantQuery", "rangeQuery", "configQuery", "flagsQuery", "metadataQuery"}

	qFields := func(n ast.Node) []string {
		set := map[string]bool{}
		ast.Inspect(n, func(m ast.Node) bool {
			se, ok := m.(*ast.SelectorExpr)
			if !ok {
				return true
			}
			// longest selector chain rooted at q, without method names of calls
			txt := p.src(se)
			if strings.HasPrefix(txt, "q.") && !strings.HasPrefix(txt, "q.prom") && !strings.HasPrefix(txt, "q.ctx") {
				parts := strings.Split(txt, ".")
				// q.r.Start.Format -> q.r.Start ; q.expr -> q.expr
				n := 2
				if len(parts) > 2 && parts[1] == "r" {
					n = 3
				}
				if len(parts) >= n {
					set[strings.Join(parts[:n], ".")] = true
				}
				return false
			}
			return true
		})
		var out []string
		for k := range set {
			out = append(out, k)
		}
		sort.Strings(out)
		return out
	}

	sb.WriteString("def endpoints : List Endpoint := [\n")
	for mi, m := range methods {
		fd := p.funcDecl("Prometheus", m)
		if fd == nil {
			return fmt.Errorf("method Prometheus.%s not found", m)
		}
		assigns := map[string]ast.Expr{}
		var locks []string
		var order []string
		qt := ""
		deferred := map[string]bool{}
		guards := map[string]string{}
		var stack []ast.Node
		// the condition a call sits under, looking outwards up to the function (literal) that contains it
		guardOf := func() string {
			for i := len(stack) - 1; i >= 0; i-- {
				switch g := stack[i].(type) {
				case *ast.FuncLit, *ast.FuncDecl:
					return ""
				case *ast.IfStmt:
					return "if " + p.src(g.Cond)
				case *ast.SwitchStmt, *ast.TypeSwitchStmt, *ast.SelectStmt, *ast.CaseClause, *ast.CommClause:
					return "switch/select"
				case *ast.ForStmt, *ast.RangeStmt:
					return "loop"
				}
			}
			return ""
		}
		ast.Inspect(fd.Body, func(n ast.Node) bool {
			if n == nil {
				stack = stack[:len(stack)-1]
				return true
			}
			stack = append(stack, n)
			switch x := n.(type) {
			case *ast.AssignStmt:
				if len(x.Lhs) == 1 && len(x.Rhs) == 1 {
					if id, ok := x.Lhs[0].(*ast.Ident); ok {
						assigns[id.Name] = x.Rhs[0]
					}
				}
			case *ast.DeferStmt:
				if f := p.src(x.Call.Fun); f == "prom.locker.unlock" && len(x.Call.Args) == 1 {
					deferred[p.src(x.Call.Args[0])] = true
					order = append(order, "defer-unlock")
				}
				stack = stack[:len(stack)-1]
				return false
			case *ast.CallExpr:
				if f := p.src(x.Fun); f == "prom.locker.lock" && len(x.Args) == 1 {
					locks = append(locks, p.src(x.Args[0]))
					stack = stack[:len(stack)-1]
					guards[p.src(x.Args[0])] = guardOf()
					stack = append(stack, n)
					order = append(order, "lock")
				}
			case *ast.SendStmt:
				if p.src(x.Chan) == "prom.queries" {
					order = append(order, "enqueue")
				}
			case *ast.UnaryExpr:
				if x.Op == token.ARROW {
					order = append(order, "receive")
				}
			case *ast.CompositeLit:
				if id, ok := x.Type.(*ast.Ident); ok {
					for _, t := range qtypes {
						if id.Name == t {
							qt = t
						}
					}
				}
			}
			return true
		})
		if len(locks) == 0 || qt == "" {
			return fmt.Errorf("Prometheus.%s: no lock call or no query literal found", m)
		}
		var lks []string
		for _, l := range locks {
			var e ast.Expr
			if a, ok := assigns[l]; ok {
				e = a
			}
			kind := "expr"
			var parts []string
			var flatten func(e ast.Expr)
			flatten = func(e ast.Expr) {
				if be, ok := e.(*ast.BinaryExpr); ok && be.Op == token.ADD {
					flatten(be.X)
					flatten(be.Y)
					return
				}
				txt := p.src(e)
				parts = append(parts, fmt.Sprintf("(%s, %s)", leanBool(strings.HasPrefix(txt, "APIPath")), leanStr(txt)))
			}
			switch x := e.(type) {
			case nil:
				// lock(<expression>) without a local variable
				kind = "concat"
				for _, c := range fd.Body.List {
					_ = c
				}
				parts = append(parts, fmt.Sprintf("(%s, %s)", leanBool(strings.HasPrefix(l, "APIPath")), leanStr(l)))
			case *ast.CallExpr:
				kind = "call"
				parts = append(parts, fmt.Sprintf("(false, %s)", leanStr(p.src(x.Fun))))
				for _, a := range x.Args {
					txt := p.src(a)
					parts = append(parts, fmt.Sprintf("(%s, %s)", leanBool(strings.HasPrefix(txt, "APIPath")), leanStr(txt)))
				}
			default:
				kind = "concat"
				flatten(e)
			}
			lks = append(lks, fmt.Sprintf("{ kind := %s, parts := [%s], deferredUnlock := %s, guard := %s }", leanStr(kind), strings.Join(parts, ", "), leanBool(deferred[l]), leanStr(guards[l])))
		}
		sep := ","
		if mi == len(methods)-1 {
			sep = ""
		}
		fmt.Fprintf(&sb, "  { method := %s, queryType := %s,\n    locks := [%s],\n    order := %s }%s\n", leanStr(m), leanStr(qt), strings.Join(lks, ",\n              "), leanStrList(order), sep)
	}
	sb.WriteString("]\n\n")

	sb.WriteString("def queryTypes : List QueryType := [\n")
	for ti, t := range qtypes {
		ck := p.funcDecl(t, "CacheKey")
		run := p.funcDecl(t, "Run")
		ttl := p.funcDecl(t, "CacheTTL")
		if ck == nil || run == nil || ttl == nil {
			return fmt.Errorf("%s: CacheKey/Run/CacheTTL not found", t)
		}
		var args []string
		var cacheFields []string
		ast.Inspect(ck.Body, func(n ast.Node) bool {
			if ce, ok := n.(*ast.CallExpr); ok && p.src(ce.Fun) == "hash" {
				for _, a := range ce.Args {
					args = append(args, p.src(a))
				}
				cacheFields = qFields(ce)
				return false
			}
			return true
		})
		if len(args) == 0 {
			return fmt.Errorf("%s.CacheKey: hash(...) not found", t)
		}
		// request: everything handed to args.Set / url building in Run
		reqSet := map[string]bool{}
		ast.Inspect(run.Body, func(n ast.Node) bool {
			if ce, ok := n.(*ast.CallExpr); ok {
				if f := p.src(ce.Fun); f == "args.Set" || f == "args.Add" {
					for _, a := range ce.Args[1:] {
						for _, q := range qFields(a) {
							reqSet[q] = true
						}
					}
				}
			}
			return true
		})
		var req []string
		for k := range reqSet {
			req = append(req, k)
		}
		sort.Strings(req)
		ttlExpr := ""
		ast.Inspect(ttl.Body, func(n ast.Node) bool {
			if r, ok := n.(*ast.ReturnStmt); ok && len(r.Results) == 1 {
				ttlExpr = p.src(r.Results[0])
			}
			return true
		})
		sep := ","
		if ti == len(qtypes)-1 {
			sep = ""
		}
		fmt.Fprintf(&sb, "  { name := %s, cacheArgs := %s,\n    cacheFields := %s, requestFields := %s, ttl := %s }%s\n", leanStr(t), leanStrList(args), leanStrList(cacheFields), leanStrList(req), leanStr(ttlExpr), sep)
	}
	sb.WriteString("]\n\n")

	// processJob: order of the notable steps; an if on result.err opens a nested block
	pj := p.funcDecl("", "processJob")
	if pj == nil {
		return fmt.Errorf("processJob not found")
	}
	var steps []string
	var walk func(n ast.Node, depth int)
	walk = func(n ast.Node, depth int) {
		ast.Inspect(n, func(m ast.Node) bool {
			switch x := m.(type) {
			case *ast.IfStmt:
				c := p.src(x.Cond)
				if x.Init != nil {
					walk(x.Init, depth)
				}
				tag := ""
				switch {
				case strings.Contains(c, "result.err != nil"):
					tag = "if-error"
				case c == "ok":
					tag = "if-cached"
				case strings.Contains(c, "isSupported"):
					tag = "if-unsupported"
					steps = append(steps, "isSupported")
				}
				if tag != "" {
					steps = append(steps, tag+"{")
					walk(x.Body, depth+1)
					steps = append(steps, "}")
					if x.Else != nil {
						walk(x.Else, depth)
					}
					return false
				}
			case *ast.ReturnStmt:
				steps = append(steps, "return")
			case *ast.CallExpr:
				switch f := p.src(x.Fun); f {
				case "prom.cache.get":
					steps = append(steps, "cache.get")
				case "prom.cache.set":
					steps = append(steps, "cache.set")
				case "job.query.Run":
					steps = append(steps, "run")
				case "prom.rateLimiter.Take":
					steps = append(steps, "ratelimit")
				case "prom.apis.disable":
					steps = append(steps, "apis.disable")
				}
			}
			return true
		})
	}
	walk(pj.Body, 0)
	fmt.Fprintf(&sb, "def processJob : List String := %s\n\n", leanStrList(steps))

	// worker pool: `for w := 1; w <= prom.concurrency; w++ { go ... queryWorker }` and the worker loop
	sw := p.funcDecl("Prometheus", "StartWorkers")
	qw := p.funcDecl("", "queryWorker")
	if sw == nil || qw == nil {
		return fmt.Errorf("StartWorkers/queryWorker not found")
	}
	loopCond, workerBody := "", ""
	ast.Inspect(sw.Body, func(n ast.Node) bool {
		if fs, ok := n.(*ast.ForStmt); ok && fs.Cond != nil {
			loopCond = p.src(fs.Init) + "; " + p.src(fs.Cond)
		}
		return true
	})
	ast.Inspect(qw.Body, func(n ast.Node) bool {
		if rs, ok := n.(*ast.RangeStmt); ok {
			workerBody = strings.Join(strings.Fields(p.src(rs.Body)), " ")
		}
		return true
	})
	fmt.Fprintf(&sb, "def workerLoop : String := %s\ndef workerBody : String := %s\n\n", leanStr(loopCond), leanStr(workerBody))

	// keyed lock: lock waits while locked(id), then inserts; unlock deletes and broadcasts
	lk := p.funcDecl("partitionLocker", "lock")
	ul := p.funcDecl("partitionLocker", "unlock")
	if lk == nil || ul == nil {
		return fmt.Errorf("partitionLocker.lock/unlock not found")
	}
	norm := func(fd *ast.FuncDecl) string { return strings.Join(strings.Fields(p.src(fd.Body)), " ") }
	fmt.Fprintf(&sb, "def lockBody : String := %s\ndef unlockBody : String := %s\n\n", leanStr(norm(lk)), leanStr(norm(ul)))
	sb.WriteString("end Pint.Gen.Keys\n")
	return writeGen(out, "Keys.lean", sb.String())
}
