// extract: regenerates lean/PintModel/Gen/*.lean from /repo's current source.
// It recognises fixed syntactic shapes with go/ast and fails loudly when one is missing.
package main

import (
	"flag"
	"fmt"
	"os"
)

type genFn func(repo, out string) error

var gens = map[string]genFn{}

func main() {
	repo := flag.String("repo", "/repo", "repository root")
	out := flag.String("out", "", "output directory for Gen/*.lean")
	flag.Parse()
	if err := os.MkdirAll(*out, 0o755); err != nil {
		fmt.Println(err)
		os.Exit(1)
	}
	fail := false
	for name, g := range gens {
		if err := g(*repo, *out); err != nil {
			fmt.Printf("extract %s: %v\n", name, err)
			fail = true
		}
	}
	if fail {
		os.Exit(1)
	}
}
