module extract

go 1.23
