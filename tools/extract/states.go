package main

import (
	"fmt"
	"go/ast"
	"path/filepath"
	"strings"
)

func init() { gens["States"] = genStates }

func genStates(repo, out string) error {
	cp, err := loadPkg(filepath.Join(repo, "internal/config"))
	if err != nil {
		return err
	}
	dp, err := loadPkg(filepath.Join(repo, "internal/discovery"))
	if err != nil {
		return err
	}
	change := iotaNames(dp, "ChangeType")
	if len(change) == 0 {
		return fmt.Errorf("discovery.ChangeType iota block not recognised")
	}
	res := func(name string) ([]string, error) {
		ids, err := cp.varList(name)
		if err != nil {
			return nil, err
		}
		var o []string
		for _, id := range ids {
			v, err := cp.resolve(id)
			if err != nil {
				return nil, err
			}
			o = append(o, v)
		}
		return o, nil
	}
	ci, err := res("CIStates")
	if err != nil {
		return err
	}
	anyS, err := res("AnyStates")
	if err != nil {
		return err
	}
	// stateMatches: case StateX: [return true | if state == discovery.Y { return true }]
	fd := cp.funcDecl("", "stateMatches")
	if fd == nil {
		return fmt.Errorf("stateMatches not found")
	}
	var rows [][2]string
	ok := true
	ast.Inspect(fd.Body, func(n ast.Node) bool {
		sw, isSw := n.(*ast.SwitchStmt)
		if !isSw {
			return true
		}
		for _, c := range sw.Body.List {
			cc := c.(*ast.CaseClause)
			if len(cc.List) != 1 || len(cc.Body) != 1 {
				ok = false
				continue
			}
			key, err := cp.resolve(identName(cc.List[0]))
			if err != nil {
				ok = false
				continue
			}
			switch st := cc.Body[0].(type) {
			case *ast.ReturnStmt:
				rows = append(rows, [2]string{key, "*"})
			case *ast.IfStmt:
				be, isBin := st.Cond.(*ast.BinaryExpr)
				if !isBin || be.Op.String() != "==" || identName(be.X) != "state" {
					ok = false
					continue
				}
				rows = append(rows, [2]string{key, identName(be.Y)})
			default:
				ok = false
			}
		}
		return false
	})
	if !ok || len(rows) == 0 {
		return fmt.Errorf("stateMatches: switch shape not recognised")
	}
	// defaultMatchStates: case CICommand: return CIStates; default: return AnyStates
	dm := cp.funcDecl("", "defaultMatchStates")
	if dm == nil {
		return fmt.Errorf("defaultMatchStates not found")
	}
	pairs, def := switchTable(cp, dm)
	var sb strings.Builder
	sb.WriteString("namespace Pint.Gen.States\n\n")
	fmt.Fprintf(&sb, "def changeTypes : List String := %s\n\n", leanStrList(change))
	fmt.Fprintf(&sb, "def ciStates : List String := %s\n\ndef anyStates : List String := %s\n\n", leanStrList(ci), leanStrList(anyS))
	sb.WriteString("/-- stateMatches switch: configured state string ↦ ChangeType constant (\"*\" = always true) -/\ndef stateTable : List (String × String) := [")
	for i, r := range rows {
		if i > 0 {
			sb.WriteString(", ")
		}
		fmt.Fprintf(&sb, "(%s, %s)", leanStr(r[0]), leanStr(r[1]))
	}
	sb.WriteString("]\n\n")
	sb.WriteString("/-- defaultMatchStates switch: command constant ↦ returned list variable; default -/\ndef defaultStatesTable : List (String × String) := [")
	for i, r := range pairs {
		if i > 0 {
			sb.WriteString(", ")
		}
		v := cp.strs[r[0]]
		fmt.Fprintf(&sb, "(%s, %s)", leanStr(v), leanStr(r[1]))
	}
	fmt.Fprintf(&sb, "]\n\ndef defaultStatesDefault : String := %s\n\nend Pint.Gen.States\n", leanStr(def))
	return writeGen(out, "States.lean", sb.String())
}
