package main

import (
	"fmt"
	"go/ast"
	"go/parser"
	"go/printer"
	"go/token"
	"os"
	"path/filepath"
	"sort"
	"strconv"
	"strings"
)

type pkg struct {
	fset  *token.FileSet
	files map[string]*ast.File
	// string constants / vars with basic string literal initialisers
	strs map[string]string
}

func loadPkg(dir string) (*pkg, error) {
	fset := token.NewFileSet()
	p := &pkg{fset: fset, files: map[string]*ast.File{}, strs: map[string]string{}}
	ents, err := os.ReadDir(dir)
	if err != nil {
		return nil, err
	}
	for _, e := range ents {
		n := e.Name()
		if !strings.HasSuffix(n, ".go") || strings.HasSuffix(n, "_test.go") || strings.HasPrefix(n, "verif_") {
			continue
		}
		f, err := parser.ParseFile(fset, filepath.Join(dir, n), nil, parser.ParseComments)
		if err != nil {
			return nil, err
		}
		p.files[n] = f
		for _, d := range f.Decls {
			gd, ok := d.(*ast.GenDecl)
			if !ok || (gd.Tok != token.CONST && gd.Tok != token.VAR) {
				continue
			}
			for _, s := range gd.Specs {
				vs := s.(*ast.ValueSpec)
				for i, name := range vs.Names {
					if i < len(vs.Values) {
						if bl, ok := vs.Values[i].(*ast.BasicLit); ok && bl.Kind == token.STRING {
							v, _ := strconv.Unquote(bl.Value)
							p.strs[name.Name] = v
						}
					}
				}
			}
		}
	}
	return p, nil
}

func (p *pkg) sortedFiles() []string {
	var ns []string
	for n := range p.files {
		ns = append(ns, n)
	}
	sort.Strings(ns)
	return ns
}

// funcDecl finds a function or method (recv type name, "" for plain functions).
func (p *pkg) funcDecl(recv, name string) *ast.FuncDecl {
	for _, n := range p.sortedFiles() {
		for _, d := range p.files[n].Decls {
			fd, ok := d.(*ast.FuncDecl)
			if !ok || fd.Name.Name != name {
				continue
			}
			if recv == "" && fd.Recv == nil {
				return fd
			}
			if recv != "" && fd.Recv != nil && recvName(fd) == recv {
				return fd
			}
		}
	}
	return nil
}

func recvName(fd *ast.FuncDecl) string {
	if fd.Recv == nil || len(fd.Recv.List) == 0 {
		return ""
	}
	t := fd.Recv.List[0].Type
	if s, ok := t.(*ast.StarExpr); ok {
		t = s.X
	}
	if id, ok := t.(*ast.Ident); ok {
		return id.Name
	}
	return ""
}

func (p *pkg) src(n ast.Node) string {
	var sb strings.Builder
	_ = printer.Fprint(&sb, p.fset, n)
	return sb.String()
}

// varList returns the identifiers (or selector Sel names) of a package-level `var X = []T{a, b, c}`.
func (p *pkg) varList(name string) ([]string, error) {
	for _, n := range p.sortedFiles() {
		for _, d := range p.files[n].Decls {
			gd, ok := d.(*ast.GenDecl)
			if !ok || gd.Tok != token.VAR {
				continue
			}
			for _, s := range gd.Specs {
				vs := s.(*ast.ValueSpec)
				for i, nm := range vs.Names {
					if nm.Name != name || i >= len(vs.Values) {
						continue
					}
					cl, ok := vs.Values[i].(*ast.CompositeLit)
					if !ok {
						return nil, fmt.Errorf("%s is not a composite literal", name)
					}
					var out []string
					for _, e := range cl.Elts {
						out = append(out, identName(e))
					}
					return out, nil
				}
			}
		}
	}
	return nil, fmt.Errorf("var %s not found", name)
}

func identName(e ast.Expr) string {
	switch x := e.(type) {
	case *ast.Ident:
		return x.Name
	case *ast.SelectorExpr:
		return x.Sel.Name
	case *ast.BasicLit:
		if x.Kind == token.STRING {
			v, _ := strconv.Unquote(x.Value)
			return "\"" + v
		}
		return x.Value
	}
	return "?"
}

// resolve turns an identifier into its string constant value.
func (p *pkg) resolve(id string) (string, error) {
	if strings.HasPrefix(id, "\"") {
		return id[1:], nil
	}
	if v, ok := p.strs[id]; ok {
		return v, nil
	}
	return "", fmt.Errorf("cannot resolve string constant %s", id)
}

func leanStr(s string) string { return strconv.Quote(s) }

func leanStrList(ss []string) string {
	q := make([]string, len(ss))
	for i, s := range ss {
		q[i] = leanStr(s)
	}
	return "[" + strings.Join(q, ", ") + "]"
}

func leanBool(b bool) string {
	if b {
		return "true"
	}
	return "false"
}

func writeGen(out, name, body string) error {
	hdr := "-- REGENERATED from /repo by tools/extract on every check run. Do not edit.\n"
	return os.WriteFile(filepath.Join(out, name), []byte(hdr+body), 0o644)
}
