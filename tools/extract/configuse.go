package main

import (
	"fmt"
	"go/ast"
	"path/filepath"
	"sort"
	"strings"
)

func init() { gens["ConfigUse"] = genConfigUse }

// genConfigUse: every place in internal/config where the error of a constructor is dropped after the configuration was
// accepted (x, _ := f(field); Must*(field)), and every place in a validate method where the same constructor is
// called with its error checked. A row = (settings type, field, constructor family).
//
// The settings type of a use is found through the receiver (methods on XSettings), through `for _, v := range rule.F`
// and through `rule.F.G` with the field types of `type Rule struct`.
func genConfigUse(repo, out string) error {
	p, err := loadPkg(filepath.Join(repo, "internal/config"))
	if err != nil {
		return err
	}
	family := func(callee string) string {
		switch callee {
		case "checks.ParseSeverity":
			return "severity"
		case "parseDuration":
			return "duration"
		case "parseDurationMatch":
			return "durationMatch"
		case "checks.NewTemplatedRegexp", "checks.MustTemplatedRegexp":
			return "templatedRegexp"
		case "checks.NewRawTemplatedRegexp", "checks.MustRawTemplatedRegexp":
			return "rawTemplatedRegexp"
		case "regexp.Compile", "regexp.MustCompile", "strictRegex", "MustCompileRegexes", "fullMatchRegex":
			return "regexp"
		}
		return ""
	}
	// functions of the package with one parameter: name -> (parameter name, body), used to see which pattern text a
	// regexp constructor finally compiles
	type fn1 struct {
		param string
		body  *ast.BlockStmt
	}
	funcs := map[string]fn1{}
	for _, n := range p.sortedFiles() {
		for _, d := range p.files[n].Decls {
			fd, ok := d.(*ast.FuncDecl)
			if !ok || fd.Body == nil || fd.Recv != nil || fd.Type.Params == nil || len(fd.Type.Params.List) != 1 || len(fd.Type.Params.List[0].Names) != 1 {
				continue
			}
			funcs[fd.Name.Name] = fn1{param: fd.Type.Params.List[0].Names[0].Name, body: fd.Body}
		}
	}
	// patOf: the text of a string expression with the configuration field written as "$"; env maps local names to text
	var patOf func(e ast.Expr, env map[string]string, isField func(string) bool, depth int) string
	var compiledIn func(body *ast.BlockStmt, env map[string]string, isField func(string) bool, depth int) string
	patOf = func(e ast.Expr, env map[string]string, isField func(string) bool, depth int) string {
		if depth > 6 {
			return "?deep"
		}
		switch x := e.(type) {
		case *ast.ParenExpr:
			return patOf(x.X, env, isField, depth)
		case *ast.BasicLit:
			return x.Value
		case *ast.BinaryExpr:
			return patOf(x.X, env, isField, depth) + " " + x.Op.String() + " " + patOf(x.Y, env, isField, depth)
		case *ast.CallExpr:
			if f, ok := funcs[p.src(x.Fun)]; ok && len(x.Args) == 1 {
				inner := patOf(x.Args[0], env, isField, depth+1)
				// a string helper: its single return expression
				for _, st := range f.body.List {
					if rs, ok := st.(*ast.ReturnStmt); ok && len(rs.Results) == 1 {
						return patOf(rs.Results[0], map[string]string{f.param: inner}, func(string) bool { return false }, depth+1)
					}
				}
			}
			return "?" + p.src(x.Fun)
		default:
			src := p.src(e)
			if v, ok := env[src]; ok {
				return v
			}
			if isField(src) {
				return "$"
			}
			return "?" + src
		}
	}
	// compiledIn: the pattern handed to regexp.Compile / MustCompile inside a helper body (directly or through helpers)
	compiledIn = func(body *ast.BlockStmt, env map[string]string, isField func(string) bool, depth int) string {
		out := ""
		// for _, v := range param: v stands for one element of the (variadic / list) parameter
		ast.Inspect(body, func(n ast.Node) bool {
			if rs, ok := n.(*ast.RangeStmt); ok {
				if v, ok := rs.Value.(*ast.Ident); ok {
					if t, ok := env[p.src(rs.X)]; ok {
						env[v.Name] = t
					}
				}
			}
			return true
		})
		ast.Inspect(body, func(n ast.Node) bool {
			ce, ok := n.(*ast.CallExpr)
			if !ok || out != "" || len(ce.Args) == 0 {
				return true
			}
			switch callee := p.src(ce.Fun); callee {
			case "regexp.Compile", "regexp.MustCompile":
				out = patOf(ce.Args[0], env, isField, depth+1)
			default:
				if f, ok := funcs[callee]; ok && callee != "" && depth < 6 {
					if family(callee) == "regexp" && len(ce.Args) == 1 {
						inner := patOf(ce.Args[0], env, isField, depth+1)
						out = compiledIn(f.body, map[string]string{f.param: inner}, func(string) bool { return false }, depth+1)
					}
				}
			}
			return true
		})
		return out
	}
	// field types of Rule
	ruleFields := map[string]string{}
	for _, n := range p.sortedFiles() {
		ast.Inspect(p.files[n], func(x ast.Node) bool {
			ts, ok := x.(*ast.TypeSpec)
			if !ok || ts.Name.Name != "Rule" {
				return true
			}
			if st, ok := ts.Type.(*ast.StructType); ok {
				for _, f := range st.Fields.List {
					t := strings.TrimLeft(p.src(f.Type), "[]*")
					for _, nm := range f.Names {
						ruleFields[nm.Name] = t
					}
				}
			}
			return false
		})
	}
	type row struct{ typ, field, fam, where, pat, guard string }
	var uses, validates []row
	for _, fn := range p.sortedFiles() {
		for _, d := range p.files[fn].Decls {
			fd, ok := d.(*ast.FuncDecl)
			if !ok || fd.Body == nil {
				continue
			}
			recvVar, recvType := "", ""
			if fd.Recv != nil && len(fd.Recv.List) == 1 {
				recvType = recvName(fd)
				if len(fd.Recv.List[0].Names) == 1 {
					recvVar = fd.Recv.List[0].Names[0].Name
				}
			}
			// local bindings: for _, v := range rule.F  /  v := rule.F
			bind := map[string]string{}
			fieldBind := map[string][2]string{} // for _, v := range recv.F (a list of strings): v stands for (type, F)
			if recvVar != "" {
				bind[recvVar] = recvType
			}
			ast.Inspect(fd.Body, func(x ast.Node) bool {
				if rs, ok := x.(*ast.RangeStmt); ok {
					if v, ok := rs.Value.(*ast.Ident); ok {
						src := p.src(rs.X)
						parts := strings.Split(src, ".")
						if len(parts) == 2 {
							if t, ok := ruleFields[parts[1]]; ok && (parts[0] == "rule" || bind[parts[0]] == "Rule") {
								bind[v.Name] = t
							} else if t, ok := bind[parts[0]]; ok {
								fieldBind[v.Name] = [2]string{t, parts[1]}
							}
						}
					}
				}
				return true
			})
			typeOfArg := func(arg string) (string, string) {
				parts := strings.Split(arg, ".")
				switch len(parts) {
				case 1:
					if fb, ok := fieldBind[parts[0]]; ok {
						return fb[0], fb[1]
					}
				case 2:
					if t, ok := bind[parts[0]]; ok {
						return t, parts[1]
					}
				case 3:
					if parts[0] == "rule" || bind[parts[0]] == "Rule" {
						if t, ok := ruleFields[parts[1]]; ok {
							return t, parts[2]
						}
					}
				}
				return "", ""
			}
			isValidate := strings.EqualFold(fd.Name.Name, "validate")
			// which calls have their error dropped: x, _ := f(...)
			dropped := map[*ast.CallExpr]bool{}
			ast.Inspect(fd.Body, func(x ast.Node) bool {
				if as, ok := x.(*ast.AssignStmt); ok && len(as.Rhs) == 1 && len(as.Lhs) == 2 {
					if id, ok := as.Lhs[1].(*ast.Ident); ok && id.Name == "_" {
						if ce, ok := as.Rhs[0].(*ast.CallExpr); ok {
							dropped[ce] = true
						}
					}
				}
				return true
			})
			var stack []ast.Node
			// the enclosing `if` conditions of a call inside this function, innermost first, joined by " ;; " ("" = reached on
			// every path through the statements around it; loops over a list field do not count as conditions)
			guardOf := func() string {
				var gs []string
				for i := len(stack) - 2; i >= 0; i-- {
					switch g := stack[i].(type) {
					case *ast.FuncLit:
						return strings.Join(gs, " ;; ")
					case *ast.IfStmt:
						// only when the call sits in the body (or else branch), not in the condition / init of this if itself
						inInit := false
						if g.Init != nil {
							ast.Inspect(g.Init, func(m ast.Node) bool {
								if m == stack[len(stack)-1] {
									inInit = true
								}
								return true
							})
						}
						if inInit {
							continue
						}
						gs = append(gs, p.src(g.Cond))
					case *ast.CaseClause:
						gs = append(gs, "case")
					}
				}
				return strings.Join(gs, " ;; ")
			}
			ast.Inspect(fd.Body, func(x ast.Node) bool {
				if x == nil {
					stack = stack[:len(stack)-1]
					return true
				}
				stack = append(stack, x)
				ce, ok := x.(*ast.CallExpr)
				if !ok || len(ce.Args) == 0 {
					return true
				}
				callee := p.src(ce.Fun)
				fam := family(callee)
				if fam == "" {
					return true
				}
				arg := p.src(ce.Args[0])
				typ, field := typeOfArg(arg)
				fieldSrc := arg
				if typ == "" && fam == "regexp" {
					// the field may sit inside an expression or a helper call: regexp.Compile(helper(m.Path))
					ast.Inspect(ce.Args[0], func(y ast.Node) bool {
						if e, ok := y.(ast.Expr); ok && typ == "" {
							switch e.(type) {
							case *ast.SelectorExpr, *ast.Ident:
								if t, f := typeOfArg(p.src(e)); t != "" {
									typ, field, fieldSrc = t, f, p.src(e)
									return false
								}
							}
						}
						return true
					})
				}
				if typ == "" {
					return true
				}
				must := strings.Contains(callee, "Must") || callee == "strictRegex" || callee == "fullMatchRegex"
				pat := "$"
				if fam == "regexp" {
					isField := func(src string) bool { return src == fieldSrc }
					switch callee {
					case "regexp.Compile", "regexp.MustCompile":
						pat = patOf(ce.Args[0], nil, isField, 0)
					default:
						if f, ok := funcs[callee]; ok {
							pat = compiledIn(f.body, map[string]string{f.param: patOf(ce.Args[0], nil, isField, 0)}, func(string) bool { return false }, 0)
						} else {
							pat = "?" + callee
						}
					}
				}
				r := row{typ: typ, field: field, fam: fam, where: fn + ":" + fd.Name.Name, pat: pat, guard: strings.ReplaceAll(guardOf(), fieldSrc, "$")}
				switch {
				case isValidate && !dropped[ce] && !must:
					validates = append(validates, r)
				case dropped[ce] || must:
					uses = append(uses, r)
				}
				return true
			})
		}
	}
	if len(uses) < 10 || len(validates) < 10 {
		return fmt.Errorf("ConfigUse: only %d use rows and %d validate rows recognised", len(uses), len(validates))
	}
	render := func(rs []row) string {
		sort.Slice(rs, func(i, j int) bool {
			return rs[i].typ+rs[i].field+rs[i].fam+rs[i].where+rs[i].pat < rs[j].typ+rs[j].field+rs[j].fam+rs[j].where+rs[j].pat
		})
		var ls []string
		for _, r := range rs {
			ls = append(ls, fmt.Sprintf("  { typ := %s, field := %s, fam := %s, site := %s, pat := %s, guards := %s }", leanStr(r.typ), leanStr(r.field), leanStr(r.fam), leanStr(r.where), leanStr(r.pat), leanGuards(r.guard)))
		}
		return "[\n" + strings.Join(ls, ",\n") + "\n]"
	}
	var sb strings.Builder
	sb.WriteString("namespace Pint.Gen.ConfigUse\n\nstructure Row where\n  typ : String\n  field : String\n  fam : String\n  site : String\n  pat : String\n  guards : List String\n  deriving Repr, DecidableEq\n\n")
	sb.WriteString("/-- constructor calls whose error is dropped after the configuration was accepted -/\ndef uses : List Row := " + render(uses) + "\n\n")
	sb.WriteString("/-- constructor calls in validate methods with the error returned -/\ndef validates : List Row := " + render(validates) + "\n\n")
	sb.WriteString("end Pint.Gen.ConfigUse\n")
	return writeGen(out, "ConfigUse.lean", sb.String())
}

// leanGuards renders the " ;; "-joined guard conditions as a Lean list of strings
func leanGuards(g string) string {
	if g == "" {
		return "[]"
	}
	return leanStrList(strings.Split(g, " ;; "))
}
