package main

import (
	"fmt"
	"go/ast"
	"path/filepath"
	"strings"
)

func init() { gens["Guards"] = genGuards }

// genGuards: source shapes the C02 totality argument rests on.
//   - config.GetChecksForEntry routes entries with PathError / Rule.Error to NewErrorCheck only;
//   - parser.parseRuleStrict does not ignore parseRule's isEmpty result;
//   - diags.NewPositionRange has the non-empty fallback at END;
//   - reporter.ConsoleReporter.Submit guards lines[i-1] in the no-diagnostics branch.
func genGuards(repo, out string) error {
	var sb strings.Builder
	sb.WriteString("namespace Pint.Gen.Guards\n\n")

	cfg, err := loadPkg(filepath.Join(repo, "internal/config"))
	if err != nil {
		return err
	}
	fd := cfg.funcDecl("Config", "GetChecksForEntry")
	if fd == nil {
		return fmt.Errorf("GetChecksForEntry not found")
	}
	routeCond, routeThen := "", ""
	ast.Inspect(fd.Body, func(n ast.Node) bool {
		ifs, ok := n.(*ast.IfStmt)
		if !ok || routeCond != "" {
			return true
		}
		c := cfg.src(ifs.Cond)
		if strings.Contains(c, "entry.PathError") {
			routeCond = c
			var calls []string
			ast.Inspect(ifs.Body, func(m ast.Node) bool {
				if ce, ok := m.(*ast.CallExpr); ok {
					f := cfg.src(ce.Fun)
					if strings.HasPrefix(f, "checks.New") || f == "baseRules" || f == "parseRule" {
						calls = append(calls, f)
					}
				}
				return true
			})
			routeThen = strings.Join(calls, ",")
		}
		return true
	})
	fmt.Fprintf(&sb, "def errorRouteCond : String := %s\ndef errorRouteChecks : String := %s\n\n", leanStr(routeCond), leanStr(routeThen))

	pp, err := loadPkg(filepath.Join(repo, "internal/parser"))
	if err != nil {
		return err
	}
	prs := pp.funcDecl("", "parseRuleStrict")
	if prs == nil {
		return fmt.Errorf("parseRuleStrict not found")
	}
	usesEmpty := false
	ast.Inspect(prs.Body, func(n ast.Node) bool {
		as, ok := n.(*ast.AssignStmt)
		if ok && len(as.Rhs) == 1 && strings.HasPrefix(pp.src(as.Rhs[0]), "parseRule(") && len(as.Lhs) == 2 {
			usesEmpty = identName(as.Lhs[1]) != "_"
		}
		return true
	})
	fmt.Fprintf(&sb, "/-- parseRuleStrict looks at the isEmpty result of parseRule -/\ndef strictHandlesEmpty : Bool := %s\n\n", leanBool(usesEmpty))

	dp, err := loadPkg(filepath.Join(repo, "internal/diags"))
	if err != nil {
		return err
	}
	npr := dp.funcDecl("", "NewPositionRange")
	if npr == nil {
		return fmt.Errorf("NewPositionRange not found")
	}
	fallback := false
	ast.Inspect(npr.Body, func(n ast.Node) bool {
		ls, ok := n.(*ast.LabeledStmt)
		if ok && ls.Label.Name == "END" {
			if ifs, ok := ls.Stmt.(*ast.IfStmt); ok && dp.src(ifs.Cond) == "len(offsets) == 0" {
				fallback = true
			}
		}
		return true
	})
	fmt.Fprintf(&sb, "/-- NewPositionRange falls back to the node's start when it found nothing -/\ndef nprHasFallback : Bool := %s\n\n", leanBool(fallback))

	rp, err := loadPkg(filepath.Join(repo, "internal/reporter"))
	if err != nil {
		return err
	}
	sub := rp.funcDecl("ConsoleReporter", "Submit")
	if sub == nil {
		return fmt.Errorf("ConsoleReporter.Submit not found")
	}
	guard := ""
	ast.Inspect(sub.Body, func(n ast.Node) bool {
		fs, ok := n.(*ast.ForStmt)
		if !ok || !strings.Contains(rp.src(fs.Body), "lines[i-1]") {
			return true
		}
		if len(fs.Body.List) > 0 {
			if ifs, ok := fs.Body.List[0].(*ast.IfStmt); ok {
				guard = rp.src(ifs.Cond) + " => " + strings.TrimSpace(strings.Split(strings.TrimSpace(strings.Trim(rp.src(ifs.Body), "{}")), "\n")[len(strings.Split(strings.TrimSpace(strings.Trim(rp.src(ifs.Body), "{}")), "\n"))-1])
			}
		}
		return false
	})
	fmt.Fprintf(&sb, "/-- guard in front of lines[i-1] in the console reporter's no-diagnostics branch -/\ndef consoleLineGuard : String := %s\n\nend Pint.Gen.Guards\n", leanStr(guard))
	return writeGen(out, "Guards.lean", sb.String())
}
