package main

import (
	"fmt"
	"go/ast"
	"path/filepath"
	"strings"
)

func init() { gens["Errors"] = genErrors }

// genErrors: error classification (IsUnavailableError / isUnsupportedError), the per-endpoint failover
// loop conditions, and problemFromError's severity switch.
func genErrors(repo, out string) error {
	pp, err := loadPkg(filepath.Join(repo, "internal/promapi"))
	if err != nil {
		return err
	}
	// func X(err error) bool { var e1 APIError; if ok := errors.As(err, &e1); ok { return e1.ErrorType == C }; return D }
	classify := func(name string) (cmp, dflt string, err error) {
		fd := pp.funcDecl("", name)
		if fd == nil {
			return "", "", fmt.Errorf("%s not found", name)
		}
		if len(fd.Body.List) != 3 {
			return "", "", fmt.Errorf("%s: expected 3 statements, got %d", name, len(fd.Body.List))
		}
		ifs, ok := fd.Body.List[1].(*ast.IfStmt)
		if !ok || !strings.Contains(pp.src(ifs.Init), "errors.As(err, &e1)") || len(ifs.Body.List) != 1 {
			return "", "", fmt.Errorf("%s: errors.As shape not recognised", name)
		}
		rs, ok := ifs.Body.List[0].(*ast.ReturnStmt)
		if !ok || len(rs.Results) != 1 {
			return "", "", fmt.Errorf("%s: return shape not recognised", name)
		}
		be, ok := rs.Results[0].(*ast.BinaryExpr)
		if !ok || be.Op.String() != "==" || pp.src(be.X) != "e1.ErrorType" {
			return "", "", fmt.Errorf("%s: comparison shape not recognised: %s", name, pp.src(rs.Results[0]))
		}
		last, ok := fd.Body.List[2].(*ast.ReturnStmt)
		if !ok || len(last.Results) != 1 {
			return "", "", fmt.Errorf("%s: default return not recognised", name)
		}
		return pp.src(be.Y), pp.src(last.Results[0]), nil
	}
	unavCmp, unavDef, err := classify("IsUnavailableError")
	if err != nil {
		return err
	}
	unsCmp, unsDef, err := classify("isUnsupportedError")
	if err != nil {
		return err
	}
	// decodeErrorType switch
	det := pp.funcDecl("", "decodeErrorType")
	if det == nil {
		return fmt.Errorf("decodeErrorType not found")
	}
	var detRows [][2]string
	detDef := ""
	ast.Inspect(det.Body, func(n ast.Node) bool {
		sw, ok := n.(*ast.SwitchStmt)
		if !ok {
			return true
		}
		for _, c := range sw.Body.List {
			cc := c.(*ast.CaseClause)
			ret := ""
			for _, st := range cc.Body {
				if rs, ok := st.(*ast.ReturnStmt); ok && len(rs.Results) == 1 {
					ret = pp.src(rs.Results[0])
				}
			}
			if cc.List == nil {
				detDef = ret
				continue
			}
			for _, e := range cc.List {
				detRows = append(detRows, [2]string{pp.src(e), ret})
			}
		}
		return false
	})
	// failover loops: the condition under which the loop returns instead of trying the next upstream
	type loop struct{ name, call, stopCond string }
	var loops []loop
	for _, m := range []string{"Query", "RangeQuery", "Config", "Flags", "Metadata"} {
		fd := pp.funcDecl("FailoverGroup", m)
		if fd == nil {
			return fmt.Errorf("FailoverGroup.%s not found", m)
		}
		var l loop
		l.name = m
		ok := false
		ast.Inspect(fd.Body, func(n ast.Node) bool {
			rs, isRange := n.(*ast.RangeStmt)
			if !isRange || pp.src(rs.X) != "fg.servers" {
				return true
			}
			// body: ... X, err = prom.M(...); if err == nil { return X, nil }; if COND { return ..., &FailoverGroupError{...} }
			sawOK := false
			for _, st := range rs.Body.List {
				switch s := st.(type) {
				case *ast.AssignStmt:
					if len(s.Rhs) == 1 {
						if ce, isCall := s.Rhs[0].(*ast.CallExpr); isCall && strings.HasPrefix(pp.src(ce.Fun), "prom.") {
							l.call = pp.src(ce.Fun)
						}
					}
				case *ast.IfStmt:
					c := pp.src(s.Cond)
					if c == "err == nil" {
						sawOK = true
					} else if sawOK && strings.Contains(c, "IsUnavailableError") {
						l.stopCond = c
						ok = true
					}
				}
			}
			return false
		})
		if !ok || l.call != "prom."+m {
			return fmt.Errorf("FailoverGroup.%s: loop shape not recognised (%+v)", m, l)
		}
		loops = append(loops, l)
	}
	// problemFromError switch (internal/checks/base.go)
	cp, err := loadPkg(filepath.Join(repo, "internal/checks"))
	if err != nil {
		return err
	}
	pfe := cp.funcDecl("", "problemFromError")
	if pfe == nil {
		return fmt.Errorf("problemFromError not found")
	}
	type sevCase struct{ cond, sev, strictSev string }
	var sevs []sevCase
	ast.Inspect(pfe.Body, func(n ast.Node) bool {
		sw, ok := n.(*ast.SwitchStmt)
		if !ok || sw.Tag != nil {
			return true
		}
		for _, c := range sw.Body.List {
			cc := c.(*ast.CaseClause)
			sc := sevCase{cond: "default"}
			if cc.List != nil {
				sc.cond = cp.src(cc.List[0])
			}
			for _, st := range cc.Body {
				switch s := st.(type) {
				case *ast.AssignStmt:
					if identName(s.Lhs[0]) == "severity" {
						sc.sev = cp.src(s.Rhs[0])
					}
				case *ast.IfStmt:
					for _, b := range s.Body.List {
						if as, ok := b.(*ast.AssignStmt); ok && identName(as.Lhs[0]) == "severity" {
							sc.strictSev = cp.src(s.Cond) + " => " + cp.src(as.Rhs[0])
						}
					}
				}
			}
			sevs = append(sevs, sc)
		}
		return false
	})
	if len(sevs) != 3 {
		return fmt.Errorf("problemFromError: expected a 3-way switch, got %d cases", len(sevs))
	}
	var sb strings.Builder
	sb.WriteString("namespace Pint.Gen.Errors\n\n")
	fmt.Fprintf(&sb, "/-- IsUnavailableError: an APIError is unavailable iff its type == this; anything else returns the default -/\ndef unavailableType : String := %s\ndef unavailableDefault : String := %s\n\n", leanStr(unavCmp), leanStr(unavDef))
	fmt.Fprintf(&sb, "def unsupportedType : String := %s\ndef unsupportedDefault : String := %s\n\n", leanStr(unsCmp), leanStr(unsDef))
	sb.WriteString("def decodeTable : List (String × String) := [")
	for i, r := range detRows {
		if i > 0 {
			sb.WriteString(", ")
		}
		fmt.Fprintf(&sb, "(%s, %s)", leanStr(r[0]), leanStr(r[1]))
	}
	fmt.Fprintf(&sb, "]\ndef decodeDefault : String := %s\n\n", leanStr(detDef))
	sb.WriteString("/-- per endpoint: the condition under which the failover loop stops and returns the error -/\ndef loops : List (String × String) := [")
	for i, l := range loops {
		if i > 0 {
			sb.WriteString(", ")
		}
		fmt.Fprintf(&sb, "(%s, %s)", leanStr(l.name), leanStr(l.stopCond))
	}
	sb.WriteString("]\n\n/-- problemFromError: (case condition, severity, strict override) in source order -/\ndef severityCases : List (String × String × String) := [")
	for i, s := range sevs {
		if i > 0 {
			sb.WriteString(", ")
		}
		fmt.Fprintf(&sb, "(%s, %s, %s)", leanStr(s.cond), leanStr(s.sev), leanStr(s.strictSev))
	}
	sb.WriteString("]\n\nend Pint.Gen.Errors\n")
	return writeGen(out, "Errors.lean", sb.String())
}
