package main

import (
	"fmt"
	"go/ast"
	"path/filepath"
	"strings"
)

func init() { gens["RangeSrc"] = genRangeSrc }

// genRangeSrc: the control skeleton of the functions Model/Range.lean is a hand translation of. For every function:
// the conditions of its if / for / case statements and the expressions it returns or assigns to the fields the model
// tracks, in source order. Props/C13 compares the lists with the ones the model was written from, so that an edit of
// one of these functions that random correspondence runs could miss (a rarely taken branch, a tolerance) is seen.
func genRangeSrc(repo, out string) error {
	p, err := loadPkg(filepath.Join(repo, "internal/promapi"))
	if err != nil {
		return err
	}
	var sb strings.Builder
	sb.WriteString("namespace Pint.Gen.RangeSrc\n\n")
	for _, f := range []struct{ recv, name, lean string }{
		{"", "Overlaps", "overlaps"},
		{"", "MergeRanges", "mergeRanges"},
		{"", "ExpandRangesEnd", "expandRangesEnd"},
		{"", "AppendSampleToRanges", "appendSampleToRanges"},
		{"", "sliceRange", "sliceRange"},
	} {
		fd := p.funcDecl(f.recv, f.name)
		if fd == nil {
			return fmt.Errorf("promapi.%s not found", f.name)
		}
		var items []string
		ast.Inspect(fd.Body, func(n ast.Node) bool {
			switch x := n.(type) {
			case *ast.IfStmt:
				s := "if " + p.src(x.Cond)
				if x.Init != nil {
					s = "if " + p.src(x.Init) + "; " + p.src(x.Cond)
				}
				items = append(items, s)
			case *ast.ForStmt:
				s := "for "
				if x.Init != nil {
					s += p.src(x.Init)
				}
				s += "; "
				if x.Cond != nil {
					s += p.src(x.Cond)
				}
				s += "; "
				if x.Post != nil {
					s += p.src(x.Post)
				}
				items = append(items, s)
			case *ast.RangeStmt:
				items = append(items, "range "+p.src(x.X))
			case *ast.ReturnStmt:
				var rs []string
				for _, r := range x.Results {
					rs = append(rs, p.src(r))
				}
				items = append(items, "return "+strings.Join(rs, ", "))
			case *ast.AssignStmt:
				if len(x.Lhs) == 1 {
					l := p.src(x.Lhs[0])
					if strings.HasSuffix(l, ".Start") || strings.HasSuffix(l, ".End") || l == "rstart" || l == "s.End" || l == "s.Start" {
						items = append(items, l+" "+x.Tok.String()+" "+p.src(x.Rhs[0]))
					}
				}
			case *ast.CallExpr:
				if c := p.src(x.Fun); c == "sort.Stable" || c == "append" {
					items = append(items, p.src(x))
				}
			}
			return true
		})
		fmt.Fprintf(&sb, "def %s : List String := %s\n\n", f.lean, leanStrList(items))
	}
	// the slice size chosen by RangeQuery
	fd := p.funcDecl("Prometheus", "RangeQuery")
	if fd == nil {
		return fmt.Errorf("Prometheus.RangeQuery not found")
	}
	var sz []string
	ast.Inspect(fd.Body, func(n ast.Node) bool {
		switch x := n.(type) {
		case *ast.AssignStmt:
			if len(x.Lhs) == 1 {
				l := p.src(x.Lhs[0])
				if l == "queryStep" || l == "slices" || l == "sliceSize" || strings.Contains(strings.ToLower(l), "slice") {
					sz = append(sz, l+" "+x.Tok.String()+" "+p.src(x.Rhs[0]))
				}
			}
		case *ast.IfStmt:
			c := p.src(x.Cond)
			if strings.Contains(strings.ToLower(c), "slice") || strings.Contains(c, "queryStep") || strings.Contains(c, "step") {
				sz = append(sz, "if "+c)
			}
		}
		return true
	})
	fmt.Fprintf(&sb, "def rangeQuerySlicing : List String := %s\n\n", leanStrList(sz))
	sb.WriteString("end Pint.Gen.RangeSrc\n")
	return writeGen(out, "RangeSrc.lean", sb.String())
}
