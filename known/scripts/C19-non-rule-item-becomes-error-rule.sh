#!/bin/bash
# relaxed mode: a list item that is not a rule (no record / alert / expr) is ignored, unless an unrelated key of it has a
# value of another type (for: 5 instead of for: 5m): then it comes back as a rule with a fatal error
. "$(dirname "$0")/lib.sh"
printf 'parser {\n  relaxed = [".*"]\n}\n' > c.hcl
printf 'steps:\n- for: 5m\n  do: x\n- record: a:b\n  expr: up\n' > str.yml
printf 'steps:\n- for: 5\n  do: x\n- record: a:b\n  expr: up\n' > int.yml
a=$(lint -c c.hcl lint str.yml | grep -c 'yaml/parse'); b=$(lint -c c.hcl lint int.yml | grep -c 'yaml/parse')
[ "$a" = 0 ] && [ "$b" != 0 ]
