#!/bin/bash
# two `report` blocks match one rule: only the first instance runs (same String()), so the exit status depends on their order
. "$(dirname "$0")/lib.sh"
cat > r.yml <<'X'
groups:
- name: g
  rules:
  - alert: A
    expr: up == 0
X
mk() { printf 'rule {\n  report {\n    comment = "%s"\n    severity = "%s"\n  }\n}\nrule {\n  report {\n    comment = "%s"\n    severity = "%s"\n  }\n}\n' "$1" "$2" "$3" "$4"; }
mk first warning second bug > wb.hcl; mk second bug first warning > bw.hcl
"$PINT" --offline --no-color -l error -c wb.hcl lint r.yml >/dev/null 2>&1; a=$?
"$PINT" --offline --no-color -l error -c bw.hcl lint r.yml >/dev/null 2>&1; b=$?
[ "$a" != "$b" ]
