#!/bin/bash
# `rules: *alias`: strict mode returns the group with no rules and no error, relaxed mode drops the group; Prometheus
# loads the rules
. "$(dirname "$0")/lib.sh"
printf 'x: &r\n- record: a:b\n  expr: sum(\ngroups:\n- name: g\n  rules: *r\n' > r.yml
n=$(lint lint r.yml | grep -c 'promql/syntax')
[ "$n" = 0 ]
