#!/bin/bash
# `expr: &up up == 0`: yaml.v3 puts the node column on the anchor, NewPositionRange starts matching there and the carets land on the `up` of `&up`
. "$(dirname "$0")/lib.sh"
out=$("$PINT" --no-color --offline -l error lint "$VERIF_ROOT/hunt/C06/second/inputs/anc2.yml" 2>&1 | grep -v "^level=")
s=$(echo "$out" | grep -m1 "&up"); c=$(echo "$out" | grep -A1 -m1 "&up" | tail -1)
a=$(echo "$s" | awk "{print index(\$0,\"&up\")}"); k=$(echo "$c" | awk "{print index(\$0,\"^\")}")
[ "$k" -gt 0 ] && [ "$k" -le $((a+3)) ]
