#!/bin/bash
# a problem on a removed rule is commented on LEFT line 6 (an untouched rule) instead of the removed lines 4-5
. "$(dirname "$0")/lib.sh"
cp -r "$VERIF_ROOT/hunt/C17" "$W/C17" || exit 2
out=$(cd "$W/C17" && PINT="$PINT" timeout 120 bash ./repro4b_github_removed_rule_wrong_line.sh 2>&1) || true
echo "$out" | grep -qF "('rec.yml', 'LEFT', 6)"
