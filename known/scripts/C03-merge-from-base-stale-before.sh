#!/bin/bash
# before bodies come from <first branch commit>^ rather than the merge base: rules changed only on the merged base branch are reported as modified
. "$(dirname "$0")/lib.sh"
hunt_probe C03 f7_merge_from_base_stale_before.sh
