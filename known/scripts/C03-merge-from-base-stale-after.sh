#!/bin/bash
# after the base branch is merged into the branch HEAD bodies are read at the last non-merge commit: entries are duplicated and the real rule stays unmodified
. "$(dirname "$0")/lib.sh"
hunt_probe C03 f6_merge_from_base_stale_after.sh
