#!/bin/bash
# an escape sequence (\\n) in a double-quoted value sends the position scan past the closing quote: the problem of rule `first` is reported for lines 7-13, over the next two rules
. "$(dirname "$0")/lib.sh"
out=$("$PINT" --no-color -l error -c "$VERIF_ROOT/hunt/C06/pint.hcl" lint "$VERIF_ROOT/hunt/C06/cli/e-escaped-nl.yml" 2>&1 | grep -v '^level=')
echo "$out" | grep -q "e-escaped-nl.yml:7-13"
