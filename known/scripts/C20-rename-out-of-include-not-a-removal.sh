#!/bin/bash
# moving a rule file out of parser.include is not treated as a removal (git rm of the same file is)
. "$(dirname "$0")/lib.sh"
c=$(hunt_counts C20 f6_rename_out_of_include.sh); [ "$c" = "count=1 count=0 " ] && exit 0; [ "$c" = "count=1 count=1 " ] && exit 1; echo "$c"; exit 2
