#!/bin/bash
# a removal that reaches the branch through a merged side branch is invisible (git log --no-merges --first-parent)
. "$(dirname "$0")/lib.sh"
c=$(hunt_counts C20 f7_merged_side_branch.sh); [ "$c" = "count=0 " ] && exit 0; [ "$c" = "count=1 " ] && exit 1; echo "$c"; exit 2
