#!/bin/bash
# a control comment written before / on the line of a merge key (`<<: *base`) inside a rule has no effect
. "$(dirname "$0")/lib.sh"
printf 'rule {\n  label "team" {\n    required = true\n  }\n}\n' > c.hcl
cat > r.yml <<'X'
groups:
- name: g
  rules:
  - &base
    alert: A
    expr: up == 0
  - alert: B
    # pint disable rule/label
    <<: *base
X
n=$(lint --show-duplicates -c c.hcl lint r.yml | grep -c '(rule/label)')
[ "$n" = 2 ]
