# helpers for known-finding probes. Each probe exits 0 when the recorded defect is (still) observed on the binary
# $PINT built from /repo's working tree, 1 when it is not, 2 when the probe itself could not run.
set -u
HERE="$(cd "$(dirname "${BASH_SOURCE[1]}")" && pwd)"
VERIF_ROOT="$(cd "$HERE/../.." && pwd)"
PINT="${PINT:?PINT not set}"
W="$(mktemp -d)"; trap 'rm -rf "$W"' EXIT
cd "$W" || exit 2
export GIT_CONFIG_GLOBAL=/dev/null GIT_AUTHOR_NAME=p GIT_AUTHOR_EMAIL=p@e GIT_COMMITTER_NAME=p GIT_COMMITTER_EMAIL=p@e
lint() { "$PINT" --offline --no-color -l error "$@" 2>&1; }
nproblems() { grep -c -E '^(Fatal|Bug|Warning|Information): ' ; }
# run a reproducer kept under hunt/<prop>/ (written by a defect-hunting agent): exit 1 + the word DEFECT = reproduced
hunt_probe() {
  local out rc
  out=$(PINT="$PINT" bash "$VERIF_ROOT/hunt/$1/$2" 2>&1); rc=$?
  rm -rf /tmp/hunt-$1-repo.* /tmp/hunt-$1-repro.* /tmp/hunt-$1-work.* 2>/dev/null
  if [ $rc = 1 ] && echo "$out" | grep -q DEFECT; then exit 0; fi
  if [ $rc = 0 ]; then exit 1; fi
  echo "$out" | tail -5; exit 2
}
# the count= line(s) printed by hunt/C20/lib.sh runci
hunt_counts() { PINT="$PINT" bash "$VERIF_ROOT/hunt/$1/$2" 2>&1 | grep -o 'count=[0-9]*' | tr '\n' ' '; rm -rf /tmp/hunt-$1-work.* 2>/dev/null; }
