# helpers for known-finding probes. Each probe exits 0 when the recorded defect is (still) observed on the binary
# $PINT built from /repo's working tree, 1 when it is not, 2 when the probe itself could not run.
set -u
HERE="$(cd "$(dirname "${BASH_SOURCE[1]}")" && pwd)"
VERIF_ROOT="$(cd "$HERE/../.." && pwd)"
PINT="${PINT:?PINT not set}"
W="$(mktemp -d)"; trap 'rm -rf "$W"' EXIT
cd "$W" || exit 2
export GIT_CONFIG_GLOBAL=/dev/null GIT_AUTHOR_NAME=p GIT_AUTHOR_EMAIL=p@e GIT_COMMITTER_NAME=p GIT_COMMITTER_EMAIL=p@e
lint() { "$PINT" --offline --no-color -l error "$@" 2>&1; }
nproblems() { grep -c -E '^(Fatal|Bug|Warning|Information): ' ; }
