#!/bin/bash
# FindPosition takes the first `on(` / `without(` of the whole node text: for `(foo * on(instance) group_left bar) + on(job) baz` the explanation about on(job) is shown under the inner on(instance)
. "$(dirname "$0")/lib.sh"
printf -- "groups:\n- name: g\n  rules:\n  - alert: A\n    expr: (foo * on(instance) group_left bar) + on(job) baz\n    annotations:\n      summary: '{{ \$labels.instance }}'\n" > p.yml
out=$("$PINT" --no-color --offline -l error lint p.yml 2>&1 | grep -v "^level=")
s=$(echo "$out" | grep -m1 "expr: (foo"); c=$(echo "$out" | grep -A1 -m1 "expr: (foo" | tail -1)
echo "$c" | grep -q 'with `on(job)`' || exit 1
k=$(echo "$c" | awk '{print index($0,"^")}'); a=$(echo "$s" | awk '{print index($0,"on(instance)")}'); b=$(echo "$s" | awk '{print index($0,"on(job)")}')
[ "$k" = "$a" ] && [ "$k" != "$b" ]
