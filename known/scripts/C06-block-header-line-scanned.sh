#!/bin/bash
# the header line of a block scalar (`expr: | # comment`) is searched for the value: the problem is shown on the comment, the line holding the query is never shown
. "$(dirname "$0")/lib.sh"
out=$("$PINT" --no-color -l error -c "$VERIF_ROOT/hunt/C06/pint.hcl" lint "$VERIF_ROOT/hunt/C06/cli/a-header-comment.yml" 2>&1 | grep -v '^level=')
echo "$out" | grep -q "a-header-comment.yml:5 " && ! echo "$out" | grep -q "^6 |"
