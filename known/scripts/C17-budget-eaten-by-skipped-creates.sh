#!/bin/bash
# creates the platform reporter skips without posting (path not in the diff, removed file) are counted against maxComments: deferred comments are never created, the runs do not converge
. "$(dirname "$0")/lib.sh"
cp -r "$VERIF_ROOT/hunt/C17" "$W/C17" || exit 2
out=$(cd "$W/C17" && PINT="$PINT" timeout 120 bash ./repro2_budget_eaten_by_skipped.sh 2>&1) || true
echo "$out" | grep -qF "line comments on the PR: 0 (expected"
