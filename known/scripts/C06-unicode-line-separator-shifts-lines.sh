#!/bin/bash
# YAML counts U+2028 as a line break, pint splits on LF only: after one such character every later problem is shown on the wrong line (rule `second` on the expr line of rule `third`)
. "$(dirname "$0")/lib.sh"
out=$("$PINT" --no-color -l error -c "$VERIF_ROOT/hunt/C06/pint.hcl" lint "$VERIF_ROOT/hunt/C06/cli/g-unicode-ls.yml" 2>&1 | grep -v '^level=')
echo "$out" | grep -A3 "g-unicode-ls.yml:11 -> .second" | grep -q "job=~\"y\""
