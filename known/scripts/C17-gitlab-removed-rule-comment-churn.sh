#!/bin/bash
# a problem on a removed rule (AnchorBefore) is looked up in the table of NEW lines: the GitLab comment lands on another line, is not recognised on the next run and is deleted and created again on every run
. "$(dirname "$0")/lib.sh"
cp -r "$VERIF_ROOT/hunt/C17" "$W/C17" || exit 2
out=$(cd "$W/C17" && PINT="$PINT" timeout 120 bash ./repro4_gitlab_removed_rule_churn.sh 2>&1) || true
echo "$out" | grep -qF "gitlab-delete"
