#!/bin/bash
# continuation lines of a plain scalar are searched from key.Column+2 only: with a one-space continuation the caret lands on `for: 5m`, two lines below the text it is about
. "$(dirname "$0")/lib.sh"
out=$("$PINT" --no-color -l error -c "$VERIF_ROOT/hunt/C06/pint.hcl" lint "$VERIF_ROOT/hunt/C06/cli/b-plain-cont.yml" 2>&1 | grep -v '^level=')
echo "$out" | grep -A1 "^7 |     for: 5m" | tail -1 | grep -q "\\^"
