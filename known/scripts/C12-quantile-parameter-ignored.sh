#!/bin/bash
# quantile(2, vector(1)) > 1 is folded to `1 > 1` and reported as dead code although quantile with phi > 1 returns +Inf: aggregation parameters are never looked at
. "$(dirname "$0")/lib.sh"
printf -- "groups:\n- name: g\n  rules:\n  - record: r:a\n    expr: quantile(2, vector(1)) > 1\n" > r.yml
lint lint --enabled promql/impossible r.yml | grep -q "always evaluates to .1 > 1."
