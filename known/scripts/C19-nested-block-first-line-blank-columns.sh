#!/bin/bash
# relaxed mode, rules inside a literal block scalar whose first line is blank: the column offset is taken from that line
# (0 instead of the block's indentation), every position inside is 4 columns to the left
. "$(dirname "$0")/lib.sh"
printf 'parser {\n  relaxed = [".*"]\n}\n' > c.hcl
printf 'data:\n  r.yml: |\n\n    - record: a:b\n      expr: sum(foo) without(\n    - record: c:d\n      expr: up\nx: 1\n' > r.yml
out=$("$PINT" --offline --no-color -l error -c c.hcl lint r.yml 2>&1)
src=$(echo "$out" | grep 'expr: sum(foo) without(' | head -1)
car=$(echo "$out" | grep -A1 'expr: sum(foo) without(' | tail -1)
[ -n "$src" ] || exit 1
want=${#src}                                   # the unclosed parenthesis is the last character of the source line
col=$(echo "$car" | awk '{print index($0,"^")}')
[ "$col" -gt 0 ] && [ "$col" -lt "$want" ]
