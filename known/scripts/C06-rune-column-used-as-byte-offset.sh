#!/bin/bash
# yaml.Node.Column counts characters and is used as a byte offset: with non-ASCII text before a value on the same line the carets start too early (under the key `expr`)
. "$(dirname "$0")/lib.sh"
out=$("$PINT" --no-color -l error -c "$VERIF_ROOT/hunt/C06/pint.hcl" lint "$VERIF_ROOT/hunt/C06/cli/i-nonascii-flow.yml" 2>&1 | grep -v '^level=')
l=$(echo "$out" | grep -A1 "^4 |   - {alert: \"Ärger" | tail -1); s=$(echo "$out" | grep "^4 |   - {alert: \"Ärger" | head -1); c=$(echo "$l" | awk "{print index(\$0,\"^\")}"); w=$(echo "$s" | awk "{print index(\$0,\"rate_x\")}"); [ "$c" -gt 0 ] && [ "$c" -lt "$w" ]
