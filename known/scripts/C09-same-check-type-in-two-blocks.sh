#!/bin/bash
# two rule blocks that both match a rule and configure the same check type differently (report, label values): the second block is silently not applied (String() de-duplication)
. "$(dirname "$0")/lib.sh"
hunt_probe C09 f4_same_check_two_blocks.sh
