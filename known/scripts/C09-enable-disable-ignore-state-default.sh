#!/bin/bash
# pint ci: the enable / disable lists of a rule block are evaluated with the raw match blocks, without the command-dependent state default
. "$(dirname "$0")/lib.sh"
hunt_probe C09 f6_ci_disable_state_default.sh
