#!/bin/bash
# AlwaysReturns of an argument survives functions, aggregation parameters and subqueries that can return nothing: `topk(0, vector(1)) or on() foo`, `histogram_quantile(0.5, vector(1)) or on() foo`, `clamp(vector(1), 5, 1) or on() foo` and `last_over_time(vector(1)[30s:1m]) or on() foo` all have foo declared unused although the left side is empty
. "$(dirname "$0")/lib.sh"
printf -- "groups:\n- name: g\n  rules:\n  - record: r:a\n    expr: topk(0, vector(1)) or on() foo\n  - record: r:b\n    expr: histogram_quantile(0.5, vector(1)) or on() foo\n  - record: r:c\n    expr: clamp(vector(1), 5, 1) or on() foo\n  - record: r:d\n    expr: last_over_time(vector(1)[30s:1m]) or on() foo\n" > r.yml
n=$(lint --show-duplicates lint --enabled promql/impossible r.yml | grep -c "right hand side is never used")
[ "$n" = 4 ]
