#!/bin/bash
# the 'too many comments' notice is computed from the number of reports, not from what was deferred, and the GitHub reporter posts it again on every run
. "$(dirname "$0")/lib.sh"
cp -r "$VERIF_ROOT/hunt/C17" "$W/C17" || exit 2
out=$(cd "$W/C17" && PINT="$PINT" timeout 120 bash ./repro5_too_many_comments_notice.sh 2>&1) || true
echo "$out" | grep -qF "general comments: 5"
