#!/bin/bash
# ignore/line right after a literal block scalar: the result depends on the LENGTH of the excluded text (the kept
# comment ends up inside the block value when it stands past the block's indentation)
. "$(dirname "$0")/lib.sh"
printf 'rule {\n  aggregate ".+" {\n    keep = ["job"]\n  }\n}\n' > .pint.hcl
printf -- 'groups:\n- name: g\n  rules:\n  - record: foo\n    expr: |\n      sum(up)\nxx # pint ignore/line\n  - record: bar\n    expr: sum(up)\n' > a.yml
printf -- 'groups:\n- name: g\n  rules:\n  - record: foo\n    expr: |\n      sum(up)\n{{ if .Values.x }} # pint ignore/line\n  - record: bar\n    expr: sum(up)\n' > b.yml
a=$(lint lint a.yml | sed 's/a\.yml/F/g'); b=$(lint lint b.yml | sed 's/b\.yml/F/g')
[ -n "$a" ] || exit 2
[ "$a" != "$b" ]
