#!/bin/bash
# reject { label_keys = true annotation_keys = true }: both instances have one String(), the annotation one is dropped
. "$(dirname "$0")/lib.sh"
printf 'rule {\n  reject "bad" {\n    label_keys = true\n    annotation_keys = true\n  }\n}\n' > both.hcl
printf 'rule {\n  reject "bad" {\n    annotation_keys = true\n  }\n}\n' > ann.hcl
printf 'groups:\n- name: g\n  rules:\n  - alert: A\n    expr: up == 0\n    annotations:\n      bad: x\n' > r.yml
a=$(lint -c both.hcl lint r.yml | grep -c 'rule/reject'); b=$(lint -c ann.hcl lint r.yml | grep -c 'rule/reject')
[ "$a" = 0 ] && [ "$b" != 0 ]
