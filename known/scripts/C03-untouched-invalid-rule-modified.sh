#!/bin/bash
# an untouched rule that does not parse is classified modified as soon as another rule of its file changes (matchEntries pairs rules without a name by name)
. "$(dirname "$0")/lib.sh"
hunt_probe C03 f5_invalid_rule_untouched.sh
