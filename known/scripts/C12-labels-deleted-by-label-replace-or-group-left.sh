#!/bin/bash
# label_replace(foo, "job", "", "job", ".*") deletes job, and group_left(job) copies nothing when the one side lacks job: both are treated as guaranteeing / including the label, so `... and on(job) sum(x)` has sum(x) declared never matched although both sides lack job and match
. "$(dirname "$0")/lib.sh"
printf -- "groups:\n- name: g\n  rules:\n  - record: r:a\n    expr: label_replace(foo, \"job\", \"\", \"job\", \".*\") and on(job) sum(bar)\n  - record: r:b\n    expr: (foo * on(instance) group_left(job) sum by(instance)(bar)) and on(job) sum(baz)\n" > r.yml
n=$(lint --show-duplicates lint --enabled promql/impossible r.yml | grep -c "will never be matched")
[ "$n" = 2 ]
