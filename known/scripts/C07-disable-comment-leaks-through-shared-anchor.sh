#!/bin/bash
# a `# pint disable` comment above ONE rule that merges an anchor (`- <<: *base`) also disables the check for every later
# rule merging the same anchor: parseRule writes the comment into the shared anchor node
. "$(dirname "$0")/lib.sh"
printf 'rule {\n  label "team" {\n    required = true\n  }\n}\n' > c.hcl
cat > with.yml <<'X'
groups:
- name: g
  rules:
  - &base
    alert: A
    expr: up == 0
  # pint disable rule/label
  - <<: *base
    alert: B
  - <<: *base
    alert: C
  - <<: *base
    alert: D
X
grep -v '# pint' with.yml > without.yml
a=$(lint --show-duplicates -c c.hcl lint without.yml | grep -c '(rule/label)'); b=$(lint --show-duplicates -c c.hcl lint with.yml | grep -c '(rule/label)')
[ "$a" = 4 ] && [ "$b" -lt 3 ]
