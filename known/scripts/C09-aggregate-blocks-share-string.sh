#!/bin/bash
# two aggregate blocks for different rule-name patterns and the same label in one rule block: the second check is never applied (String() omits the name pattern)
. "$(dirname "$0")/lib.sh"
hunt_probe C09 f3_aggregate_name_dedupe.sh
