#!/bin/bash
# the caret row pads a tab of the source line with one space: with `expr:<TAB>...` the carets are misaligned wherever the line is shown with the real tab
. "$(dirname "$0")/lib.sh"
out=$("$PINT" --no-color --offline -l error lint "$VERIF_ROOT/hunt/C06/second/inputs/tabs.yml" 2>&1 | grep -v "^level=")
echo "$out" | grep -q "$(printf "\t")" && ! echo "$out" | grep -A1 "$(printf "\t")" | grep "\\^" | grep -q "$(printf "\t")"
