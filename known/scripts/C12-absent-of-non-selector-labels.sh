#!/bin/bash
# absent(sum(foo{job="a"})) and on(job) sum(bar): absent() of something that is not a selector returns {} in Prometheus, pint gives it the labels of the selector buried inside and declares sum(bar) never matched
. "$(dirname "$0")/lib.sh"
printf -- "groups:\n- name: g\n  rules:\n  - record: r:a\n    expr: absent(sum(foo{job=\"a\"})) and on(job) sum(bar)\n" > r.yml
lint lint --enabled promql/impossible r.yml | grep -q "will never be matched"
