#!/bin/bash
# explicit YAML tags are trusted: `for: !!null 5m` passes pint (Prometheus: cannot decode !!str `5m` as a !!null)
. "$(dirname "$0")/lib.sh"
printf -- 'groups:\n- name: g\n  rules:\n  - alert: foo\n    expr: up\n    for: !!null 5m\n' > r.yml
out=$(lint lint r.yml); rc=$?
n=$(echo "$out" | grep -c -E '^(Fatal|Bug): ')
[ "$n" = 0 ] && [ $rc = 0 ]
