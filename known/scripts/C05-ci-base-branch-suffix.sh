#!/bin/bash
# `pint ci --base-branch release/v1` on a branch called v1 says "running from base branch" and checks nothing
. "$(dirname "$0")/lib.sh"
git init -q -b release/v1 . && printf 'groups: []\n' > ok.yml && git add -A && git commit -q -m base || exit 2
git checkout -q -b v1
printf 'groups:\n- name: g\n  rules:\n  - record: a:b\n    expr: sum(\n' > bad.yml; git add -A; git commit -q -m bad
"$PINT" --offline --no-color -l error ci --base-branch release/v1 >/dev/null 2>&1; a=$?
git branch -q -m v2
"$PINT" --offline --no-color -l error ci --base-branch release/v1 >/dev/null 2>&1; b=$?
[ "$a" = 0 ] && [ "$b" != 0 ]
