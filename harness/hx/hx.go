// Package hx is the shared plumbing of the correspondence harness: one PRNG, the op/impl
// line streams, case statistics, violation records and the summary written for ./check.
package hx

import (
	"bufio"
	"crypto/sha1"
	"encoding/hex"
	"encoding/json"
	"fmt"
	"math/rand"
	"os"
	"path/filepath"
	"sort"
	"strings"
)

type Violation struct {
	Class    string `json:"class"`    // stable id of the failing observable / call site
	Known    bool   `json:"known"`    // true when the generator tagged the case as inside a recorded exclusion class
	Input    any    `json:"input"`    // minimal concrete input / history
	Observed any    `json:"observed"` // what the real code did
	Expected any    `json:"expected"` // what the property demands
	Note     string `json:"note,omitempty"`
}

type Run struct {
	Prop   string
	Seed   int64
	N      int
	Tier   string
	OutDir string
	Rng    *rand.Rand

	ops  *bufio.Writer
	impl *bufio.Writer
	fo   *os.File
	fi   *os.File

	Ops         int
	Evaluations int
	distinct    map[string]struct{}
	Hist        map[string]int
	Samples     []any
	Violations  []Violation
	Notes       []string
	maxSamples  int
}

func New(prop string, seed int64, n int, tier, outDir string) *Run {
	if err := os.MkdirAll(outDir, 0o755); err != nil {
		panic(err)
	}
	fo, err := os.Create(filepath.Join(outDir, "ops.txt"))
	if err != nil {
		panic(err)
	}
	fi, err := os.Create(filepath.Join(outDir, "impl.txt"))
	if err != nil {
		panic(err)
	}
	return &Run{
		Prop: prop, Seed: seed, N: n, Tier: tier, OutDir: outDir,
		Rng: rand.New(rand.NewSource(seed)),
		ops: bufio.NewWriterSize(fo, 1<<20), impl: bufio.NewWriterSize(fi, 1<<20), fo: fo, fi: fi,
		distinct: map[string]struct{}{}, Hist: map[string]int{}, maxSamples: 5,
	}
}

// Op records one correspondence operation: the line sent to the Lean driver and the
// canonical answer of the real implementation.
func (r *Run) Op(op, implAnswer string) {
	if strings.ContainsAny(op, "\n") || strings.ContainsAny(implAnswer, "\n") {
		panic("newline in op line")
	}
	r.ops.WriteString(op)
	r.ops.WriteByte('\n')
	r.impl.WriteString(implAnswer)
	r.impl.WriteByte('\n')
	r.Ops++
}

// Stat sends an op to the Lean driver whose answer is tallied into the evidence (input statistics decided by
// the model, e.g. "does this real stream satisfy the theorem's hypotheses"), not compared with the implementation.
func (r *Run) Stat(op string) { r.Op(op, "STAT") }

// Case counts one evaluated case of the property observable. key identifies the case for the
// distinct count; nontrivial says whether it exercises the property by the check's stated rule.
func (r *Run) Case(key string, nontrivial bool) {
	r.Evaluations++
	if nontrivial {
		h := sha1.Sum([]byte(key))
		r.distinct[string(h[:8])] = struct{}{}
	}
}

// Begin records the input that is about to be evaluated in <out>/inflight.json, so that a crash of the whole process
// that recover() cannot stop (stack overflow, fatal runtime errors, a kill after a hang) is reported with the input that
// was running. The file is overwritten by the next Begin and removed by Close.
func (r *Run) Begin(input any) {
	b, err := json.Marshal(input)
	if err != nil {
		return
	}
	_ = os.WriteFile(filepath.Join(r.OutDir, "inflight.json"), b, 0o644)
}

func (r *Run) Count(bucket string)        { r.Hist[bucket]++ }
func (r *Run) CountN(bucket string, n int) { r.Hist[bucket] += n }

func (r *Run) Sample(s any) {
	if len(r.Samples) < r.maxSamples {
		r.Samples = append(r.Samples, s)
	}
}

func (r *Run) Violate(v Violation) {
	// keep at most 20 per class
	n := 0
	for _, x := range r.Violations {
		if x.Class == v.Class && x.Known == v.Known {
			n++
		}
	}
	r.Hist["violation:"+v.Class+map[bool]string{true: ":known", false: ""}[v.Known]]++
	if n < 20 {
		r.Violations = append(r.Violations, v)
	}
}

func (r *Run) Note(format string, a ...any) { r.Notes = append(r.Notes, fmt.Sprintf(format, a...)) }

type Summary struct {
	Prop               string         `json:"property_id"`
	Seed               int64          `json:"seed"`
	Tier               string         `json:"tier"`
	Ops                int            `json:"ops"`
	Evaluations        int            `json:"evaluations"`
	DistinctNontrivial int            `json:"distinct_nontrivial"`
	Hist               map[string]int `json:"histogram"`
	Samples            []any          `json:"samples"`
	Violations         []Violation    `json:"violations"`
	Notes              []string       `json:"notes"`
}

func (r *Run) Close() {
	_ = os.Remove(filepath.Join(r.OutDir, "inflight.json"))
	r.ops.Flush()
	r.impl.Flush()
	r.fo.Close()
	r.fi.Close()
	s := Summary{
		Prop: r.Prop, Seed: r.Seed, Tier: r.Tier, Ops: r.Ops, Evaluations: r.Evaluations,
		DistinctNontrivial: len(r.distinct), Hist: r.Hist, Samples: r.Samples, Violations: r.Violations, Notes: r.Notes,
	}
	if s.Samples == nil {
		s.Samples = []any{}
	}
	if s.Violations == nil {
		s.Violations = []Violation{}
	}
	b, err := json.MarshalIndent(s, "", " ")
	if err != nil {
		panic(err)
	}
	if err := os.WriteFile(filepath.Join(r.OutDir, "summary.json"), b, 0o644); err != nil {
		panic(err)
	}
}

// Hex encodes a string for the line protocol ("-" for empty).
func Hex(s string) string {
	if s == "" {
		return "-"
	}
	return hex.EncodeToString([]byte(s))
}

func HexList(ss []string, sep string) string {
	if len(ss) == 0 {
		return "-"
	}
	o := make([]string, len(ss))
	for i, s := range ss {
		o[i] = Hex(s)
	}
	return strings.Join(o, sep)
}

func B(b bool) string {
	if b {
		return "1"
	}
	return "0"
}

func Pick[T any](r *rand.Rand, xs []T) T { return xs[r.Intn(len(xs))] }

func SortedKeys[V any](m map[string]V) []string {
	k := make([]string, 0, len(m))
	for s := range m {
		k = append(k, s)
	}
	sort.Strings(k)
	return k
}
