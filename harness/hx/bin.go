package hx

import (
	"bytes"
	"context"
	"errors"
	"os"
	"os/exec"
	"time"
)

// PintBin is the pint binary built by ./check from /repo's working tree.
func PintBin() string {
	p := os.Getenv("PINT_BIN")
	if p == "" {
		panic("PINT_BIN not set")
	}
	return p
}

type ExecResult struct {
	Exit     int
	Stdout   string
	Stderr   string
	TimedOut bool
}

// RunCmd runs a command in dir with a timeout; exit -1 when it could not be started.
func RunCmd(dir string, timeout time.Duration, env []string, name string, args ...string) ExecResult {
	ctx, cancel := context.WithTimeout(context.Background(), timeout)
	defer cancel()
	cmd := exec.CommandContext(ctx, name, args...)
	cmd.Dir = dir
	cmd.Env = append(os.Environ(), env...)
	var so, se bytes.Buffer
	cmd.Stdout, cmd.Stderr = &so, &se
	err := cmd.Run()
	res := ExecResult{Stdout: so.String(), Stderr: se.String()}
	if ctx.Err() == context.DeadlineExceeded {
		res.TimedOut = true
		res.Exit = -2
		return res
	}
	var ee *exec.ExitError
	switch {
	case err == nil:
		res.Exit = 0
	case errors.As(err, &ee):
		res.Exit = ee.ExitCode()
	default:
		res.Exit = -1
		res.Stderr += err.Error()
	}
	return res
}

// Git runs git in dir with a fixed identity and no user config.
func Git(dir string, args ...string) ExecResult {
	env := []string{"GIT_CONFIG_GLOBAL=/dev/null", "GIT_CONFIG_SYSTEM=/dev/null", "GIT_AUTHOR_NAME=v", "GIT_AUTHOR_EMAIL=v@example.com",
		"GIT_COMMITTER_NAME=v", "GIT_COMMITTER_EMAIL=v@example.com", "GIT_AUTHOR_DATE=2024-01-01T00:00:00Z", "GIT_COMMITTER_DATE=2024-01-01T00:00:00Z"}
	return RunCmd(dir, 30*time.Second, env, "git", args...)
}
