// Package pipe is the in-process lint pipeline of the harness: the same calls cmd/pint makes
// (config.Load, readRules, GetChecksForEntry, Check, Summary.Report/SortReports/Dedup), run
// sequentially so that a panic can be attributed to one (entry, check) pair.
package pipe

import (
	"context"
	"fmt"
	"os"
	"path/filepath"
	"regexp"
	"runtime/debug"
	"sort"
	"strings"

	"github.com/prometheus/client_golang/prometheus"
	"github.com/prometheus/common/model"

	"github.com/cloudflare/pint/internal/checks"
	"github.com/cloudflare/pint/internal/config"
	"github.com/cloudflare/pint/internal/diags"
	"github.com/cloudflare/pint/internal/discovery"
	"github.com/cloudflare/pint/internal/parser"
	"github.com/cloudflare/pint/internal/reporter"
)

type Options struct {
	Strict   bool
	Schema   parser.Schema
	Command  config.ContextCommandVal // config.LintCommand by default
	Offline  bool
	Disabled []string // --disabled
	Enabled  []string // --enabled
	State    *discovery.ChangeType // when set, every parsed entry gets this change state (as `pint ci` would assign it)
}

// LoadConfig writes the HCL text into dir and loads it with config.Load. An empty text means
// "no config file" (defaults).
func LoadConfig(dir, text string) (config.Config, error) {
	path := filepath.Join(dir, ".pint.hcl")
	if text == "" {
		_ = os.Remove(path)
		cfg, _, err := config.Load(path, false)
		return cfg, err
	}
	if err := os.WriteFile(path, []byte(text), 0o644); err != nil {
		return config.Config{}, err
	}
	cfg, _, err := config.Load(path, true)
	return cfg, err
}

// ApplyFlags does what cmd/pint/main.go actionSetup does with --disabled / --enabled / --offline, through the same
// config methods; an --enabled value that names no check is an error there and a panic here (callers recover).
func ApplyFlags(cfg *config.Config, o Options) {
	cfg.SetDisabledChecks(o.Disabled)
	if len(o.Enabled) > 0 {
		// through the method when the tree has it (a tree without it assigns the raw values, as main.go then does; the
		// binary probes in C08 observe main.go itself)
		if se, ok := any(cfg).(interface{ SetEnabledChecks([]string) error }); ok {
			if err := se.SetEnabledChecks(o.Enabled); err != nil {
				panic("invalid --enabled value: " + err.Error())
			}
		} else {
			cfg.Checks.Enabled = o.Enabled
		}
	}
	if o.Offline {
		cfg.DisableOnlineChecks()
	}
}

type Result struct {
	Entries []discovery.Entry
	Raw     []reporter.Report // every report in production order, before Summary.Report de-duplication
	RawJob  []int             // for each Raw report, the index of the (entry, check) job that produced it
	Reports []reporter.Report
	Panic   string // non-empty when something panicked; holds value + stack
}

// Entries parses one file exactly like GlobFinder.Find.
func Entries(path string, content []byte, o Options) (entries []discovery.Entry, panicked string) {
	defer func() {
		if r := recover(); r != nil {
			panicked = fmt.Sprintf("%v\n%s", r, debug.Stack())
		}
	}()
	var err error
	entries, err = discovery.VerifReadRules(path, content, o.Strict, o.Schema, model.UTF8Validation, []*regexp.Regexp{})
	if err != nil {
		panicked = "readRules error: " + err.Error()
	}
	return entries, panicked
}

// Check runs every check GetChecksForEntry selects for every entry, sequentially.
func Check(cfg config.Config, entries []discovery.Entry, o Options) (res Result) {
	res.Entries = entries
	ctx := context.Background()
	cmd := o.Command
	if cmd == "" {
		cmd = config.LintCommand
	}
	ctx = context.WithValue(ctx, config.CommandKey, cmd)
	gen := config.NewPrometheusGenerator(cfg, prometheus.NewRegistry())
	defer gen.Stop()
	defer func() {
		if r := recover(); r != nil {
			res.Panic = fmt.Sprintf("%v\n%s", r, debug.Stack())
		}
	}()
	if err := gen.GenerateStatic(); err != nil {
		res.Panic = "GenerateStatic: " + err.Error()
		return res
	}
	for _, s := range cfg.Check {
		settings, _ := s.Decode()
		ctx = context.WithValue(ctx, checks.SettingsKey(s.Name), settings)
	}
	var summary reporter.Summary
	job := 0
	for _, entry := range entries {
		switch {
		case entry.PathError != nil && entry.State == discovery.Removed:
			continue
		case entry.Rule.Error.Err != nil && entry.State == discovery.Removed:
			continue
		}
		for _, check := range cfg.GetChecksForEntry(ctx, gen, entry) {
			job++
			for _, problem := range check.Check(ctx, entry, entries) {
				rep := reporter.Report{
					Path:          entry.Path,
					ModifiedLines: entry.ModifiedLines,
					Rule:          entry.Rule,
					Problem:       problem,
					Owner:         entry.Owner,
				}
				res.Raw = append(res.Raw, rep)
				res.RawJob = append(res.RawJob, job)
				summary.Report(rep)
			}
		}
	}
	summary.SortReports()
	res.Reports = summary.Reports()
	return res
}

// Lint = Entries + Check for a single in-memory file.
func Lint(cfg config.Config, path string, content []byte, o Options) Result {
	entries, p := Entries(path, content, o)
	if p != "" {
		return Result{Panic: p}
	}
	if o.State != nil {
		for i := range entries {
			entries[i].State = *o.State
		}
	}
	return Check(cfg, entries, o)
}

// ReportKey is a canonical rendering of one report: path, rule name, reporter, severity, summary,
// problem lines and every diagnostic (message, positions, columns). shift is subtracted from
// line numbers > after (to compare runs that differ by inserted lines).
func ReportKey(r reporter.Report, after, shift int) string {
	sh := func(l int) int {
		if l > after {
			return l - shift
		}
		return l
	}
	var sb strings.Builder
	fmt.Fprintf(&sb, "%s|%s|%s|%s|%s|%q|%d-%d|%s", r.Path.Name, r.Owner, r.Rule.Name(), r.Problem.Reporter, r.Problem.Severity, r.Problem.Summary,
		sh(r.Problem.Lines.First), sh(r.Problem.Lines.Last), r.Problem.Details)
	for _, d := range r.Problem.Diagnostics {
		fmt.Fprintf(&sb, "|D:%q:%d:%d", d.Message, d.FirstColumn, d.LastColumn)
		for _, p := range d.Pos {
			fmt.Fprintf(&sb, "[%d:%d-%d]", sh(p.Line), p.FirstColumn, p.LastColumn)
		}
	}
	return sb.String()
}

func ReportKeys(rs []reporter.Report, after, shift int) []string {
	out := make([]string, 0, len(rs))
	for _, r := range rs {
		out = append(out, ReportKey(r, after, shift))
	}
	sort.Strings(out)
	return out
}

// RuleKey renders the parsed content of an entry's rule: kind, name, expr, line range, positions.
func RuleKey(e discovery.Entry, after, shift int) string {
	sh := func(l int) int {
		if l > after {
			return l - shift
		}
		return l
	}
	var sb strings.Builder
	if e.PathError != nil {
		fmt.Fprintf(&sb, "PATHERR:%s", e.PathError.Error())
		return sb.String()
	}
	r := e.Rule
	fmt.Fprintf(&sb, "%s|%s|%d-%d|owner=%s|disabled=%v", r.Type(), r.Name(), sh(r.Lines.First), sh(r.Lines.Last), e.Owner, e.DisabledChecks)
	if r.Error.Err != nil {
		fmt.Fprintf(&sb, "|ERR:%s@%d", r.Error.Err.Error(), sh(r.Error.Line))
		return sb.String()
	}
	pos := func(p diags.PositionRanges) string {
		var s strings.Builder
		for _, x := range p {
			fmt.Fprintf(&s, "[%d:%d-%d]", sh(x.Line), x.FirstColumn, x.LastColumn)
		}
		return s.String()
	}
	ex := r.Expr()
	fmt.Fprintf(&sb, "|expr=%q%s", ex.Value.Value, pos(ex.Value.Pos))
	for _, c := range r.Comments {
		fmt.Fprintf(&sb, "|c:%d:%v", c.Type, c.Value)
	}
	return sb.String()
}
