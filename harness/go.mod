module github.com/cloudflare/pint/verifharness

go 1.24.0

require github.com/cloudflare/pint v0.0.0

require (
	github.com/cespare/xxhash/v2 v2.3.0
	github.com/gkampitakis/go-snaps v0.5.11
	github.com/google/go-cmp v0.7.0
	github.com/google/go-github/v71 v71.0.0
	github.com/hashicorp/hcl/v2 v2.23.0
	github.com/klauspost/compress v1.18.0
	github.com/neilotoole/slogt v1.1.0
	github.com/prometheus/client_golang v1.22.0
	github.com/prometheus/client_model v0.6.2
	github.com/prometheus/common v0.62.0
	github.com/prometheus/prometheus v0.303.0
	github.com/prymitive/current v0.1.1
	github.com/rogpeppe/go-internal v1.14.1
	github.com/stretchr/testify v1.10.0
	github.com/urfave/cli/v3 v3.1.1
	github.com/zclconf/go-cty v1.16.2
	gitlab.com/gitlab-org/api/client-go v0.127.0
	go.uber.org/automaxprocs v1.6.0
	go.uber.org/ratelimit v0.3.1
	golang.org/x/oauth2 v0.29.0
	gopkg.in/yaml.v3 v3.0.1
)
require (
	github.com/agext/levenshtein v1.2.1 // indirect
	github.com/apparentlymart/go-textseg/v15 v15.0.0 // indirect
	github.com/benbjohnson/clock v1.3.0 // indirect
	github.com/beorn7/perks v1.0.1 // indirect
	github.com/davecgh/go-spew v1.1.2-0.20180830191138-d8f796af33cc // indirect
	github.com/dennwc/varint v1.0.0 // indirect
	github.com/edsrzf/mmap-go v1.2.0 // indirect
	github.com/facette/natsort v0.0.0-20181210072756-2cd4dd1e2dcb // indirect
	github.com/fatih/color v1.18.0 // indirect
	github.com/gkampitakis/ciinfo v0.3.1 // indirect
	github.com/gkampitakis/go-diff v1.3.2 // indirect
	github.com/go-logr/logr v1.4.2 // indirect
	github.com/go-logr/stdr v1.2.2 // indirect
	github.com/goccy/go-yaml v1.15.13 // indirect
	github.com/gogo/protobuf v1.3.2 // indirect
	github.com/google/go-querystring v1.1.0 // indirect
	github.com/grafana/regexp v0.0.0-20240518133315-a468a5bfb3bc // indirect
	github.com/hashicorp/go-cleanhttp v0.5.2 // indirect
	github.com/hashicorp/go-retryablehttp v0.7.7 // indirect
	github.com/json-iterator/go v1.1.12 // indirect
	github.com/kr/pretty v0.3.1 // indirect
	github.com/kr/text v0.2.0 // indirect
	github.com/kylelemons/godebug v1.1.0 // indirect
	github.com/maruel/natural v1.1.1 // indirect
	github.com/mitchellh/go-wordwrap v0.0.0-20150314170334-ad45545899c7 // indirect
	github.com/modern-go/concurrent v0.0.0-20180306012644-bacd9c7ef1dd // indirect
	github.com/modern-go/reflect2 v1.0.2 // indirect
	github.com/munnerz/goautoneg v0.0.0-20191010083416-a7dc8b61c822 // indirect
	github.com/pmezard/go-difflib v1.0.1-0.20181226105442-5d4384ee4fb2 // indirect
	github.com/prometheus/procfs v0.15.1 // indirect
	github.com/tidwall/gjson v1.18.0 // indirect
	github.com/tidwall/match v1.1.1 // indirect
	github.com/tidwall/pretty v1.2.1 // indirect
	github.com/tidwall/sjson v1.2.5 // indirect
	go.opentelemetry.io/auto/sdk v1.1.0 // indirect
	go.opentelemetry.io/otel v1.35.0 // indirect
	go.opentelemetry.io/otel/metric v1.35.0 // indirect
	go.opentelemetry.io/otel/trace v1.35.0 // indirect
	go.uber.org/atomic v1.11.0 // indirect
	golang.org/x/mod v0.23.0 // indirect
	golang.org/x/sync v0.12.0 // indirect
	golang.org/x/sys v0.30.0 // indirect
	golang.org/x/text v0.23.0 // indirect
	golang.org/x/time v0.10.0 // indirect
	golang.org/x/tools v0.30.0 // indirect
	google.golang.org/protobuf v1.36.6 // indirect
)

replace github.com/cloudflare/pint => /repo
