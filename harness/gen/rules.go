// Package gen holds the structure-aware generators shared by several properties.
package gen

import (
	"fmt"
	"math/rand"
	"strings"
)

// RuleSpec is one generated Prometheus rule; the generator knows its shape.
type RuleSpec struct {
	Alert       bool
	Name        string
	Expr        string
	For         string
	KeepFiring  string
	Labels      [][2]string
	Annotations [][2]string
	Comments    []string // full-line comments placed directly above the rule
}

var MetricNames = []string{"up", "foo", "bar", "http_requests_total", "node_cpu_seconds_total", "job:foo:rate5m"}
var LabelNames = []string{"job", "instance", "env", "cluster", "severity"}
var AlertNames = []string{"HighErrors", "Down", "Foo_Alert", "DiskFull", "Down_Extra"}
var RecordNames = []string{"job:foo:rate5m", "job:up:sum", "instance:bar:avg", "foo:sum"}

// Exprs: mostly valid PromQL, some of which trigger offline checks, a few invalid.
var Exprs = []string{
	"up == 0",
	"sum(foo) by (job)",
	"sum by (job) (rate(http_requests_total[5m]))",
	"rate(http_requests_total[5m]) > 10",
	"foo{job=\"a\"} / bar{job=\"a\"}",
	"sum(foo) without (instance) > 5",
	"count(up) by (instance) == 0",
	"foo and on(job) bar",
	"absent(up{job=\"x\"})",
	"sum(rate(node_cpu_seconds_total[2m])) by (cluster)",
	"vector(1)",
	"foo{job=~\".+\"}",
	"sum(foo) by (", // syntax error
	"foo ==",        // syntax error
	"up{job=\"a\", job=\"b\"}",
	"sum(sum(foo) by (job)) by (instance)",
	"foo > 0 or bar > 0",
}

var Durations = []string{"", "1m", "5m", "0s", "1h", "abc", "2m30s"}

var TemplateValues = []string{
	"static text",
	"{{ $labels.job }} is down",
	"{{ $labels.instance }} on {{ $labels.env }}",
	"value {{ $value }}",
	"{{ $value | humanize }}",
	"{{ .Labels.cluster }}",
	"{{ $labels.job",   // template syntax error
	"{{ nofunc 1 }}",   // unknown function
}

func RandRule(r *rand.Rand) RuleSpec {
	rs := RuleSpec{Alert: r.Intn(2) == 0}
	if rs.Alert {
		rs.Name = AlertNames[r.Intn(len(AlertNames))]
		rs.For = Durations[r.Intn(len(Durations))]
		if r.Intn(4) == 0 {
			rs.KeepFiring = Durations[r.Intn(len(Durations))]
		}
		for i, n := 0, r.Intn(3); i < n; i++ {
			rs.Annotations = append(rs.Annotations, [2]string{[]string{"summary", "description", "dashboard"}[i], TemplateValues[r.Intn(len(TemplateValues))]})
		}
	} else {
		rs.Name = RecordNames[r.Intn(len(RecordNames))]
	}
	rs.Expr = Exprs[r.Intn(len(Exprs))]
	for i, n := 0, r.Intn(3); i < n; i++ {
		v := []string{"a", "b", "critical", "{{ $labels.job }}"}[r.Intn(4)]
		rs.Labels = append(rs.Labels, [2]string{LabelNames[(r.Intn(len(LabelNames))+i)%len(LabelNames)], v})
	}
	return rs
}

func q(s string) string {
	return "'" + strings.ReplaceAll(s, "'", "''") + "'"
}

// Lines renders the rule as YAML lines at the given indentation ("- " item inside a rules list).
func (rs RuleSpec) Lines(indent string) []string {
	var out []string
	for _, c := range rs.Comments {
		out = append(out, indent+c)
	}
	key := "record"
	if rs.Alert {
		key = "alert"
	}
	out = append(out, fmt.Sprintf("%s- %s: %s", indent, key, rs.Name))
	in := indent + "  "
	out = append(out, fmt.Sprintf("%sexpr: %s", in, q(rs.Expr)))
	if rs.For != "" {
		out = append(out, fmt.Sprintf("%sfor: %s", in, rs.For))
	}
	if rs.KeepFiring != "" {
		out = append(out, fmt.Sprintf("%skeep_firing_for: %s", in, rs.KeepFiring))
	}
	if len(rs.Labels) > 0 {
		out = append(out, in+"labels:")
		seen := map[string]bool{}
		for _, l := range rs.Labels {
			if seen[l[0]] {
				continue
			}
			seen[l[0]] = true
			out = append(out, fmt.Sprintf("%s  %s: %s", in, l[0], q(l[1])))
		}
	}
	if len(rs.Annotations) > 0 {
		out = append(out, in+"annotations:")
		for _, l := range rs.Annotations {
			out = append(out, fmt.Sprintf("%s  %s: %s", in, l[0], q(l[1])))
		}
	}
	return out
}

// GroupFile renders strict-mode file lines for groups of rules; returns the lines and, for every
// rule, the index (0-based) of its first line (the "- alert:" / "- record:" line or its first comment).
func GroupFile(groups [][]RuleSpec) (lines []string, ruleStart []int) {
	lines = append(lines, "groups:")
	for gi, g := range groups {
		lines = append(lines, fmt.Sprintf("- name: group%d", gi))
		lines = append(lines, "  rules:")
		for _, rs := range g {
			ruleStart = append(ruleStart, len(lines))
			lines = append(lines, rs.Lines("  ")...)
		}
	}
	return lines, ruleStart
}

func RandGroups(r *rand.Rand, maxGroups, maxRules int) [][]RuleSpec {
	ng := 1 + r.Intn(maxGroups)
	gs := make([][]RuleSpec, ng)
	for i := range gs {
		nr := 1 + r.Intn(maxRules)
		for j := 0; j < nr; j++ {
			gs[i] = append(gs[i], RandRule(r))
		}
	}
	return gs
}
