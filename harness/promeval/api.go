package promeval

import (
	"context"
	"encoding/json"
	"fmt"
	"net/http"
	"strconv"
	"sync"
	"time"

	"github.com/prometheus/prometheus/promql"
)

// API serves the Prometheus HTTP endpoints pint uses from an in-memory DB through the real engine.
type API struct {
	DB      *DB
	mu      sync.Mutex
	Queries []string // every query / query_range expression asked, in order
}

func (a *API) note(q string) {
	a.mu.Lock()
	a.Queries = append(a.Queries, q)
	a.mu.Unlock()
}

func parseTime(s string, def time.Time) time.Time {
	if s == "" {
		return def
	}
	f, err := strconv.ParseFloat(s, 64)
	if err != nil {
		return def
	}
	return time.Unix(0, int64(f*1e9)).UTC()
}

func writeErr(w http.ResponseWriter, code int, typ, msg string) {
	w.Header().Set("Content-Type", "application/json")
	w.WriteHeader(code)
	_ = json.NewEncoder(w).Encode(map[string]any{"status": "error", "errorType": typ, "error": msg})
}

func (a *API) ServeHTTP(w http.ResponseWriter, r *http.Request) {
	_ = r.ParseForm()
	w.Header().Set("Content-Type", "application/json")
	switch r.URL.Path {
	case "/api/v1/query":
		q := r.Form.Get("query")
		a.note("instant " + q)
		ts := parseTime(r.Form.Get("time"), time.Now().UTC())
		qry, err := engine.NewInstantQuery(context.Background(), a.DB, nil, q, ts)
		if err != nil {
			writeErr(w, 400, "bad_data", err.Error())
			return
		}
		defer qry.Close()
		res := qry.Exec(context.Background())
		if res.Err != nil {
			writeErr(w, 422, "execution", res.Err.Error())
			return
		}
		out := []any{}
		switch v := res.Value.(type) {
		case promql.Vector:
			for _, s := range v {
				out = append(out, map[string]any{"metric": s.Metric.Map(), "value": []any{float64(s.T) / 1000, strconv.FormatFloat(s.F, 'f', -1, 64)}})
			}
		case promql.Scalar:
			out = append(out, map[string]any{"metric": map[string]string{}, "value": []any{float64(v.T) / 1000, strconv.FormatFloat(v.V, 'f', -1, 64)}})
		}
		_ = json.NewEncoder(w).Encode(map[string]any{"status": "success", "data": map[string]any{"resultType": "vector", "result": out}})
	case "/api/v1/query_range":
		q := r.Form.Get("query")
		start := parseTime(r.Form.Get("start"), time.Now())
		end := parseTime(r.Form.Get("end"), time.Now())
		stepF, _ := strconv.ParseFloat(r.Form.Get("step"), 64)
		step := time.Duration(stepF * float64(time.Second))
		if step <= 0 {
			writeErr(w, 400, "bad_data", "zero step")
			return
		}
		a.note(fmt.Sprintf("range %s", q))
		qry, err := engine.NewRangeQuery(context.Background(), a.DB, nil, q, start, end, step)
		if err != nil {
			writeErr(w, 400, "bad_data", err.Error())
			return
		}
		defer qry.Close()
		res := qry.Exec(context.Background())
		if res.Err != nil {
			writeErr(w, 422, "execution", res.Err.Error())
			return
		}
		out := []any{}
		if m, ok := res.Value.(promql.Matrix); ok {
			for _, s := range m {
				vals := []any{}
				for _, p := range s.Floats {
					vals = append(vals, []any{float64(p.T) / 1000, strconv.FormatFloat(p.F, 'f', -1, 64)})
				}
				out = append(out, map[string]any{"metric": s.Metric.Map(), "values": vals})
			}
		}
		_ = json.NewEncoder(w).Encode(map[string]any{"status": "success", "data": map[string]any{"resultType": "matrix", "result": out}})
	case "/api/v1/status/config":
		_ = json.NewEncoder(w).Encode(map[string]any{"status": "success", "data": map[string]any{"yaml": "global:\n  scrape_interval: 30s\n"}})
	case "/api/v1/status/flags":
		_ = json.NewEncoder(w).Encode(map[string]any{"status": "success", "data": map[string]string{"storage.tsdb.retention.time": "15d"}})
	case "/api/v1/metadata":
		_ = json.NewEncoder(w).Encode(map[string]any{"status": "success", "data": map[string]any{}})
	default:
		writeErr(w, 404, "not_found", r.URL.Path)
	}
}
