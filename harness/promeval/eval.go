// Package promeval evaluates PromQL with the vendored Prometheus engine over a hand-written in-memory storage.
package promeval

import (
	"context"
	"sort"
	"time"

	"github.com/prometheus/prometheus/model/histogram"
	"github.com/prometheus/prometheus/model/labels"
	"github.com/prometheus/prometheus/promql"
	"github.com/prometheus/prometheus/storage"
	"github.com/prometheus/prometheus/tsdb/chunkenc"
	"github.com/prometheus/prometheus/util/annotations"
)

// Series is one time series with samples at fixed timestamps (ms).
type Series struct {
	Labels  labels.Labels
	Samples []Sample
}

type Sample struct {
	T int64
	V float64
}

type DB struct{ Series []Series }

func (db *DB) Querier(mint, maxt int64) (storage.Querier, error) {
	return &querier{db: db, mint: mint, maxt: maxt}, nil
}

type querier struct {
	db         *DB
	mint, maxt int64
}

func (q *querier) Select(_ context.Context, sortSeries bool, _ *storage.SelectHints, ms ...*labels.Matcher) storage.SeriesSet {
	var out []storage.Series
	for i := range q.db.Series {
		s := &q.db.Series[i]
		ok := true
		for _, m := range ms {
			if !m.Matches(s.Labels.Get(m.Name)) {
				ok = false
				break
			}
		}
		if ok {
			out = append(out, &series{s: s})
		}
	}
	if sortSeries {
		sort.Slice(out, func(i, j int) bool { return labels.Compare(out[i].Labels(), out[j].Labels()) < 0 })
	}
	return &seriesSet{s: out, i: -1}
}

func (q *querier) LabelValues(context.Context, string, *storage.LabelHints, ...*labels.Matcher) ([]string, annotations.Annotations, error) {
	return nil, nil, nil
}

func (q *querier) LabelNames(context.Context, *storage.LabelHints, ...*labels.Matcher) ([]string, annotations.Annotations, error) {
	return nil, nil, nil
}
func (q *querier) Close() error { return nil }

type seriesSet struct {
	s []storage.Series
	i int
}

func (s *seriesSet) Next() bool                        { s.i++; return s.i < len(s.s) }
func (s *seriesSet) At() storage.Series                { return s.s[s.i] }
func (s *seriesSet) Err() error                        { return nil }
func (s *seriesSet) Warnings() annotations.Annotations { return nil }

type series struct{ s *Series }

func (s *series) Labels() labels.Labels { return s.s.Labels }
func (s *series) Iterator(chunkenc.Iterator) chunkenc.Iterator {
	return &iter{s: s.s.Samples, i: -1}
}

type iter struct {
	s []Sample
	i int
}

func (it *iter) Next() chunkenc.ValueType {
	it.i++
	if it.i < len(it.s) {
		return chunkenc.ValFloat
	}
	return chunkenc.ValNone
}

func (it *iter) Seek(t int64) chunkenc.ValueType {
	if it.i < 0 {
		it.i = 0
	}
	for it.i < len(it.s) && it.s[it.i].T < t {
		it.i++
	}
	if it.i < len(it.s) {
		return chunkenc.ValFloat
	}
	return chunkenc.ValNone
}
func (it *iter) At() (int64, float64) { return it.s[it.i].T, it.s[it.i].V }
func (it *iter) AtHistogram(*histogram.Histogram) (int64, *histogram.Histogram) {
	return 0, nil
}

func (it *iter) AtFloatHistogram(*histogram.FloatHistogram) (int64, *histogram.FloatHistogram) {
	return 0, nil
}
func (it *iter) AtT() int64 { return it.s[it.i].T }
func (it *iter) Err() error { return nil }

var engine = promql.NewEngine(promql.EngineOpts{
	MaxSamples:    1000000,
	Timeout:       10 * time.Second,
	LookbackDelta: 5 * time.Minute,
})

// Instant evaluates expr at ts and returns the label sets of the result (vector, or matrix flattened; a scalar gives one
// empty label set).
func Instant(db *DB, expr string, ts time.Time) ([]labels.Labels, []float64, error) {
	q, err := engine.NewInstantQuery(context.Background(), db, nil, expr, ts)
	if err != nil {
		return nil, nil, err
	}
	defer q.Close()
	res := q.Exec(context.Background())
	if res.Err != nil {
		return nil, nil, res.Err
	}
	var out []labels.Labels
	var vals []float64
	switch v := res.Value.(type) {
	case promql.Vector:
		for _, s := range v {
			out = append(out, s.Metric)
			vals = append(vals, s.F)
		}
	case promql.Matrix:
		for _, s := range v {
			out = append(out, s.Metric)
			vals = append(vals, 0)
		}
	case promql.Scalar:
		out = append(out, labels.EmptyLabels())
		vals = append(vals, v.V)
	}
	return out, vals, nil
}
