package main

import (
	"encoding/json"
	"fmt"
	"hash/fnv"
	"os"
	"path/filepath"
	"regexp"
	"sort"
	"strings"
	"time"

	"github.com/cloudflare/pint/internal/git"
	"github.com/cloudflare/pint/verifharness/hx"
)

func init() { props["C03"] = runC03 }

type c03Rule struct {
	Alert    bool     `json:"alert"`
	Name     string   `json:"name"`
	Expr     string   `json:"expr"`
	For      string   `json:"for,omitempty"`
	Label    string   `json:"label,omitempty"`
	Comments []string `json:"comments,omitempty"` // control comments attached above the rule
	Blank    int      `json:"blank_lines_before"` // cosmetic
	Note     string   `json:"plain_comment,omitempty"`
}

func (a c03Rule) sameContent(b c03Rule) bool {
	return a.Alert == b.Alert && a.Name == b.Name && a.Expr == b.Expr && a.For == b.For && a.Label == b.Label && fmt.Sprint(a.Comments) == fmt.Sprint(b.Comments)
}

type c03File struct {
	ID    int       `json:"id"` // identity across renames
	Path  string    `json:"path"`
	Rules []c03Rule `json:"rules"`
	FileC []string  `json:"file_comments,omitempty"`
	Broken bool     `json:"has_invalid_rule,omitempty"`
	GroupLabel string `json:"group_label,omitempty"` // `labels: {tier: X}` on the group: a label of every rule in it
}

// the file-level comments as the set they are: the order of `# pint file/disable` lines is not content
func (f c03File) fileCKey() string {
	c := append([]string{}, f.FileC...)
	sort.Strings(c)
	return fmt.Sprint(c) + "|" + f.GroupLabel
}

type c03Tree []c03File

func (t c03Tree) clone() c03Tree {
	out := make(c03Tree, len(t))
	for i, f := range t {
		out[i] = f
		out[i].Rules = append([]c03Rule{}, f.Rules...)
		for j := range out[i].Rules {
			out[i].Rules[j].Comments = append([]string{}, f.Rules[j].Comments...)
		}
		out[i].FileC = append([]string{}, f.FileC...)
	}
	return out
}

func (f c03File) render() string {
	var sb strings.Builder
	for _, c := range f.FileC {
		sb.WriteString(c + "\n")
	}
	// a file under rules/relaxed/ is written the way only the relaxed parser reads: a bare list of rules
	ind := "  "
	if strings.HasPrefix(f.Path, "rules/relaxed/") {
		ind = ""
	} else {
		sb.WriteString("groups:\n- name: g\n")
		if f.GroupLabel != "" {
			sb.WriteString("  labels:\n    tier: " + f.GroupLabel + "\n")
		}
		sb.WriteString("  rules:\n")
	}
	for _, r := range f.Rules {
		for i := 0; i < r.Blank; i++ {
			sb.WriteString("\n")
		}
		if r.Note != "" {
			sb.WriteString(ind + "# " + r.Note + "\n")
		}
		for _, c := range r.Comments {
			sb.WriteString(ind + c + "\n")
		}
		if r.Alert {
			fmt.Fprintf(&sb, "%s- alert: %s\n%s  expr: %s\n", ind, r.Name, ind, r.Expr)
			if r.For != "" {
				fmt.Fprintf(&sb, "%s  for: %s\n", ind, r.For)
			}
		} else {
			fmt.Fprintf(&sb, "%s- record: %s\n%s  expr: %s\n", ind, r.Name, ind, r.Expr)
		}
		if r.Label != "" {
			fmt.Fprintf(&sb, "%s  labels:\n%s    team: %s\n", ind, ind, r.Label)
		}
	}
	if f.Broken && ind != "" {
		// a rule that does not parse (no expr), never edited: outside the reference, it may be listed at most once
		sb.WriteString("  - alert: NoExprZZ\n    for: 5m\n")
	}
	return sb.String()
}

type c03Case struct {
	Base       c03Tree   `json:"base"`
	Commits    []c03Tree `json:"commits"` // tree after every branch commit
	Ops        []string  `json:"ops"`     // what each commit did (for humans)
	BaseMoves  bool      `json:"base_branch_advances"`
	MainCommit c03Tree   `json:"main_after,omitempty"`
}

var c03Exprs = []string{"up == 0", "sum(foo) by (job)", "rate(bar[5m]) > 1", "foo / bar", "count(up) by (job) > 2", "absent(up)", "sum(rate(baz_total[2m]))"}

func c03RandRule(r *hx.Run, used map[string]bool) c03Rule {
	rr := r.Rng
	for {
		ru := c03Rule{Alert: rr.Intn(2) == 0, Expr: hx.Pick(rr, c03Exprs)}
		if ru.Alert {
			ru.Name = hx.Pick(rr, []string{"Down", "HighErrors", "DiskFull", "Slow", "Flapping"})
			ru.For = hx.Pick(rr, []string{"", "5m", "1m"})
		} else {
			ru.Name = hx.Pick(rr, []string{"job:up:sum", "job:foo:rate5m", "instance:bar:avg", "foo:sum", "baz:rate2m"})
		}
		k := fmt.Sprintf("%v|%s", ru.Alert, ru.Name)
		if used[k] && (!ru.Alert || rr.Intn(3) != 0) {
			continue
		}
		if used[k] {
			// a second alert of the same name (a warning/critical pair): it must differ in content
			ru.Label = hx.Pick(rr, []string{"warning", "critical", "page"})
			ru.For = hx.Pick(rr, []string{"2m", "10m", "15m"})
		}
		used[k] = true
		if rr.Intn(3) == 0 {
			ru.Label = hx.Pick(rr, []string{"a", "b"})
		}
		return ru
	}
}

func c03Used(f c03File) map[string]bool {
	u := map[string]bool{}
	for _, r := range f.Rules {
		u[fmt.Sprintf("%v|%s", r.Alert, r.Name)] = true
	}
	return u
}

// one random edit of the tree; returns a description
func c03Op(r *hx.Run, t *c03Tree, nextID *int, base c03Tree) string {
	rr := r.Rng
	tree := *t
	var free []string // base paths not in use now
	for _, f := range base {
		if _, taken := tree.byPath(f.Path); !taken {
			free = append(free, f.Path)
		}
	}
	pickFile := func() int {
		if len(tree) == 0 {
			return -1
		}
		return rr.Intn(len(tree))
	}
	switch rr.Intn(16) {
	case 15: // the last rule of a file loses its trailing field: the only difference is lines deleted at the end of the file,
		// which a blame of the new file cannot see (seeded change C03-no-modified-lines-means-noop)
		if i := pickFile(); i >= 0 && len(tree[i].Rules) > 0 && !tree[i].Broken {
			k := len(tree[i].Rules) - 1
			switch {
			case tree[i].Rules[k].Label != "":
				tree[i].Rules[k].Label = ""
				return "drop the labels at the end of " + tree[i].Path
			case tree[i].Rules[k].For != "":
				tree[i].Rules[k].For = ""
				return "drop the for at the end of " + tree[i].Path
			}
		}
	case 14: // labels of the group: every rule of the file gets another label set
		if i := pickFile(); i >= 0 && !strings.HasPrefix(tree[i].Path, "rules/relaxed/") {
			tree[i].GroupLabel = hx.Pick(rr, []string{"", "one", "two"})
			return "group labels of " + tree[i].Path
		}
	case 0: // add file
		f := c03File{ID: *nextID, Path: fmt.Sprintf("rules/f%d.yml", *nextID)}
		if rr.Intn(4) == 0 {
			f.Path = fmt.Sprintf("rules/relaxed/f%d.yml", *nextID)
		} else if rr.Intn(4) == 0 {
			f.Path = fmt.Sprintf("rules/règles zażółć %d.yml", *nextID) // git prints such names quoted
		}
		*nextID++
		u := map[string]bool{}
		for i, n := 0, 1+rr.Intn(3); i < n; i++ {
			f.Rules = append(f.Rules, c03RandRule(r, u))
		}
		*t = append(tree, f)
		return "add file " + f.Path
	case 1: // delete file
		if i := pickFile(); i >= 0 {
			p := tree[i].Path
			*t = append(tree[:i:i], tree[i+1:]...)
			return "delete file " + p
		}
	case 2: // rename file (pure)
		if i := pickFile(); i >= 0 {
			old := tree[i].Path
			tree[i].Path = fmt.Sprintf("rules/moved%d_%d.yml", tree[i].ID, rr.Intn(1000))
			if rr.Intn(5) == 0 && !tree[i].Broken && tree[i].GroupLabel == "" {
				tree[i].Path = fmt.Sprintf("rules/relaxed/moved%d_%d.yml", tree[i].ID, rr.Intn(1000))
			} else if rr.Intn(5) == 0 {
				tree[i].Path = fmt.Sprintf("rules/przeniesione żółć %d_%d.yml", tree[i].ID, rr.Intn(1000))
			}
			return "rename " + old + " -> " + tree[i].Path
		}
	case 3: // add rule (sometimes an exact copy of a rule the file already has)
		if i := pickFile(); i >= 0 && len(tree[i].Rules) < 5 {
			ru := c03RandRule(r, c03Used(tree[i]))
			if len(tree[i].Rules) > 0 && rr.Intn(5) == 0 {
				ru = tree[i].Rules[rr.Intn(len(tree[i].Rules))]
				ru.Comments = append([]string{}, ru.Comments...)
			}
			k := rr.Intn(len(tree[i].Rules) + 1)
			tree[i].Rules = append(tree[i].Rules[:k:k], append([]c03Rule{ru}, tree[i].Rules[k:]...)...)
			return "add rule " + ru.Name + " to " + tree[i].Path
		}
	case 4: // modify rule expression
		if i := pickFile(); i >= 0 && len(tree[i].Rules) > 0 {
			k := rr.Intn(len(tree[i].Rules))
			old := tree[i].Rules[k].Expr
			for tree[i].Rules[k].Expr == old {
				tree[i].Rules[k].Expr = hx.Pick(rr, c03Exprs)
			}
			return "modify expr of " + tree[i].Rules[k].Name + " in " + tree[i].Path
		}
	case 5: // delete rule
		if i := pickFile(); i >= 0 && len(tree[i].Rules) > 1 {
			k := rr.Intn(len(tree[i].Rules))
			n := tree[i].Rules[k].Name
			tree[i].Rules = append(tree[i].Rules[:k:k], tree[i].Rules[k+1:]...)
			return "delete rule " + n + " from " + tree[i].Path
		}
	case 6: // cosmetic: plain comment or blank lines only
		if i := pickFile(); i >= 0 && len(tree[i].Rules) > 0 {
			k := rr.Intn(len(tree[i].Rules))
			if rr.Intn(2) == 0 {
				tree[i].Rules[k].Note = fmt.Sprintf("note %d", rr.Intn(1000))
			} else {
				tree[i].Rules[k].Blank = (tree[i].Rules[k].Blank + 1) % 3
			}
			return "cosmetic edit near " + tree[i].Rules[k].Name + " in " + tree[i].Path
		}
	case 7: // control comment on a rule (changes parsed content)
		if i := pickFile(); i >= 0 && len(tree[i].Rules) > 0 {
			k := rr.Intn(len(tree[i].Rules))
			if c := tree[i].Rules[k].Comments; len(c) > 0 && rr.Intn(2) == 0 {
				if strings.HasPrefix(c[0], "# pint disable ") {
					tree[i].Rules[k].Comments = []string{"# pint rule/owner " + strings.TrimPrefix(c[0], "# pint disable ")}
				} else {
					tree[i].Rules[k].Comments = []string{"# pint disable " + strings.TrimPrefix(c[0], "# pint rule/owner ")}
				}
				return "switch the type of the control comment on " + tree[i].Rules[k].Name + " in " + tree[i].Path
			} else if len(c) > 0 && rr.Intn(2) == 0 {
				tree[i].Rules[k].Comments = nil
			} else {
				// the same value under another comment type is another comment
				tree[i].Rules[k].Comments = []string{hx.Pick(rr, []string{"# pint disable ", "# pint disable ", "# pint rule/owner "}) + hx.Pick(rr, []string{"promql/rate", "promql/series", "alerts/for"})}
			}
			return "control comment on " + tree[i].Rules[k].Name + " in " + tree[i].Path
		}
	case 8: // modify label / for
		if i := pickFile(); i >= 0 && len(tree[i].Rules) > 0 {
			k := rr.Intn(len(tree[i].Rules))
			if tree[i].Rules[k].Label == "a" {
				tree[i].Rules[k].Label = "b"
			} else {
				tree[i].Rules[k].Label = "a"
			}
			return "modify label of " + tree[i].Rules[k].Name + " in " + tree[i].Path
		}
	case 9: // rename + edit one rule
		if i := pickFile(); i >= 0 && len(tree[i].Rules) > 1 {
			old := tree[i].Path
			tree[i].Path = fmt.Sprintf("rules/moved%d_%d.yml", tree[i].ID, rr.Intn(1000))
			k := rr.Intn(len(tree[i].Rules))
			tree[i].Rules[k].Expr = hx.Pick(rr, c03Exprs) + " + 0"
			return "rename " + old + " -> " + tree[i].Path + " and edit " + tree[i].Rules[k].Name
		}
	case 11: // rename a file onto a path that held another file at base and is free now
		if i := pickFile(); i >= 0 && len(free) > 0 {
			p := hx.Pick(rr, free)
			if _, taken := tree.byPath(p); !taken {
				old := tree[i].Path
				tree[i].Path = p
				return "rename " + old + " -> previously used " + p
			}
		}
	case 12: // re-create a file at a path that is free now, with rules that may repeat the old ones
		if len(free) > 0 {
			p := hx.Pick(rr, free)
			if _, taken := tree.byPath(p); !taken {
				f := c03File{ID: *nextID, Path: p}
				*nextID++
				if bf, ok := base.byPath(p); ok && rr.Intn(2) == 0 {
					f.Rules = append(f.Rules, bf.Rules...)
				}
				u := c03Used(f)
				for k, n := 0, rr.Intn(2); k < n || len(f.Rules) == 0; k++ {
					f.Rules = append(f.Rules, c03RandRule(r, u))
				}
				*t = append(tree, f)
				return "re-create " + p
			}
		}
	case 13: // a rule keeps its name and changes its kind (record: X becomes alert: X, or back): removed + added, never modified
		if i := pickFile(); i >= 0 && len(tree[i].Rules) > 0 {
			k := rr.Intn(len(tree[i].Rules))
			ru := tree[i].Rules[k]
			if !c03Used(tree[i])[fmt.Sprintf("%v|%s", !ru.Alert, ru.Name)] {
				ru.Alert = !ru.Alert
				if !ru.Alert {
					ru.For = ""
				}
				if rr.Intn(2) == 0 {
					ru.Expr = hx.Pick(rr, c03Exprs)
				}
				tree[i].Rules[k] = ru
				return "switch kind of " + ru.Name + " in " + tree[i].Path
			}
		}
	case 10: // file-level disable comment (changes every rule's effective content)
		if i := pickFile(); i >= 0 {
			switch {
			case len(tree[i].FileC) >= 2 && rr.Intn(2) == 0:
				// the same set of file comments in another order: not a change of any rule
				tree[i].FileC[0], tree[i].FileC[1] = tree[i].FileC[1], tree[i].FileC[0]
				return "swap file comments in " + tree[i].Path
			case len(tree[i].FileC) == 1 && rr.Intn(2) == 0:
				tree[i].FileC = append(tree[i].FileC, "# pint file/disable promql/series")
			case len(tree[i].FileC) > 0:
				tree[i].FileC = nil
			case rr.Intn(2) == 0:
				tree[i].FileC = []string{"# pint file/disable promql/fragile", "# pint file/disable promql/rate"}
			default:
				tree[i].FileC = []string{"# pint file/disable promql/fragile"}
			}
			return "file comment in " + tree[i].Path
		}
	}
	return "noop"
}

type c03Expect struct {
	Path  string `json:"path"`
	Name  string `json:"name"`
	Alert bool   `json:"alert"`
	State string `json:"state"` // added | modified | renamed | unmodified | changed (renamed and edited: modified or renamed) | changed-any
	Idx   int    `json:"index_in_file"`
}

type c03Rec struct {
	C   int    `json:"c"`
	St  string `json:"st"`
	Src string `json:"src"`
	Dst string `json:"dst"`
	Ex  bool   `json:"ex"`
}

func c03Hash(parts ...string) uint32 {
	h := fnv.New32a()
	for _, p := range parts {
		h.Write([]byte(p))
		h.Write([]byte{0})
	}
	return h.Sum32() % 1000000
}

func (t c03Tree) byPath(p string) (c03File, bool) {
	for _, f := range t {
		if f.Path == p {
			return f, true
		}
	}
	return c03File{}, false
}

// lineage of every file at HEAD from git's own records: a plain map simulation, independent of pint's fold.
// origin "" = created on the branch; untouched files are absent from the result.
func c03Lineage(base c03Tree, recs []c03Rec) (origin map[string]string) {
	type info struct {
		origin  string
		touched bool
	}
	live := map[string]info{}
	for _, f := range base {
		live[f.Path] = info{origin: f.Path}
	}
	dead := map[string][]info{} // stack per path
	for _, r := range recs {
		switch r.St {
		case "A", "C":
			if st := dead[r.Dst]; len(st) > 0 {
				live[r.Dst] = info{origin: st[len(st)-1].origin, touched: true}
				dead[r.Dst] = st[:len(st)-1]
			} else {
				live[r.Dst] = info{origin: "", touched: true}
			}
		case "D":
			if f, ok := live[r.Src]; ok {
				dead[r.Src] = append(dead[r.Src], f)
				delete(live, r.Src)
			}
		default:
			if f, ok := live[r.Src]; ok {
				delete(live, r.Src)
				live[r.Dst] = info{origin: f.origin, touched: true}
			}
		}
	}
	origin = map[string]string{}
	for p, f := range live {
		if f.touched {
			origin[p] = f.origin
		}
	}
	return origin
}

// reference classification: direct comparison of base and HEAD content of each rule's file, following the renames
// git reports
func c03Reference(base, head c03Tree, origin map[string]string) []c03Expect {
	var out []c03Expect
	for _, f := range head {
		o, touched := origin[f.Path]
		bf, existed := base.byPath(o)
		if !touched {
			bf, existed, o = f, true, f.Path
		}
		for ri, ru := range f.Rules {
			e := c03Expect{Path: f.Path, Name: ru.Name, Alert: ru.Alert, Idx: ri}
			var prev *c03Rule
			nBase, nHead := 0, 0
			if existed && o != "" {
				for i := range bf.Rules {
					if bf.Rules[i].Alert == ru.Alert && bf.Rules[i].Name == ru.Name {
						prev = &bf.Rules[i]
						nBase++
					}
				}
			}
			for _, other := range f.Rules {
				if other.Alert == ru.Alert && other.Name == ru.Name {
					nHead++
				}
			}
			moved := o != f.Path
			if nBase > 1 || nHead > 1 {
				// several rules of one name: a rule with an identical base rule left for it is untouched, anything else
				// changed in some way (pint matches positionally: added/removed or modified)
				avail, rank := 0, 0
				for i := range bf.Rules {
					if existed && o != "" && bf.Rules[i].sameContent(ru) && bf.fileCKey() == f.fileCKey() {
						avail++
					}
				}
				for _, other := range f.Rules[:ri] {
					if other.sameContent(ru) {
						rank++
					}
				}
				switch {
				case rank < avail && !moved:
					e.State = "unmodified"
				case rank < avail && moved:
					e.State = "renamed"
				default:
					e.State = "changed-any"
				}
				out = append(out, e)
				continue
			}
			same := prev != nil && prev.sameContent(ru) && bf.fileCKey() == f.fileCKey()
			switch {
			case prev == nil:
				e.State = "added"
			case same && !moved:
				e.State = "unmodified"
			case same && moved:
				e.State = "renamed"
			case !same && !moved:
				e.State = "modified"
			default:
				e.State = "changed"
			}
			out = append(out, e)
		}
	}
	return out
}

const c03Config = `
parser {
  include = ["rules/.*"]
  relaxed = ["rules/relaxed/.*"]
}
rule {
  match { state = ["added"] }
  name "nomatchaddedzz" {
    severity = "info"
    comment = "markeraddedzz"
  }
}
rule {
  match { state = ["modified"] }
  name "nomatchmodifiedzz" {
    severity = "info"
    comment = "markermodifiedzz"
  }
}
rule {
  match { state = ["renamed"] }
  name "nomatchrenamedzz" {
    severity = "info"
    comment = "markerrenamedzz"
  }
}
rule {
  match { state = ["unmodified"] }
  name "nomatchunmodifiedzz" {
    severity = "info"
    comment = "markerunmodifiedzz"
  }
}
rule {
  name "nomatchdefaultzz" {
    severity = "info"
    comment = "markerdefaultzz"
  }
}
`

func c03Write(dir string, t c03Tree) {
	_ = os.RemoveAll(filepath.Join(dir, "rules"))
	_ = os.MkdirAll(filepath.Join(dir, "rules"), 0o755)
	for _, f := range t {
		_ = os.MkdirAll(filepath.Dir(filepath.Join(dir, f.Path)), 0o755)
		_ = os.WriteFile(filepath.Join(dir, f.Path), []byte(f.render()), 0o644)
	}
}

func c03SnapJSON(t c03Tree) []any {
	out := []any{}
	for _, f := range t {
		rs := []any{}
		for _, ru := range f.Rules {
			rs = append(rs, map[string]any{"a": ru.Alert, "n": ru.Name,
				"c": c03Hash(ru.Expr, ru.For, ru.Label, fmt.Sprint(ru.Comments)), "d": c03Hash(f.fileCKey(), fmt.Sprint(ru.Comments))})
		}
		out = append(out, map[string]any{"p": f.Path, "r": rs})
	}
	return out
}

func c03Eval(r *hx.Run, cs c03Case) {
	dir, err := os.MkdirTemp("", "c03-")
	if err != nil {
		panic(err)
	}
	defer os.RemoveAll(dir)
	hx.Git(dir, "init", "-q", "-b", "main", ".")
	_ = os.WriteFile(filepath.Join(dir, ".pint.hcl"), []byte(c03Config), 0o644)
	_ = os.WriteFile(filepath.Join(dir, "README"), []byte("readme\n"), 0o644)
	c03Write(dir, cs.Base)
	hx.Git(dir, "add", "-A")
	hx.Git(dir, "commit", "-q", "--allow-empty", "-m", "base")
	hx.Git(dir, "checkout", "-q", "-b", "feature")
	snaps := []c03Tree{cs.Base} // tree after every commit that git actually made
	for i, t := range cs.Commits {
		c03Write(dir, t)
		hx.Git(dir, "add", "-A")
		if res := hx.Git(dir, "commit", "-q", "-m", fmt.Sprintf("c%d %s", i, cs.Ops[i])); res.Exit == 0 {
			snaps = append(snaps, t)
		}
	}
	if len(snaps) == 1 {
		r.Count("no-effective-commit")
		return
	}
	head := snaps[len(snaps)-1]
	if cs.BaseMoves {
		hx.Git(dir, "checkout", "-q", "main")
		_ = os.WriteFile(filepath.Join(dir, "README"), []byte("readme changed on main\n"), 0o644)
		if cs.MainCommit != nil {
			c03Write(dir, cs.MainCommit)
		}
		hx.Git(dir, "add", "-A")
		hx.Git(dir, "commit", "-q", "-m", "main moves on")
		hx.Git(dir, "checkout", "-q", "feature")
	}
	// git's own view of the branch
	idx := map[string]int{}
	for i, h := range strings.Fields(hx.Git(dir, "rev-list", "--reverse", "--first-parent", "main..HEAD").Stdout) {
		idx[h] = i + 1
	}
	var recs []c03Rec
	cur := 0
	for _, l := range strings.Split(hx.Git(dir, "-c", "core.quotePath=false", "log", "--reverse", "--no-merges", "--first-parent", "--format=%H", "--name-status", "main..HEAD").Stdout, "\n") {
		parts := strings.Split(l, "\t")
		if len(parts) == 1 {
			if parts[0] != "" {
				cur = idx[parts[0]]
			}
			continue
		}
		if !strings.HasPrefix(parts[len(parts)-1], "rules/") {
			continue
		}
		recs = append(recs, c03Rec{C: cur, St: parts[0][:1], Src: parts[1], Dst: parts[len(parts)-1]})
		r.Count("record:" + parts[0][:1])
	}
	// (1) the fold over the records: real git.Changes against the model
	runner := func(args ...string) ([]byte, error) {
		res := hx.Git(dir, args...)
		if res.Exit != 0 {
			return nil, fmt.Errorf("git %v: %s", args, res.Stderr)
		}
		return []byte(res.Stdout), nil
	}
	chs, cerr := git.Changes(runner, "main", git.NewPathFilter([]*regexp.Regexp{regexp.MustCompile("^rules/.*$")}, nil, nil))
	if cerr != nil {
		r.Violate(hx.Violation{Class: "changes-error", Input: cs, Observed: cerr.Error()})
		return
	}
	var fold []string
	for _, c := range chs {
		var ci []string
		for _, h := range c.Commits {
			ci = append(ci, fmt.Sprint(idx[h]))
		}
		fold = append(fold, fmt.Sprintf("%c:%s:%s:%s", rune(c.Status), c.Path.Before.Name, c.Path.After.Name, strings.Join(ci, ",")))
	}
	rj, _ := json.Marshal(map[string]any{"records": recs})
	r.Op("gitfold\t"+string(rj), strings.Join(fold, ";"))
	// model-decided: is the history well formed for the reference tree, and does the fold agree with the lineage
	var basePaths []string
	for _, f := range cs.Base {
		basePaths = append(basePaths, f.Path)
	}
	origin := c03Lineage(cs.Base, recs)
	var lin []string
	for _, c := range chs {
		if c.Status != git.FileDeleted {
			if _, ok := origin[c.Path.After.Name]; ok {
				var ci []string
				for _, h := range c.Commits {
					ci = append(ci, fmt.Sprint(idx[h]))
				}
				lin = append(lin, fmt.Sprintf("%s<%s<%s", c.Path.After.Name, c.Path.Before.Name, strings.Join(ci, ",")))
			}
		}
	}
	sort.Strings(lin)
	wj, _ := json.Marshal(map[string]any{"records": recs, "base": basePaths})
	r.Op("c03wf\t"+string(wj), "true "+strings.Join(lin, ";"))

	// (2) end to end: pint ci with one marker block per state
	res := hx.RunCmd(dir, 90*time.Second, []string{"GIT_CONFIG_GLOBAL=/dev/null"}, hx.PintBin(), "--offline", "-l", "debug", "--no-color", "--show-duplicates", "ci", "--base-branch", "main", "--json", "out.json")
	// a rule is one entry, whether it parses or not
	invalidSeen := map[string]int{}
	for _, l := range strings.Split(res.Stderr, "\n") {
		if i := strings.Index(l, `msg="Found invalid rule"`); i >= 0 {
			k := l[i:]
			if j := strings.Index(k, " state="); j >= 0 {
				k = k[:j]
			}
			invalidSeen[k]++
			if invalidSeen[k] > 1 {
				r.Violate(hx.Violation{Class: "invalid-rule-listed-twice", Input: cs, Observed: l,
					Expected: "a rule that does not parse is one entry of the change list"})
				return
			}
		}
	}
	var reports []c05JSON
	b, rerr := os.ReadFile(filepath.Join(dir, "out.json"))
	if rerr != nil {
		r.Violate(hx.Violation{Class: "ci-run-failed", Input: cs, Observed: tail(res.Stderr, 2000)})
		return
	}
	_ = json.Unmarshal(b, &reports)
	lineOf := map[string]map[int]string{} // path -> line of "- alert:/record:" -> index of the rule in its file
	for _, f := range head {
		lineOf[f.Path] = map[int]string{}
		n := 0
		for i, l := range strings.Split(f.render(), "\n") {
			t := strings.TrimSpace(l)
			if strings.HasPrefix(t, "- alert: ") || strings.HasPrefix(t, "- record: ") {
				lineOf[f.Path][i+1] = fmt.Sprint(n)
				n++
			}
		}
	}
	got := map[string]map[string]bool{} // path|kind|name -> set of markers
	parseSeen := map[string]int{}
	for _, rep := range reports {
		if rep.Reporter == "yaml/parse" {
			k := fmt.Sprintf("%s:%v", rep.Path, rep.Lines)
			parseSeen[k]++
			if hf, known := head.byPath(rep.Path); known && !(hf.Broken && strings.Contains(rep.Problem+rep.Details, "expr")) {
				// every generated file parses the way its path asks for, apart from the one marked rule
				r.Violate(hx.Violation{Class: "parse-error-on-valid-file", Input: cs, Observed: rep,
					Expected: "no yaml/parse problem: files under rules/relaxed/ are read by the relaxed parser on both sides of the change"})
				return
			}
			if parseSeen[k] > 1 {
				r.Violate(hx.Violation{Class: "invalid-rule-listed-twice", Input: cs, Observed: rep,
					Expected: "a rule that does not parse is one entry: one yaml/parse problem for it"})
				return
			}
		}
		if rep.Reporter != "rule/name" {
			continue
		}
		var marker string
		for _, m := range []string{"added", "modified", "renamed", "unmodified", "default"} {
			if strings.Contains(rep.Details, "marker"+m+"zz") {
				marker = m
			}
		}
		if marker == "" {
			continue
		}
		for _, ln := range rep.Lines {
			if kn, ok := lineOf[rep.Path][ln]; ok {
				k := rep.Path + "#" + kn
				if got[k] == nil {
					got[k] = map[string]bool{}
				}
				got[k][marker] = true
			}
		}
	}
	// model correspondence on states
	var implStates []string
	for _, f := range head {
		for ri, ru := range f.Rules {
			k := fmt.Sprintf("%s#%d", f.Path, ri)
			var ms []string
			for _, m := range []string{"added", "modified", "renamed", "unmodified"} {
				if got[k][m] {
					ms = append(ms, m)
				}
			}
			implStates = append(implStates, fmt.Sprintf("%s|%v|%s|%d=%s", f.Path, ru.Alert, ru.Name, c03Hash(ru.Expr, ru.For, ru.Label, fmt.Sprint(ru.Comments)), strings.Join(ms, "+")))
		}
	}
	sort.Strings(implStates)
	var sj []any
	for _, t := range snaps {
		sj = append(sj, c03SnapJSON(t))
	}
	oj, _ := json.Marshal(map[string]any{"records": recs, "snaps": sj})
	r.Op("c03states\t"+string(oj), strings.Join(implStates, ";"))

	// (3) the property itself against the reference
	exp := c03Reference(cs.Base, head, origin)
	r.Case(fmt.Sprint(cs), true)
	r.Count(fmt.Sprintf("commits:%d", len(snaps)-1))
	for _, e := range exp {
		r.Count("expected:" + e.State)
		k := fmt.Sprintf("%s#%d", e.Path, e.Idx)
		ms := got[k]
		var have []string
		for m := range ms {
			have = append(have, m)
		}
		sort.Strings(have)
		changedMarkers := ms["added"] || ms["modified"] || ms["renamed"]
		ok := false
		switch e.State {
		case "unmodified":
			// an untouched rule is never reported as changed; the CI default block must not run on it
			ok = !changedMarkers && !ms["default"] && ms["unmodified"]
		case "changed":
			ok = (ms["modified"] || ms["renamed"]) && ms["default"] && !ms["unmodified"] && !ms["added"]
		case "changed-any":
			ok = changedMarkers && ms["default"] && !ms["unmodified"]
		default:
			ok = ms[e.State] && ms["default"] && !ms["unmodified"]
			for _, other := range []string{"added", "modified", "renamed"} {
				if other != e.State && ms[other] {
					ok = false
				}
			}
		}
		if !ok {
			r.Violate(hx.Violation{Class: "state:" + e.State, Input: cs, Observed: map[string]any{"rule": k, "name": e.Name, "markers": have, "records": recs, "changes": fold},
				Expected: "marker of state " + e.State + " (and the CI default block iff the rule changed)"})
			return
		}
	}
	r.Sample(map[string]any{"ops": cs.Ops, "records": recs, "expected": exp})
}

func runC03(r *hx.Run, replay string) {
	if replay != "" {
		b, err := os.ReadFile(replay)
		if err != nil {
			panic(err)
		}
		var rp struct {
			Input c03Case `json:"input"`
		}
		if err := json.Unmarshal(b, &rp); err != nil {
			panic(err)
		}
		c03Eval(r, rp.Input)
		return
	}
	rr := r.Rng
	for i := 0; i < r.N; i++ {
		nextID := 0
		var base c03Tree
		for f, n := 0, 1+rr.Intn(3); f < n; f++ {
			file := c03File{ID: nextID, Path: fmt.Sprintf("rules/f%d.yml", nextID), Broken: rr.Intn(5) == 0}
			if rr.Intn(6) == 0 {
				file.Path = fmt.Sprintf("rules/ünï %d.yml", nextID)
			}
			if rr.Intn(5) == 0 {
				file.GroupLabel = "one"
			}
			switch rr.Intn(6) {
			case 0:
				file.FileC = []string{"# pint file/disable promql/fragile"}
			case 1:
				file.FileC = []string{"# pint file/disable promql/fragile", "# pint file/disable promql/rate"}
			}
			nextID++
			u := map[string]bool{}
			for k, m := 0, 1+rr.Intn(4); k < m; k++ {
				ru := c03RandRule(r, u)
				if rr.Intn(5) == 0 {
					ru.Comments = []string{hx.Pick(rr, []string{"# pint disable ", "# pint rule/owner "}) + hx.Pick(rr, []string{"promql/rate", "promql/series"})}
				}
				file.Rules = append(file.Rules, ru)
			}
			if rr.Intn(6) == 0 {
				// a fully identical copy of a rule in the base file
				file.Rules = append(file.Rules, file.Rules[rr.Intn(len(file.Rules))])
			}
			base = append(base, file)
		}
		cs := c03Case{Base: base, BaseMoves: rr.Intn(3) == 0}
		cur := base.clone()
		var snapshots []c03Tree
		if len(base) >= 2 && rr.Intn(4) == 0 {
			// scripted path-reuse histories, one step per commit
			commit := func(desc string) {
				snapshots = append(snapshots, cur.clone())
				cs.Commits = append(cs.Commits, cur.clone())
				cs.Ops = append(cs.Ops, desc)
			}
			a, b := 0, 1
			pa, pb := cur[a].Path, cur[b].Path
			editRule := func(i int) {
				k := rr.Intn(len(cur[i].Rules))
				// sometimes make the rule equal to the same-named rule of the other base file
				cur[i].Rules[k].Expr = hx.Pick(rr, c03Exprs)
			}
			switch rr.Intn(4) {
			case 0:
				// both files carry a rule of the same name
				shared := c03Rule{Name: "shared:rule", Expr: "up == 1"}
				base[a].Rules = append(base[a].Rules, shared)
				shared.Expr = "up == 2"
				base[b].Rules = append(base[b].Rules, shared)
				cs.Base = base
				cur = base.clone()
				cur = append(cur[:b:b], cur[b+1:]...)
				commit("delete " + pb)
				cur[a].Path = pb
				commit("rename " + pa + " -> " + pb)
				cur[a].Rules[len(cur[a].Rules)-1].Expr = hx.Pick(rr, []string{"up == 2", "up == 3"})
				commit("edit shared:rule in " + pb)
			case 1:
				cur = append(cur[:b:b], cur[b+1:]...)
				commit("delete " + pb)
				cur[a].Path = pb
				commit("rename " + pa + " -> " + pb)
				keep := cur[a]
				cur = append(cur[:a:a], cur[a+1:]...)
				commit("delete " + pb + " again")
				keep.Rules = append([]c03Rule{}, keep.Rules...)
				cur = append(cur, keep)
				editRule(len(cur) - 1)
				commit("re-create " + pb)
			case 2:
				cur[a].Path = "rules/elsewhere.yml"
				commit("rename " + pa + " -> rules/elsewhere.yml")
				nf := c03File{ID: nextID, Path: pa, Rules: append([]c03Rule{}, base[a].Rules...)}
				nextID++
				cur = append(cur, nf)
				commit("re-create " + pa + " with the old rules")
				editRule(len(cur) - 1)
				commit("edit " + pa)
			default:
				editRule(a)
				commit("edit " + pa)
				cur[a].Path = "rules/step1.yml"
				commit("rename " + pa + " -> rules/step1.yml")
				editRule(a)
				commit("edit rules/step1.yml")
				cur[a].Path = "rules/step2.yml"
				commit("rename rules/step1.yml -> rules/step2.yml")
			}
		}
		if len(snapshots) == 0 && rr.Intn(4) == 0 {
			// scripted comment-level edits: what is and what is not a change of the rule's control comments
			a := rr.Intn(len(base))
			switch rr.Intn(2) {
			case 0:
				base[a].FileC = []string{"# pint file/disable promql/fragile", "# pint file/disable promql/rate"}
				cs.Base = base
				cur = base.clone()
				cur[a].FileC[0], cur[a].FileC[1] = cur[a].FileC[1], cur[a].FileC[0]
				r.Count("scripted:swap-file-comments")
				cs.Ops = append(cs.Ops, "swap file comments in "+cur[a].Path)
			default:
				k := rr.Intn(len(base[a].Rules))
				v := hx.Pick(rr, []string{"promql/rate", "promql/series", "alerts/for"})
				base[a].Rules[k].Comments = []string{"# pint disable " + v}
				cs.Base = base
				cur = base.clone()
				cur[a].Rules[k].Comments = []string{"# pint rule/owner " + v}
				r.Count("scripted:switch-comment-type")
				cs.Ops = append(cs.Ops, "switch the type of the control comment on "+cur[a].Rules[k].Name)
			}
			snapshots = append(snapshots, cur.clone())
			cs.Commits = append(cs.Commits, cur.clone())
		}
		for c, n := 0, rr.Intn(4); c < n || len(cs.Commits) == 0; c++ {
			var descs []string
			if rr.Intn(6) == 0 && len(snapshots) > 0 {
				// edit-then-revert: go back to an earlier tree
				cur = snapshots[rr.Intn(len(snapshots))].clone()
				descs = append(descs, "revert to an earlier tree")
			} else {
				for o, m := 0, 1+rr.Intn(2); o < m; o++ {
					descs = append(descs, c03Op(r, &cur, &nextID, base))
				}
			}
			snapshots = append(snapshots, cur.clone())
			cs.Commits = append(cs.Commits, cur.clone())
			cs.Ops = append(cs.Ops, strings.Join(descs, "; "))
		}
		if cs.BaseMoves && rr.Intn(2) == 0 {
			// main independently edits a file the branch does not own: add an unrelated file
			m := base.clone()
			m = append(m, c03File{ID: 9000, Path: "rules/mainonly.yml", Rules: []c03Rule{{Name: "main:only", Expr: "up"}}})
			if rr.Intn(2) == 0 {
				// main also edits rule files the branch may touch: the branch is still judged against the fork point
				for k, n := 0, 1+rr.Intn(2); k < n; k++ {
					i := rr.Intn(len(base))
					if len(m[i].Rules) == 0 {
						continue
					}
					j := rr.Intn(len(m[i].Rules))
					m[i].Rules = append([]c03Rule{}, m[i].Rules...)
					switch rr.Intn(3) {
					case 0:
						m[i].Rules[j].Expr = hx.Pick(rr, c03Exprs) + " + 1"
					case 1:
						m[i].Rules[j].Label = "mainedit"
					default:
						if len(m[i].Rules) > 1 {
							m[i].Rules = append(m[i].Rules[:j:j], m[i].Rules[j+1:]...)
						}
					}
				}
			}
			cs.MainCommit = m
		}
		c03Eval(r, cs)
	}
}
