package main

import (
	"encoding/json"
	"fmt"
	"os"
	"path/filepath"
	"sort"
	"strings"
	"time"

	"github.com/cloudflare/pint/verifharness/hx"
)

func init() { props["C03"] = runC03 }

type c03Rule struct {
	Alert    bool     `json:"alert"`
	Name     string   `json:"name"`
	Expr     string   `json:"expr"`
	For      string   `json:"for,omitempty"`
	Label    string   `json:"label,omitempty"`
	Comments []string `json:"comments,omitempty"` // control comments attached above the rule
	Blank    int      `json:"blank_lines_before"` // cosmetic
	Note     string   `json:"plain_comment,omitempty"`
}

func (a c03Rule) sameContent(b c03Rule) bool {
	return a.Alert == b.Alert && a.Name == b.Name && a.Expr == b.Expr && a.For == b.For && a.Label == b.Label && fmt.Sprint(a.Comments) == fmt.Sprint(b.Comments)
}

type c03File struct {
	ID    int       `json:"id"` // identity across renames
	Path  string    `json:"path"`
	Rules []c03Rule `json:"rules"`
	FileC []string  `json:"file_comments,omitempty"`
}

type c03Tree []c03File

func (t c03Tree) clone() c03Tree {
	out := make(c03Tree, len(t))
	for i, f := range t {
		out[i] = f
		out[i].Rules = append([]c03Rule{}, f.Rules...)
		for j := range out[i].Rules {
			out[i].Rules[j].Comments = append([]string{}, f.Rules[j].Comments...)
		}
		out[i].FileC = append([]string{}, f.FileC...)
	}
	return out
}

func (f c03File) render() string {
	var sb strings.Builder
	for _, c := range f.FileC {
		sb.WriteString(c + "\n")
	}
	sb.WriteString("groups:\n- name: g\n  rules:\n")
	for _, r := range f.Rules {
		for i := 0; i < r.Blank; i++ {
			sb.WriteString("\n")
		}
		if r.Note != "" {
			sb.WriteString("  # " + r.Note + "\n")
		}
		for _, c := range r.Comments {
			sb.WriteString("  " + c + "\n")
		}
		if r.Alert {
			fmt.Fprintf(&sb, "  - alert: %s\n    expr: %s\n", r.Name, r.Expr)
			if r.For != "" {
				fmt.Fprintf(&sb, "    for: %s\n", r.For)
			}
		} else {
			fmt.Fprintf(&sb, "  - record: %s\n    expr: %s\n", r.Name, r.Expr)
		}
		if r.Label != "" {
			fmt.Fprintf(&sb, "    labels:\n      team: %s\n", r.Label)
		}
	}
	return sb.String()
}

type c03Case struct {
	Base       c03Tree   `json:"base"`
	Commits    []c03Tree `json:"commits"`     // tree after every branch commit
	Ops        []string  `json:"ops"`         // what each commit did (for humans)
	BaseMoves  bool      `json:"base_branch_advances"`
	MainCommit c03Tree   `json:"main_after,omitempty"`
}

var c03Exprs = []string{"up == 0", "sum(foo) by (job)", "rate(bar[5m]) > 1", "foo / bar", "count(up) by (job) > 2", "absent(up)", "sum(rate(baz_total[2m]))"}

func c03RandRule(r *hx.Run, used map[string]bool) c03Rule {
	rr := r.Rng
	for {
		ru := c03Rule{Alert: rr.Intn(2) == 0, Expr: hx.Pick(rr, c03Exprs)}
		if ru.Alert {
			ru.Name = hx.Pick(rr, []string{"Down", "HighErrors", "DiskFull", "Slow", "Flapping"})
			ru.For = hx.Pick(rr, []string{"", "5m", "1m"})
		} else {
			ru.Name = hx.Pick(rr, []string{"job:up:sum", "job:foo:rate5m", "instance:bar:avg", "foo:sum", "baz:rate2m"})
		}
		k := fmt.Sprintf("%v|%s", ru.Alert, ru.Name)
		if used[k] {
			continue
		}
		used[k] = true
		if rr.Intn(3) == 0 {
			ru.Label = hx.Pick(rr, []string{"a", "b"})
		}
		return ru
	}
}

func c03Used(f c03File) map[string]bool {
	u := map[string]bool{}
	for _, r := range f.Rules {
		u[fmt.Sprintf("%v|%s", r.Alert, r.Name)] = true
	}
	return u
}

// one random edit of the tree; returns a description
func c03Op(r *hx.Run, t *c03Tree, nextID *int) string {
	rr := r.Rng
	tree := *t
	pickFile := func() int {
		if len(tree) == 0 {
			return -1
		}
		return rr.Intn(len(tree))
	}
	switch rr.Intn(11) {
	case 0: // add file
		f := c03File{ID: *nextID, Path: fmt.Sprintf("rules/f%d.yml", *nextID)}
		*nextID++
		u := map[string]bool{}
		for i, n := 0, 1+rr.Intn(3); i < n; i++ {
			f.Rules = append(f.Rules, c03RandRule(r, u))
		}
		*t = append(tree, f)
		return "add file " + f.Path
	case 1: // delete file
		if i := pickFile(); i >= 0 {
			p := tree[i].Path
			*t = append(tree[:i:i], tree[i+1:]...)
			return "delete file " + p
		}
	case 2: // rename file (pure)
		if i := pickFile(); i >= 0 {
			old := tree[i].Path
			tree[i].Path = fmt.Sprintf("rules/moved%d_%d.yml", tree[i].ID, rr.Intn(1000))
			return "rename " + old + " -> " + tree[i].Path
		}
	case 3: // add rule
		if i := pickFile(); i >= 0 && len(tree[i].Rules) < 5 {
			ru := c03RandRule(r, c03Used(tree[i]))
			k := rr.Intn(len(tree[i].Rules) + 1)
			tree[i].Rules = append(tree[i].Rules[:k:k], append([]c03Rule{ru}, tree[i].Rules[k:]...)...)
			return "add rule " + ru.Name + " to " + tree[i].Path
		}
	case 4: // modify rule expression
		if i := pickFile(); i >= 0 && len(tree[i].Rules) > 0 {
			k := rr.Intn(len(tree[i].Rules))
			old := tree[i].Rules[k].Expr
			for tree[i].Rules[k].Expr == old {
				tree[i].Rules[k].Expr = hx.Pick(rr, c03Exprs)
			}
			return "modify expr of " + tree[i].Rules[k].Name + " in " + tree[i].Path
		}
	case 5: // delete rule
		if i := pickFile(); i >= 0 && len(tree[i].Rules) > 1 {
			k := rr.Intn(len(tree[i].Rules))
			n := tree[i].Rules[k].Name
			tree[i].Rules = append(tree[i].Rules[:k:k], tree[i].Rules[k+1:]...)
			return "delete rule " + n + " from " + tree[i].Path
		}
	case 6: // cosmetic: plain comment or blank lines only
		if i := pickFile(); i >= 0 && len(tree[i].Rules) > 0 {
			k := rr.Intn(len(tree[i].Rules))
			if rr.Intn(2) == 0 {
				tree[i].Rules[k].Note = fmt.Sprintf("note %d", rr.Intn(1000))
			} else {
				tree[i].Rules[k].Blank = (tree[i].Rules[k].Blank + 1) % 3
			}
			return "cosmetic edit near " + tree[i].Rules[k].Name + " in " + tree[i].Path
		}
	case 7: // control comment on a rule (changes parsed content)
		if i := pickFile(); i >= 0 && len(tree[i].Rules) > 0 {
			k := rr.Intn(len(tree[i].Rules))
			if len(tree[i].Rules[k].Comments) > 0 && rr.Intn(2) == 0 {
				tree[i].Rules[k].Comments = nil
			} else {
				tree[i].Rules[k].Comments = []string{"# pint disable " + hx.Pick(rr, []string{"promql/rate", "promql/series", "alerts/for"})}
			}
			return "control comment on " + tree[i].Rules[k].Name + " in " + tree[i].Path
		}
	case 8: // modify label / for
		if i := pickFile(); i >= 0 && len(tree[i].Rules) > 0 {
			k := rr.Intn(len(tree[i].Rules))
			if tree[i].Rules[k].Label == "a" {
				tree[i].Rules[k].Label = "b"
			} else {
				tree[i].Rules[k].Label = "a"
			}
			return "modify label of " + tree[i].Rules[k].Name + " in " + tree[i].Path
		}
	case 9: // rename + edit one rule
		if i := pickFile(); i >= 0 && len(tree[i].Rules) > 1 {
			old := tree[i].Path
			tree[i].Path = fmt.Sprintf("rules/moved%d_%d.yml", tree[i].ID, rr.Intn(1000))
			k := rr.Intn(len(tree[i].Rules))
			tree[i].Rules[k].Expr = hx.Pick(rr, c03Exprs) + " + 0"
			return "rename " + old + " -> " + tree[i].Path + " and edit " + tree[i].Rules[k].Name
		}
	case 10: // file-level disable comment (changes every rule's effective content)
		if i := pickFile(); i >= 0 {
			if len(tree[i].FileC) > 0 {
				tree[i].FileC = nil
			} else {
				tree[i].FileC = []string{"# pint file/disable promql/fragile"}
			}
			return "file comment in " + tree[i].Path
		}
	}
	return "noop"
}

type c03Expect struct {
	Path  string `json:"path"`
	Name  string `json:"name"`
	Alert bool   `json:"alert"`
	State string `json:"state"` // added | modified | renamed | unmodified | changed (renamed and edited: modified or renamed)
}

// reference classification from the generator's own history
func c03Reference(cs c03Case) []c03Expect {
	head := cs.Commits[len(cs.Commits)-1]
	baseByID := map[int]c03File{}
	for _, f := range cs.Base {
		baseByID[f.ID] = f
	}
	var out []c03Expect
	for _, f := range head {
		bf, existed := baseByID[f.ID]
		for _, ru := range f.Rules {
			e := c03Expect{Path: f.Path, Name: ru.Name, Alert: ru.Alert}
			switch {
			case !existed:
				e.State = "added"
			default:
				var prev *c03Rule
				for i := range bf.Rules {
					if bf.Rules[i].Alert == ru.Alert && bf.Rules[i].Name == ru.Name {
						prev = &bf.Rules[i]
					}
				}
				same := prev != nil && prev.sameContent(ru) && fmt.Sprint(bf.FileC) == fmt.Sprint(f.FileC)
				moved := bf.Path != f.Path
				switch {
				case prev == nil:
					e.State = "added"
				case same && !moved:
					e.State = "unmodified"
				case same && moved:
					e.State = "renamed"
				case !same && !moved:
					e.State = "modified"
				default:
					e.State = "changed"
				}
			}
			out = append(out, e)
		}
	}
	return out
}

const c03Config = `
parser {
  include = ["rules/.*"]
}
rule {
  match { state = ["added"] }
  name "nomatchaddedzz" {
    severity = "info"
    comment = "markeraddedzz"
  }
}
rule {
  match { state = ["modified"] }
  name "nomatchmodifiedzz" {
    severity = "info"
    comment = "markermodifiedzz"
  }
}
rule {
  match { state = ["renamed"] }
  name "nomatchrenamedzz" {
    severity = "info"
    comment = "markerrenamedzz"
  }
}
rule {
  match { state = ["unmodified"] }
  name "nomatchunmodifiedzz" {
    severity = "info"
    comment = "markerunmodifiedzz"
  }
}
rule {
  name "nomatchdefaultzz" {
    severity = "info"
    comment = "markerdefaultzz"
  }
}
`

func c03Write(dir string, t c03Tree) {
	_ = os.RemoveAll(filepath.Join(dir, "rules"))
	_ = os.MkdirAll(filepath.Join(dir, "rules"), 0o755)
	for _, f := range t {
		_ = os.WriteFile(filepath.Join(dir, f.Path), []byte(f.render()), 0o644)
	}
}

func c03Eval(r *hx.Run, cs c03Case) {
	dir, err := os.MkdirTemp("", "c03-")
	if err != nil {
		panic(err)
	}
	defer os.RemoveAll(dir)
	hx.Git(dir, "init", "-q", "-b", "main", ".")
	_ = os.WriteFile(filepath.Join(dir, ".pint.hcl"), []byte(c03Config), 0o644)
	_ = os.WriteFile(filepath.Join(dir, "README"), []byte("readme\n"), 0o644)
	c03Write(dir, cs.Base)
	hx.Git(dir, "add", "-A")
	hx.Git(dir, "commit", "-q", "--allow-empty", "-m", "base")
	hx.Git(dir, "checkout", "-q", "-b", "feature")
	made := 0
	for i, t := range cs.Commits {
		c03Write(dir, t)
		hx.Git(dir, "add", "-A")
		if res := hx.Git(dir, "commit", "-q", "-m", fmt.Sprintf("c%d %s", i, cs.Ops[i])); res.Exit == 0 {
			made++
		}
	}
	if made == 0 {
		r.Count("no-effective-commit")
		return
	}
	if cs.BaseMoves {
		hx.Git(dir, "checkout", "-q", "main")
		_ = os.WriteFile(filepath.Join(dir, "README"), []byte("readme changed on main\n"), 0o644)
		if cs.MainCommit != nil {
			c03Write(dir, cs.MainCommit)
		}
		hx.Git(dir, "add", "-A")
		hx.Git(dir, "commit", "-q", "-m", "main moves on")
		hx.Git(dir, "checkout", "-q", "feature")
	}
	res := hx.RunCmd(dir, 90*time.Second, []string{"GIT_CONFIG_GLOBAL=/dev/null"}, hx.PintBin(), "--offline", "-l", "error", "--no-color", "--show-duplicates", "ci", "--base-branch", "main", "--json", "out.json")
	var reports []c05JSON
	b, rerr := os.ReadFile(filepath.Join(dir, "out.json"))
	if rerr != nil {
		r.Violate(hx.Violation{Class: "ci-run-failed", Input: cs, Observed: tail(res.Stderr, 2000)})
		return
	}
	_ = json.Unmarshal(b, &reports)
	// markers per (path, first line of the name) -> we key by path + rule name via the report's lines: find rule by line
	head := cs.Commits[len(cs.Commits)-1]
	lineOf := map[string]map[int]string{} // path -> line of "- alert:/record:" -> kind|name
	for _, f := range head {
		lineOf[f.Path] = map[int]string{}
		for i, l := range strings.Split(f.render(), "\n") {
			t := strings.TrimSpace(l)
			if strings.HasPrefix(t, "- alert: ") {
				lineOf[f.Path][i+1] = "true|" + strings.TrimPrefix(t, "- alert: ")
			}
			if strings.HasPrefix(t, "- record: ") {
				lineOf[f.Path][i+1] = "false|" + strings.TrimPrefix(t, "- record: ")
			}
		}
	}
	got := map[string]map[string]bool{} // path|kind|name -> set of markers
	for _, rep := range reports {
		if rep.Reporter != "rule/name" {
			continue
		}
		var marker string
		for _, m := range []string{"added", "modified", "renamed", "unmodified", "default"} {
			if strings.Contains(rep.Details+rep.Problem, "marker"+m+"zz") {
				marker = m
			}
		}
		if marker == "" {
			continue
		}
		for _, ln := range rep.Lines {
			if kn, ok := lineOf[rep.Path][ln]; ok {
				k := rep.Path + "|" + kn
				if got[k] == nil {
					got[k] = map[string]bool{}
				}
				got[k][marker] = true
			}
		}
	}
	exp := c03Reference(cs)
	r.Case(fmt.Sprint(cs), len(cs.Commits) > 0)
	r.Count(fmt.Sprintf("commits:%d", len(cs.Commits)))
	for _, e := range exp {
		r.Count("expected:" + e.State)
		k := fmt.Sprintf("%s|%v|%s", e.Path, e.Alert, e.Name)
		ms := got[k]
		var have []string
		for m := range ms {
			have = append(have, m)
		}
		sort.Strings(have)
		changedMarkers := ms["added"] || ms["modified"] || ms["renamed"]
		ok := false
		switch e.State {
		case "unmodified":
			// an untouched rule is never reported as changed; the CI default block must not run on it
			ok = !changedMarkers && !ms["default"] && ms["unmodified"]
		case "changed":
			ok = (ms["modified"] || ms["renamed"] || ms["added"]) && ms["default"] && !ms["unmodified"]
		default:
			ok = ms[e.State] && ms["default"] && !ms["unmodified"]
			for _, other := range []string{"added", "modified", "renamed"} {
				if other != e.State && ms[other] {
					ok = false
				}
			}
		}
		if !ok {
			r.Violate(hx.Violation{Class: "state:" + e.State, Input: cs, Observed: map[string]any{"rule": k, "markers": have, "stderr": tail(res.Stderr, 400)},
				Expected: "marker of state " + e.State + " (and the CI default block iff the rule changed)"})
			return
		}
	}
	r.Sample(map[string]any{"ops": cs.Ops, "expected": exp})
}

func runC03(r *hx.Run, replay string) {
	if replay != "" {
		b, err := os.ReadFile(replay)
		if err != nil {
			panic(err)
		}
		var rp struct {
			Input c03Case `json:"input"`
		}
		if err := json.Unmarshal(b, &rp); err != nil {
			panic(err)
		}
		c03Eval(r, rp.Input)
		return
	}
	rr := r.Rng
	for i := 0; i < r.N; i++ {
		nextID := 0
		var base c03Tree
		for f, n := 0, 1+rr.Intn(3); f < n; f++ {
			file := c03File{ID: nextID, Path: fmt.Sprintf("rules/f%d.yml", nextID)}
			nextID++
			u := map[string]bool{}
			for k, m := 0, 1+rr.Intn(4); k < m; k++ {
				file.Rules = append(file.Rules, c03RandRule(r, u))
			}
			base = append(base, file)
		}
		cs := c03Case{Base: base, BaseMoves: rr.Intn(4) == 0}
		cur := base.clone()
		var snapshots []c03Tree
		for c, n := 0, 1+rr.Intn(4); c < n; c++ {
			var descs []string
			if rr.Intn(6) == 0 && len(snapshots) > 0 {
				// edit-then-revert: go back to an earlier tree
				cur = snapshots[rr.Intn(len(snapshots))].clone()
				descs = append(descs, "revert to an earlier tree")
			} else {
				for o, m := 0, 1+rr.Intn(2); o < m; o++ {
					descs = append(descs, c03Op(r, &cur, &nextID))
				}
			}
			snapshots = append(snapshots, cur.clone())
			cs.Commits = append(cs.Commits, cur.clone())
			cs.Ops = append(cs.Ops, strings.Join(descs, "; "))
		}
		if cs.BaseMoves && rr.Intn(2) == 0 {
			// main independently edits a file the branch does not own: add an unrelated file
			m := base.clone()
			m = append(m, c03File{ID: 9000, Path: "rules/mainonly.yml", Rules: []c03Rule{{Name: "main:only", Expr: "up"}}})
			cs.MainCommit = m
		}
		c03Eval(r, cs)
	}
}
