package main

// C16: promql/series against a fake Prometheus backed by the real PromQL engine over a database whose content is known.

import (
	"slices"
	"regexp"
	"context"
	"encoding/json"
	"fmt"
	"net/http/httptest"
	"os"
	"sort"
	"strings"
	"time"

	"github.com/prometheus/client_golang/prometheus"
	"github.com/prometheus/prometheus/model/labels"
	promParser "github.com/prometheus/prometheus/promql/parser"

	"github.com/cloudflare/pint/internal/checks"
	"github.com/cloudflare/pint/internal/discovery"
	"github.com/cloudflare/pint/internal/promapi"
	"github.com/cloudflare/pint/verifharness/hx"
	"github.com/cloudflare/pint/verifharness/pipe"
	"github.com/cloudflare/pint/verifharness/promeval"
)

func init() { props["C16"] = runC16 }

type c16Metric struct {
	Name  string `json:"name"`
	Class string `json:"class"` // present | never | other-labels | disappeared | intermittent
}

type c16Case struct {
	Expr       string      `json:"expr"`
	Alert      bool        `json:"alerting_rule"`
	Metrics    []c16Metric `json:"metrics"`
	Producer   string      `json:"recording_rule_for,omitempty"` // another rule of the checked set records this metric
	AlertNamed string      `json:"alert_named_like_metric,omitempty"` // an ALERTING rule of the checked set carries a metric's name: it produces nothing
	Comment    string      `json:"comment,omitempty"`
	Ignore     string      `json:"ignore_metrics,omitempty"`
	NoUptime   bool        `json:"uptime_metric_missing"`
	Swapped    string      `json:"same_query_operands_swapped,omitempty"`
	// the producing recording rule / the alerting rule behind an ALERTS selector is being removed on this branch
	ProducerRemoved bool `json:"producer_is_removed,omitempty"`
	AlertRule       string `json:"alerting_rule_named,omitempty"`
	AlertRemoved    bool `json:"alerting_rule_is_removed,omitempty"`
}

const c16Lookback = time.Hour

var c16NoLabelRe = regexp.MustCompile("has `([^`]+)` metric but there are no series with `([^`]+)` label in the last")

func c16DB(cs c16Case, now time.Time) *promeval.DB {
	db := &promeval.DB{}
	add := func(ls map[string]string, present func(k int) bool) {
		s := promeval.Series{Labels: labels.FromMap(ls)}
		for k := 0; k <= 150; k++ { // every 30s over 75 minutes
			if present(k) {
				s.Samples = append(s.Samples, promeval.Sample{T: now.Add(time.Duration(k-150) * 30 * time.Second).UnixMilli(), V: float64(k%7 + 1)})
			}
		}
		if len(s.Samples) > 0 {
			db.Series = append(db.Series, s)
		}
	}
	if !cs.NoUptime {
		add(map[string]string{"__name__": "up", "job": "prom"}, func(int) bool { return true })
	}
	add(map[string]string{"__name__": "ALERTS", "alertname": "Bar", "alertstate": "firing"}, func(int) bool { return true })
	for _, m := range cs.Metrics {
		switch m.Class {
		case "present":
			add(map[string]string{"__name__": m.Name, "job": "a", "env": "p"}, func(int) bool { return true })
			add(map[string]string{"__name__": m.Name, "job": "b", "env": "q"}, func(int) bool { return true })
		case "never":
		case "other-labels":
			add(map[string]string{"__name__": m.Name, "job": "zzz", "env": "zzz"}, func(int) bool { return true })
		case "disappeared":
			add(map[string]string{"__name__": m.Name, "job": "a", "env": "p"}, func(k int) bool { return k < 100 })
		case "intermittent":
			add(map[string]string{"__name__": m.Name, "job": "a", "env": "p"}, func(k int) bool { return (k/20)%2 == 0 && k < 130 })
		}
	}
	return db
}

// c16CommentExempts: does the selector written inside promql/series(...) of the case's comment name this vector selector?
// By the documentation: the metric name alone, the whole selector, or a selector all of whose matchers the query's selector
// carries (in any order).
func c16CommentExempts(comment string, vs *promParser.VectorSelector) bool {
	i, j := strings.Index(comment, "promql/series("), strings.LastIndex(comment, ")")
	if i < 0 || j < i {
		return false
	}
	inner := comment[i+len("promql/series(") : j]
	if inner == vs.Name || inner == vs.String() {
		return true
	}
	ms, err := promParser.ParseMetricSelector(inner)
	if err != nil {
		return false
	}
	for _, m := range ms {
		found := false
		for _, q := range vs.LabelMatchers {
			if q.Type == m.Type && q.Name == m.Name && q.Value == m.Value {
				found = true
			}
		}
		if !found {
			return false
		}
	}
	return true
}

func c16Eval(r *hx.Run, cs c16Case) {
	now := time.Now().UTC()
	db := c16DB(cs, now)
	api := &promeval.API{DB: db}
	ts := httptest.NewServer(api)
	defer ts.Close()
	prom := promapi.NewPrometheus("prom", ts.URL, "", nil, 10*time.Second, 4, 100000, nil)
	fg := promapi.NewFailoverGroup("prom", ts.URL, []*promapi.Prometheus{prom}, true, "up", nil, nil, nil)
	reg := prometheus.NewRegistry()
	fg.StartWorkers(reg)
	defer fg.Close(reg)

	var sb strings.Builder
	sb.WriteString("groups:\n- name: g\n  rules:\n")
	if cs.Comment != "" {
		sb.WriteString("  " + cs.Comment + "\n")
	}
	if cs.Alert {
		fmt.Fprintf(&sb, "  - alert: TheRule\n    expr: %s\n", cs.Expr)
	} else {
		fmt.Fprintf(&sb, "  - record: the:rule\n    expr: %s\n", cs.Expr)
	}
	if cs.Producer != "" {
		fmt.Fprintf(&sb, "  - record: %s\n    expr: sum(up)\n", cs.Producer)
	}
	if cs.AlertNamed != "" {
		fmt.Fprintf(&sb, "  - alert: %s\n    expr: up == 0\n", cs.AlertNamed)
	}
	if cs.AlertRule != "" {
		fmt.Fprintf(&sb, "  - alert: %s\n    expr: up == 0\n", cs.AlertRule)
	}
	entries, perr := pipe.Entries("r.yml", []byte(sb.String()), pipe.Options{Strict: true})
	if perr != "" || len(entries) == 0 || entries[0].Rule.Expr().SyntaxError != nil {
		r.Count("unparsable")
		return
	}
	settings := &checks.PromqlSeriesSettings{LookbackRange: "1h", LookbackStep: "1m"}
	if cs.Ignore != "" {
		settings.IgnoreMetrics = []string{cs.Ignore}
	}
	if err := settings.Validate(); err != nil {
		panic(err)
	}
	ctx := context.WithValue(context.Background(), checks.SettingsKey(checks.SeriesCheckName), settings)
	for i := range entries {
		if i == 0 {
			continue
		}
		n := entries[i].Rule.Name()
		if (cs.ProducerRemoved && entries[i].Rule.RecordingRule != nil && n == cs.Producer) || (cs.AlertRemoved && entries[i].Rule.AlertingRule != nil && n == cs.AlertRule) {
			entries[i].State = discovery.Removed // pint ci hands removed rules to checks as entries of this state
		}
	}
	var problems []checks.Problem
	func() {
		defer func() {
			if p := recover(); p != nil {
				r.Violate(hx.Violation{Class: "series-check-panics", Input: cs, Observed: fmt.Sprint(p)})
				problems = nil
			}
		}()
		problems = checks.NewSeriesCheck(fg).Check(ctx, entries[0], entries)
	}()

	// the verdict on a selector does not depend on where in the query it stands
	// ... nor on matchers that select nothing away: foo{cluster=""} is foo when no series has that label
	if cs.Swapped == "" && cs.Comment == "" && strings.Contains(cs.Expr, "cluster=") {
		cs.Swapped = strings.NewReplacer(`{cluster=""}`, "", `cluster=~".*", `, "").Replace(cs.Expr)
	}
	if cs.Swapped != "" && cs.Comment == "" {
		text := sb.String()
		sw := strings.Replace(text, "expr: "+cs.Expr+"\n", "expr: "+cs.Swapped+"\n", 1)
		if es2, perr2 := pipe.Entries("r.yml", []byte(sw), pipe.Options{Strict: true}); perr2 == "" && len(es2) == len(entries) {
			for i := range es2 {
				es2[i].State = entries[i].State
			}
			key := func(ps []checks.Problem) []string {
				var o []string
				for _, p := range ps {
					m := ""
					if len(p.Diagnostics) > 0 {
						m = p.Diagnostics[0].Message
					}
					if strings.Contains(cs.Expr, "cluster=") {
						m = "" // the messages quote the selector text, which differs
					}
					o = append(o, fmt.Sprintf("%s|%s|%s", p.Summary, p.Severity, m))
				}
				sort.Strings(o)
				if strings.Contains(cs.Expr, "cluster=") {
					// dropping a matcher that selects nothing away can make two selectors of the query the same text, and
					// pint reports once per distinct selector: the rewritten query is compared as a set of problems
					o = slices.Compact(o)
				}
				return o
			}
			p2 := checks.NewSeriesCheck(fg).Check(ctx, es2[0], es2)
			r.Count("operand-swaps")
			if a, b := key(problems), key(p2); fmt.Sprint(a) != fmt.Sprint(b) {
				r.Violate(hx.Violation{Class: "verdict-depends-on-operand-order", Input: cs, Observed: map[string]any{cs.Expr: a, cs.Swapped: b},
					Expected: "the same problems for two ways of writing the same query"})
				return
			}
		}
	}

	// the selectors of the expression, with their positions
	node, _ := promParser.ParseExpr(cs.Expr)
	// selectors directly guarded by an `or vector(...)` fallback are pint's documented exemption
	guarded := map[string]bool{}
	unlessRHS := map[string]bool{}
	promParser.Inspect(node, func(n promParser.Node, _ []promParser.Node) error {
		if be, ok := n.(*promParser.BinaryExpr); ok && be.Op == promParser.LUNLESS {
			// what stands right of `unless` only takes series away: pint does not judge it
			promParser.Inspect(be.RHS, func(m promParser.Node, _ []promParser.Node) error {
				if vs, ok := m.(*promParser.VectorSelector); ok {
					unlessRHS[vs.String()] = true
				}
				return nil
			})
		}
		if be, ok := n.(*promParser.BinaryExpr); ok && be.Op == promParser.LOR && strings.HasPrefix(be.RHS.String(), "vector(") {
			promParser.Inspect(be.LHS, func(m promParser.Node, _ []promParser.Node) error {
				if vs, ok := m.(*promParser.VectorSelector); ok {
					guarded[vs.String()] = true
				}
				return nil
			})
		}
		return nil
	})
	var sels []*promParser.VectorSelector
	promParser.Inspect(node, func(n promParser.Node, _ []promParser.Node) error {
		if vs, ok := n.(*promParser.VectorSelector); ok {
			sels = append(sels, vs)
		}
		return nil
	})
	r.Case(fmt.Sprint(cs), len(sels) > 0)
	classOf := map[string]string{}
	for _, m := range cs.Metrics {
		classOf[m.Name] = m.Class
		r.Count("class:" + m.Class)
	}
	seen := map[string]bool{}
	for _, vs := range sels {
		if seen[vs.String()] {
			continue
		}
		seen[vs.String()] = true
		nowRes, _, err := promeval.Instant(db, vs.String(), now)
		if err != nil {
			continue
		}
		var mine []checks.Problem
		for _, p := range problems {
			// "invalid comment" warnings (a disable/snooze comment that matches no selector) are about the comment
			if len(p.Diagnostics) > 0 && p.Diagnostics[0].FirstColumn == int(vs.PosRange.Start)+1 && (p.Summary == "query on nonexistent series" || p.Summary == "unknown alert referenced") {
				mine = append(mine, p)
			}
		}
		hasFallback := guarded[vs.String()]
		exempt := hasFallback || (cs.Comment != "" && c16CommentExempts(cs.Comment, vs)) || strings.HasPrefix(vs.Name, "ALERTS")
		show := func() []string {
			var o []string
			for _, p := range mine {
				o = append(o, fmt.Sprintf("%s/%s", p.Summary, p.Severity))
			}
			return o
		}
		// ALERTS: the alert named by an equality matcher must be a rule of the checked set that is not being removed;
		// any other matcher names no alert at all
		if strings.HasPrefix(vs.Name, "ALERTS") {
			named := ""
			for _, lm := range vs.LabelMatchers {
				if lm.Name == "alertname" && lm.Type == labels.MatchEqual {
					named = lm.Value
				}
			}
			unknown := false
			var rest []checks.Problem
			for _, p := range mine {
				if p.Summary == "unknown alert referenced" {
					unknown = true
				} else {
					rest = append(rest, p)
				}
			}
			want := named != "" && !(cs.AlertRule == named && !cs.AlertRemoved) && cs.AlertNamed != named
			r.Count(fmt.Sprintf("alerts-selector:unknown=%v", want))
			if unknown != want && (cs.Comment == "" || !c16CommentExempts(cs.Comment, vs)) && !(want && (guarded[vs.String()] || unlessRHS[vs.String()])) {
				r.Violate(hx.Violation{Class: "alerts-selector-verdict", Input: cs, Observed: map[string]any{"selector": vs.String(), "unknown_alert_reported": unknown},
					Expected: map[string]any{"unknown_alert_reported": want, "why": "only alertname=\"X\" names an alert, and X must be an alerting rule of the checked set that is not being removed"}})
				return
			}
			mine = rest
		}
		// (A) returns series now => never reported
		if len(nowRes) > 0 && len(mine) > 0 {
			r.Violate(hx.Violation{Class: "present-selector-reported", Input: cs, Observed: map[string]any{"selector": vs.String(), "series_now": len(nowRes), "problems": show()},
				Expected: "a selector that currently returns series is never reported"})
			return
		}
		// (C) beyond the two clauses of the statement, still "verdicts agree with what the server holds": what a verdict says
		// the server does NOT hold must be true of the database (seeded change C16-dummy-uptime-covers-one-step)
		for _, p := range mine {
			text := p.Details
			for _, d := range p.Diagnostics {
				text += "\n" + d.Message
			}
			if m := c16NoLabelRe.FindStringSubmatch(text); m != nil {
				held := 0
				from := now.Add(-c16Lookback).UnixMilli()
				for _, sr := range db.Series {
					if sr.Labels.Get("__name__") != m[1] || sr.Labels.Get(m[2]) == "" {
						continue
					}
					for _, sm := range sr.Samples {
						if sm.T >= from && sm.T <= now.UnixMilli() {
							held++
							break
						}
					}
				}
				r.Count(fmt.Sprintf("claim:no-series-with-label:true=%v", held == 0))
				if held > 0 {
					r.Violate(hx.Violation{Class: "verdict-claims-label-never-present-but-server-holds-it", Input: cs,
						Observed: map[string]any{"selector": vs.String(), "verdict": text, "series_of_the_metric_with_that_label_in_the_window": held},
						Expected: "no such verdict: the database holds series of the metric with that label inside the lookback window"})
					return
				}
			}
		}
		// (B) metric never there, nobody produces it, no exemption => Bug
		never := classOf[vs.Name] == "never"
		if never && !exempt && (cs.Producer != vs.Name || cs.ProducerRemoved) && (cs.Ignore == "" || !strings.HasPrefix(vs.Name, strings.TrimSuffix(cs.Ignore, ".*"))) {
			bug := false
			for _, p := range mine {
				if p.Summary == "query on nonexistent series" && p.Severity == checks.Bug {
					bug = true
				}
			}
			if !bug {
				r.Violate(hx.Violation{Class: "never-present-metric-not-reported", Input: cs, Observed: map[string]any{"selector": vs.String(), "problems": show(), "queries": api.Queries},
					Expected: "Bug: query on nonexistent series"})
				return
			}
		}
		// model correspondence on the decided steps: step 0
		if !hasFallback && !unlessRHS[vs.String()] && strings.HasPrefix(vs.Name, "ALERTS") {
			named, stays := "", false
			for _, lm := range vs.LabelMatchers {
				if lm.Name == "alertname" && lm.Type == labels.MatchEqual {
					named = lm.Value
				}
			}
			for i, e := range entries {
				if i > 0 && e.Rule.AlertingRule != nil && e.Rule.Error.Err == nil && e.Rule.Name() == named && e.State != discovery.Removed {
					stays = true
				}
			}
			if cs.Alert && named == "TheRule" {
				stays = true
			}
			disabled := cs.Comment != "" && strings.Contains(cs.Comment, "disable") && c16CommentExempts(cs.Comment, vs)
			snoozed := cs.Comment != "" && strings.Contains(cs.Comment, "snooze") && c16CommentExempts(cs.Comment, vs)
			impl := "none"
			for _, p := range problems {
				if len(p.Diagnostics) > 0 && p.Diagnostics[0].FirstColumn == int(vs.PosRange.Start)+1 && p.Summary == "unknown alert referenced" {
					impl = "unknown-alert"
				}
			}
			b, _ := json.Marshal(map[string]any{"isAlerts": true, "alertNamed": named != "", "alertRuleStays": stays, "disabled": disabled, "snoozed": snoozed})
			r.Op("seriesverdict\t"+string(b), impl)
		}
		// steps 1 and 2
		if !hasFallback && !strings.HasPrefix(vs.Name, "ALERTS") {
			count := 0
			if cres, cv, err := promeval.Instant(db, "count("+vs.String()+")", now); err == nil && len(cres) > 0 {
				count = int(cv[0])
			}
			baseRanges := 0
			if cl := classOf[vs.Name]; cl != "never" && cl != "" {
				baseRanges = 1
			}
			disabled := cs.Comment != "" && strings.Contains(cs.Comment, "disable") && c16CommentExempts(cs.Comment, vs)
			snoozed := cs.Comment != "" && strings.Contains(cs.Comment, "snooze") && c16CommentExempts(cs.Comment, vs)
			ignored := cs.Ignore != "" && strings.HasPrefix(vs.Name, strings.TrimSuffix(cs.Ignore, ".*"))
			probe := map[string]any{"isAlerts": false, "disabled": disabled, "snoozed": snoozed, "instantErr": false, "instantCount": count,
				"bareEmpty": false, "baseErr": false, "baseRanges": baseRanges, "producer": cs.Producer == vs.Name && !cs.ProducerRemoved, "otherServers": true, "ignored": ignored}
			impl := "none"
			for _, p := range mine {
				if p.Summary == "query on nonexistent series" {
					impl = strings.ToLower(p.Severity.String())
				}
			}
			if baseRanges > 0 && count == 0 && !disabled && !snoozed {
				impl = "later" // decided by the steps the model does not cover
			}
			b, _ := json.Marshal(probe)
			r.Op("seriesverdict\t"+string(b), impl)
		}
	}
	r.Sample(map[string]any{"expr": cs.Expr, "problems": len(problems)})
}

func runC16(r *hx.Run, replay string) {
	if replay != "" {
		b, err := os.ReadFile(replay)
		if err != nil {
			panic(err)
		}
		var rp struct {
			Input c16Case `json:"input"`
		}
		if err := json.Unmarshal(b, &rp); err != nil {
			panic(err)
		}
		c16Eval(r, rp.Input)
		return
	}
	rr := r.Rng
	names := []string{"foo", "bar", "baz_total", "errs"}
	classes := []string{"present", "never", "other-labels", "disappeared", "intermittent"}
	for i := 0; i < r.N; i++ {
		cs := c16Case{Alert: rr.Intn(2) == 0}
		for _, n := range names {
			cs.Metrics = append(cs.Metrics, c16Metric{Name: n, Class: hx.Pick(rr, classes)})
		}
		sel := func() string {
			n := hx.Pick(rr, names)
			switch rr.Intn(6) {
			case 0:
				return n
			case 1:
				return n + `{job="a"}`
			case 2:
				return n + `{job="a", env="p"}`
			case 3:
				return n + `{env=~"p|q"}`
			case 4:
				return n + `{job!="b"}`
			}
			switch rr.Intn(9) {
			case 8:
				return n + `{cluster="x"}` // a label no series ever had: step 3 says so, and oracle (C) checks that it is true
			case 0:
				return n + `{cluster=""}` // no series has a cluster label: these two select what the bare name selects
			case 1:
				return n + `{cluster=~".*", job=~"a|b|zzz"}`
			case 2:
				return `ALERTS{alertname!="Foo"}` // every alert but Foo: Bar is firing
			case 3:
				return `ALERTS{alertname="` + hx.Pick(rr, []string{"Bar", "Gone"}) + `"}`
			default:
				return n + `{job="nope"}`
			}
		}
		switch rr.Intn(10) {
		case 0:
			cs.Expr = sel()
		case 1:
			cs.Expr = "sum(" + sel() + ") by (job)"
		case 2:
			cs.Expr = "rate(" + sel() + "[2m]) > 0"
		case 3:
			a, b := sel(), sel()
			cs.Expr = a + " / " + b
			cs.Swapped = b + " / " + a
		case 4:
			cs.Expr = sel() + " > 0 and on(job) " + sel()
		case 5:
			cs.Expr = "sum(" + sel() + ") or vector(0)"
		case 6:
			cs.Expr = "count(" + sel() + ") by (env) > 1"
		case 7:
			// a join with a fallback on one side and a conditional unless on another metric
			cs.Expr = sel() + " " + hx.Pick(rr, []string{"/", "and", "*"}) + " (" + sel() + " or vector(1)) unless " + sel() + " > 0"
		case 8:
			cs.Expr = sel() + " unless " + sel() + " > 0"
		default:
			cs.Expr = "(" + sel() + " or vector(0)) + on() group_left() " + sel()
		}
		if rr.Intn(4) == 0 {
			cs.AlertNamed = hx.Pick(rr, names)
			for _, m := range cs.Metrics { // prefer a metric the query uses and the server never had
				if m.Class == "never" && strings.Contains(cs.Expr, m.Name) {
					cs.AlertNamed = m.Name
				}
			}
		}
		if strings.Contains(cs.Expr, `alertname="`) {
			cs.AlertRule = hx.Pick(rr, []string{"Bar", "Gone", "Other"})
			cs.AlertRemoved = rr.Intn(2) == 0
		}
		if rr.Intn(12) == 0 {
			cs.Comment = "# pint rule/set promql/series(" + hx.Pick(rr, names) + " min-age 1d" // no closing parenthesis
		}
		switch rr.Intn(8) {
		case 0:
			cs.Producer = hx.Pick(rr, names)
			for _, m := range cs.Metrics { // prefer a metric the query uses and the server never had
				if m.Class == "never" && strings.Contains(cs.Expr, m.Name) {
					cs.Producer = m.Name
				}
			}
			cs.ProducerRemoved = rr.Intn(2) == 0
		case 1:
			cs.Comment = "# pint disable promql/series(" + hx.Pick(rr, names) + ")"
		case 2:
			cs.Comment = "# pint snooze 2099-01-01 promql/series(" + hx.Pick(rr, names) + ")"
		case 5:
			// the selector form of the comment: a whole selector of the query, its matchers in another order, or ANOTHER
			// metric's name with matchers this query's selectors carry (which names none of them)
			var sels []*promParser.VectorSelector
			if node, err := promParser.ParseExpr(cs.Expr); err == nil {
				promParser.Inspect(node, func(n promParser.Node, _ []promParser.Node) error {
					if v, ok := n.(*promParser.VectorSelector); ok && v.Name != "" {
						sels = append(sels, v)
					}
					return nil
				})
			}
			if len(sels) > 0 {
				v := hx.Pick(rr, sels)
				var ms []string
				for _, m := range v.LabelMatchers {
					if m.Name != "__name__" {
						ms = append(ms, m.String())
					}
				}
				rr.Shuffle(len(ms), func(a, b int) { ms[a], ms[b] = ms[b], ms[a] })
				name := v.Name
				if rr.Intn(2) == 0 {
					name = hx.Pick(rr, []string{"some_other_metric", hx.Pick(rr, names)})
				}
				inner := name
				if len(ms) > 0 {
					inner += "{" + strings.Join(ms, ", ") + "}"
				}
				cs.Comment = hx.Pick(rr, []string{"# pint disable promql/series(", "# pint snooze 2099-01-01 promql/series("}) + inner + ")"
			}
		case 3:
			cs.Ignore = hx.Pick(rr, names) + ".*"
		case 4:
			cs.NoUptime = true
		}
		c16Eval(r, cs)
	}
}
