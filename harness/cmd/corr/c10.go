package main

import (
	"encoding/json"
	"fmt"
	"os"
	"strings"
	"time"

	"github.com/cloudflare/pint/internal/comments"
	"github.com/cloudflare/pint/internal/parser"
	"github.com/cloudflare/pint/verifharness/gen"
	"github.com/cloudflare/pint/verifharness/hx"
	"github.com/cloudflare/pint/verifharness/pipe"
)

func init() { props["C10"] = runC10 }

var c10Keywords = []string{"ignore/file", "ignore/line", "ignore/begin", "ignore/end", "ignore/next-line",
	"file/owner", "rule/owner", "file/disable", "disable", "file/snooze", "snooze", "rule/set", "bogus", "ignore/next", "Disable"}
var c10Values = []string{"", "", "", "promql/series", "alerts/template", "bob", "2099-01-01 promql/rate", "2000-01-01T00:00:00Z alerts/for",
	"2099-13-01 x", "notatime", "foo bar", "# pint ignore/line", "x # y",
	"2099-01-01  promql/rate", "2099-01-01\tpromql/rate", "2099-01-01 \t alerts/for  ", "2099-01-01"}
var c10Plain = []string{"", "  ", "groups:", "- name: g", "  rules:", "  - record: foo", "    expr: up", "  - alert: A", "    expr: up == 0",
	"{% set x = 1 %}", "{{ jinja }}", "   # plain comment", "key: 'value # not comment'", "\tfoo", "foo\r", "é日 α", "a b", "# pintx disable y", "#pint disable z"}

func c10CommentLine(r *hx.Run) string {
	rr := r.Rng
	var sb strings.Builder
	if rr.Intn(3) == 0 {
		sb.WriteString(hx.Pick(rr, c10Plain))
		if rr.Intn(2) == 0 {
			sb.WriteString(" ")
		}
	}
	sb.WriteString("#")
	sb.WriteString(hx.Pick(rr, []string{" ", "", "  ", "\t", "  "}))
	sb.WriteString(hx.Pick(rr, []string{"pint", "pint", "pint", "pint", "pin", "pinté", "pint#", "Pint"}))
	sb.WriteString(hx.Pick(rr, []string{" ", " ", "  ", "\t", ""}))
	kw := hx.Pick(rr, c10Keywords)
	if rr.Intn(8) == 0 && len(kw) > 1 {
		// a stray character inside the keyword
		k := 1 + rr.Intn(len(kw)-1)
		kw = kw[:k] + hx.Pick(rr, []string{"4", ".", "#", "?", "_", "é", "(", "="}) + kw[k:]
	}
	sb.WriteString(kw)
	if rr.Intn(8) == 0 {
		sb.WriteString(hx.Pick(rr, []string{"#", "1", "x", "/", "-"}))
	}
	v := hx.Pick(rr, c10Values)
	if v != "" {
		sb.WriteString(hx.Pick(rr, []string{" ", "  ", "\t"}))
		sb.WriteString(v)
	}
	if rr.Intn(6) == 0 {
		sb.WriteString(hx.Pick(rr, []string{" ", "\r", "  \t"}))
	}
	return sb.String()
}

func c10ValidTS(lines []string) []string {
	seen := map[string]bool{}
	var out []string
	for _, l := range lines {
		for _, tok := range strings.Fields(l) {
			if seen[tok] || tok == "" {
				continue
			}
			seen[tok] = true
			if _, err := time.Parse(time.RFC3339, tok); err == nil {
				out = append(out, tok)
			} else if _, err := time.Parse("2006-01-02", tok); err == nil {
				out = append(out, tok)
			}
		}
	}
	return out
}

func c10RenderComment(c comments.Comment) string {
	name := map[comments.Type]string{
		comments.UnknownType: "unknown", comments.InvalidComment: "invalid", comments.IgnoreFileType: "ignore/file",
		comments.IgnoreLineType: "ignore/line", comments.IgnoreBeginType: "ignore/begin", comments.IgnoreEndType: "ignore/end",
		comments.IgnoreNextLineType: "ignore/next-line", comments.FileOwnerType: "file/owner", comments.RuleOwnerType: "rule/owner",
		comments.FileDisableType: "file/disable", comments.DisableType: "disable", comments.FileSnoozeType: "file/snooze",
		comments.SnoozeType: "snooze", comments.RuleSetType: "rule/set",
	}[c.Type]
	val := "-"
	switch v := c.Value.(type) {
	case comments.Owner:
		val = "T:" + v.Name
	case comments.Disable:
		val = "T:" + v.Match
	case comments.RuleSet:
		val = "T:" + v.Value
	case comments.Snooze:
		val = "S:" + v.Match
	case comments.Invalid:
		m := v.Err.Error()
		switch {
		case strings.Contains(m, "unexpected comment suffix"):
			val = "E:suffix"
		case strings.Contains(m, "invalid snooze comment, expected"):
			val = "E:snooze-format"
		case strings.Contains(m, "invalid snooze timestamp"):
			val = "E:snooze-timestamp"
		case strings.Contains(m, "missing "):
			val = "E:missing"
		default:
			val = "E:?" + m
		}
	}
	return fmt.Sprintf("%s@%d %s", name, c.Offset, val)
}

func c10ReaderOp(r *hx.Run, lines []string, lastNL bool) {
	// an empty last line without a newline is not a line at all: normalise the encoding
	if !lastNL && len(lines) > 0 && lines[len(lines)-1] == "" {
		lines = lines[:len(lines)-1]
		lastNL = true
		if len(lines) == 0 {
			return
		}
	}
	content := strings.Join(lines, "\n")
	if lastNL {
		content += "\n"
	}
	res := parser.VerifReadContent([]byte(content))
	var cs, ds []string
	for _, c := range res.Comments {
		cs = append(cs, hx.Hex(c10RenderComment(c)))
	}
	for _, d := range res.Diagnostics {
		for _, p := range d.Pos {
			ds = append(ds, fmt.Sprintf("%d:%d:%d", p.Line, p.FirstColumn, p.LastColumn))
		}
	}
	implAns := fmt.Sprintf("st=%s%s%s%s|M:%s|C:%s|D:%s", hx.B(res.SkipAll), hx.B(res.SkipNext), hx.B(res.AutoReset), hx.B(res.InBegin),
		hx.Hex(string(res.Masked)), strings.Join(cs, ","), strings.Join(ds, ","))
	hl := make([]string, len(lines))
	for i, l := range lines {
		hl[i] = hx.Hex(l)
	}
	op := fmt.Sprintf("reader\t%s\t%s\t%s", hx.B(lastNL), hx.HexList(c10ValidTS(lines), ","), strings.Join(hl, "\t"))
	r.Op(op, implAns)
}

// ---- property observation: two files that differ only inside excluded text ----

type c10Case struct {
	Form     string   `json:"form"`
	FileA    string   `json:"file_a"`
	FileB    string   `json:"file_b"`
	Base     string   `json:"base,omitempty"`
	At       int      `json:"insert_at_line"`
	PayloadA []string `json:"payload_a"`
	PayloadB []string `json:"payload_b"`
}

var c10Payload = []string{"{% set foo = 1 %}", "{{ range .Values }}", "  - record: hidden", "    expr: sum(secret) by (", "- alert: Bad", "\t\tbroken: [yaml",
	"key: : :", "'unterminated", "groups:", "  rules: {", "plain text here", "", "  ", "- name: other", "    expr: up", "*anchor", "&x y: *x", "--- ", "# not a pint comment", "#pintx foo",
	// text that is not ASCII: byte offsets and character offsets differ on these lines
	"{% set title = \"日本語\" %}", "größe: [ünterminated", "- record: naïve:é", "    expr: sum(sécret) by (", "—— ✓ ——", "key: \"\u00e9\" é: :"}
var c10PayloadCtl = []string{"# pint ignore/next-line", "# pint ignore/begin", "# pint ignore/file", "# pint file/disable promql/syntax", "# pint file/owner bob",
	"# pint disable alerts/template", "  # pint ignore/line", "foo # pint ignore/line", "# pint file/snooze 2099-01-01 promql/syntax", "# pint ignore/end x", "# pint rule/set foo bar"}

func c10HasCtl(lines []string) bool {
	for _, l := range lines {
		if len(comments.Parse(1, l)) > 0 {
			return true
		}
	}
	return false
}

func c10Observe(r *hx.Run) {
	rr := r.Rng
	groups := gen.RandGroups(rr, 2, 3)
	base, starts := gen.GroupFile(groups)
	// insertion points: before any rule, or at the very top, or at the end
	points := append([]int{0, len(base)}, starts...)
	// an earlier exclusion of another form, the same in every file compared: what one form leaves behind in the
	// reader's state must not change what a later form excludes (seeded change C10-autoreset-leaks-into-block)
	if rr.Intn(2) == 0 {
		pre := hx.Pick(rr, [][]string{
			{"# pint ignore/next-line", "{{ excluded earlier }}"},
			{"{{ excluded earlier }} # pint ignore/line"},
			{"# pint ignore/begin", "{{ excluded earlier }}", "{{ and this }}", "# pint ignore/end"},
		})
		at0 := hx.Pick(rr, points)
		nb := append([]string{}, base[:at0]...)
		nb = append(nb, pre...)
		nb = append(nb, base[at0:]...)
		base = nb
		var later []int
		for _, p := range points {
			if p >= at0 {
				later = append(later, p+len(pre))
			}
		}
		points = later
		r.Count("earlier-exclusion:" + strings.Fields(pre[len(pre)-1] + " x")[0])
	}
	at := hx.Pick(rr, points)
	form := hx.Pick(rr, []string{"begin-end", "next-line", "line", "file"})
	withCtl := rr.Intn(5) == 0
	np := 1 + rr.Intn(3)
	if form == "next-line" || form == "line" {
		np = 1
	}
	mk := func() []string {
		p := make([]string, np)
		for i := range p {
			if withCtl && rr.Intn(2) == 0 {
				p[i] = hx.Pick(rr, c10PayloadCtl)
			} else {
				p[i] = hx.Pick(rr, c10Payload)
			}
		}
		return p
	}
	pa, pb := mk(), mk()
	if form == "line" {
		// payload is the text before the comment; it must leave the comment recognisable
		pa[0] = strings.ReplaceAll(pa[0], "#", "%")
		pb[0] = strings.ReplaceAll(pb[0], "#", "%")
	}
	build := func(p []string) ([]string, int) {
		var block []string
		switch form {
		case "begin-end":
			block = append(block, "# pint ignore/begin")
			block = append(block, p...)
			block = append(block, "# pint ignore/end")
		case "next-line":
			block = append(block, "# pint ignore/next-line", p[0])
		case "line":
			block = append(block, p[0]+" # pint ignore/line")
		case "file":
			block = append(block, "# pint ignore/file")
			block = append(block, p...)
		}
		out := append([]string{}, base[:at]...)
		out = append(out, block...)
		if form != "file" {
			out = append(out, base[at:]...)
		} else {
			// everything after ignore/file is payload as well: B gets different trailing text
			out = append(out, p...)
		}
		return out, len(block)
	}
	la, blockLen := build(pa)
	lb, _ := build(pb)
	fa, fb := strings.Join(la, "\n")+"\n", strings.Join(lb, "\n")+"\n"
	known := c10HasCtl(pa) || c10HasCtl(pb)
	cfg, err := pipe.LoadConfig(r.OutDir, "")
	if err != nil {
		panic(err)
	}
	opts := pipe.Options{Strict: true, Offline: true}
	pipe.ApplyFlags(&cfg, opts)
	ra := pipe.Lint(cfg, "rules.yml", []byte(fa), opts)
	rb := pipe.Lint(cfg, "rules.yml", []byte(fb), opts)
	cs := c10Case{Form: form, FileA: fa, FileB: fb, At: at, PayloadA: pa, PayloadB: pb}
	key := func(res pipe.Result, after, shift int) []string {
		var ks []string
		if res.Panic != "" {
			ks = append(ks, "PANIC")
		}
		for _, e := range res.Entries {
			ks = append(ks, "E:"+pipe.RuleKey(e, after, shift))
		}
		ks = append(ks, pipe.ReportKeys(res.Reports, after, shift)...)
		return ks
	}
	ka, kb := key(ra, 1<<30, 0), key(rb, 1<<30, 0)
	r.Count("form:" + form)
	r.Count(fmt.Sprintf("payload-ctl:%v", known))
	r.Count(fmt.Sprintf("reports:%d", min(len(ra.Reports), 5)))
	nontrivial := strings.Join(pa, "\n") != strings.Join(pb, "\n")
	r.Case(fa+"\x00"+fb, nontrivial)
	r.Sample(cs)
	if strings.Join(ka, "\n") != strings.Join(kb, "\n") {
		r.Violate(hx.Violation{Class: "replace-payload:" + form, Known: known, Input: cs, Observed: map[string]any{"a": ka, "b": kb},
			Expected: "identical rules, positions and problems for both files"})
	}
	// insertion only shifts what follows (not for ignore/file, which hides the rest by design)
	if form != "file" {
		r0 := pipe.Lint(cfg, "rules.yml", []byte(strings.Join(base, "\n")+"\n"), opts)
		k0 := key(r0, 1<<30, 0)
		k1 := key(ra, at, blockLen)
		r.Case("ins\x00"+fa, true)
		if strings.Join(k0, "\n") != strings.Join(k1, "\n") {
			cs.Base = strings.Join(base, "\n") + "\n"
			r.Violate(hx.Violation{Class: "insert-shifts:" + form, Known: known, Input: cs, Observed: map[string]any{"base": k0, "with_block_shifted_back": k1},
				Expected: "inserting the excluded block only shifts line numbers of what follows"})
		}
	}
}

func runC10(r *hx.Run, replay string) {
	if replay != "" {
		b, err := os.ReadFile(replay)
		if err != nil {
			panic(err)
		}
		var rp struct {
			Input c10Case `json:"input"`
		}
		if err := json.Unmarshal(b, &rp); err != nil {
			panic(err)
		}
		c10Replay(r, rp.Input)
		return
	}
	rr := r.Rng
	// correspondence: single comment lines and whole-reader runs
	for i := 0; i < r.N*4; i++ {
		n := 1 + rr.Intn(8)
		lines := make([]string, n)
		for j := range lines {
			if rr.Intn(2) == 0 {
				lines[j] = c10CommentLine(r)
			} else {
				lines[j] = hx.Pick(rr, c10Plain)
			}
		}
		c10ReaderOp(r, lines, rr.Intn(4) != 0)
	}
	for i := 0; i < r.N; i++ {
		c10Observe(r)
	}
}

// c10Replay re-evaluates a recorded case on the real pipeline.
func c10Replay(r *hx.Run, cs c10Case) {
	cfg, err := pipe.LoadConfig(r.OutDir, "")
	if err != nil {
		panic(err)
	}
	opts := pipe.Options{Strict: true, Offline: true}
	pipe.ApplyFlags(&cfg, opts)
	key := func(content string) string {
		res := pipe.Lint(cfg, "rules.yml", []byte(content), opts)
		var ks []string
		if res.Panic != "" {
			ks = append(ks, "PANIC")
		}
		for _, e := range res.Entries {
			ks = append(ks, "E:"+pipe.RuleKey(e, 1<<30, 0))
		}
		ks = append(ks, pipe.ReportKeys(res.Reports, 1<<30, 0)...)
		return strings.Join(ks, "\n")
	}
	ka, kb := key(cs.FileA), key(cs.FileB)
	r.Case(cs.FileA+"\x00"+cs.FileB, true)
	r.Sample(cs)
	if ka != kb {
		r.Violate(hx.Violation{Class: "replace-payload:" + cs.Form, Known: c10HasCtl(cs.PayloadA) || c10HasCtl(cs.PayloadB), Input: cs,
			Observed: map[string]any{"a": strings.Split(ka, "\n"), "b": strings.Split(kb, "\n")}, Expected: "identical rules, positions and problems for both files"})
	}
}
