package main

import (
	"sort"
	"strings"

	"github.com/prometheus/prometheus/model/labels"
	promParser "github.com/prometheus/prometheus/promql/parser"
)

// lfConvert turns a parsed PromQL expression into the Lean model's Expr (JSON form); ok=false outside the fragment.
// used collects every label name the expression mentions.
func lfConvert(n promParser.Node, used map[string]bool) (map[string]any, bool) {
	note := func(ls []string) []string {
		out := append([]string{}, ls...)
		for _, l := range ls {
			if l != "__name__" {
				used[l] = true
			}
		}
		return out
	}
	matchers := func(vs *promParser.VectorSelector) []any {
		ms := []any{}
		for _, m := range vs.LabelMatchers {
			if m.Name == labels.MetricName {
				continue
			}
			used[m.Name] = true
			t := ""
			switch m.Type {
			case labels.MatchEqual:
				t = "eq"
				if m.Value == "" {
					t = "eqEmpty"
				}
			case labels.MatchNotEqual:
				t = "neq"
			case labels.MatchRegexp:
				t = "re"
			case labels.MatchNotRegexp:
				t = "nre"
			}
			ms = append(ms, map[string]any{"l": m.Name, "t": t})
		}
		return ms
	}
	selOf := func(e promParser.Expr) *promParser.VectorSelector {
		for {
			switch x := e.(type) {
			case *promParser.ParenExpr:
				e = x.Expr
			case *promParser.MatrixSelector:
				e = x.VectorSelector
			case *promParser.VectorSelector:
				return x
			default:
				return nil
			}
		}
	}
	switch x := n.(type) {
	case *promParser.VectorSelector:
		return map[string]any{"k": "sel", "ms": matchers(x)}, true
	case *promParser.MatrixSelector:
		return lfConvert(x.VectorSelector, used)
	case *promParser.SubqueryExpr:
		return lfConvert(x.Expr, used)
	case *promParser.ParenExpr:
		return lfConvert(x.Expr, used)
	case *promParser.UnaryExpr:
		e, ok := lfConvert(x.Expr, used)
		return map[string]any{"k": "withScalar", "e": e}, ok
	case *promParser.AggregateExpr:
		e, ok := lfConvert(x.Expr, used)
		if !ok {
			return nil, false
		}
		switch x.Op {
		case promParser.SUM, promParser.MIN, promParser.MAX, promParser.AVG, promParser.GROUP, promParser.STDDEV, promParser.STDVAR, promParser.COUNT, promParser.QUANTILE:
			if x.Without {
				return map[string]any{"k": "aggWithout", "g": note(x.Grouping), "e": e}, true
			}
			return map[string]any{"k": "aggBy", "g": note(x.Grouping), "e": e}, true
		case promParser.TOPK, promParser.BOTTOMK:
			return map[string]any{"k": "topk", "e": e}, true
		case promParser.COUNT_VALUES:
			if x.Without {
				return nil, false
			}
			v := lfStringArg(x.Param)
			used[v] = true
			return map[string]any{"k": "countValuesBy", "g": note(x.Grouping), "v": v, "e": e}, true
		}
		return nil, false
	case *promParser.Call:
		switch x.Func.Name {
		case "abs", "sgn", "acos", "acosh", "asin", "asinh", "atan", "atanh", "cos", "cosh", "sin", "sinh", "tan", "tanh",
			"ceil", "floor", "round", "changes", "resets", "clamp", "clamp_max", "clamp_min",
			"avg_over_time", "count_over_time", "last_over_time", "max_over_time", "min_over_time", "present_over_time", "quantile_over_time", "stddev_over_time", "stdvar_over_time", "sum_over_time",
			"deg", "rad", "ln", "log10", "log2", "sqrt", "exp", "delta", "idelta", "increase", "deriv", "irate", "rate", "timestamp":
			for i, a := range x.Args {
				vt := x.Func.ArgTypes[min(i, len(x.Func.ArgTypes)-1)]
				if vt == promParser.ValueTypeVector || vt == promParser.ValueTypeMatrix {
					e, ok := lfConvert(a, used)
					return map[string]any{"k": "func", "e": e}, ok
				}
			}
			return nil, false
		case "sort", "sort_desc":
			e, ok := lfConvert(x.Args[0], used)
			return map[string]any{"k": "topk", "e": e}, ok
		case "label_replace", "label_join":
			e, ok := lfConvert(x.Args[0], used)
			dst := lfStringArg(x.Args[1])
			used[dst] = true
			return map[string]any{"k": "labelReplace", "dst": dst, "e": e}, ok
		case "absent", "absent_over_time":
			vs := selOf(x.Args[0])
			if vs == nil {
				return nil, false
			}
			return map[string]any{"k": "absent", "ms": matchers(vs)}, true
		case "vector":
			return map[string]any{"k": "vec"}, true
		}
		return nil, false
	case *promParser.BinaryExpr:
		lt, rt := x.LHS.Type(), x.RHS.Type()
		if x.VectorMatching == nil || lt == promParser.ValueTypeScalar || rt == promParser.ValueTypeScalar {
			switch {
			case lt == promParser.ValueTypeVector:
				e, ok := lfConvert(x.LHS, used)
				return map[string]any{"k": "withScalar", "e": e}, ok
			case rt == promParser.ValueTypeVector:
				e, ok := lfConvert(x.RHS, used)
				return map[string]any{"k": "withScalar", "e": e}, ok
			}
			return nil, false
		}
		l, ok1 := lfConvert(x.LHS, used)
		r, ok2 := lfConvert(x.RHS, used)
		if !ok1 || !ok2 {
			return nil, false
		}
		vm := x.VectorMatching
		switch vm.Card {
		case promParser.CardOneToOne:
			if vm.On {
				return map[string]any{"k": "binOn", "m": note(vm.MatchingLabels), "l": l, "r": r}, true
			}
			return map[string]any{"k": "binIgn", "m": note(vm.MatchingLabels), "l": l, "r": r}, true
		case promParser.CardManyToOne:
			return map[string]any{"k": "groupLeft", "on": vm.On, "m": note(vm.MatchingLabels), "incl": note(vm.Include), "l": l, "r": r}, true
		case promParser.CardOneToMany:
			return map[string]any{"k": "groupRight", "on": vm.On, "m": note(vm.MatchingLabels), "incl": note(vm.Include), "l": l, "r": r}, true
		case promParser.CardManyToMany:
			if x.Op == promParser.LOR {
				return map[string]any{"k": "setOr", "on": vm.On, "m": note(vm.MatchingLabels), "l": l, "r": r}, true
			}
			return map[string]any{"k": "setAnd", "on": vm.On, "m": note(vm.MatchingLabels), "l": l, "r": r}, true
		}
	}
	return nil, false
}

func lfSortedList(xs []string) string {
	set := map[string]bool{}
	for _, x := range xs {
		set[x] = true
	}
	var out []string
	for x := range set {
		out = append(out, x)
	}
	sort.Strings(out)
	return "[" + strings.Join(out, ",") + "]"
}

// a string argument may stand in any number of parentheses
func lfStringArg(e promParser.Expr) string {
	for {
		p, ok := e.(*promParser.ParenExpr)
		if !ok {
			break
		}
		e = p.Expr
	}
	if sl, ok := e.(*promParser.StringLiteral); ok {
		return sl.Val
	}
	return ""
}
