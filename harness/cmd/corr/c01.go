package main

// C01: a file pint passes in strict mode (no Bug/Fatal problem, default offline checks, no control comments) is
// accepted by Prometheus's own loader (rulefmt.Parse) on the same bytes.

import (
	"encoding/json"
	"fmt"
	"math/rand"
	"os"
	"strings"

	"github.com/prometheus/common/model"
	"github.com/prometheus/prometheus/model/rulefmt"

	"github.com/cloudflare/pint/internal/checks"
	"github.com/cloudflare/pint/verifharness/hx"
	"github.com/cloudflare/pint/verifharness/pipe"
)

func init() { props["C01"] = runC01 }

type c01Case struct {
	Content string   `json:"content"`
	Traits  []string `json:"traits"` // what the generator made wrong on purpose
}

type c01Gen struct {
	rr     *rand.Rand
	traits []string
}

func (g *c01Gen) bad(p int, trait string) bool {
	// faults are rare enough that most documents carry none or exactly one
	if g.rr.Intn(p*5) == 0 {
		g.traits = append(g.traits, trait)
		return true
	}
	return false
}

func (g *c01Gen) stringMap(ind, key string, sb *strings.Builder, what string, allowTemplates bool) {
	switch {
	case g.bad(14, what+":not-a-map"):
		sb.WriteString(ind + key + ": just a string\n")
		return
	case g.bad(14, what+":list"):
		sb.WriteString(ind + key + ":\n" + ind + "- a\n")
		return
	case g.bad(18, what+":empty-map"):
		sb.WriteString(ind + key + ": {}\n")
		return
	case g.bad(18, what+":null"):
		sb.WriteString(ind + key + ":\n")
		return
	}
	sb.WriteString(ind + key + ":\n")
	for i, n := 0, 1+g.rr.Intn(2); i < n; i++ {
		k := hx.Pick(g.rr, []string{"team", "severity", "summary", "env"}) + fmt.Sprint(i)
		v := hx.Pick(g.rr, []string{"a", "'b c'", "\"d\""})
		switch {
		case g.bad(12, what+":bad-name"):
			k = hx.Pick(g.rr, []string{"'bad name'", "'0abc'", "'a-b'", "''", "'a.b'"})
		case g.bad(16, what+":metric-name-label"):
			k = "__name__"
		case g.bad(16, what+":duplicate-key"):
			// either occurrence may be null
			sb.WriteString(ind + "  dup: " + hx.Pick(g.rr, []string{"x", "x", "~", ""}) + "\n")
			k = "dup"
			if g.rr.Intn(3) == 0 {
				v = hx.Pick(g.rr, []string{"~", ""})
			}
		case g.rr.Intn(25) == 0:
			v = hx.Pick(g.rr, []string{"~", ""}) // a null value is fine for both loaders
		case g.bad(16, what+":non-string-value"):
			v = hx.Pick(g.rr, []string{"1", "true", "1.5", "[a]", "{a: b}", "~"})
		case allowTemplates && g.bad(10, what+":bad-template"):
			v = hx.Pick(g.rr, []string{"'{{ $value'", "'{{ nofunc 1 }}'", "'{{ $labels.x | }}'", "'{{ end }}'"})
		case allowTemplates && g.rr.Intn(4) == 0:
			v = "'{{ $labels.job }} is {{ $value | humanize }}'"
		case g.bad(20, what+":invalid-utf8-value"):
			v = "\"\\xff\""
		}
		sb.WriteString(ind + "  " + k + ": " + v + "\n")
	}
}

func (g *c01Gen) rule(sb *strings.Builder) {
	alert := g.rr.Intn(2) == 0
	ind := "    "
	first := "  - "
	var lines []string
	add := func(l string) { lines = append(lines, l) }
	name := hx.Pick(g.rr, []string{"job:up:sum", "foo_total", "a:b"})
	if alert {
		name = hx.Pick(g.rr, []string{"Down", "HighErrors", "'With Space'"})
	}
	nameKey := map[bool]string{true: "alert", false: "record"}[alert]
	switch {
	case g.bad(14, "rule:both-record-and-alert"):
		add("record: x:y")
		add("alert: X")
	case g.bad(14, "rule:neither-record-nor-alert"):
	case !alert && g.bad(10, "record:invalid-metric-name"):
		add("record: " + hx.Pick(g.rr, []string{"'foo bar'", "'0foo'", "'foo{job=\"a\"}'", "'foo}'", "'a-b'", "'foo.bar'"}))
	case g.bad(16, "rule:empty-name"):
		add(nameKey + ": ''")
	case g.bad(16, "rule:name-not-string"):
		add(nameKey + ": " + hx.Pick(g.rr, []string{"1", "[a]", "{a: b}", "true", "~"}))
	default:
		add(nameKey + ": " + name)
	}
	switch {
	case g.bad(12, "expr:missing"):
	case g.bad(12, "expr:syntax-error"):
		add("expr: " + hx.Pick(g.rr, []string{"'sum(foo'", "'foo =='", "'foo{'", "'1 +'", "'sum by (foo)'", "'foo[5m'"}))
	case g.bad(16, "expr:empty"):
		add("expr: ''")
	case g.bad(16, "expr:not-string"):
		add("expr: " + hx.Pick(g.rr, []string{"1", "[up]", "{a: b}", "true", "~", "1.5"}))
	default:
		add("expr: " + hx.Pick(g.rr, []string{"up == 0", "sum(foo) by (job)", "rate(x_total[5m]) > 1", "'foo > 0'"}))
	}
	for _, f := range []string{"for", "keep_firing_for"} {
		switch {
		case g.rr.Intn(3) != 0:
		case !alert && g.bad(3, f+":on-recording-rule"):
			add(f + ": 5m")
		case !alert:
		case g.bad(5, f+":invalid-duration"):
			add(f + ": " + hx.Pick(g.rr, []string{"abc", "5", "-5m", "1.5m", "5 m", "[1m]", "{a: 1}", "1y2m"}))
		case g.bad(12, f+":zero"):
			add(f + ": 0s")
		default:
			add(f + ": " + hx.Pick(g.rr, []string{"5m", "1h30m", "0", "1d"}))
		}
	}
	if g.bad(14, "rule:unknown-key") {
		add(hx.Pick(g.rr, []string{"exprr: up", "severity: page", "Alert: x", "for_: 1m"}))
	}
	if g.bad(16, "rule:duplicate-key") && len(lines) > 0 {
		add(lines[g.rr.Intn(len(lines))])
	}
	if len(lines) == 0 {
		sb.WriteString("  - {}\n")
		return
	}
	g.rr.Shuffle(len(lines), func(i, j int) { lines[i], lines[j] = lines[j], lines[i] })
	for i, l := range lines {
		if i == 0 {
			sb.WriteString(first + l + "\n")
		} else {
			sb.WriteString(ind + l + "\n")
		}
	}
	if g.rr.Intn(2) == 0 {
		g.stringMap(ind, "labels", sb, "rule-labels", alert)
	}
	if alert && g.rr.Intn(2) == 0 {
		g.stringMap(ind, "annotations", sb, "annotations", true)
	} else if !alert && g.bad(10, "annotations:on-recording-rule") {
		sb.WriteString(ind + "annotations:\n" + ind + "  summary: x\n")
	}
}

func (g *c01Gen) doc() string {
	var sb strings.Builder
	switch {
	case g.bad(30, "top:not-a-map"):
		return "- a\n- b\n"
	case g.bad(30, "top:empty"):
		return ""
	case g.bad(30, "top:groups-not-list"):
		return "groups: abc\n"
	case g.bad(30, "top:unknown-key"):
		sb.WriteString("version: 1\n")
	case g.bad(30, "top:groups-null"):
		return "groups:\n"
	}
	sb.WriteString("groups:\n")
	names := []string{"g0", "g1", "g2"}
	for gi, n := 0, 1+g.rr.Intn(3); gi < n; gi++ {
		gname := names[gi]
		switch {
		case g.bad(14, "group:name-missing"):
			sb.WriteString("- interval: 1m\n")
		case g.bad(14, "group:name-empty"):
			sb.WriteString("- name: ''\n")
		case gi > 0 && g.bad(10, "group:name-repeated"):
			sb.WriteString("- name: g0\n")
		case g.bad(18, "group:name-not-string"):
			sb.WriteString("- name: " + hx.Pick(g.rr, []string{"1", "[a]", "{a: b}", "true", "~"}) + "\n")
		default:
			sb.WriteString("- name: " + gname + "\n")
		}
		for _, f := range []string{"interval", "query_offset"} {
			switch {
			case g.rr.Intn(3) != 0:
			case g.bad(5, "group:"+f+"-invalid"):
				sb.WriteString("  " + f + ": " + hx.Pick(g.rr, []string{"abc", "5", "-1m", "[1m]", "1.5h"}) + "\n")
			default:
				sb.WriteString("  " + f + ": " + hx.Pick(g.rr, []string{"1m", "30s", "0s"}) + "\n")
			}
		}
		switch {
		case g.rr.Intn(4) != 0:
		case g.bad(4, "group:limit-invalid"):
			sb.WriteString("  limit: " + hx.Pick(g.rr, []string{"abc", "1.5", "[1]", "-1", "'5'"}) + "\n")
		default:
			sb.WriteString("  limit: " + hx.Pick(g.rr, []string{"0", "10"}) + "\n")
		}
		if g.rr.Intn(3) == 0 {
			g.stringMap("  ", "labels", &sb, "group-labels", false)
		}
		if g.bad(16, "group:unknown-key") {
			sb.WriteString("  " + hx.Pick(g.rr, []string{"rule: []", "Interval: 1m", "partial_response_strategy: warn"}) + "\n")
		}
		if g.bad(20, "group:duplicate-key") {
			sb.WriteString("  interval: 2m\n  interval: 3m\n")
		}
		switch {
		case g.bad(16, "group:rules-missing"):
		case g.bad(16, "group:rules-not-list"):
			sb.WriteString("  rules: " + hx.Pick(g.rr, []string{"abc", "{a: b}", "1"}) + "\n")
		case g.bad(16, "group:rules-null"):
			sb.WriteString("  rules:\n")
		case g.bad(20, "group:rules-empty"):
			sb.WriteString("  rules: []\n")
		default:
			sb.WriteString("  rules:\n")
			for ri, m := 0, 1+g.rr.Intn(3); ri < m; ri++ {
				switch {
				case g.bad(30, "rule:not-a-map"):
					sb.WriteString("  - " + hx.Pick(g.rr, []string{"abc", "[a]", "1", "~"}) + "\n")
				default:
					g.rule(&sb)
				}
			}
		}
	}
	if g.bad(30, "top:second-document") {
		sb.WriteString("---\ngroups: []\n")
	}
	if g.bad(30, "top:duplicate-groups-key") {
		sb.WriteString("groups: []\n")
	}
	return sb.String()
}

func c01Eval(r *hx.Run, cs c01Case, dir string) {
	model.NameValidationScheme = model.UTF8Validation
	if strings.Contains(cs.Content, "# pint") {
		r.Count("has-control-comment(out of scope)")
		return
	}
	cfg, err := pipe.LoadConfig(dir, "")
	if err != nil {
		panic(err)
	}
	o := pipe.Options{Strict: true, Offline: true}
	pipe.ApplyFlags(&cfg, o)
	res := pipe.Lint(cfg, "rules.yml", []byte(cs.Content), o)
	if res.Panic != "" {
		r.Violate(hx.Violation{Class: "pint-panic", Input: cs, Observed: tail(res.Panic, 1500)})
		return
	}
	var bugs []string
	modelled := false // a blocker of a kind the Lean model covers (parse errors, PromQL/template syntax, durations)
	for _, rep := range res.Reports {
		if rep.Problem.Severity >= checks.Bug {
			bugs = append(bugs, fmt.Sprintf("%s/%s: %s", rep.Problem.Reporter, rep.Problem.Severity, rep.Problem.Summary))
			r.Count("blocker:" + rep.Problem.Reporter)
			switch {
			case rep.Problem.Reporter == "yaml/parse", rep.Problem.Reporter == "promql/syntax":
				modelled = true
			case rep.Problem.Reporter == "alerts/template" && rep.Problem.Summary == "template syntax error":
				modelled = true
			case rep.Problem.Reporter == "alerts/for":
				modelled = true
			}
		}
	}
	_, errs := rulefmt.Parse([]byte(cs.Content), false)
	if doc, ok := c01Doc([]byte(cs.Content)); ok {
		b, _ := json.Marshal(doc)
		mode := "exact"
		if len(cs.Traits) > 0 && cs.Traits[len(cs.Traits)-1] == "mutated" {
			mode = "implied"
		}
		r.Op(fmt.Sprintf("loadcheck\t%s\t%v\t%v\t%s", mode, modelled, len(errs) > 0, string(b)), "ok")
	} else {
		r.Count("outside-model-domain")
	}
	r.Case(cs.Content, len(errs) > 0)
	r.Count(fmt.Sprintf("pint-blocks:%v prometheus-rejects:%v", len(bugs) > 0, len(errs) > 0))
	for _, t := range cs.Traits {
		r.Count("trait:" + t)
	}
	if len(bugs) == 0 && len(errs) > 0 {
		var es []string
		for _, e := range errs {
			es = append(es, e.Error())
		}
		class := "passes-pint-rejected-by-prometheus"
		if len(cs.Traits) == 1 {
			class += ":" + cs.Traits[0]
		} else if len(cs.Traits) > 1 {
			class += ":several"
		}
		r.Violate(hx.Violation{Class: class, Known: true, Input: cs, Observed: map[string]any{"prometheus_errors": es, "pint_reports": len(res.Reports)},
			Expected: "at least one Bug or Fatal problem from pint"})
		return
	}
	if len(cs.Content) < 300 {
		r.Sample(map[string]any{"content": cs.Content, "pint_blocks": len(bugs) > 0, "prometheus_rejects": len(errs) > 0})
	}
}

// c01MergeDoc: rules written with YAML merge keys in every form (alias, inline mapping, list of aliases and mappings)
// and at every place among the other keys, with or without a fault that Prometheus rejects before / after the merge.
func c01MergeDoc(r *hx.Run) string {
	rr := r.Rng
	var sb strings.Builder
	sb.WriteString("groups:\n- name: g\n  rules:\n  - &base\n    record: base:rule\n    expr: up\n  - &albase\n    alert: Base\n    expr: up == 0\n")
	for i, n := 0, 1+rr.Intn(3); i < n; i++ {
		alert := rr.Intn(2) == 0
		merge := hx.Pick(rr, []string{"*base", "*albase", "{labels: {a: b}}", "{expr: up}", "[*base, {labels: {a: b}}]", "[{expr: up}, {labels: {x: y}}]", "[*albase]", "{}", "[]"})
		var keys []string
		if alert {
			keys = append(keys, fmt.Sprintf("alert: A%d", i))
		} else {
			keys = append(keys, fmt.Sprintf("record: r%d:x", i))
		}
		if rr.Intn(3) != 0 {
			keys = append(keys, "expr: "+hx.Pick(rr, []string{"up", "sum(up) by (job)", "up =="}))
		}
		keys = append(keys, "<<: "+merge)
		switch rr.Intn(6) {
		case 0:
			keys = append(keys, "for: 5m") // invalid in a recording rule
		case 1:
			keys = append(keys, "bogus: 1")
		case 2:
			keys = append(keys, "keep_firing_for: 1m")
		case 3:
			keys = append(keys, "annotations: {summary: x}") // invalid in a recording rule
		}
		rr.Shuffle(len(keys), func(a, b int) { keys[a], keys[b] = keys[b], keys[a] })
		for k, key := range keys {
			if k == 0 {
				sb.WriteString("  - " + key + "\n")
			} else {
				sb.WriteString("    " + key + "\n")
			}
		}
	}
	return sb.String()
}

// c01YamlFeatureDoc: the corners of YAML a rule file may use - aliases in key position, merge keys with values that
// cannot be merged, `<<` as a plain value, integers that do not fit, template blocks named like Prometheus names the
// template - each with a harmless and a harmful variant.
func c01YamlFeatureDoc(r *hx.Run) string {
	rr := r.Rng
	var sb strings.Builder
	anchor := hx.Pick(rr, []string{"interval", "labels", "expr", "bogus", "limit"})     // what the anchor is called
	held := hx.Pick(rr, []string{"interval", "labels", "bogus", "query_offset", "for"}) // what it holds
	fmt.Fprintf(&sb, "groups:\n- name: &%s %s\n", anchor, held)
	switch rr.Intn(6) {
	case 0:
		fmt.Fprintf(&sb, "  *%s : 1m\n", anchor) // a group key spelled through the alias
	case 1:
		sb.WriteString("  limit: " + hx.Pick(rr, []string{"10", "9223372036854775807", "9223372036854775808", "18446744073709551615", "!!int foo", "0x10", "-1"}) + "\n")
	}
	sb.WriteString("  rules:\n")
	for i, n := 0, 1+rr.Intn(2); i < n; i++ {
		name := fmt.Sprintf("A%d", i)
		switch rr.Intn(7) {
		case 0: // `<<` as a value, then a key that may or may not belong
			fmt.Fprintf(&sb, "  - alert: <<\n    %s\n    expr: up == 0\n", hx.Pick(rr, []string{"bogus: Foo", "bogus: Foo", "for: 1m", "labels: {a: b}"}))
		case 1: // merge key with a value that cannot be merged
			fmt.Fprintf(&sb, "  - alert: %s\n    expr: up == 0\n    <<: %s\n", name, hx.Pick(rr, []string{"1", "*" + anchor, "abc", "[1, 2]", "{}", "{for: 1m}"}))
		case 2: // a rule key spelled through the alias
			fmt.Fprintf(&sb, "  - alert: %s\n    expr: up == 0\n    *%s : %s\n", name, anchor, hx.Pick(rr, []string{"{}", "1m", "x"}))
		case 3: // template blocks
			fmt.Fprintf(&sb, "  - alert: %s\n    expr: up == 0\n    annotations:\n      summary: '{{ define \"%s\" }}x{{ end }}y'\n", name,
				hx.Pick(rr, []string{"__alert_" + name, "__alert_Other", "other", "__alert_"}))
		case 4:
			fmt.Fprintf(&sb, "  - alert: %s\n    expr: up == 0\n    labels:\n      sev: '{{ define \"__alert_%s\" }}x{{ end }}'\n", name, name)
		default:
			fmt.Fprintf(&sb, "  - record: r%d:x\n    expr: up\n", i)
		}
	}
	return sb.String()
}

func runC01(r *hx.Run, replay string) {
	dir, err := os.MkdirTemp("", "c01-")
	if err != nil {
		panic(err)
	}
	defer os.RemoveAll(dir)
	if replay != "" {
		b, err := os.ReadFile(replay)
		if err != nil {
			panic(err)
		}
		var rp struct {
			Input c01Case `json:"input"`
		}
		if err := json.Unmarshal(b, &rp); err != nil {
			panic(err)
		}
		c01Eval(r, rp.Input, dir)
		return
	}
	// every pair of (for, keep_firing_for) spellings on one alert: a problem of one field must not be lost to the other
	// (seeded change C01-keepfiring-overwrites-for-problem was only met by chance)
	for _, f := range []string{"", "5m", "abc", "0", "-1m"} {
		for _, k := range []string{"", "5m", "abc", "1"} {
			doc := "groups:\n- name: g\n  rules:\n  - alert: A\n    expr: up == 0\n"
			if f != "" {
				doc += "    for: " + f + "\n"
			}
			if k != "" {
				doc += "    keep_firing_for: " + k + "\n"
			}
			c01Eval(r, c01Case{Content: doc, Traits: []string{"for-and-keep-firing-for"}}, dir)
		}
	}
	for i := 0; i < r.N; i++ {
		g := &c01Gen{rr: r.Rng}
		content := g.doc()
		c01Eval(r, c01Case{Content: content, Traits: g.traits}, dir)
		if i%8 == 0 {
			c01Eval(r, c01Case{Content: c01MergeDoc(r), Traits: []string{"merge"}}, dir)
		}
		if i%3 == 0 {
			c01Eval(r, c01Case{Content: c01YamlFeatureDoc(r), Traits: []string{"yaml-features"}}, dir)
		}
		if r.Rng.Intn(4) == 0 {
			// byte / line level mutation of the same document
			m := c02Mutate(r, content)
			c01Eval(r, c01Case{Content: m, Traits: append(append([]string{}, g.traits...), "mutated")}, dir)
		}
	}
}
