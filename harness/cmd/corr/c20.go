package main

import (
	"context"
	"encoding/json"
	"fmt"
	"os"
	"path/filepath"
	"regexp"
	"sort"
	"strings"
	"time"

	"github.com/prometheus/prometheus/model/labels"

	"github.com/cloudflare/pint/internal/checks"
	"github.com/cloudflare/pint/internal/discovery"
	"github.com/cloudflare/pint/internal/parser/utils"
	"github.com/cloudflare/pint/verifharness/hx"
	"github.com/cloudflare/pint/verifharness/pipe"
)

func init() { props["C20"] = runC20 }

type c20Rule struct {
	Alert   bool     `json:"alert"`
	Name    string   `json:"name"`
	Expr    string   `json:"expr"`
	Metrics []string `json:"selects_metrics"` // metric names the expression selects (generator knowledge)
	Alerts  []string `json:"selects_alerts"`  // alert names selected through ALERTS{alertname="..."}
	Removed bool     `json:"removed"`
	ByName  bool     `json:"uses_name_matcher_form"` // some reference is written {__name__="m"}
	// a removed rule whose place is taken, at HEAD, by a rule of the OTHER kind with the same name (record: X
	// becomes alert: X): still a removal of X as far as dependants are concerned
	Switched bool `json:"kind_switched,omitempty"`
}

type c20Case struct {
	Files map[string][]c20Rule `json:"files"`
	// files that, at HEAD only, start with a malformed control comment: reported on its own, the rules still parse
	BadComment map[string]bool `json:"head_has_malformed_comment,omitempty"`
	// a removed file whose name is taken, at HEAD, by a directory holding an unrelated rule file
	DirInstead map[string]bool `json:"directory_takes_the_name,omitempty"`
}

var c20Metrics = []string{"job:up:sum", "job:foo:rate5m", "instance:bar:avg", "foo:sum", "up", "foo"}
var c20Alerts = []string{"Down", "HighErrors", "DiskFull"}

func c20RandRule(r *hx.Run) c20Rule {
	rr := r.Rng
	var ru c20Rule
	ru.Alert = rr.Intn(3) == 0
	if ru.Alert {
		ru.Name = hx.Pick(rr, c20Alerts)
	} else {
		ru.Name = hx.Pick(rr, c20Metrics[:4])
	}
	ref := func() string {
		m := hx.Pick(rr, c20Metrics)
		ru.Metrics = append(ru.Metrics, m)
		if rr.Intn(12) == 0 {
			ru.ByName = true
			return fmt.Sprintf(`{__name__=%q}`, m)
		}
		if rr.Intn(3) == 0 {
			return fmt.Sprintf(`%s{job="a"}`, m)
		}
		return m
	}
	aref := func() string {
		a := hx.Pick(rr, c20Alerts)
		ru.Alerts = append(ru.Alerts, a)
		if rr.Intn(4) == 0 {
			// the same selection through the name matcher
			return fmt.Sprintf(`{__name__=%q, alertname=%q}`, hx.Pick(rr, []string{"ALERTS", "ALERTS_FOR_STATE"}), a)
		}
		return fmt.Sprintf(`%s{alertname=%q%s}`, hx.Pick(rr, []string{"ALERTS", "ALERTS_FOR_STATE"}), a, hx.Pick(rr, []string{"", `, alertstate="firing"`}))
	}
	switch rr.Intn(10) {
	case 7:
		ru.Expr = fmt.Sprintf("count(%s) + count(%s)", aref(), aref())
	case 8:
		ru.Expr = fmt.Sprintf("%s or %s or %s", aref(), ref(), aref())
	case 9:
		ru.Expr = fmt.Sprintf("sum(%s) by (job) / on(job) sum(%s) by (job) > %s", ref(), ref(), ref())
	case 0:
		ru.Expr = fmt.Sprintf("sum(%s) by (job)", ref())
	case 1:
		ru.Expr = fmt.Sprintf("%s / %s", ref(), ref())
	case 2:
		ru.Expr = fmt.Sprintf("rate(%s[5m]) > 0", ref())
	case 3:
		ru.Expr = fmt.Sprintf("count(%s) > 0", aref())
	case 4:
		ru.Expr = fmt.Sprintf("%s and on(job) %s", ref(), aref())
	case 5:
		ru.Expr = fmt.Sprintf("sum(%s) by (", ref()) // syntax error: never a dependant
		ru.Metrics, ru.Alerts = nil, nil
	default:
		ru.Expr = ref()
	}
	return ru
}

func (c c20Case) render(withRemoved bool) map[string]string {
	out := map[string]string{}
	for _, p := range hx.SortedKeys(c.Files) {
		var sb strings.Builder
		if c.BadComment[p] && !withRemoved {
			sb.WriteString("# pint file/owner\n")
		}
		sb.WriteString("groups:\n- name: g\n  rules:\n")
		n := 0
		for _, ru := range c.Files[p] {
			if ru.Removed && !withRemoved {
				if ru.Switched {
					n++
					if ru.Alert {
						fmt.Fprintf(&sb, "  - record: %s\n    expr: 'vector(1)'\n", ru.Name)
					} else {
						fmt.Fprintf(&sb, "  - alert: %s\n    expr: 'vector(1) > 0'\n", ru.Name)
					}
				}
				continue
			}
			n++
			if ru.Alert {
				fmt.Fprintf(&sb, "  - alert: %s\n    expr: '%s'\n", ru.Name, ru.Expr)
			} else {
				fmt.Fprintf(&sb, "  - record: %s\n    expr: '%s'\n", ru.Name, ru.Expr)
			}
		}
		if n == 0 {
			if withRemoved {
				continue
			}
			out[p] = "" // the whole file is removed on the branch
			continue
		}
		out[p] = sb.String()
	}
	return out
}

// reference: for a removed rule, the dependants and whether a replacement remains (generator knowledge only)
func (c c20Case) reference(file string, idx int) (deps []string, replaced bool) {
	r := c.Files[file][idx]
	for _, p := range hx.SortedKeys(c.Files) {
		for _, o := range c.Files[p] {
			if o.Removed {
				continue
			}
			if o.Alert == r.Alert && o.Name == r.Name {
				replaced = true
			}
			uses := false
			if r.Alert {
				for _, a := range o.Alerts {
					uses = uses || a == r.Name
				}
			} else {
				for _, m := range o.Metrics {
					uses = uses || m == r.Name
				}
			}
			if uses {
				deps = append(deps, p+"|"+o.Name)
			}
		}
	}
	return deps, replaced
}

var c20DetailRe = regexp.MustCompile("- `([^`]*)` at `([^`:]*):([0-9]+)`")

func c20Eval(r *hx.Run, cs c20Case) {
	files := cs.render(true)
	var entries []discovery.Entry
	type origin struct {
		file string
		idx  int
	}
	var origins []origin
	for _, p := range hx.SortedKeys(files) {
		es, pn := pipe.Entries(p, []byte(files[p]), pipe.Options{Strict: true})
		if pn != "" {
			r.Count("parse-panic")
			return
		}
		if len(es) != len(cs.Files[p]) {
			r.Note("entry count differs from rule count for %s", p)
			return
		}
		for i, e := range es {
			if cs.Files[p][i].Removed {
				e.State = discovery.Removed
			} else {
				// every way of being present at HEAD (derived from the rule's place, so that a replay sees the same states):
				// unchanged, added, modified, or unchanged in a file the branch renamed
				// (seeded change C20-moved-entries-dropped)
				e.State = []discovery.ChangeType{discovery.Noop, discovery.Added, discovery.Modified, discovery.Moved}[(len(p)+i+len(e.Rule.Name()))%4]
				r.Count("present-state:" + e.State.String())
			}
			entries = append(entries, e)
			origins = append(origins, origin{p, i})
		}
	}
	// ranks for the model
	var paths, names []string
	for _, e := range entries {
		paths = append(paths, e.Path.SymlinkTarget)
		names = append(names, e.Rule.Name())
	}
	rank := func(all []string) map[string]int {
		u := map[string]bool{}
		for _, s := range all {
			u[s] = true
		}
		var l []string
		for s := range u {
			l = append(l, s)
		}
		sort.Strings(l)
		m := map[string]int{}
		for i, s := range l {
			m[s] = i
		}
		return m
	}
	pr, nr := rank(paths), rank(names)
	var jes []map[string]any
	for _, e := range entries {
		kind := "invalid"
		if e.Rule.AlertingRule != nil {
			kind = "alerting"
		} else if e.Rule.RecordingRule != nil {
			kind = "recording"
		}
		ex := e.Rule.Expr()
		sels := []map[string]any{}
		if ex.SyntaxError == nil && ex.Query != nil {
			for _, vs := range utils.HasVectorSelector(ex.Query) {
				an, nn := []string{}, []string{}
				for _, lm := range vs.LabelMatchers {
					if lm.Name == "alertname" && lm.Type == labels.MatchEqual {
						an = append(an, lm.Value)
					}
					if lm.Name == labels.MetricName && lm.Type == labels.MatchEqual {
						nn = append(nn, lm.Value)
					}
				}
				sels = append(sels, map[string]any{"name": vs.Name, "alertnameEq": an, "nameEq": nn})
			}
		}
		jes = append(jes, map[string]any{"path": pr[e.Path.SymlinkTarget], "isSymlink": e.Path.Name != e.Path.SymlinkTarget, "kind": kind, "name": e.Rule.Name(),
			"nameRank": nr[e.Rule.Name()], "removed": e.State == discovery.Removed, "hasError": e.PathError != nil || e.Rule.Error.Err != nil,
			"syntaxError": ex.SyntaxError != nil, "exprLine": ex.Value.Pos.Lines().First, "sels": sels})
	}
	chk := checks.NewRuleDependencyCheck()
	for i, e := range entries {
		if e.State != discovery.Removed || e.PathError != nil || e.Rule.Error.Err != nil {
			continue
		}
		problems := chk.Check(context.Background(), e, entries)
		ans := "none"
		var listed []string
		if len(problems) > 0 {
			var ks []string
			for _, m := range c20DetailRe.FindAllStringSubmatch(problems[0].Details, -1) {
				ks = append(ks, fmt.Sprintf("%d:%s:%d", pr[m[2]], m[3], nr[m[1]]))
				listed = append(listed, m[2]+"|"+m[1])
			}
			ans = strings.Join(ks, ";")
		}
		op, _ := json.Marshal(map[string]any{"r": i, "entries": jes})
		r.Op("depcheck\t"+string(op), ans)
		// observation against the generator's own reference graph
		deps, replaced := cs.reference(origins[i].file, origins[i].idx)
		wantProblem := !replaced && len(deps) > 0
		uniq := map[string]bool{}
		for _, d := range deps {
			uniq[d] = true
		}
		byName := false
		for _, p := range hx.SortedKeys(cs.Files) {
			for _, o := range cs.Files[p] {
				if !o.Removed && o.ByName {
					byName = true
				}
			}
		}
		r.Case(fmt.Sprint(cs, i), len(deps) > 0 || replaced)
		r.Count(fmt.Sprintf("expected-problem:%v", wantProblem))
		gotSet := map[string]bool{}
		for _, l := range listed {
			gotSet[l] = true
		}
		// listed entries are keyed by (path, line, name); the reference by (path, name): compare as sets of (path,name)
		same := len(gotSet) == len(uniq)
		for k := range uniq {
			same = same && gotSet[k]
		}
		if (len(problems) > 0) != wantProblem || (wantProblem && !same) {
			r.Violate(hx.Violation{Class: "dependency-report", Known: byName, Input: map[string]any{"case": cs, "removed_rule": origins[i].file + ":" + e.Rule.Name()},
				Observed: map[string]any{"reported": len(problems) > 0, "listed": listed}, Expected: map[string]any{"report": wantProblem, "dependants": hx.SortedKeys(uniq), "replaced": replaced}})
		}
	}
	r.Sample(cs)
}

// c20EndToEnd: the same case through `pint ci --json` in a scratch repository (state comes from git)
func c20EndToEnd(r *hx.Run, cs c20Case) {
	dir, err := os.MkdirTemp("", "c20-")
	if err != nil {
		panic(err)
	}
	defer os.RemoveAll(dir)
	hx.Git(dir, "init", "-q", "-b", "main", ".")
	write := func(files map[string]string) {
		for p, c := range files {
			full := filepath.Join(dir, p)
			_ = os.MkdirAll(filepath.Dir(full), 0o755)
			if c == "" {
				_ = os.Remove(full)
				if cs.DirInstead[p] {
					_ = os.MkdirAll(full, 0o755)
					_ = os.WriteFile(filepath.Join(full, "new.yml"), []byte("groups:\n- name: other\n  rules:\n  - alert: SomethingCompletelyDifferent\n    expr: absent(node_time_seconds) == 1\n    for: 15m\n    labels:\n      severity: page\n    annotations:\n      summary: nothing in common with the deleted file so git does not call it a rename\n"), 0o644)
				}
				continue
			}
			_ = os.WriteFile(full, []byte(c), 0o644)
		}
	}
	write(cs.render(true))
	_ = os.WriteFile(filepath.Join(dir, "README"), []byte("x\n"), 0o644)
	hx.Git(dir, "add", "-A")
	hx.Git(dir, "commit", "-q", "-m", "base")
	hx.Git(dir, "checkout", "-q", "-b", "feature")
	write(cs.render(false))
	hx.Git(dir, "add", "-A")
	if res := hx.Git(dir, "commit", "-q", "-m", "remove rules"); res.Exit != 0 {
		r.Count("e2e-nothing-removed")
		return
	}
	res := hx.RunCmd(dir, 60*time.Second, []string{"GIT_CONFIG_GLOBAL=/dev/null"}, hx.PintBin(), "--offline", "-l", "error", "--no-color", "ci", "--base-branch", "main", "--json", "out.json")
	var reports []c05JSON
	b, rerr := os.ReadFile(filepath.Join(dir, "out.json"))
	if rerr != nil {
		r.Violate(hx.Violation{Class: "e2e-run-failed", Input: cs, Observed: tail(res.Stderr, 1500)})
		return
	}
	_ = json.Unmarshal(b, &reports)
	got := map[string]bool{}
	for _, rep := range reports {
		if rep.Reporter == "rule/dependency" {
			u := map[string]bool{}
			for _, m := range c20DetailRe.FindAllStringSubmatch(rep.Details, -1) {
				u[m[2]+"|"+m[1]] = true // the reference graph is keyed by (path, name); lines are compared in-process
			}
			got[rep.Path+" -> "+strings.Join(hx.SortedKeys(u), ",")] = true
		}
	}
	want := map[string]bool{}
	byName := false
	for _, p := range hx.SortedKeys(cs.Files) {
		for i, ru := range cs.Files[p] {
			if ru.ByName && !ru.Removed {
				byName = true
			}
			if !ru.Removed {
				continue
			}
			deps, replaced := cs.reference(p, i)
			if replaced || len(deps) == 0 {
				continue
			}
			u := map[string]bool{}
			for _, d := range deps {
				u[d] = true
			}
			want[p+" -> "+strings.Join(hx.SortedKeys(u), ",")] = true
		}
	}
	r.Case("e2e"+fmt.Sprint(cs), len(want) > 0)
	r.Count("e2e")
	if fmt.Sprint(hx.SortedKeys(got)) != fmt.Sprint(hx.SortedKeys(want)) {
		r.Violate(hx.Violation{Class: "e2e-dependency-report", Known: byName, Input: cs, Observed: hx.SortedKeys(got), Expected: hx.SortedKeys(want)})
	}
}

func runC20(r *hx.Run, replay string) {
	if replay != "" {
		b, err := os.ReadFile(replay)
		if err != nil {
			panic(err)
		}
		var rp struct {
			Input json.RawMessage `json:"input"`
		}
		if err := json.Unmarshal(b, &rp); err != nil {
			panic(err)
		}
		var cs c20Case
		var wrapped struct {
			Case c20Case `json:"case"`
		}
		if json.Unmarshal(rp.Input, &wrapped) == nil && wrapped.Case.Files != nil {
			cs = wrapped.Case
		} else {
			_ = json.Unmarshal(rp.Input, &cs)
		}
		c20Eval(r, cs)
		if os.Getenv("PINT_BIN") != "" {
			c20EndToEnd(r, cs)
		}
		return
	}
	rr := r.Rng
	for i := 0; i < r.N; i++ {
		cs := c20Case{Files: map[string][]c20Rule{}}
		nf := 1 + rr.Intn(3)
		var names []string
		for f := 0; f < nf; f++ {
			p := fmt.Sprintf("rules/f%d.yml", f)
			if rr.Intn(5) == 0 {
				p = fmt.Sprintf("rules/règles %d.yml", f) // git prints such names quoted
			}
			names = append(names, p)
			for j, n := 0, 1+rr.Intn(4); j < n; j++ {
				ru := c20RandRule(r)
				ru.Removed = rr.Intn(3) == 0
				ru.Switched = ru.Removed && rr.Intn(4) == 0
				cs.Files[p] = append(cs.Files[p], ru)
			}
			if rr.Intn(6) == 0 { // remove the whole file
				for j := range cs.Files[p] {
					cs.Files[p][j].Removed = true
					cs.Files[p][j].Switched = false
				}
				if rr.Intn(2) == 0 {
					cs.DirInstead = map[string]bool{p: true}
				}
			}
		}
		if i%8 == 3 {
			cs.BadComment = map[string]bool{names[rr.Intn(nf)]: true}
		}
		c20Eval(r, cs)
		if i%12 == 0 || cs.BadComment != nil || cs.DirInstead != nil || (i%3 == 0 && strings.Contains(strings.Join(names, ""), "règles")) {
			c20EndToEnd(r, cs)
		}
	}
}
