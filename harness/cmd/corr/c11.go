package main

import (
	"bytes"
	"cmp"
	"encoding/json"
	"errors"
	"fmt"
	"os"
	"path/filepath"
	"slices"
	"sort"
	"strings"
	"time"

	"github.com/cloudflare/pint/internal/checks"
	"github.com/cloudflare/pint/internal/diags"
	"github.com/cloudflare/pint/internal/discovery"
	"github.com/cloudflare/pint/internal/parser"
	"github.com/cloudflare/pint/internal/reporter"
	"github.com/cloudflare/pint/verifharness/hx"
	"github.com/cloudflare/pint/verifharness/pipe"
)

func init() { props["C11"] = runC11 }

// ---- serialisation of real reports for the Lean model (strings become order-preserving ranks) ----

type c11Ranker struct{ all map[string]bool }

func (k *c11Ranker) add(s string) { k.all[s] = true }
func (k *c11Ranker) ranks() map[string]int {
	var l []string
	for s := range k.all {
		l = append(l, s)
	}
	sort.Strings(l)
	m := map[string]int{}
	for i, s := range l {
		m[s] = i
	}
	return m
}

// what cmpRules looks at after lines and name: (alerting, recording, error line, error details, error set, error text)
type c11RuleKindT struct {
	alerting, recording bool
	errLine             int
	errDetails          string
	errSet              bool
	errText             string
}

func c11RuleKind(r parser.Rule) c11RuleKindT {
	k := c11RuleKindT{alerting: r.AlertingRule != nil, recording: r.RecordingRule != nil, errLine: r.Error.Line, errDetails: r.Error.Details, errSet: r.Error.Err != nil}
	if r.Error.Err != nil {
		k.errText = r.Error.Err.Error()
	}
	return k
}

func c11CmpBool(a, b bool) int {
	switch {
	case a == b:
		return 0
	case b:
		return -1
	}
	return 1
}

func c11CmpKind(a, b c11RuleKindT) int {
	return cmp.Or(c11CmpBool(a.alerting, b.alerting), c11CmpBool(a.recording, b.recording), cmp.Compare(a.errLine, b.errLine),
		cmp.Compare(a.errDetails, b.errDetails), c11CmpBool(a.errSet, b.errSet), cmp.Compare(a.errText, b.errText))
}

func c11Stream(reps []reporter.Report) string { s, _ := c11TaggedStream(reps, nil); return s }

// the stream as ranks, and the function that writes any report of it the way the Lean driver does (keyOf)
func c11TaggedStream(reps []reporter.Report, jobs []int) (string, func(reporter.Report) string) {
	rk := &c11Ranker{all: map[string]bool{}}
	var kinds []c11RuleKindT
	for _, r := range reps {
		for _, s := range []string{r.Path.Name, r.Path.SymlinkTarget, r.Owner, r.Problem.Reporter, r.Problem.Summary, r.Problem.Details, r.Rule.Name()} {
			rk.add(s)
		}
		for _, d := range r.Problem.Diagnostics {
			rk.add(d.Message)
		}
		k := c11RuleKind(r.Rule)
		if !slices.Contains(kinds, k) {
			kinds = append(kinds, k)
		}
	}
	slices.SortFunc(kinds, c11CmpKind)
	m := rk.ranks()
	enc := func(r reporter.Report) map[string]any {
		dg := []map[string]any{}
		for _, d := range r.Problem.Diagnostics {
			dg = append(dg, map[string]any{"f": d.FirstColumn, "l": d.LastColumn, "m": m[d.Message]})
		}
		return map[string]any{"pn": m[r.Path.Name], "pt": m[r.Path.SymlinkTarget], "ow": m[r.Owner], "pf": r.Problem.Lines.First, "pl": r.Problem.Lines.Last,
			"rf": r.Rule.Lines.First, "rl": r.Rule.Lines.Last, "rn": m[r.Rule.Name()], "rk": slices.Index(kinds, c11RuleKind(r.Rule)), "rp": m[r.Problem.Reporter], "su": m[r.Problem.Summary],
			"de": m[r.Problem.Details], "an": int(r.Problem.Anchor), "sv": int(r.Problem.Severity), "dg": dg}
	}
	var out []map[string]any
	for i, r := range reps {
		out = append(out, enc(r))
		if jobs != nil {
			out[len(out)-1]["job"] = jobs[i]
			out[len(out)-1]["seq"] = i
		}
	}
	if out == nil {
		out = []map[string]any{}
	}
	key := func(r reporter.Report) string {
		e := enc(r)
		var ds []string
		for _, d := range e["dg"].([]map[string]any) {
			ds = append(ds, fmt.Sprintf("%v,%v,%v", d["f"], d["l"], d["m"]))
		}
		return fmt.Sprintf("%v.%v.%v.%v.%v.%v.%v.%v.%v.%v.%v.%v.%v.%v[%s]", e["pn"], e["pt"], e["ow"], e["pf"], e["pl"], e["rf"], e["rl"], e["rn"], e["rk"], e["rp"], e["su"], e["de"], e["an"], e["sv"], strings.Join(ds, "|"))
	}
	b, _ := json.Marshal(out)
	return string(b), key
}

// run the real Summary over a stream; the answer names every report by its content (key)
func c11RealPipeline(reps []reporter.Report, key func(reporter.Report) string) (string, reporter.Summary) {
	var s reporter.Summary
	for _, r := range reps {
		r.Problem.Diagnostics = append([]diags.Diagnostic{}, r.Problem.Diagnostics...) // SortReports sorts in place
		s.Report(r)
	}
	s.SortReports()
	s.Dedup()
	var parts []string
	for _, r := range s.Reports() {
		var dl []string
		for _, d := range r.Duplicates {
			dl = append(dl, key(*d))
		}
		parts = append(parts, fmt.Sprintf("%s:%s:%s", key(r), hx.B(r.IsDuplicate), strings.Join(dl, "+")))
	}
	return strings.Join(parts, ";"), s
}

// synthetic reports over a tiny vocabulary so that ties, equal reports and the comparator's corner cases occur
func c11RandReport(r *hx.Run) reporter.Report {
	rr := r.Rng
	first := 1 + rr.Intn(3)*4
	rlast := first + 2
	plast := rlast
	if rr.Intn(4) == 0 {
		plast = first + rr.Intn(3)
	}
	rule := parser.Rule{Lines: diags.LineRange{First: first, Last: rlast}}
	switch rr.Intn(5) {
	case 0, 1:
		rule.AlertingRule = &parser.AlertingRule{Alert: parser.YamlNode{Value: hx.Pick(rr, []string{"foo", "bar"})}}
	case 2, 3:
		rule.RecordingRule = &parser.RecordingRule{Record: parser.YamlNode{Value: hx.Pick(rr, []string{"foo", "bar"})}}
	default: // a rule that did not parse: two parser runs give two error values with one text
		rule.Error = parser.ParseError{Line: first, Err: errors.New(hx.Pick(rr, []string{"missing expr key", "invalid field"})), Details: hx.Pick(rr, []string{"", "x"})}
	}
	var ds []diags.Diagnostic
	for i, n := 0, rr.Intn(3); i < n; i++ {
		ds = append(ds, diags.Diagnostic{Message: hx.Pick(rr, []string{"m1", "m2"}), FirstColumn: 1 + rr.Intn(2), LastColumn: 3 + rr.Intn(2)})
	}
	p := hx.Pick(rr, []string{"a.yml", "b.yml"})
	pt := p
	if rr.Intn(3) == 0 {
		pt = hx.Pick(rr, []string{"a.yml", "b.yml", "c.yml"}) // reported through a symlink
	}
	return reporter.Report{Path: discovery.Path{Name: p, SymlinkTarget: pt}, Rule: rule, Owner: hx.Pick(rr, []string{"", "", "team"}),
		Problem: checks.Problem{Anchor: checks.Anchor(rr.Intn(5) / 4), Reporter: hx.Pick(rr, []string{"promql/series", "rule/label"}), Summary: hx.Pick(rr, []string{"s1", "s2"}),
			Details: hx.Pick(rr, []string{"", "d"}), Severity: checks.Severity(1 + rr.Intn(2)), Lines: diags.LineRange{First: first, Last: plast}, Diagnostics: ds}}
}

type c11Case struct {
	Config string            `json:"config"`
	Files  map[string]string `json:"files"`
	Links  map[string]string `json:"symlinks,omitempty"` // link path -> path of the rule file it points to
}

func c11Render(s reporter.Summary) string {
	var jb, cb bytes.Buffer
	_ = reporter.NewJSONReporter(&jb).Submit(s)
	if err := reporter.NewConsoleReporter(&cb, checks.Information, true, false).Submit(s); err != nil {
		cb.WriteString("CONSOLE-ERROR: " + err.Error())
	}
	// the checkstyle report too: it groups reports by file
	var xb bytes.Buffer
	if err := reporter.NewCheckStyleReporter(&xb).Submit(s); err != nil {
		xb.WriteString("CHECKSTYLE-ERROR: " + err.Error())
	}
	cb.WriteString("\n" + xb.String())
	bs := s.CountBySeverity()
	return fmt.Sprintf("%s\n%s\nfatal=%d bug=%d warning=%d info=%d", jb.String(), cb.String(), bs[checks.Fatal], bs[checks.Bug], bs[checks.Warning], bs[checks.Information])
}

func c11Observe(r *hx.Run, cs c11Case) {
	dir, err := os.MkdirTemp("", "c11-")
	if err != nil {
		panic(err)
	}
	defer os.RemoveAll(dir)
	cfg, err := pipe.LoadConfig(r.OutDir, cs.Config)
	if err != nil {
		r.Count("config-rejected")
		return
	}
	opts := pipe.Options{Strict: true, Offline: true}
	pipe.ApplyFlags(&cfg, opts)
	var entries []discovery.Entry
	for _, p := range hx.SortedKeys(cs.Files) {
		full := filepath.Join(dir, p)
		_ = os.MkdirAll(filepath.Dir(full), 0o755)
		_ = os.WriteFile(full, []byte(cs.Files[p]), 0o644)
		es, pn := pipe.Entries(full, []byte(cs.Files[p]), opts)
		if pn != "" {
			return
		}
		entries = append(entries, es...)
		// the same file reached through a symlink: the glob finder reports the link's name with the target's path
		for _, l := range hx.SortedKeys(cs.Links) {
			if cs.Links[l] != p {
				continue
			}
			les, lpn := pipe.Entries(full, []byte(cs.Files[p]), opts)
			if lpn != "" {
				return
			}
			for i := range les {
				les[i].Path.Name = filepath.Join(dir, l)
			}
			entries = append(entries, les...)
		}
	}
	res := pipe.Check(cfg, entries, opts)
	if res.Panic != "" || len(res.Raw) == 0 {
		r.Count("no-reports")
		return
	}
	// monitors (decided by the Lean model on the real stream): the hypotheses of C11_schedules
	tagged, key := c11TaggedStream(res.Raw, res.RawJob)
	r.Stat("schedmon\t" + tagged)
	// the real stream through the model too
	rawStream, _ := c11TaggedStream(res.Raw, nil)
	ans0, s0 := c11RealPipeline(res.Raw, key)
	r.Op("pipeline\t"+rawStream, ans0)
	base := c11Render(s0)
	r.Case(fmt.Sprint(cs), len(res.Raw) > 1)
	r.Count(fmt.Sprintf("stream-len:%d", min(len(res.Raw)/5*5, 40)))
	// random schedules: interleave the jobs' report sequences, keeping each job's own order
	byJob := map[int][]int{}
	var jobIDs []int
	for i, j := range res.RawJob {
		if _, ok := byJob[j]; !ok {
			jobIDs = append(jobIDs, j)
		}
		byJob[j] = append(byJob[j], i)
	}
	for k := 0; k < 8; k++ {
		pos := map[int]int{}
		var perm []reporter.Report
		remaining := len(res.Raw)
		for remaining > 0 {
			j := jobIDs[r.Rng.Intn(len(jobIDs))]
			if pos[j] >= len(byJob[j]) {
				continue
			}
			perm = append(perm, res.Raw[byJob[j][pos[j]]])
			pos[j]++
			remaining--
		}
		_, sp := c11RealPipeline(perm, key)
		if got := c11Render(sp); got != base {
			r.Violate(hx.Violation{Class: "schedule-changes-output", Input: cs, Observed: firstDiff(base, got),
				Expected: "identical JSON, console output and severity counts for every interleaving of the jobs' reports"})
			return
		}
	}
	r.Sample(map[string]any{"files": len(cs.Files), "reports": len(res.Raw)})
}

// the real binary across worker counts
func c11Workers(r *hx.Run, cs c11Case, bin string) {
	dir, err := os.MkdirTemp("", "c11w-")
	if err != nil {
		panic(err)
	}
	defer os.RemoveAll(dir)
	for p, c := range cs.Files {
		full := filepath.Join(dir, p)
		_ = os.MkdirAll(filepath.Dir(full), 0o755)
		_ = os.WriteFile(full, []byte(c), 0o644)
	}
	for l, t := range cs.Links {
		full := filepath.Join(dir, l)
		_ = os.MkdirAll(filepath.Dir(full), 0o755)
		_ = os.Symlink(filepath.Base(t), full) // links and targets live in one directory
	}
	_ = os.WriteFile(filepath.Join(dir, ".pint.hcl"), []byte(cs.Config), 0o644)
	var base string
	for _, w := range []int{1, 2, 3, 8, 64} {
		for _, procs := range []string{"1", "4", "16"} {
			res := hx.RunCmd(dir, 120*time.Second, []string{"GOMAXPROCS=" + procs}, bin, "--offline", "--no-color", "-l", "error", "--workers", fmt.Sprint(w), "lint", "--json", "out.json", "rules")
			b, _ := os.ReadFile(filepath.Join(dir, "out.json"))
			out := fmt.Sprintf("exit=%d\n%s\n%s", res.Exit, res.Stderr, string(b))
			if strings.Contains(res.Stderr, "DATA RACE") {
				r.Violate(hx.Violation{Class: "data-race", Input: cs, Observed: tail(res.Stderr, 3000)})
				return
			}
			if base == "" {
				base = out
			} else if out != base {
				r.Violate(hx.Violation{Class: "workers-change-output", Input: cs, Observed: map[string]any{"workers": w, "GOMAXPROCS": procs, "output": tail(out, 1500), "workers=1": tail(base, 1500)}})
				return
			}
			r.Count("binary-runs")
		}
	}
	r.Case("w"+fmt.Sprint(cs), true)
}

// a second instance of several checks with another severity (and another String(), or it would be skipped as
// already enabled): the same problem then arrives from two jobs and differs only in severity
const c11SecondInstances = `
rule {
  label "team" {
    required = true
    value    = "infra|a|b"
    severity = "bug"
  }
  annotation "summary" {
    required = true
    value    = ".+"
    severity = "info"
  }
  name "^[a-z:]+$" {
    comment  = "second instance"
    severity = "bug"
  }
}
`

// two checks whose problems differ in nothing but the details (the comment), and two whose problems are identical
const c11SameButDetails = `
rule {
  label "team" {
    required = true
    comment  = "AAA: every rule needs a team label"
  }
}
rule {
  label "team" {
    required = true
    value    = "a|b"
    comment  = "BBB: team must be a or b"
  }
}
rule {
  label "tier" {
    value = "a|b"
  }
}
rule {
  label "tier" {
    value    = "a|b"
    required = true
  }
}
`

func c11GenCase(r *hx.Run) c11Case {
	cs := c11Case{Config: c08AllKinds, Files: map[string]string{}}
	if r.Rng.Intn(2) == 0 {
		cs.Config += c11SecondInstances
	}
	if r.Rng.Intn(3) == 0 {
		cs.Config += c11SameButDetails
	}
	if r.Rng.Intn(4) == 0 {
		// flow style: several rules on one line; labels before expr: the problem does not end on the rule's last line
		cs.Files["rules/flow.yml"] = "groups:\n- name: flow\n  rules: [{record: foo:sum, expr: sum(up)}, {record: bar:sum, expr: sum(up)}, {alert: Foo, expr: up == 0}]\n" +
			"- name: g2\n  rules:\n  - alert: LabelsNotLast\n    labels:\n      tier: c\n      team: c\n    expr: up == 0\n  - alert: LabelsLast\n    expr: up == 0\n    labels:\n      tier: c\n      team: c\n"
	}
	for i, n := 0, 1+r.Rng.Intn(3); i < n; i++ {
		cs.Files[fmt.Sprintf("rules/f%d.yml", i)] = enFile(r)
	}
	if r.Rng.Intn(2) == 0 { // identical files: the same issue many times, duplicates folded
		cs.Files["rules/copy.yml"] = cs.Files["rules/f0.yml"]
	}
	if r.Rng.Intn(3) == 0 { // a rule file that is also reached through a symlink (names sorting before and after the target)
		cs.Links = map[string]string{hx.Pick(r.Rng, []string{"rules/a_link.yml", "rules/z_link.yml"}): "rules/f0.yml"}
		if r.Rng.Intn(3) == 0 {
			cs.Links["rules/m_link.yml"] = "rules/f0.yml"
		}
	}
	return cs
}

func runC11(r *hx.Run, replay string) {
	if replay != "" {
		b, err := os.ReadFile(replay)
		if err != nil {
			panic(err)
		}
		var rp struct {
			Input c11Case `json:"input"`
		}
		if err := json.Unmarshal(b, &rp); err != nil {
			panic(err)
		}
		c11Observe(r, rp.Input)
		return
	}
	// correspondence on synthetic streams (ties, equal reports, asymmetric isEqual, empty diagnostics)
	for i := 0; i < r.N*5; i++ {
		var reps []reporter.Report
		for j, n := 0, 1+r.Rng.Intn(6); j < n; j++ {
			reps = append(reps, c11RandReport(r))
		}
		if r.Rng.Intn(3) == 0 && len(reps) > 0 {
			reps = append(reps, reps[r.Rng.Intn(len(reps))])
		}
		stream, key := c11TaggedStream(reps, nil)
		ans, _ := c11RealPipeline(reps, key)
		r.Op("pipeline\t"+stream, ans)
	}
	bin := os.Getenv("PINT_BIN")
	raceBin := os.Getenv("PINT_RACE_BIN")
	for i := 0; i < r.N; i++ {
		cs := c11GenCase(r)
		c11Observe(r, cs)
		if i%20 == 0 && bin != "" {
			c11Workers(r, cs, bin)
		}
		if r.Tier == "thorough" && i%40 == 0 && raceBin != "" {
			c11Workers(r, cs, raceBin)
		}
	}
}

func firstDiff(a, b string) map[string]any {
	la, lb := strings.Split(a, "\n"), strings.Split(b, "\n")
	for i := 0; i < len(la) && i < len(lb); i++ {
		if la[i] != lb[i] {
			lo, hi := max(0, i-12), min(min(len(la), len(lb)), i+12)
			return map[string]any{"first_differing_line": i, "production_order": la[lo:hi], "permuted": lb[lo:hi]}
		}
	}
	return map[string]any{"lengths": []int{len(la), len(lb)}}
}
