package main

import (
	"strconv"
	"net/http/httptest"
	"net/http"
	"path/filepath"
	"context"
	"encoding/json"
	"fmt"
	"os"
	"sort"
	"strings"
	"time"

	"github.com/cloudflare/pint/internal/checks"
	"github.com/cloudflare/pint/internal/diags"
	"github.com/cloudflare/pint/internal/discovery"
	"github.com/cloudflare/pint/internal/reporter"
	"github.com/cloudflare/pint/verifharness/hx"
)

func init() { props["C17"] = runC17 }

type c17Report struct {
	Path     string `json:"path"`
	First    int    `json:"first"`
	Last     int    `json:"last"`
	Reporter string `json:"reporter"`
	Severity int    `json:"severity"`
	Summary  string `json:"summary"`
	Details  string `json:"details"`
	Modified []int  `json:"modified_lines"`
	Before   bool   `json:"anchor_before"`
}

type c17Stored struct {
	ID   int    `json:"id"`
	Path string `json:"path"`
	Line int    `json:"line"`
	Text string `json:"text"`
	Mine bool   `json:"mine"`
}

type c17Case struct {
	Platform string            `json:"platform"` // gitlab | github
	Budget   int               `json:"max_comments"`
	Initial  []c17Stored       `json:"initial_comments"`
	Rounds   [][]c17Report     `json:"rounds"`
	Patches  map[string]string `json:"patches,omitempty"`
}

// in-memory comment store behind the real Commenter interface; equality and budgets come from the real reporters
type c17Commenter struct {
	platform string
	gl       reporter.GitLabReporter
	gr       reporter.GithubReporter
	dst      any
	store    []c17Stored
	nextID   int
	created  []c17Stored
	deleted  []c17Stored
}

func (c *c17Commenter) Describe() string                                              { return "in-memory " + c.platform }
func (c *c17Commenter) Destinations(context.Context) ([]any, error)                   { return []any{c.dst}, nil }
func (c *c17Commenter) Summary(context.Context, any, reporter.Summary, []error) error { return nil }
func (c *c17Commenter) List(context.Context, any) ([]reporter.ExistingComment, error) {
	var out []reporter.ExistingComment
	for _, s := range c.store {
		out = append(out, reporter.VerifNewExisting(s.Path, s.Text, s.Line, s.ID))
	}
	return out, nil
}
func (c *c17Commenter) Create(_ context.Context, dst any, p reporter.PendingComment) error {
	path, text, line, _ := reporter.VerifPendingFields(p)
	if c.platform == "github" {
		if !reporter.VerifGithubHasDiff(dst, path) {
			return nil // the real reporter silently skips files that are not part of the pull request
		}
		_, line = reporter.VerifGithubFixLine(c.gr, dst, p)
	}
	s := c17Stored{ID: c.nextID, Path: path, Line: line, Text: text, Mine: true}
	c.nextID++
	c.store = append(c.store, s)
	c.created = append(c.created, s)
	return nil
}
func (c *c17Commenter) Delete(_ context.Context, _ any, e reporter.ExistingComment) error {
	_, _, _, meta := reporter.VerifExistingFields(e)
	id := meta.(int)
	for i, s := range c.store {
		if s.ID == id {
			c.deleted = append(c.deleted, s)
			c.store = append(c.store[:i:i], c.store[i+1:]...)
			break
		}
	}
	return nil
}
func (c *c17Commenter) CanCreate(n int) bool {
	if c.platform == "github" {
		return c.gr.CanCreate(n)
	}
	return c.gl.CanCreate(n)
}
func (c *c17Commenter) CanDelete(e reporter.ExistingComment) bool {
	if c.platform == "github" {
		return c.gr.CanDelete(e)
	}
	_, _, _, meta := reporter.VerifExistingFields(e)
	for _, s := range c.store {
		if s.ID == meta.(int) {
			return s.Mine && c.gl.CanDelete(e) // GitLab lists (and may delete) only pint's own discussions
		}
	}
	return false
}
func (c *c17Commenter) IsEqual(dst any, e reporter.ExistingComment, p reporter.PendingComment) bool {
	if c.platform == "github" {
		return c.gr.IsEqual(dst, e, p)
	}
	return c.gl.IsEqual(dst, e, p)
}

func c17ToReports(rs []c17Report) []reporter.Report {
	var out []reporter.Report
	for _, r := range rs {
		anchor := checks.AnchorAfter
		if r.Before {
			anchor = checks.AnchorBefore
		}
		out = append(out, reporter.Report{
			Path:          discovery.Path{Name: r.Path, SymlinkTarget: r.Path},
			ModifiedLines: r.Modified,
			Problem: checks.Problem{Reporter: r.Reporter, Summary: r.Summary, Details: r.Details, Severity: checks.Severity(r.Severity),
				Lines: diags.LineRange{First: r.First, Last: r.Last}, Anchor: anchor},
		})
	}
	return out
}

func c17Eval(r *hx.Run, cs c17Case) {
	c := &c17Commenter{platform: cs.Platform, nextID: 1000}
	var err error
	if c.gl, err = reporter.NewGitLabReporter("v0", "branch", "http://127.0.0.1:1", time.Second, "token", 1, cs.Budget); err != nil {
		panic(err)
	}
	if c.gr, err = reporter.NewGithubReporter(context.Background(), "v0", "", "", time.Second, "token", "o", "r", 1, cs.Budget, "head", false); err != nil {
		panic(err)
	}
	c.dst = any("mr")
	if cs.Platform == "github" {
		c.dst = reporter.VerifGithubDst(cs.Patches)
	}
	c.store = append(c.store, cs.Initial...)
	isEq := func(s c17Stored, p reporter.PendingComment) bool {
		return c.IsEqual(c.dst, reporter.VerifNewExisting(s.Path, s.Text, s.Line, s.ID), p)
	}
	for ri, round := range cs.Rounds {
		summary := reporter.NewSummary(c17ToReports(round))
		pending := reporter.VerifMakeComments(summary, false)
		before := append([]c17Stored{}, c.store...)
		c.created, c.deleted = nil, nil
		if err := reporter.Submit(context.Background(), summary, c, false); err != nil {
			r.Violate(hx.Violation{Class: "submit-error", Input: cs, Observed: err.Error()})
			return
		}
		// ---- correspondence: the same reconciliation through the Lean model ----
		eq := [][2]int{}
		canDel := []bool{}
		for ei, e := range before {
			canDel = append(canDel, c.platform == "gitlab" && e.Mine)
			for pi, p := range pending {
				if isEq(e, p) {
					eq = append(eq, [2]int{ei, pi})
				}
			}
		}
		op, _ := json.Marshal(map[string]any{"existing": len(before), "pending": len(pending), "budget": cs.Budget, "canDelete": canDel, "eq": eq})
		var cr, dl []string
		for _, s := range c.created {
			// which pending index was it? creations happen in pending order: match by content, first unused
			cr = append(cr, fmt.Sprintf("%s:%s", s.Path, shortHash(s.Text)))
		}
		_ = cr
		// creations in terms of pending indices: re-derive by walking pending in order
		var createdIdx []int
		ci := 0
		for pi, p := range pending {
			if ci >= len(c.created) {
				break
			}
			path, text, _, _ := reporter.VerifPendingFields(p)
			if c.created[ci].Path == path && c.created[ci].Text == text {
				covered := false
				for _, e := range before {
					if isEq(e, p) {
						covered = true
					}
				}
				if !covered {
					createdIdx = append(createdIdx, pi)
					ci++
				}
			}
		}
		for _, s := range c.deleted {
			for ei, e := range before {
				if e.ID == s.ID {
					dl = append(dl, fmt.Sprint(ei))
				}
			}
		}
		sort.Strings(dl)
		github := cs.Platform == "github"
		if !github { // the GitHub variant may skip creations silently; its create log is compared by the clauses below only
			r.Op("reconcile\t"+string(op), fmt.Sprintf("C:%s|D:%s", joinInts(createdIdx), strings.Join(dl, ",")))
		}
		// ---- the clauses of the property, evaluated on the store ----
		key := fmt.Sprintf("%v|%d", cs, ri)
		r.Case(key, len(pending) > 0 && (len(before) > 0 || ri > 0))
		r.Count("platform:" + cs.Platform)
		r.Count(fmt.Sprintf("round:%d", ri))
		deferred := false
		for _, p := range pending {
			cov := false
			for _, e := range c.store {
				if isEq(e, p) {
					cov = true
				}
			}
			if !cov {
				path, _, _, _ := reporter.VerifPendingFields(p)
				if github && !reporter.VerifGithubHasDiff(c.dst, path) {
					r.Count("github-path-not-in-pr")
					continue
				}
				if len(c.created) >= cs.Budget {
					deferred = true
					continue
				}
				r.Violate(hx.Violation{Class: "problem-not-covered", Input: cs, Observed: map[string]any{"round": ri, "pending": fmt.Sprint(reporter.VerifPendingFields(p)), "created": len(c.created)},
					Expected: "covered by an existing or new comment unless the budget of this run is exhausted"})
				return
			}
		}
		if len(c.created) > cs.Budget {
			r.Violate(hx.Violation{Class: "budget-exceeded", Input: cs, Observed: map[string]any{"round": ri, "created": len(c.created)}, Expected: fmt.Sprintf("at most %d", cs.Budget)})
			return
		}
		for _, s := range c.created {
			for _, e := range before {
				if e.Path == s.Path && e.Line == s.Line && strings.Trim(e.Text, "\n") == strings.Trim(s.Text, "\n") {
					r.Violate(hx.Violation{Class: "duplicate-of-existing-created", Input: cs, Observed: map[string]any{"round": ri, "created": s, "existing": e}, Expected: "no comment equal to an existing one is created"})
					return
				}
			}
		}
		for _, e := range before {
			stale := true
			for _, p := range pending {
				if isEq(e, p) {
					stale = false
				}
			}
			still := false
			for _, s := range c.store {
				if s.ID == e.ID {
					still = true
				}
			}
			canDelete := c.platform == "gitlab" && e.Mine
			if stale && canDelete && still {
				r.Violate(hx.Violation{Class: "stale-comment-kept", Input: cs, Observed: map[string]any{"round": ri, "comment": e}, Expected: "deletable comments that match no problem are removed"})
				return
			}
			if (!stale || !canDelete) && !still {
				r.Violate(hx.Violation{Class: "comment-wrongly-deleted", Input: cs, Observed: map[string]any{"round": ri, "comment": e}, Expected: "only stale comments pint may delete are removed"})
				return
			}
		}
		if !deferred {
			// idempotence: the same results again create and delete nothing
			c.created, c.deleted = nil, nil
			if err := reporter.Submit(context.Background(), summary, c, false); err != nil {
				r.Violate(hx.Violation{Class: "submit-error", Input: cs, Observed: err.Error()})
				return
			}
			r.Count("idempotence-checked")
			if len(c.created)+len(c.deleted) > 0 {
				r.Violate(hx.Violation{Class: "not-idempotent", Input: cs, Observed: map[string]any{"round": ri, "created": c.created, "deleted": c.deleted}, Expected: "a repeated run with unchanged results creates and deletes nothing"})
				return
			}
		} else {
			r.Count("deferred-by-budget")
		}
		// grouping and line choice of makeComments
		groups := map[string][]c17Report{}
		for _, rep := range round {
			k := fmt.Sprintf("%d|%s|%s|%d|%d|%v", rep.Severity, rep.Reporter, rep.Path, rep.First, rep.Last, rep.Before)
			groups[k] = append(groups[k], rep)
		}
		if len(groups) != len(pending) {
			r.Violate(hx.Violation{Class: "grouping", Input: cs, Observed: map[string]any{"round": ri, "groups": len(groups), "pending": len(pending)}, Expected: "one pending comment per (severity, reporter, path, first, last, anchor)"})
			return
		}
		for _, p := range pending {
			path, text, line, _ := reporter.VerifPendingFields(p)
			ok := false
			for _, g := range groups {
				if g[0].Path != path || !strings.Contains(text, "**"+g[0].Reporter+"**") {
					continue
				}
				want := g[0].Last
				for i := g[0].Last; i >= g[0].First; i-- {
					mod := false
					for _, m := range g[0].Modified {
						if m == i {
							mod = true
						}
					}
					if mod {
						want = i
						break
					}
				}
				all := true
				for _, rep := range g {
					if !strings.Contains(text, rep.Summary) {
						all = false
					}
				}
				if want == line && all {
					ok = true
				}
			}
			if !ok {
				r.Violate(hx.Violation{Class: "comment-text-or-line", Input: cs, Observed: map[string]any{"round": ri, "path": path, "line": line}, Expected: "comment at the last modified line of the range (else its last line) mentioning every summary of its group"})
				return
			}
		}
	}
	r.Sample(cs)
}

func shortHash(s string) string {
	h := 0
	for _, c := range s {
		h = h*31 + int(c)
	}
	return fmt.Sprint(h & 0xffffff)
}

func joinInts(xs []int) string {
	var o []string
	for _, x := range xs {
		o = append(o, fmt.Sprint(x))
	}
	return strings.Join(o, ",")
}

func c17RandReport(r *hx.Run) c17Report {
	rr := r.Rng
	first := 1 + rr.Intn(20)
	rep := c17Report{Path: hx.Pick(rr, []string{"rules/a.yml", "rules/b.yml"}), First: first, Last: first + rr.Intn(4),
		Reporter: hx.Pick(rr, []string{"promql/series", "alerts/template", "rule/label"}), Severity: rr.Intn(4),
		Summary: hx.Pick(rr, []string{"problem one", "problem two", "another issue"}), Details: hx.Pick(rr, []string{"", "", "some details"}),
		Before: rr.Intn(8) == 0}
	for l := rep.First - 1; l <= rep.Last+1; l++ {
		if rr.Intn(3) == 0 {
			rep.Modified = append(rep.Modified, l)
		}
	}
	return rep
}

// c17Texts: the step from reports to comments (makeComments), on files that exist so that diagnostics are rendered.
//  (T1) every report's own text - its diagnostic message when it has one, else its summary - is in some comment for its
//       path and line;
//  (T2) the comments for a set of reports T do not depend on unrelated reports S that come before them: every comment
//       made for T alone is also made, with the same text, for S ++ T (S and T on different files).
func c17Texts(r *hx.Run) {
	rr := r.Rng
	dir := filepath.Join(r.OutDir, "c17files")
	_ = os.MkdirAll(dir, 0o755)
	var body strings.Builder
	for i := 1; i <= 30; i++ {
		fmt.Fprintf(&body, "line %d of the file\n", i)
	}
	pa, pb := filepath.Join(dir, "a.yml"), filepath.Join(dir, "b.yml")
	_ = os.WriteFile(pa, []byte(body.String()), 0o644)
	_ = os.WriteFile(pb, []byte(strings.ReplaceAll(body.String(), "file", "other file")), 0o644)
	mk := func(path string) reporter.Report {
		first := 1 + rr.Intn(6)*4
		anchor := checks.AnchorAfter
		if rr.Intn(4) == 0 {
			anchor = checks.AnchorBefore
		}
		rep := reporter.Report{Path: discovery.Path{Name: path, SymlinkTarget: path}, ModifiedLines: []int{first},
			Problem: checks.Problem{Reporter: hx.Pick(rr, []string{"alerts/template", "rule/dependency"}), Summary: hx.Pick(rr, []string{"template uses non-existent label", "rule results used by another rule"}),
				Details: hx.Pick(rr, []string{"", "", "some details"}), Severity: checks.Severity(1 + rr.Intn(3)), Lines: diags.LineRange{First: first, Last: first + 1}, Anchor: anchor}}
		if rr.Intn(4) != 0 {
			rep.Problem.Diagnostics = []diags.Diagnostic{{Message: hx.Pick(rr, []string{"label job is gone", "label instance is gone", "used by rule X", "used by rule Y"}),
				Pos: diags.PositionRanges{{Line: first, FirstColumn: 1, LastColumn: 20}}, FirstColumn: 1 + rr.Intn(3), LastColumn: 5 + rr.Intn(3)}}
		}
		return rep
	}
	var S, T []reporter.Report
	for i, n := 0, rr.Intn(3); i < n; i++ {
		S = append(S, mk(pa))
	}
	for i, n := 0, 1+rr.Intn(4); i < n; i++ {
		T = append(T, mk(pb))
	}
	type key struct {
		path, text string
		line       int
	}
	comments := func(reps []reporter.Report) map[key]int {
		out := map[key]int{}
		for _, p := range reporter.VerifMakeComments(reporter.NewSummary(reps), true) {
			path, text, line, _ := reporter.VerifPendingFields(p)
			out[key{path, text, line}]++
		}
		return out
	}
	both := comments(append(append([]reporter.Report{}, S...), T...))
	alone := comments(T)
	show := func(reps []reporter.Report) []string {
		var o []string
		for _, x := range reps {
			m := ""
			if len(x.Problem.Diagnostics) > 0 {
				m = x.Problem.Diagnostics[0].Message
			}
			o = append(o, fmt.Sprintf("%s %s sev=%d lines=%d-%d before=%v %q / %q / %q", filepath.Base(x.Path.Name), x.Problem.Reporter, x.Problem.Severity, x.Problem.Lines.First, x.Problem.Lines.Last,
				x.Problem.Anchor == checks.AnchorBefore, x.Problem.Summary, x.Problem.Details, m))
		}
		return o
	}
	r.Case(fmt.Sprint(show(S), show(T)), len(T) > 1 || len(S) > 0)
	r.Count("comment-text-cases")
	for k, n := range alone {
		if both[k] < n {
			r.Violate(hx.Violation{Class: "comment-text-depends-on-other-reports", Input: map[string]any{"S": show(S), "T": show(T)},
				Observed: map[string]any{"comment_for_T_alone": k.text, "line": k.line}, Expected: "the same comment when unrelated reports on another file precede T"})
			return
		}
	}
	for _, x := range T {
		want := x.Problem.Summary
		if len(x.Problem.Diagnostics) > 0 && x.Problem.Anchor == checks.AnchorAfter {
			want = x.Problem.Diagnostics[0].Message
		}
		found := false
		for k := range alone {
			if k.path == x.Path.Name && strings.Contains(k.text, want) {
				found = true
			}
		}
		if !found {
			r.Violate(hx.Violation{Class: "problem-text-in-no-comment", Input: map[string]any{"T": show(T)}, Observed: map[string]any{"missing": want},
				Expected: "every reported problem is covered by a comment carrying its text"})
			return
		}
	}
}

// c17GithubPaging: the real GitHub reporter against a fake API that pages its lists the way github.com does (30 items
// per page unless asked otherwise, a Link header naming the next page): List must return every review comment and
// Destinations every file of the pull request, however many there are.
func c17GithubPaging(r *hx.Run, nComments, nFiles int) {
	page := func(w http.ResponseWriter, req *http.Request, total int, item func(i int) string) {
		per, pg := 30, 1
		if v, err := strconv.Atoi(req.URL.Query().Get("per_page")); err == nil && v > 0 {
			per = min(v, 100)
		}
		if v, err := strconv.Atoi(req.URL.Query().Get("page")); err == nil && v > 0 {
			pg = v
		}
		lo, hi := (pg-1)*per, min(pg*per, total)
		var items []string
		for i := lo; i < hi; i++ {
			items = append(items, item(i))
		}
		if hi < total {
			q := req.URL.Query()
			q.Set("page", strconv.Itoa(pg+1))
			w.Header().Set("Link", fmt.Sprintf("<http://%s%s?%s>; rel=\"next\"", req.Host, req.URL.Path, q.Encode()))
		}
		w.Header().Set("Content-Type", "application/json")
		fmt.Fprint(w, "["+strings.Join(items, ",")+"]")
	}
	srv := httptest.NewServer(http.HandlerFunc(func(w http.ResponseWriter, req *http.Request) {
		switch {
		case strings.HasSuffix(req.URL.Path, "/pulls/1/comments"):
			page(w, req, nComments, func(i int) string {
				return fmt.Sprintf(`{"id":%d,"path":"rules/a.yml","line":%d,"body":"comment %d"}`, i+1, i+1, i)
			})
		case strings.HasSuffix(req.URL.Path, "/pulls/1/files"):
			page(w, req, nFiles, func(i int) string {
				return fmt.Sprintf(`{"filename":"rules/f%d.yml","patch":"@@ -1 +1 @@\n-a\n+b"}`, i)
			})
		default:
			w.Header().Set("Content-Type", "application/json")
			fmt.Fprint(w, "[]")
		}
	}))
	defer srv.Close()
	gr, err := reporter.NewGithubReporter(context.Background(), "v0", srv.URL, srv.URL, 5*time.Second, "token", "o", "r", 1, 50, "head", false)
	if err != nil {
		panic(err)
	}
	r.Case(fmt.Sprintf("github-paging %d %d", nComments, nFiles), nComments > 30 || nFiles > 30)
	r.Count("github-paging-cases")
	existing, err := gr.List(context.Background(), nil)
	if err != nil || len(existing) != nComments {
		r.Violate(hx.Violation{Class: "github-existing-comments-missed", Input: map[string]any{"comments_on_the_pull_request": nComments},
			Observed: map[string]any{"listed": len(existing), "error": fmt.Sprint(err)}, Expected: "every existing comment is seen, so that none is created again"})
		return
	}
	dsts, err := gr.Destinations(context.Background())
	if err != nil || len(dsts) != 1 {
		r.Violate(hx.Violation{Class: "github-files-missed", Input: map[string]any{"files": nFiles}, Observed: fmt.Sprint(err)})
		return
	}
	missing := 0
	for i := 0; i < nFiles; i++ {
		if !reporter.VerifGithubHasDiff(dsts[0], fmt.Sprintf("rules/f%d.yml", i)) {
			missing++
		}
	}
	if missing > 0 {
		r.Violate(hx.Violation{Class: "github-files-missed", Input: map[string]any{"files_in_the_pull_request": nFiles}, Observed: map[string]any{"not_seen": missing},
			Expected: "every file of the pull request is seen, so that its problems get comments"})
	}
}

func runC17(r *hx.Run, replay string) {
	if replay != "" {
		b, err := os.ReadFile(replay)
		if err != nil {
			panic(err)
		}
		var rp struct {
			Input c17Case `json:"input"`
		}
		if err := json.Unmarshal(b, &rp); err != nil {
			panic(err)
		}
		c17Eval(r, rp.Input)
		return
	}
	rr := r.Rng
	for _, n := range [][2]int{{0, 1}, {29, 30}, {30, 31}, {31, 29}, {65, 3}, {3, 100}, {131, 61}} {
		c17GithubPaging(r, n[0], n[1])
	}
	for i := 0; i < r.N; i++ {
		c17Texts(r)
		cs := c17Case{Platform: hx.Pick(rr, []string{"gitlab", "gitlab", "github"}), Budget: rr.Intn(5)}
		if rr.Intn(4) == 0 {
			cs.Budget = 50
		}
		// a unified diff that touches most lines, so that GitHub can place comments
		cs.Patches = map[string]string{}
		for _, p := range []string{"rules/a.yml", "rules/b.yml"} {
			var sb strings.Builder
			sb.WriteString("@@ -1,5 +1,30 @@\n")
			for l := 1; l <= 30; l++ {
				if l%7 == 0 {
					sb.WriteString(" context\n")
				} else {
					sb.WriteString("+added\n")
				}
			}
			cs.Patches[p] = sb.String()
		}
		var cur []c17Report
		for j, n := 0, 1+rr.Intn(6); j < n; j++ {
			cur = append(cur, c17RandReport(r))
		}
		for j, n := 0, rr.Intn(4); j < n; j++ {
			cs.Initial = append(cs.Initial, c17Stored{ID: j + 1, Path: hx.Pick(rr, []string{"rules/a.yml", "rules/b.yml"}), Line: 1 + rr.Intn(25),
				Text: hx.Pick(rr, []string{"a human wrote this", "LGTM", "old pint comment"}), Mine: rr.Intn(2) == 0})
		}
		if rr.Intn(2) == 0 {
			// comments a previous pint run left for some of the first round's problems (any positions)
			for j, p := range reporter.VerifMakeComments(reporter.NewSummary(c17ToReports(cur)), false) {
				if rr.Intn(2) == 0 {
					path, text, line, _ := reporter.VerifPendingFields(p)
					cs.Initial = append(cs.Initial, c17Stored{ID: 100 + j, Path: path, Line: line, Text: text, Mine: true})
				}
			}
		}
		for ri, n := 0, 1+rr.Intn(5); ri < n; ri++ {
			cs.Rounds = append(cs.Rounds, append([]c17Report{}, cur...))
			// evolve: problems disappear, appear (anywhere in the report order), move, get reordered
			switch rr.Intn(5) {
			case 0:
				if len(cur) > 0 {
					k := rr.Intn(len(cur))
					cur = append(cur[:k:k], cur[k+1:]...)
				}
			case 1:
				k := rr.Intn(len(cur) + 1)
				cur = append(cur[:k:k], append([]c17Report{c17RandReport(r)}, cur[k:]...)...)
			case 3:
				rr.Shuffle(len(cur), func(i, j int) { cur[i], cur[j] = cur[j], cur[i] })
			case 2:
				if len(cur) > 0 {
					k := rr.Intn(len(cur))
					cur[k].First++
					cur[k].Last++
				}
			}
		}
		c17Eval(r, cs)
	}
}
