package main

import (
	"context"
	"encoding/json"
	"fmt"
	"os"
	"sort"
	"strings"
	"time"

	"github.com/cloudflare/pint/internal/checks"
	"github.com/cloudflare/pint/internal/diags"
	"github.com/cloudflare/pint/internal/discovery"
	"github.com/cloudflare/pint/internal/reporter"
	"github.com/cloudflare/pint/verifharness/hx"
)

func init() { props["C17"] = runC17 }

type c17Report struct {
	Path     string `json:"path"`
	First    int    `json:"first"`
	Last     int    `json:"last"`
	Reporter string `json:"reporter"`
	Severity int    `json:"severity"`
	Summary  string `json:"summary"`
	Details  string `json:"details"`
	Modified []int  `json:"modified_lines"`
	Before   bool   `json:"anchor_before"`
}

type c17Stored struct {
	ID   int    `json:"id"`
	Path string `json:"path"`
	Line int    `json:"line"`
	Text string `json:"text"`
	Mine bool   `json:"mine"`
}

type c17Case struct {
	Platform string            `json:"platform"` // gitlab | github
	Budget   int               `json:"max_comments"`
	Initial  []c17Stored       `json:"initial_comments"`
	Rounds   [][]c17Report     `json:"rounds"`
	Patches  map[string]string `json:"patches,omitempty"`
}

// in-memory comment store behind the real Commenter interface; equality and budgets come from the real reporters
type c17Commenter struct {
	platform string
	gl       reporter.GitLabReporter
	gr       reporter.GithubReporter
	dst      any
	store    []c17Stored
	nextID   int
	created  []c17Stored
	deleted  []c17Stored
}

func (c *c17Commenter) Describe() string                                              { return "in-memory " + c.platform }
func (c *c17Commenter) Destinations(context.Context) ([]any, error)                   { return []any{c.dst}, nil }
func (c *c17Commenter) Summary(context.Context, any, reporter.Summary, []error) error { return nil }
func (c *c17Commenter) List(context.Context, any) ([]reporter.ExistingComment, error) {
	var out []reporter.ExistingComment
	for _, s := range c.store {
		out = append(out, reporter.VerifNewExisting(s.Path, s.Text, s.Line, s.ID))
	}
	return out, nil
}
func (c *c17Commenter) Create(_ context.Context, dst any, p reporter.PendingComment) error {
	path, text, line, _ := reporter.VerifPendingFields(p)
	if c.platform == "github" {
		if !reporter.VerifGithubHasDiff(dst, path) {
			return nil // the real reporter silently skips files that are not part of the pull request
		}
		_, line = reporter.VerifGithubFixLine(c.gr, dst, p)
	}
	s := c17Stored{ID: c.nextID, Path: path, Line: line, Text: text, Mine: true}
	c.nextID++
	c.store = append(c.store, s)
	c.created = append(c.created, s)
	return nil
}
func (c *c17Commenter) Delete(_ context.Context, _ any, e reporter.ExistingComment) error {
	_, _, _, meta := reporter.VerifExistingFields(e)
	id := meta.(int)
	for i, s := range c.store {
		if s.ID == id {
			c.deleted = append(c.deleted, s)
			c.store = append(c.store[:i:i], c.store[i+1:]...)
			break
		}
	}
	return nil
}
func (c *c17Commenter) CanCreate(n int) bool {
	if c.platform == "github" {
		return c.gr.CanCreate(n)
	}
	return c.gl.CanCreate(n)
}
func (c *c17Commenter) CanDelete(e reporter.ExistingComment) bool {
	if c.platform == "github" {
		return c.gr.CanDelete(e)
	}
	_, _, _, meta := reporter.VerifExistingFields(e)
	for _, s := range c.store {
		if s.ID == meta.(int) {
			return s.Mine && c.gl.CanDelete(e) // GitLab lists (and may delete) only pint's own discussions
		}
	}
	return false
}
func (c *c17Commenter) IsEqual(dst any, e reporter.ExistingComment, p reporter.PendingComment) bool {
	if c.platform == "github" {
		return c.gr.IsEqual(dst, e, p)
	}
	return c.gl.IsEqual(dst, e, p)
}

func c17ToReports(rs []c17Report) []reporter.Report {
	var out []reporter.Report
	for _, r := range rs {
		anchor := checks.AnchorAfter
		if r.Before {
			anchor = checks.AnchorBefore
		}
		out = append(out, reporter.Report{
			Path:          discovery.Path{Name: r.Path, SymlinkTarget: r.Path},
			ModifiedLines: r.Modified,
			Problem: checks.Problem{Reporter: r.Reporter, Summary: r.Summary, Details: r.Details, Severity: checks.Severity(r.Severity),
				Lines: diags.LineRange{First: r.First, Last: r.Last}, Anchor: anchor},
		})
	}
	return out
}

func c17Eval(r *hx.Run, cs c17Case) {
	c := &c17Commenter{platform: cs.Platform, nextID: 1000}
	var err error
	if c.gl, err = reporter.NewGitLabReporter("v0", "branch", "http://127.0.0.1:1", time.Second, "token", 1, cs.Budget); err != nil {
		panic(err)
	}
	if c.gr, err = reporter.NewGithubReporter(context.Background(), "v0", "", "", time.Second, "token", "o", "r", 1, cs.Budget, "head", false); err != nil {
		panic(err)
	}
	c.dst = any("mr")
	if cs.Platform == "github" {
		c.dst = reporter.VerifGithubDst(cs.Patches)
	}
	c.store = append(c.store, cs.Initial...)
	isEq := func(s c17Stored, p reporter.PendingComment) bool {
		return c.IsEqual(c.dst, reporter.VerifNewExisting(s.Path, s.Text, s.Line, s.ID), p)
	}
	for ri, round := range cs.Rounds {
		summary := reporter.NewSummary(c17ToReports(round))
		pending := reporter.VerifMakeComments(summary, false)
		before := append([]c17Stored{}, c.store...)
		c.created, c.deleted = nil, nil
		if err := reporter.Submit(context.Background(), summary, c, false); err != nil {
			r.Violate(hx.Violation{Class: "submit-error", Input: cs, Observed: err.Error()})
			return
		}
		// ---- correspondence: the same reconciliation through the Lean model ----
		eq := [][2]int{}
		canDel := []bool{}
		for ei, e := range before {
			canDel = append(canDel, c.platform == "gitlab" && e.Mine)
			for pi, p := range pending {
				if isEq(e, p) {
					eq = append(eq, [2]int{ei, pi})
				}
			}
		}
		op, _ := json.Marshal(map[string]any{"existing": len(before), "pending": len(pending), "budget": cs.Budget, "canDelete": canDel, "eq": eq})
		var cr, dl []string
		for _, s := range c.created {
			// which pending index was it? creations happen in pending order: match by content, first unused
			cr = append(cr, fmt.Sprintf("%s:%s", s.Path, shortHash(s.Text)))
		}
		_ = cr
		// creations in terms of pending indices: re-derive by walking pending in order
		var createdIdx []int
		ci := 0
		for pi, p := range pending {
			if ci >= len(c.created) {
				break
			}
			path, text, _, _ := reporter.VerifPendingFields(p)
			if c.created[ci].Path == path && c.created[ci].Text == text {
				covered := false
				for _, e := range before {
					if isEq(e, p) {
						covered = true
					}
				}
				if !covered {
					createdIdx = append(createdIdx, pi)
					ci++
				}
			}
		}
		for _, s := range c.deleted {
			for ei, e := range before {
				if e.ID == s.ID {
					dl = append(dl, fmt.Sprint(ei))
				}
			}
		}
		sort.Strings(dl)
		github := cs.Platform == "github"
		if !github { // the GitHub variant may skip creations silently; its create log is compared by the clauses below only
			r.Op("reconcile\t"+string(op), fmt.Sprintf("C:%s|D:%s", joinInts(createdIdx), strings.Join(dl, ",")))
		}
		// ---- the clauses of the property, evaluated on the store ----
		key := fmt.Sprintf("%v|%d", cs, ri)
		r.Case(key, len(pending) > 0 && (len(before) > 0 || ri > 0))
		r.Count("platform:" + cs.Platform)
		r.Count(fmt.Sprintf("round:%d", ri))
		deferred := false
		for _, p := range pending {
			cov := false
			for _, e := range c.store {
				if isEq(e, p) {
					cov = true
				}
			}
			if !cov {
				path, _, _, _ := reporter.VerifPendingFields(p)
				if github && !reporter.VerifGithubHasDiff(c.dst, path) {
					r.Count("github-path-not-in-pr")
					continue
				}
				if len(c.created) >= cs.Budget {
					deferred = true
					continue
				}
				r.Violate(hx.Violation{Class: "problem-not-covered", Input: cs, Observed: map[string]any{"round": ri, "pending": fmt.Sprint(reporter.VerifPendingFields(p)), "created": len(c.created)},
					Expected: "covered by an existing or new comment unless the budget of this run is exhausted"})
				return
			}
		}
		if len(c.created) > cs.Budget {
			r.Violate(hx.Violation{Class: "budget-exceeded", Input: cs, Observed: map[string]any{"round": ri, "created": len(c.created)}, Expected: fmt.Sprintf("at most %d", cs.Budget)})
			return
		}
		for _, s := range c.created {
			for _, e := range before {
				if e.Path == s.Path && e.Line == s.Line && strings.Trim(e.Text, "\n") == strings.Trim(s.Text, "\n") {
					r.Violate(hx.Violation{Class: "duplicate-of-existing-created", Input: cs, Observed: map[string]any{"round": ri, "created": s, "existing": e}, Expected: "no comment equal to an existing one is created"})
					return
				}
			}
		}
		for _, e := range before {
			stale := true
			for _, p := range pending {
				if isEq(e, p) {
					stale = false
				}
			}
			still := false
			for _, s := range c.store {
				if s.ID == e.ID {
					still = true
				}
			}
			canDelete := c.platform == "gitlab" && e.Mine
			if stale && canDelete && still {
				r.Violate(hx.Violation{Class: "stale-comment-kept", Input: cs, Observed: map[string]any{"round": ri, "comment": e}, Expected: "deletable comments that match no problem are removed"})
				return
			}
			if (!stale || !canDelete) && !still {
				r.Violate(hx.Violation{Class: "comment-wrongly-deleted", Input: cs, Observed: map[string]any{"round": ri, "comment": e}, Expected: "only stale comments pint may delete are removed"})
				return
			}
		}
		if !deferred {
			// idempotence: the same results again create and delete nothing
			c.created, c.deleted = nil, nil
			if err := reporter.Submit(context.Background(), summary, c, false); err != nil {
				r.Violate(hx.Violation{Class: "submit-error", Input: cs, Observed: err.Error()})
				return
			}
			r.Count("idempotence-checked")
			if len(c.created)+len(c.deleted) > 0 {
				r.Violate(hx.Violation{Class: "not-idempotent", Input: cs, Observed: map[string]any{"round": ri, "created": c.created, "deleted": c.deleted}, Expected: "a repeated run with unchanged results creates and deletes nothing"})
				return
			}
		} else {
			r.Count("deferred-by-budget")
		}
		// grouping and line choice of makeComments
		groups := map[string][]c17Report{}
		for _, rep := range round {
			k := fmt.Sprintf("%d|%s|%s|%d|%d|%v", rep.Severity, rep.Reporter, rep.Path, rep.First, rep.Last, rep.Before)
			groups[k] = append(groups[k], rep)
		}
		if len(groups) != len(pending) {
			r.Violate(hx.Violation{Class: "grouping", Input: cs, Observed: map[string]any{"round": ri, "groups": len(groups), "pending": len(pending)}, Expected: "one pending comment per (severity, reporter, path, first, last, anchor)"})
			return
		}
		for _, p := range pending {
			path, text, line, _ := reporter.VerifPendingFields(p)
			ok := false
			for _, g := range groups {
				if g[0].Path != path || !strings.Contains(text, "**"+g[0].Reporter+"**") {
					continue
				}
				want := g[0].Last
				for i := g[0].Last; i >= g[0].First; i-- {
					mod := false
					for _, m := range g[0].Modified {
						if m == i {
							mod = true
						}
					}
					if mod {
						want = i
						break
					}
				}
				all := true
				for _, rep := range g {
					if !strings.Contains(text, rep.Summary) {
						all = false
					}
				}
				if want == line && all {
					ok = true
				}
			}
			if !ok {
				r.Violate(hx.Violation{Class: "comment-text-or-line", Input: cs, Observed: map[string]any{"round": ri, "path": path, "line": line}, Expected: "comment at the last modified line of the range (else its last line) mentioning every summary of its group"})
				return
			}
		}
	}
	r.Sample(cs)
}

func shortHash(s string) string {
	h := 0
	for _, c := range s {
		h = h*31 + int(c)
	}
	return fmt.Sprint(h & 0xffffff)
}

func joinInts(xs []int) string {
	var o []string
	for _, x := range xs {
		o = append(o, fmt.Sprint(x))
	}
	return strings.Join(o, ",")
}

func c17RandReport(r *hx.Run) c17Report {
	rr := r.Rng
	first := 1 + rr.Intn(20)
	rep := c17Report{Path: hx.Pick(rr, []string{"rules/a.yml", "rules/b.yml"}), First: first, Last: first + rr.Intn(4),
		Reporter: hx.Pick(rr, []string{"promql/series", "alerts/template", "rule/label"}), Severity: rr.Intn(4),
		Summary: hx.Pick(rr, []string{"problem one", "problem two", "another issue"}), Details: hx.Pick(rr, []string{"", "", "some details"}),
		Before: rr.Intn(8) == 0}
	for l := rep.First - 1; l <= rep.Last+1; l++ {
		if rr.Intn(3) == 0 {
			rep.Modified = append(rep.Modified, l)
		}
	}
	return rep
}

func runC17(r *hx.Run, replay string) {
	if replay != "" {
		b, err := os.ReadFile(replay)
		if err != nil {
			panic(err)
		}
		var rp struct {
			Input c17Case `json:"input"`
		}
		if err := json.Unmarshal(b, &rp); err != nil {
			panic(err)
		}
		c17Eval(r, rp.Input)
		return
	}
	rr := r.Rng
	for i := 0; i < r.N; i++ {
		cs := c17Case{Platform: hx.Pick(rr, []string{"gitlab", "gitlab", "github"}), Budget: rr.Intn(5)}
		if rr.Intn(4) == 0 {
			cs.Budget = 50
		}
		// a unified diff that touches most lines, so that GitHub can place comments
		cs.Patches = map[string]string{}
		for _, p := range []string{"rules/a.yml", "rules/b.yml"} {
			var sb strings.Builder
			sb.WriteString("@@ -1,5 +1,30 @@\n")
			for l := 1; l <= 30; l++ {
				if l%7 == 0 {
					sb.WriteString(" context\n")
				} else {
					sb.WriteString("+added\n")
				}
			}
			cs.Patches[p] = sb.String()
		}
		var cur []c17Report
		for j, n := 0, 1+rr.Intn(6); j < n; j++ {
			cur = append(cur, c17RandReport(r))
		}
		for j, n := 0, rr.Intn(4); j < n; j++ {
			cs.Initial = append(cs.Initial, c17Stored{ID: j + 1, Path: hx.Pick(rr, []string{"rules/a.yml", "rules/b.yml"}), Line: 1 + rr.Intn(25),
				Text: hx.Pick(rr, []string{"a human wrote this", "LGTM", "old pint comment"}), Mine: rr.Intn(2) == 0})
		}
		if rr.Intn(2) == 0 {
			// comments a previous pint run left for some of the first round's problems (any positions)
			for j, p := range reporter.VerifMakeComments(reporter.NewSummary(c17ToReports(cur)), false) {
				if rr.Intn(2) == 0 {
					path, text, line, _ := reporter.VerifPendingFields(p)
					cs.Initial = append(cs.Initial, c17Stored{ID: 100 + j, Path: path, Line: line, Text: text, Mine: true})
				}
			}
		}
		for ri, n := 0, 1+rr.Intn(5); ri < n; ri++ {
			cs.Rounds = append(cs.Rounds, append([]c17Report{}, cur...))
			// evolve: problems disappear, appear (anywhere in the report order), move, get reordered
			switch rr.Intn(5) {
			case 0:
				if len(cur) > 0 {
					k := rr.Intn(len(cur))
					cur = append(cur[:k:k], cur[k+1:]...)
				}
			case 1:
				k := rr.Intn(len(cur) + 1)
				cur = append(cur[:k:k], append([]c17Report{c17RandReport(r)}, cur[k:]...)...)
			case 3:
				rr.Shuffle(len(cur), func(i, j int) { cur[i], cur[j] = cur[j], cur[i] })
			case 2:
				if len(cur) > 0 {
					k := rr.Intn(len(cur))
					cur[k].First++
					cur[k].Last++
				}
			}
		}
		c17Eval(r, cs)
	}
}
