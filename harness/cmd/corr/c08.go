package main

import (
	"regexp"
	"encoding/json"
	"fmt"
	"os"
	"path/filepath"
	"slices"
	"sort"
	"strings"
	"time"

	"github.com/cloudflare/pint/internal/checks"
	"github.com/cloudflare/pint/internal/config"
	"github.com/cloudflare/pint/internal/discovery"
	"github.com/cloudflare/pint/verifharness/hx"
	"github.com/cloudflare/pint/verifharness/pipe"
)

func init() { props["C08"] = runC08 }

type c08Case struct {
	Config     string   `json:"config"`
	File       string   `json:"file"`
	RuleEnable []string `json:"rule_enable,omitempty"` // names in an unconditional rule { enable = [...] } block of Config
	Switch     string   `json:"switch"`                // disabled-flag | disabled-config | rule-disable | enabled-flag | enabled-config | offline
	Name       string   `json:"name"`
	Command    string   `json:"command,omitempty"`     // "" = lint | ci
	State      string   `json:"entry_state,omitempty"` // with ci: the change state every entry carries (noop | added | modified)
}

// a configuration enabling every configurable check kind that runs without a server
const c08AllKinds = `
rule {
  aggregate ".+" {
    keep = ["job"]
    strip = ["instance"]
  }
  annotation "summary" {
    required = true
    severity = "bug"
  }
  label "team" {
    required = true
    severity = "warning"
  }
  for {
    min = "2m"
  }
  keep_firing_for {
    max = "1m"
  }
  name "^[a-z:]+$" {
    severity = "info"
  }
  reject ".*critical.*" {
    label_values = true
    annotation_values = true
    label_keys = true
    annotation_keys = true
  }
  report {
    comment = "reported"
    severity = "info"
  }
  range_query {
    max = "1m"
  }
}
`

func c08Reports(cfgText, file string, o pipe.Options, r *hx.Run) (out []string, perr string) {
	cfg, err := pipe.LoadConfig(r.OutDir, cfgText)
	if err != nil {
		return nil, "config: " + err.Error()
	}
	defer func() {
		if p := recover(); p != nil {
			out, perr = nil, fmt.Sprintf("panic while applying the switches: %v", p)
		}
	}()
	pipe.ApplyFlags(&cfg, o)
	res := pipe.Lint(cfg, "rules/r.yml", []byte(file), o)
	if res.Panic != "" {
		return nil, res.Panic
	}
	for _, rep := range res.Reports {
		out = append(out, rep.Problem.Reporter+"\x00"+pipe.ReportKey(rep, 1<<30, 0))
	}
	sort.Strings(out)
	return out, ""
}

func reporterOf(k string) string { return k[:strings.Index(k, "\x00")] }

func c08Eval(r *hx.Run, cs c08Case) {
	o := pipe.Options{Strict: true}
	if cs.Command == "ci" {
		o.Command = config.CICommand
		st := map[string]discovery.ChangeType{"noop": discovery.Noop, "added": discovery.Added, "modified": discovery.Modified}[cs.State]
		o.State = &st
	}
	base, perr := c08Reports(cs.Config, cs.File, o, r)
	if perr != "" {
		r.Count("baseline-error")
		return
	}
	cfgText := cs.Config
	var want []string
	online := map[string]bool{}
	for _, n := range checks.OnlineChecks {
		online[n] = true
	}
	switch cs.Switch {
	case "disabled-flag", "disabled-flag-pattern":
		o.Disabled = []string{cs.Name}
	case "disabled-config":
		cfgText += fmt.Sprintf("\nchecks {\n  disabled = [%q]\n}\n", cs.Name)
	case "rule-disable":
		cfgText += fmt.Sprintf("\nrule {\n  disable = [%q]\n}\n", cs.Name)
	case "enabled-flag", "enabled-flag-pattern":
		o.Enabled = []string{cs.Name}
	case "enabled-config":
		cfgText += fmt.Sprintf("\nchecks {\n  enabled = [%q]\n}\n", cs.Name)
	case "offline":
		o.Offline = true
	}
	for _, k := range base {
		rep := reporterOf(k)
		switch cs.Switch {
		case "disabled-flag", "disabled-config":
			// documented precedence: rule { enable } overrides checks { disabled } (and --disabled, which fills it)
			if rep != cs.Name || slices.Contains(cs.RuleEnable, rep) {
				want = append(want, k)
			}
		case "disabled-flag-pattern":
			// --disabled VALUE: the checks whose whole name matches VALUE as a regexp (or equals it); a value that is not a
			// regexp names nothing but itself
			hit := rep == cs.Name
			if re, err := regexp.Compile("^(?:" + cs.Name + ")$"); err == nil && re.MatchString(rep) {
				hit = true
			}
			if !hit || slices.Contains(cs.RuleEnable, rep) {
				want = append(want, k)
			}
		case "rule-disable":
			// rule { disable } takes precedence over rule { enable }
			if rep != cs.Name {
				want = append(want, k)
			}
		case "enabled-flag-pattern":
			// --enabled VALUE: the checks whose whole name matches VALUE as a regexp (or equals it), like --disabled
			hit := rep == cs.Name
			if re, err := regexp.Compile("^(?:" + cs.Name + ")$"); err == nil && re.MatchString(rep) {
				hit = true
			}
			if hit || rep == "yaml/parse" || rep == "ignore/file" || strings.HasPrefix(rep, "pint/") {
				want = append(want, k)
			}
		case "enabled-flag", "enabled-config":
			if rep == cs.Name || rep == "yaml/parse" || rep == "ignore/file" || strings.HasPrefix(rep, "pint/") {
				want = append(want, k)
			}
		case "offline":
			// --offline appends the online checks to checks.disabled: the same documented override applies
			if !online[rep] || slices.Contains(cs.RuleEnable, rep) {
				want = append(want, k)
			}
		}
	}
	got, perr := c08Reports(cfgText, cs.File, o, r)
	if cs.Switch == "enabled-flag-pattern" {
		// a value that names no check at all must be refused, not obeyed (it would switch every check off)
		names := false
		re, rerr := regexp.Compile("^(?:" + cs.Name + ")$")
		for _, n := range checks.CheckNames {
			names = names || n == cs.Name || (rerr == nil && re.MatchString(n))
		}
		r.Case("enabled-pattern"+cs.Name, true)
		if !names {
			if perr == "" {
				r.Violate(hx.Violation{Class: "enabled-flag-value-names-no-check", Input: cs, Observed: map[string]any{"reports": len(got)}, Expected: "an error: no check is called " + cs.Name})
			}
			return
		}
	}
	if perr != "" {
		r.Violate(hx.Violation{Class: "run-failed:" + cs.Switch, Input: cs, Observed: tail(perr, 1200)})
		return
	}
	nBase := 0
	for _, k := range base {
		if reporterOf(k) == cs.Name {
			nBase++
		}
	}
	r.Case(cs.Switch+cs.Name+cs.File+cs.Config, nBase > 0 || cs.Switch == "offline")
	r.Count("switch:" + cs.Switch)
	if strings.Join(got, "\n") != strings.Join(want, "\n") {
		diff := map[string]any{"missing": minus(want, got), "unexpected": minus(got, want)}
		r.Violate(hx.Violation{Class: "switch-by-name:" + cs.Switch + map[bool]string{true: "", false: ":" + cs.Name}[cs.Switch == "offline"], Input: cs, Observed: diff,
			Expected: "exactly the baseline problems whose reporter the switch selects (see DESIGN C08)"})
	}
}

// c08Instances: every configured block gives its own check instance, also when two blocks of one rule carry the same
// settings (instances are told apart by their String()): one problem per violated block.
func c08Instances(r *hx.Run) {
	for _, pc := range []struct {
		name, cfg, file string
		want            map[string]int
	}{
		{"for+keep_firing_for same limits", "rule {\n  for {\n    min = \"15m\"\n  }\n  keep_firing_for {\n    min = \"15m\"\n  }\n}\n",
			"groups:\n- name: g\n  rules:\n  - alert: A\n    expr: up == 0\n    for: 1m\n    keep_firing_for: 1m\n", map[string]int{"rule/for": 2}},
		{"for+keep_firing_for same max", "rule {\n  for {\n    max = \"1m\"\n  }\n  keep_firing_for {\n    max = \"1m\"\n  }\n}\n",
			"groups:\n- name: g\n  rules:\n  - alert: A\n    expr: up == 0\n    for: 1h\n    keep_firing_for: 1h\n", map[string]int{"rule/for": 2}},
		{"two label blocks", "rule {\n  label \"team\" {\n    required = true\n  }\n  label \"owner\" {\n    required = true\n  }\n}\n",
			"groups:\n- name: g\n  rules:\n  - alert: A\n    expr: up == 0\n", map[string]int{"rule/label": 2}},
		{"two annotation blocks", "rule {\n  annotation \"summary\" {\n    required = true\n  }\n  annotation \"link\" {\n    required = true\n  }\n}\n",
			"groups:\n- name: g\n  rules:\n  - alert: A\n    expr: up == 0\n", map[string]int{"alerts/annotation": 2}},
	} {
		got, perr := c08Reports(pc.cfg, pc.file, pipe.Options{Strict: true}, r)
		if perr != "" {
			r.Violate(hx.Violation{Class: "run-failed:instances", Input: pc.name, Observed: tail(perr, 800)})
			continue
		}
		n := map[string]int{}
		for _, k := range got {
			n[reporterOf(k)]++
		}
		r.Case("instances:"+pc.name, true)
		for rep, w := range pc.want {
			if n[rep] != w {
				r.Violate(hx.Violation{Class: "configured-instance-missing:" + rep, Input: map[string]any{"probe": pc.name, "config": pc.cfg, "file": pc.file},
					Observed: map[string]any{"problems": n[rep]}, Expected: fmt.Sprintf("%d problems reported by %s: one per configured block", w, rep)})
			}
		}
	}
}

func minus(a, b []string) []string {
	m := map[string]int{}
	for _, x := range b {
		m[x]++
	}
	out := []string{}
	for _, x := range a {
		if m[x] > 0 {
			m[x]--
			continue
		}
		out = append(out, strings.ReplaceAll(x, "\x00", " :: "))
	}
	return out
}

var c08Rules = `groups:
- name: g
  rules:
  - alert: Down_Critical
    expr: 'sum(rate(http_requests_total{job="critical"}[2h])) without (instance) > 0'
    for: 1m
    keep_firing_for: 5m
    labels:
      severity: critical
      instance: a
    annotations:
      description: 'critical {{ $labels.job }}'
  - record: Foo:sum
    expr: 'sum(foo) by (instance)'
    labels:
      job: critical
  - record: broken
    expr: 'sum(foo) by ('
  - alert: T
    expr: 'up{job=~"a"} == 0 and on(xx) sum(bar) by (job)'
    annotations:
      summary: '{{ $labels.missing }} {{ $value | nofunc }}'
`

func runC08(r *hx.Run, replay string) {
	if replay != "" {
		b, err := os.ReadFile(replay)
		if err != nil {
			panic(err)
		}
		var rp struct {
			Input c08Case `json:"input"`
		}
		if err := json.Unmarshal(b, &rp); err != nil {
			panic(err)
		}
		c08Eval(r, rp.Input)
		return
	}
	rr := r.Rng
	// exhaustive over check names x switches on the fixed all-kinds input
	for _, n := range checks.CheckNames {
		for _, sw := range []string{"disabled-flag", "disabled-config", "rule-disable", "enabled-flag", "enabled-config"} {
			c08Eval(r, c08Case{Config: c08AllKinds, File: c08Rules, Switch: sw, Name: n})
		}
		// under `pint ci`, on unmodified and on added rules, with the configured checks running on every state
		cfgCI := strings.Replace(c08AllKinds, "rule {", "rule {\n  match {\n    state = [\"any\"]\n  }", 1)
		for _, st := range []string{"noop", "added"} {
			for _, sw := range []string{"disabled-config", "rule-disable", "enabled-config"} {
				c08Eval(r, c08Case{Config: cfgCI, File: c08Rules, Switch: sw, Name: n, Command: "ci", State: st})
			}
		}
	}
	// --disabled takes regexps: alternations, classes, values that are no regexp at all
	for _, pat := range []string{"alerts/count|for", "rule/(for|label)", "promql/.*", ".*/for", "alerts/template|", "a(", "[", "rule/for|", "(alerts|rule)/for", "promql/series(prom)"} {
		c08Eval(r, c08Case{Config: c08AllKinds, File: c08Rules, Switch: "disabled-flag-pattern", Name: pat})
	}
	for _, pat := range []string{"alerts/count|for", "rule/(for|label)", "promql/.*", ".*/for", "rule/fro", "a(", "promql/series(prom)", "(alerts|rule)/for", "rule/.*"} {
		c08Eval(r, c08Case{Config: c08AllKinds, File: c08Rules, Switch: "enabled-flag-pattern", Name: pat})
	}
	c08Instances(r)
	c08EnabledFlagBinary(r)
	c08Eval(r, c08Case{Config: c08AllKinds, File: c08Rules, Switch: "offline"})
	r.Sample(map[string]any{"config": "all-kinds", "names": len(checks.CheckNames)})
	// random inputs: all-kinds config, random files; also the GetChecksForEntry correspondence under random switches
	for i := 0; i < r.N; i++ {
		file := enFile(r)
		name := hx.Pick(rr, checks.CheckNames)
		sw := hx.Pick(rr, []string{"disabled-flag", "disabled-config", "rule-disable", "enabled-flag", "enabled-config", "offline"})
		cfgAll := c08AllKinds
		var ruleEnable []string
		if rr.Intn(2) == 0 {
			// rule-level enable lists must not leak other reporters into an --enabled N run
			ruleEnable = []string{hx.Pick(rr, checks.CheckNames), hx.Pick(rr, []string{"alerts/comparison", "promql/fragile", "alerts/template", "promql/regexp", "rule/label"})}
			cfgAll += fmt.Sprintf("\nrule {\n  enable = [%q, %q]\n}\n", ruleEnable[0], ruleEnable[1])
		}
		c08Eval(r, c08Case{Config: cfgAll, File: file, Switch: sw, Name: name, RuleEnable: ruleEnable})
		if rr.Intn(2) == 0 {
			// the same switches under `pint ci`: the configured checks run on every state (match { state = ["any"] }), the
			// entries carry one change state; the switch blocks themselves carry no state
			cfgCI := strings.Replace(cfgAll, "rule {", "rule {\n  match {\n    state = [\"any\"]\n  }", 1)
			c08Eval(r, c08Case{Config: cfgCI, File: file, Switch: sw, Name: name, RuleEnable: ruleEnable, Command: "ci", State: hx.Pick(rr, []string{"noop", "noop", "added", "modified"})})
		}

		cfgText := enConfig(r, rr.Intn(2) == 0)
		env, err := enLoad(r, cfgText)
		if err != nil {
			r.Count("config-rejected")
			continue
		}
		o := pipe.Options{Strict: true}
		switch rr.Intn(4) {
		case 0:
			o.Disabled = []string{hx.Pick(rr, checks.CheckNames), hx.Pick(rr, []string{"promql/.*", "alerts/(for|template)", "rule/label"})}
		case 1:
			o.Enabled = []string{hx.Pick(rr, checks.CheckNames), hx.Pick(rr, checks.CheckNames)}
		case 2:
			o.Offline = true
		}
		pipe.ApplyFlags(&env.cfg, o)
		entries, pn := pipe.Entries("rules/a.yml", []byte(file), o)
		if pn == "" {
			for _, e := range entries {
				e.State = hx.Pick(rr, []discovery.ChangeType{discovery.Noop, discovery.Added, discovery.Modified, discovery.Moved, discovery.Removed})
				op, ans := enChecksOp(env, hx.Pick(rr, []config.ContextCommandVal{config.LintCommand, config.CICommand}), e)
				r.Op(op, ans)
			}
		}
		env.Close()
	}
}

// c08EnabledFlagBinary: the --enabled flag of the built binary (cmd/pint/main.go is outside the in-process pipeline):
// a pattern enables what it matches, a value that names no check is refused
func c08EnabledFlagBinary(r *hx.Run) {
	if os.Getenv("PINT_BIN") == "" {
		return
	}
	dir, err := os.MkdirTemp("", "c08e-")
	if err != nil {
		panic(err)
	}
	defer os.RemoveAll(dir)
	_ = os.WriteFile(filepath.Join(dir, ".pint.hcl"), []byte("rule {\n  for {\n    severity = \"bug\"\n    min = \"5m\"\n  }\n  name \"nomatchzz\" {\n    severity = \"bug\"\n  }\n}\n"), 0o644)
	_ = os.WriteFile(filepath.Join(dir, "r.yml"), []byte("groups:\n- name: g\n  rules:\n  - alert: A\n    expr: up == 0\n    for: 1m\n"), 0o644)
	run := func(args ...string) (int, string) {
		res := hx.RunCmd(dir, 60*time.Second, nil, hx.PintBin(), append([]string{"--offline", "--no-color", "-l", "error"}, args...)...)
		return res.Exit, res.Stdout + res.Stderr
	}
	_, base := run("lint", "r.yml")
	if !strings.Contains(base, "(rule/for)") || !strings.Contains(base, "(rule/name)") {
		r.Note("c08EnabledFlagBinary: baseline does not report rule/for and rule/name: %s", tail(base, 300))
		return
	}
	for _, c := range []struct {
		value   string
		reports []string // reporters that must still be reported
		refused bool
	}{
		{"rule/for", []string{"(rule/for)"}, false},
		{"rule/.*", []string{"(rule/for)", "(rule/name)"}, false},
		{"rule/(for|name)", []string{"(rule/for)", "(rule/name)"}, false},
		{"rule/fro", nil, true},
		{"promql/series(prom)", nil, true},
	} {
		exit, out := run("--enabled", c.value, "lint", "r.yml")
		r.Case("enabled-binary"+c.value, true)
		r.Count("enabled-flag-binary")
		ok := true
		for _, rep := range c.reports {
			ok = ok && strings.Contains(out, rep)
		}
		if c.refused {
			ok = exit != 0 && strings.Contains(out, "unknown check name")
		}
		if !ok {
			r.Violate(hx.Violation{Class: "enabled-flag-binary", Input: map[string]any{"--enabled": c.value}, Observed: map[string]any{"exit": exit, "output": tail(out, 600)},
				Expected: map[string]any{"reported": c.reports, "refused": c.refused}})
			return
		}
	}
}
