package main

// C04 / C12: pint's label-flow analysis (internal/parser/utils/source.go) against Prometheus's own evaluation.
// Every leaf selector of a generated expression uses its own metric, so "this source contributes nothing" can be
// tested by deleting that metric's series from the database.

import (
	"regexp"
	"encoding/json"
	"fmt"
	"math/rand"
	"os"
	"sort"
	"strings"
	"time"

	"github.com/prometheus/prometheus/model/labels"
	promParser "github.com/prometheus/prometheus/promql/parser"

	"github.com/cloudflare/pint/internal/parser/utils"
	"github.com/cloudflare/pint/verifharness/hx"
	"github.com/cloudflare/pint/verifharness/pipe"
	"github.com/cloudflare/pint/verifharness/promeval"
)

func init() { props["C04"] = runC04; props["C12"] = runC12 }

type lfCase struct {
	Expr   string            `json:"expr"`
	Series []map[string]string `json:"series"` // label sets incl. __name__
	Full   bool              `json:"every_series_has_every_label"`
}

var lfLabels = []string{"a", "b", "c"}
var lfValues = []string{"x", "y"}

type lfGen struct {
	rr     *rand.Rand
	leaves int
	c12    bool // C12 fragment: no label-rewriting functions, no absent, no count_values
}

func (g *lfGen) labelList(allowEmpty bool) string {
	var ls []string
	for _, l := range lfLabels {
		if g.rr.Intn(3) == 0 {
			ls = append(ls, l)
		}
	}
	if !g.c12 && g.rr.Intn(12) == 0 {
		ls = append(ls, "d")
	}
	if g.rr.Intn(15) == 0 {
		ls = append(ls, "__name__")
	}
	if len(ls) == 0 && !allowEmpty {
		ls = []string{hx.Pick(g.rr, lfLabels)}
	}
	return strings.Join(ls, ", ")
}

func (g *lfGen) selector() string {
	g.leaves++
	name := fmt.Sprintf("m%d", g.leaves)
	var ms []string
	for _, l := range lfLabels {
		if g.rr.Intn(4) != 0 {
			continue
		}
		switch g.rr.Intn(10) {
		case 8:
			// the empty pattern and patterns that only the empty value fails / passes
			ms = append(ms, fmt.Sprintf(`%s!~"%s"`, l, hx.Pick(g.rr, []string{"", "", ".+"})))
		case 9:
			ms = append(ms, fmt.Sprintf(`%s=~""`, l))
		case 0:
			ms = append(ms, fmt.Sprintf(`%s="%s"`, l, hx.Pick(g.rr, lfValues)))
		case 1:
			ms = append(ms, fmt.Sprintf(`%s!="%s"`, l, hx.Pick(g.rr, lfValues)))
		case 2:
			ms = append(ms, fmt.Sprintf(`%s=~"%s"`, l, hx.Pick(g.rr, []string{".+", "x|y", "x.*"})))
		case 3:
			ms = append(ms, fmt.Sprintf(`%s!~"%s"`, l, hx.Pick(g.rr, []string{"x", "y.*"})))
		case 4:
			ms = append(ms, fmt.Sprintf(`%s=""`, l))
		case 5:
			ms = append(ms, fmt.Sprintf(`%s!=""`, l))
		case 6:
			ms = append(ms, fmt.Sprintf(`%s=~".*"`, l))
		case 7:
			ms = append(ms, fmt.Sprintf(`%s=~"%s|"`, l, hx.Pick(g.rr, lfValues)))
		}
	}
	if len(ms) == 0 {
		return name
	}
	return name + "{" + strings.Join(ms, ", ") + "}"
}

func (g *lfGen) selectorWith(matcher string) string {
	g.leaves++
	return fmt.Sprintf("m%d{%s}", g.leaves, matcher)
}

func (g *lfGen) matching(set bool) string {
	switch g.rr.Intn(6) {
	case 0, 1:
		return ""
	case 2, 3:
		return " on(" + g.labelList(true) + ")"
	default:
		return " ignoring(" + g.labelList(true) + ")"
	}
}

func (g *lfGen) vec(depth int) string {
	if depth <= 0 {
		return g.selector()
	}
	switch g.rr.Intn(13) {
	case 0, 1:
		return g.selector()
	case 2, 3: // aggregation
		op := hx.Pick(g.rr, []string{"sum", "min", "max", "avg", "count", "group", "stddev", "stdvar"})
		inner := g.vec(depth - 1)
		switch g.rr.Intn(4) {
		case 0:
			return fmt.Sprintf("%s(%s)", op, inner)
		case 1:
			return fmt.Sprintf("%s by (%s) (%s)", op, g.labelList(true), inner)
		case 2:
			return fmt.Sprintf("%s without (%s) (%s)", op, g.labelList(true), inner)
		default:
			return fmt.Sprintf("%s(%s) by (%s)", op, inner, g.labelList(false))
		}
	case 4: // parametrised aggregations
		inner := g.vec(depth - 1)
		switch g.rr.Intn(4) {
		case 0:
			return fmt.Sprintf("topk(2, %s)", inner)
		case 1:
			return fmt.Sprintf("bottomk by (%s) (1, %s)", g.labelList(false), inner)
		case 2:
			return fmt.Sprintf("quantile by (%s) (0.5, %s)", g.labelList(true), inner)
		default:
			if g.c12 {
				return fmt.Sprintf("max by (%s) (%s)", g.labelList(false), inner)
			}
			// the value label may be __name__ (the aggregation drops the metric name, then stores the value there), and a
			// string argument may stand in parentheses
			return fmt.Sprintf(`count_values by (%s) (%s, %s)`, g.labelList(true), hx.Pick(g.rr, []string{`"v"`, `"v"`, `"__name__"`, `("v")`, `(("__name__"))`}), inner)
		}
	case 5: // label-preserving functions
		switch g.rr.Intn(5) {
		case 0:
			return fmt.Sprintf("abs(%s)", g.vec(depth-1))
		case 1:
			return fmt.Sprintf("rate(%s[5m])", g.selector())
		case 2:
			return fmt.Sprintf("sum_over_time(%s[5m])", g.selector())
		case 3:
			return fmt.Sprintf("max_over_time((%s)[10m:1m])", g.vec(depth-1))
		default:
			return fmt.Sprintf("ceil(%s offset 1m)", g.selector())
		}
	case 6: // label-rewriting functions, absent, vector
		if g.c12 {
			return "(" + g.vec(depth-1) + ")"
		}
		switch g.rr.Intn(6) {
		case 0:
			dst := `"` + hx.Pick(g.rr, []string{"d", "a", "b"}) + `"`
			if g.rr.Intn(4) == 0 {
				dst = "(" + dst + ")"
			}
			return fmt.Sprintf(`label_replace(%s, %s, "$1", "%s", "(.*)")`, g.vec(depth-1), dst, hx.Pick(g.rr, lfLabels))
		case 1:
			return fmt.Sprintf(`label_join(%s, %s, "-", "a", "b")`, g.vec(depth-1), hx.Pick(g.rr, []string{`"d"`, `"c"`, `("d")`}))
		case 2:
			return fmt.Sprintf("absent(%s)", g.selector())
		case 3:
			return fmt.Sprintf("absent_over_time(%s[5m])", g.selector())
		case 4:
			return fmt.Sprintf("vector(%d)", g.rr.Intn(3))
		default:
			return fmt.Sprintf(`label_replace(%s, "d", "", "a", ".*")`, g.vec(depth-1))
		}
	case 7, 8: // arithmetic / comparison between vectors
		op := hx.Pick(g.rr, []string{"+", "-", "*", "/", ">", "<", "==", "!=", ">=", "<="})
		if strings.ContainsAny(op, "<>=!") && g.rr.Intn(4) == 0 {
			op += " bool"
		}
		l, r := g.vec(depth-1), g.vec(depth-1)
		m := g.matching(false)
		if m != "" && g.rr.Intn(3) == 0 {
			side := hx.Pick(g.rr, []string{"group_left", "group_right"})
			m += " " + side
			if g.rr.Intn(2) == 0 {
				m += "(" + g.labelList(true) + ")"
			}
		}
		return fmt.Sprintf("(%s %s%s %s)", l, op, m, r)
	case 9, 10: // set operators
		op := hx.Pick(g.rr, []string{"and", "or", "unless"})
		return fmt.Sprintf("(%s %s%s %s)", g.vec(depth-1), op, g.matching(true), g.vec(depth-1))
	case 11: // vector with scalar / number
		op := hx.Pick(g.rr, []string{"+", "*", ">", "<", "==", "!="})
		if g.rr.Intn(2) == 0 {
			return fmt.Sprintf("(%s %s %d)", g.vec(depth-1), op, g.rr.Intn(3))
		}
		return fmt.Sprintf("(%d %s %s)", g.rr.Intn(3), op, g.vec(depth-1))
	default: // static comparisons and always-returning operands, and nested aggregations around a join
		if g.rr.Intn(4) == 0 {
			// a label removed inside and listed again outside, matched on by a side that lacks it too
			l1 := hx.Pick(g.rr, lfLabels)
			l2 := hx.Pick(g.rr, lfLabels)
			op := hx.Pick(g.rr, []string{"and", "unless", "*", ">"})
			mod := hx.Pick(g.rr, []string{"", " group_left", " group_right"})
			if op == "and" || op == "unless" {
				mod = ""
			}
			return fmt.Sprintf("(sum by (%s, %s) (%s without (%s) (%s)) %s on(%s)%s max without (%s) (%s))",
				l1, l2, hx.Pick(g.rr, []string{"sum", "max"}), l1, g.selector(), op, l1, mod, l1, g.selector())
		}
		if g.rr.Intn(4) == 0 {
			// a label guaranteed by a matcher, kept by an inner by(...) (or an on(...) join), dropped by an outer by(...),
			// then a join that looks at guaranteed labels (no on): seeded change C12-by-over-fixed-keeps-guarantees
			l1 := hx.Pick(g.rr, lfLabels)
			l2 := hx.Pick(g.rr, lfLabels)
			for l2 == l1 {
				l2 = hx.Pick(g.rr, lfLabels)
			}
			agg := hx.Pick(g.rr, []string{"sum", "max", "min"})
			inner := g.selectorWith(fmt.Sprintf(`%s="%s"`, l1, hx.Pick(g.rr, lfValues)))
			var left string
			if g.rr.Intn(3) == 0 {
				left = fmt.Sprintf("%s by (%s) (%s * on(%s, %s) %s)", agg, l2, inner, l1, l2, g.selector())
			} else {
				left = fmt.Sprintf("%s by (%s) (%s by (%s, %s) (%s))", agg, l2, agg, l1, l2, inner)
			}
			right := fmt.Sprintf("%s by (%s) (%s)", agg, l2, g.selector())
			op := hx.Pick(g.rr, []string{"*", ">", "and", "unless"})
			mod := hx.Pick(g.rr, []string{"", " ignoring(" + l1 + ")", " ignoring(c) group_left()"})
			if op == "and" || op == "unless" {
				mod = hx.Pick(g.rr, []string{"", " ignoring(c)"})
			}
			return fmt.Sprintf("(%s %s%s %s)", left, op, mod, right)
		}
		if !g.c12 && g.rr.Intn(4) == 0 {
			// group_left / group_right copying in a label that the "many" side has explicitly lost
			l := hx.Pick(g.rr, lfLabels)
			m := hx.Pick(g.rr, lfLabels)
			side := hx.Pick(g.rr, []string{"group_left", "group_right"})
			lost := hx.Pick(g.rr, []string{g.selectorWith(l + `=""`), "sum without (" + l + ") (" + g.selector() + ")", "max by (" + m + ") (" + g.selector() + ")"})
			other := g.selector()
			incl := l
			if g.rr.Intn(2) == 0 {
				// several labels copied in, the lost one not first (seeded change C04-remove-from-slice-stops-early)
				for _, x := range lfLabels {
					if x != l && x != m {
						incl = x + ", " + l
						break
					}
				}
			}
			if side == "group_left" {
				return fmt.Sprintf("(%s * on(%s) group_left(%s) %s)", lost, m, incl, other)
			}
			return fmt.Sprintf("(%s * on(%s) group_right(%s) %s)", other, m, incl, lost)
		}
		if g.rr.Intn(5) == 0 {
			// functions of constants: the function's value is not its argument's (fix 5cb81d1), and absent() of something
			// that always returns never returns (fix a8bfa1d)
			switch g.rr.Intn(7) {
			case 0:
				return fmt.Sprintf("(abs(vector(-%d)) %s %d)", 1+g.rr.Intn(2), hx.Pick(g.rr, []string{">", ">=", "=="}), g.rr.Intn(2))
			case 1:
				return "(ceil(vector(0.5)) == 1)"
			case 2:
				return fmt.Sprintf("(clamp_min(vector(0), %d) > 1)", 2+g.rr.Intn(3))
			case 3:
				return fmt.Sprintf("(%s unless on() absent(vector(1)))", g.vec(depth-1))
			case 4:
				return fmt.Sprintf("(absent(vector(1)) or %s)", g.vec(depth-1))
			case 5:
				// an arithmetic operator calculateStaticReturn did not fold (fix b9540eb)
				return fmt.Sprintf("((vector(1) atan2 %d) < 1)", 1+g.rr.Intn(2))
			default:
				return fmt.Sprintf("(sgn(vector(%d)) < 2)", 3+g.rr.Intn(3))
			}
		}
		switch g.rr.Intn(5) {
		case 0:
			b := ""
			if g.rr.Intn(3) == 0 {
				b = " bool"
			}
			return fmt.Sprintf("(vector(%d) %s%s %d)", g.rr.Intn(3), hx.Pick(g.rr, []string{">", "<", "==", "!=", ">=", "<="}), b, g.rr.Intn(3))
		case 1:
			return fmt.Sprintf("(%s or vector(%d))", g.vec(depth-1), g.rr.Intn(2))
		case 2:
			return fmt.Sprintf("(vector(%d) or %s)", g.rr.Intn(2), g.vec(depth-1))
		case 3:
			return fmt.Sprintf("(%s unless on() vector(1))", g.vec(depth-1))
		default:
			return fmt.Sprintf("-(%s)", g.vec(depth-1))
		}
	}
}

func lfDB(rr *rand.Rand, leaves int, full bool) []map[string]string {
	var out []map[string]string
	for i := 1; i <= leaves; i++ {
		for k, n := 0, rr.Intn(4); k < n; k++ {
			ls := map[string]string{"__name__": fmt.Sprintf("m%d", i)}
			for _, l := range lfLabels {
				if full || rr.Intn(3) != 0 {
					ls[l] = hx.Pick(rr, lfValues)
				}
			}
			if !full && rr.Intn(8) == 0 {
				ls["d"] = "z"
			}
			out = append(out, ls)
		}
	}
	return out
}

var lfT0 = time.Unix(1700000000, 0).UTC()

func lfBuild(series []map[string]string, without string) *promeval.DB {
	db := &promeval.DB{}
	seen := map[string]bool{}
	for si, ls := range series {
		if ls["__name__"] == without {
			continue
		}
		l := labels.FromMap(ls)
		if seen[l.String()] {
			continue
		}
		seen[l.String()] = true
		s := promeval.Series{Labels: l}
		for k := 0; k <= 20; k++ {
			s.Samples = append(s.Samples, promeval.Sample{T: lfT0.Add(time.Duration(k-20) * time.Minute).UnixMilli(), V: float64((si*7+k*3)%5 + k)})
		}
		db.Series = append(db.Series, s)
	}
	return db
}

func lfResultKey(ls []labels.Labels, vals []float64) string {
	var out []string
	for i, l := range ls {
		out = append(out, fmt.Sprintf("%s=%v", l.String(), vals[i]))
	}
	sort.Strings(out)
	return strings.Join(out, ";")
}

// which rule of the analyser declared a source dead
func lfDeadKind(s utils.Source) string {
	switch {
	case strings.Contains(s.IsDeadReason, "left hand side always returs something"):
		return "or-rhs-after-always-returning-lhs"
	case strings.Contains(s.IsDeadReason, "`unless` query always returns something"):
		return "unless-on-empty-always-returning"
	case strings.Contains(s.IsDeadReason, "always evaluates to"), s.IsDead && s.IsDeadReason == "":
		// an empty reason is a verdict carried through arithmetic on constants (calculateStaticReturn passes isDead on)
		return "static-comparison"
	case strings.Contains(s.IsDeadReason, "label from `on(...)`"):
		if strings.Contains(s.IsDeadReason, "`__name__` label from") {
			// functions and arithmetic drop the metric name in Prometheus; the analyser only knows that aggregations do
			return "never-matched-on-metric-name"
		}
		return "never-matched-on"
	case strings.Contains(s.IsDeadReason, "while the left hand side will"):
		return "never-matched-guaranteed-label"
	}
	return "other"
}

// the analyser judges a join operand against one branch of the other side at a time; with several branches (`or`)
// the verdict "never matched" is only about that branch
func lfBranches(expr string) string {
	if strings.Contains(expr, " or ") {
		return ":query-with-or-branches"
	}
	return ""
}

// AlwaysReturns survives vector-vector operations: `x unless on() (vector(1) and y)` is judged as if the right side
// always returned something
func lfUnless(kind, expr string) string {
	if kind != "unless-on-empty-always-returning" {
		return ""
	}
	i := strings.Index(expr, "unless on() ")
	if i < 0 {
		return ""
	}
	rest := expr[i+len("unless on() "):]
	for _, op := range []string{" and ", " unless ", " + ", " - ", " * ", " / ", " > ", " < ", " == ", " != ", " >= ", " <= "} {
		if strings.Contains(rest, op) {
			return ":unless-rhs-through-binary-operation"
		}
	}
	return ""
}

// calculateStaticReturn folds comparisons as filters even under the bool modifier
func lfBool(kind, expr string) string {
	if kind != "static-comparison" {
		return ""
	}
	out := ""
	if strings.Contains(expr, " bool ") {
		out += ":bool-modifier-in-query"
	}
	// aggregations whose value is not the value of their input (count, group, stddev, ...) keep KnownReturn
	for _, a := range []string{"count", "group", "stddev", "stdvar", "count_values"} {
		if strings.Contains(expr, a+"(") || strings.Contains(expr, a+" by") || strings.Contains(expr, a+" without") {
			out += ":value-changing-aggregation-in-query"
			break
		}
	}
	// AlwaysReturns / KnownReturn survive vector-vector operations (same root as the unless finding)
	if strings.Contains(expr, " on(") || strings.Contains(expr, " ignoring(") {
		out += ":constant-through-vector-matching"
	}
	return out
}

func lfShowSrc(s utils.Source) map[string]any {
	return map[string]any{"type": s.Type, "op": s.Operation, "included": s.IncludedLabels, "excluded": s.ExcludedLabels,
		"guaranteed": s.GuaranteedLabels, "fixed": s.FixedLabels, "dead": s.IsDead, "reason": s.IsDeadReason, "always": s.AlwaysReturns}
}

// ---- C04 ----

func c04Eval(r *hx.Run, cs lfCase) {
	node, err := promParser.ParseExpr(cs.Expr)
	if err != nil {
		r.Count("parse-error")
		return
	}
	srcs, crashed := lfLabelsSource(r, cs, node)
	if crashed {
		return
	}
	db := lfBuild(cs.Series, "")
	res, vals, err := promeval.Instant(db, cs.Expr, lfT0)
	if err != nil {
		r.Count("eval-error:" + strings.SplitN(err.Error(), ":", 2)[0])
		return
	}
	_ = vals
	// model correspondence: the Lean port of the label bookkeeping against the real sources, and the Lean may-semantics
	// against the label sets the engine returned
	used := map[string]bool{}
	if ej, ok := lfConvert(node, used); ok {
		b, _ := json.Marshal(ej)
		var impl []string
		for _, s := range srcs {
			impl = append(impl, fmt.Sprintf("i=%s e=%s g=%s f=%v", lfSortedList(s.IncludedLabels), lfSortedList(s.ExcludedLabels), lfSortedList(s.GuaranteedLabels), s.FixedLabels))
		}
		r.Op("lfanalyse\t"+string(b), strings.Join(impl, ";"))
		if len(res) > 0 {
			for _, sr := range cs.Series {
				for l := range sr {
					if l != "__name__" {
						used[l] = true
					}
				}
			}
			var sets []string
			for _, ls := range res {
				var names []string
				ls.Range(func(l labels.Label) { names = append(names, l.Name) })
				sets = append(sets, strings.Join(names, ","))
			}
			r.Op(fmt.Sprintf("lfpossible\t%s\t%s\t%s", strings.Join(hx.SortedKeys(used), ","), string(b), strings.Join(sets, ";")), "ok")
		}
	} else {
		r.Count("outside-model-fragment")
	}
	live := 0
	for _, s := range srcs {
		if !s.IsDead {
			live++
		}
	}
	r.Case(cs.Expr+fmt.Sprint(cs.Series), len(res) > 0)
	r.Count(fmt.Sprintf("sources:%d", min(len(srcs), 4)))
	r.Count(fmt.Sprintf("results:%d", min(len(res), 4)))
	for _, ls := range res {
		ok := false
		var why []string
		for _, s := range srcs {
			if s.IsDead {
				continue
			}
			consistent := true
			ls.Range(func(l labels.Label) {
				if !s.CanHaveLabel(l.Name) {
					consistent = false
					why = append(why, l.Name)
				}
			})
			if consistent {
				ok = true
				break
			}
		}
		if !ok {
			class := "series-inconsistent-with-every-live-branch"
			if len(srcs) == 1 {
				class = "single-branch-label-declared-impossible"
			}
			// does a branch the analyser declared dead explain the series?
			best := -1
			for i, s := range srcs {
				if !s.IsDead {
					continue
				}
				consistent := true
				ls.Range(func(l labels.Label) {
					if !s.CanHaveLabel(l.Name) {
						consistent = false
					}
				})
				if !consistent {
					continue
				}
				if best < 0 {
					best = i
				}
				if s.Selector != nil {
					for _, m := range s.Selector.LabelMatchers {
						if m.Name == "__name__" && m.Value == ls.Get("__name__") {
							best = i
						}
					}
				}
			}
			if best >= 0 {
				class = "series-from-branch-declared-dead:" + lfDeadKind(srcs[best]) + lfBool(lfDeadKind(srcs[best]), cs.Expr) + lfUnless(lfDeadKind(srcs[best]), cs.Expr)
			}
			var shown []any
			for _, s := range srcs {
				shown = append(shown, lfShowSrc(s))
			}
			r.Violate(hx.Violation{Class: class, Known: true, Input: cs, Observed: map[string]any{"series": ls.String(), "labels_declared_impossible": why, "sources": shown},
				Expected: "every returned series carries only labels that some live branch can have"})
			return
		}
	}
	r.Sample(map[string]any{"expr": cs.Expr, "results": len(res)})
}

func lfReplay(replay string) lfCase {
	b, err := os.ReadFile(replay)
	if err != nil {
		panic(err)
	}
	var rp struct {
		Input lfCase `json:"input"`
	}
	if err := json.Unmarshal(b, &rp); err != nil {
		panic(err)
	}
	return rp.Input
}

// ---- C04, the template side: a report names a label the template really reads ----

var c04TmplLabelRe = regexp.MustCompile("Template is using `([^`]+)` label")

type c04TmplCase struct {
	Expr     string   `json:"expr"`
	Template string   `json:"template"`
	Reads    []string `json:"labels_the_template_reads"`
	File     string   `json:"file"`
}

func c04Template(r *hx.Run) {
	rr := r.Rng
	g := &lfGen{rr: rr}
	expr := g.vec(1 + rr.Intn(2))
	l := hx.Pick(rr, append(append([]string{}, lfLabels...), "d"))
	var tmpl string
	switch rr.Intn(6) {
	case 0:
		tmpl = "{{ $labels." + l + " }}"
	case 1:
		tmpl = "{{ .Labels." + l + " }}"
	case 2:
		tmpl = "{{ $x := $labels }}{{ $x." + l + " }}"
	case 3:
		// a value built from a label by a function is not the label set (fix d7e87d0)
		tmpl = "{{ $a := args $labels." + l + " $value }}{{ $a.arg0 }} is {{ $a.arg1 }}"
	case 4:
		tmpl = `{{ $v := printf "%s" $labels.` + l + ` }}{{ $v }}`
	default:
		tmpl = "{{ $x := $labels }}{{ $y := $x }}{{ $y." + l + " }}"
	}
	file := "groups:\n- name: g\n  rules:\n  - alert: A\n    expr: |\n      " + expr + "\n    annotations:\n      summary: '" + tmpl + "'\n"
	cs := c04TmplCase{Expr: expr, Template: tmpl, Reads: []string{l}, File: file}
	cfg, err := pipe.LoadConfig(r.OutDir, "")
	if err != nil {
		panic(err)
	}
	o := pipe.Options{Strict: true, Offline: true}
	pipe.ApplyFlags(&cfg, o)
	res := pipe.Lint(cfg, "r.yml", []byte(file), o)
	if res.Panic != "" {
		r.Violate(hx.Violation{Class: "template-check-panics", Input: cs, Observed: tail(res.Panic, 1500)})
		return
	}
	named := 0
	for _, rep := range res.Reports {
		if rep.Problem.Reporter != "alerts/template" || rep.Problem.Summary != "template uses non-existent label" {
			continue
		}
		for _, d := range rep.Problem.Diagnostics {
			m := c04TmplLabelRe.FindStringSubmatch(d.Message)
			if m == nil {
				continue
			}
			named++
			if m[1] != l {
				r.Violate(hx.Violation{Class: "template-report-names-a-label-the-template-does-not-read", Input: cs,
					Observed: map[string]any{"label": m[1], "message": d.Message}, Expected: "only " + l + " can be reported: it is the only label the template reads"})
				return
			}
		}
	}
	r.Count(fmt.Sprintf("template-reports:%d", min(named, 2)))
	r.Case("tmpl\x00"+file, named > 0)
}

func runC04(r *hx.Run, replay string) {
	if replay != "" {
		c04Eval(r, lfReplay(replay))
		return
	}
	for i := 0; i < r.N; i++ {
		g := &lfGen{rr: r.Rng}
		expr := g.vec(1 + r.Rng.Intn(3))
		for k := 0; k < 3; k++ {
			c04Eval(r, lfCase{Expr: expr, Series: lfDB(r.Rng, g.leaves, k == 0)})
		}
		if i%3 == 0 {
			c04Template(r)
		}
	}
}

// lfInFrag12 mirrors the model's frag12 on the JSON form (the driver double-checks: it answers "outside" otherwise)
func lfInFrag12(e map[string]any) bool {
	sub := func(k string) bool {
		m, ok := e[k].(map[string]any)
		return ok && lfInFrag12(m)
	}
	switch e["k"] {
	case "sel":
		return true
	case "aggBy", "aggWithout", "topk", "func", "withScalar":
		return sub("e")
	case "binOn", "binIgn", "setAnd":
		return sub("l")
	}
	return false
}

// ---- C12 ----

func c12Eval(r *hx.Run, cs lfCase) {
	node, err := promParser.ParseExpr(cs.Expr)
	if err != nil {
		r.Count("parse-error")
		return
	}
	srcs, crashed := lfLabelsSource(r, cs, node)
	if crashed {
		return
	}
	var dead []utils.Source
	for _, s := range srcs {
		s.WalkSources(func(x utils.Source) {
			if x.IsDead {
				dead = append(dead, x)
			}
		})
	}
	r.Case(cs.Expr+fmt.Sprint(cs.Series), len(dead) > 0)
	r.Count(fmt.Sprintf("dead-sources:%d", min(len(dead), 3)))
	if ej, ok := lfConvert(node, map[string]bool{}); ok {
		b, _ := json.Marshal(ej)
		var impl []string
		for _, s := range srcs {
			impl = append(impl, fmt.Sprintf("i=%s e=%s g=%s f=%v", lfSortedList(s.IncludedLabels), lfSortedList(s.ExcludedLabels), lfSortedList(s.GuaranteedLabels), s.FixedLabels))
		}
		r.Op("lfanalyse\t"+string(b), strings.Join(impl, ";"))
		// the Joins / Unless bookkeeping: per top-level source, how many sources reachable through WalkSources carry a
		// verdict of canJoin (model: neverMatched)
		var counts []string
		total := 0
		for _, s := range srcs {
			c := 0
			s.WalkSources(func(x utils.Source) {
				if x.IsDead && strings.HasPrefix(lfDeadKind(x), "never-matched") {
					c++
				}
			})
			total += c
			counts = append(counts, fmt.Sprint(c))
		}
		r.Count(fmt.Sprintf("never-matched-flags:%d", min(total, 3)))
		r.Op("lfnever\t"+string(b), strings.Join(counts, ","))
	}
	base, bv, err := promeval.Instant(lfBuild(cs.Series, ""), cs.Expr, lfT0)
	if err != nil {
		r.Count("eval-error:" + strings.SplitN(err.Error(), ":", 2)[0])
		return
	}
	// `joined` (the model's "does any left series find a partner", judged on label names) over-approximates the engine:
	// when a one-to-one or `and` operation at the top of the query returns something, the model must not say "empty"
	if be, ok := lfTopJoin(node); ok && len(base) > 0 {
		lj, ok1 := lfConvert(be.LHS, map[string]bool{})
		rj, ok2 := lfConvert(be.RHS, map[string]bool{})
		if ok1 && ok2 && lfInFrag12(lj) {
			lb, _ := json.Marshal(lj)
			rb, _ := json.Marshal(rj)
			r.Op(fmt.Sprintf("lfjoined\t%s\t%v\t%s\t%s\t%s", strings.Join(lfLabels, ","), be.VectorMatching.On, strings.Join(be.VectorMatching.MatchingLabels, ","), string(lb), string(rb)), "nonempty")
		}
	}
	// the full-label semantics of the Lean model against the engine (only judged inside the fragment: the driver
	// answers "outside" otherwise, and so does the harness when it cannot tell)
	if ej, ok := lfConvert(node, map[string]bool{}); ok && len(base) > 0 && lfInFrag12(ej) {
		b, _ := json.Marshal(ej)
		var sets []string
		for _, ls := range base {
			var names []string
			ls.Range(func(l labels.Label) { names = append(names, l.Name) })
			sets = append(sets, strings.Join(names, ","))
		}
		r.Op(fmt.Sprintf("lffull\t%s\t%s\t%s", strings.Join(lfLabels, ","), string(b), strings.Join(sets, ";")), "ok")
	}
	if len(dead) == 0 {
		return
	}
	for _, d := range dead {
		kind := strings.SplitN(d.IsDeadReason, " ", 4)
		r.Count("reason:" + strings.Join(kind[:min(3, len(kind))], " "))
		if d.Selector != nil {
			// the flagged source contributes nothing: deleting its metric's series changes nothing
			name := ""
			for _, m := range d.Selector.LabelMatchers {
				if m.Name == "__name__" {
					name = m.Value
				}
			}
			alt, av, err := promeval.Instant(lfBuild(cs.Series, name), cs.Expr, lfT0)
			if err != nil {
				r.Count("eval-error-without-leaf")
				continue
			}
			if lfResultKey(base, bv) != lfResultKey(alt, av) {
				r.Violate(hx.Violation{Class: "dead-source-contributes:" + lfDeadKind(d) + lfBool(lfDeadKind(d), cs.Expr) + lfUnless(lfDeadKind(d), cs.Expr) + lfBranches(cs.Expr), Known: true, Input: cs, Observed: map[string]any{"source": lfShowSrc(d), "metric": name,
					"result": lfResultKey(base, bv), "result_without_its_series": lfResultKey(alt, av)},
					Expected: "the flagged part contributes nothing: the result does not depend on its series"})
				return
			}
			continue
		}
		// a flagged source without a selector (vector(n), a number, time(), ...): replacing it by a selector that matches
		// nothing must not change the result
		k := lfDeadKind(d)
		if k == "static-comparison" && lfBranches(cs.Expr) != "" {
			// the branch returns nothing, but its operand can still suppress another `or` branch: replacement says nothing here
			r.Count("static-verdict-in-query-with-or-not-judged")
			continue
		}
		if int(d.Position.End) > len(cs.Expr) || d.Position.Start >= d.Position.End {
			r.Count("dead-operand-without-position")
			continue
		}
		repl := cs.Expr[:d.Position.Start] + "mnone" + cs.Expr[d.Position.End:]
		alt, av, err := promeval.Instant(lfBuild(cs.Series, ""), repl, lfT0)
		if err != nil {
			r.Count("eval-error-replaced-operand")
			continue
		}
		if lfResultKey(base, bv) != lfResultKey(alt, av) {
			r.Violate(hx.Violation{Class: "dead-operand-contributes:" + k + lfBool(k, cs.Expr) + lfUnless(k, cs.Expr) + lfBranches(cs.Expr), Known: true, Input: cs, Observed: map[string]any{"source": lfShowSrc(d), "operand": cs.Expr[d.Position.Start:d.Position.End],
				"result": lfResultKey(base, bv), "result_with_empty_operand": lfResultKey(alt, av)},
				Expected: "the flagged part contributes nothing: replacing it by an empty vector changes nothing"})
			return
		}
	}
	r.Sample(map[string]any{"expr": cs.Expr, "dead": len(dead)})
}

// lfTopJoin: the query is (in any number of parentheses) a vector-vector operation that returns left series which find
// a partner: arithmetic / comparison one-to-one, or `and`
func lfTopJoin(n promParser.Node) (*promParser.BinaryExpr, bool) {
	for {
		p, ok := n.(*promParser.ParenExpr)
		if !ok {
			break
		}
		n = p.Expr
	}
	be, ok := n.(*promParser.BinaryExpr)
	if !ok || be.VectorMatching == nil || be.LHS.Type() != promParser.ValueTypeVector || be.RHS.Type() != promParser.ValueTypeVector {
		return nil, false
	}
	switch {
	case be.VectorMatching.Card == promParser.CardOneToOne:
		return be, true
	case be.VectorMatching.Card == promParser.CardManyToMany && be.Op == promParser.LAND:
		return be, true
	}
	return nil, false
}

// canJoin on random sources and matchings: the real function (hook VerifCanJoin) against the Lean port
func c12CanJoin(r *hx.Run) {
	rr := r.Rng
	names := []string{"a", "b", "c", "__name__"}
	pick := func() []string {
		var out []string
		for _, n := range names {
			if rr.Intn(3) == 0 {
				out = append(out, n)
			}
		}
		return out
	}
	mk := func() (utils.Source, map[string]any) {
		s := utils.Source{IncludedLabels: pick(), ExcludedLabels: pick(), GuaranteedLabels: pick(), FixedLabels: rr.Intn(2) == 0}
		return s, map[string]any{"i": s.IncludedLabels, "e": s.ExcludedLabels, "g": s.GuaranteedLabels, "f": s.FixedLabels}
	}
	ls, lj := mk()
	rs, rj := mk()
	vm := &promParser.VectorMatching{On: rr.Intn(2) == 0, MatchingLabels: pick(), Card: hx.Pick(rr, []promParser.VectorMatchCardinality{promParser.CardOneToOne, promParser.CardManyToOne, promParser.CardOneToMany, promParser.CardManyToMany})}
	b, _ := json.Marshal(map[string]any{"on": vm.On, "m": vm.MatchingLabels, "l": lj, "r": rj})
	r.Op("canjoin\t"+string(b), fmt.Sprint(utils.VerifCanJoin(ls, rs, vm)))
}

// ---- C12, static comparison folding: Model/StaticFlow against the real analysis and the real engine ----

type seNode struct {
	text  string
	json  map[string]any
	isVec bool
	closed bool
}

func c12SE(rr *rand.Rand, depth int, wantVec bool) seNode {
	num := func() seNode {
		k := rr.Intn(4)
		return seNode{text: fmt.Sprint(k), json: map[string]any{"k": "num", "v": k}, closed: true}
	}
	if !wantVec {
		if depth <= 0 || rr.Intn(3) == 0 {
			return num()
		}
		switch rr.Intn(4) {
		case 0:
			e := c12SE(rr, depth-1, false)
			return seNode{text: "-(" + e.text + ")", json: map[string]any{"k": "neg", "e": e.json}, closed: e.closed}
		case 1:
			// a comparison between scalars needs bool
			l, r2 := c12SE(rr, depth-1, false), c12SE(rr, depth-1, false)
			op := hx.Pick(rr, []string{"==", "!=", "<=", "<", ">=", ">"})
			return seNode{text: "(" + l.text + " " + op + " bool " + r2.text + ")", json: map[string]any{"k": "bin", "op": op, "bool": true, "l": l.json, "r": r2.json}, closed: l.closed && r2.closed}
		default:
			l, r2 := c12SE(rr, depth-1, false), c12SE(rr, depth-1, false)
			op := hx.Pick(rr, []string{"+", "-", "*"})
			return seNode{text: "(" + l.text + " " + op + " " + r2.text + ")", json: map[string]any{"k": "bin", "op": op, "bool": false, "l": l.json, "r": r2.json}, closed: l.closed && r2.closed}
		}
	}
	if depth <= 0 || rr.Intn(4) == 0 {
		if rr.Intn(5) == 0 {
			return seNode{text: "m1", json: map[string]any{"k": "sel"}, isVec: true}
		}
		e := c12SE(rr, depth-1, false)
		return seNode{text: "vector(" + e.text + ")", json: map[string]any{"k": "vector", "e": e.json}, isVec: true, closed: e.closed}
	}
	switch rr.Intn(8) {
	case 7:
		l, r2 := c12SE(rr, depth-1, true), c12SE(rr, depth-1, true)
		return seNode{text: "(" + l.text + " unless on() " + r2.text + ")", json: map[string]any{"k": "unlessOn", "l": l.json, "r": r2.json}, isVec: true, closed: l.closed && r2.closed}
	case 0:
		e := c12SE(rr, depth-1, true)
		return seNode{text: "-(" + e.text + ")", json: map[string]any{"k": "neg", "e": e.json}, isVec: true, closed: e.closed}
	case 6:
		// an aggregation without grouping: one that returns the value of a single sample, one that counts
		e := c12SE(rr, depth-1, true)
		if rr.Intn(3) == 0 {
			return seNode{text: "count(" + e.text + ")", json: map[string]any{"k": "agg", "keeps": false, "e": e.json}, isVec: true, closed: e.closed}
		}
		return seNode{text: hx.Pick(rr, []string{"sum", "min", "max", "avg"}) + "(" + e.text + ")", json: map[string]any{"k": "agg", "keeps": true, "e": e.json}, isVec: true, closed: e.closed}
	case 1:
		// a function of a vector: one that keeps the values it is given, one that does not (fix 5cb81d1)
		e := c12SE(rr, depth-1, true)
		if rr.Intn(3) == 0 {
			return seNode{text: "sort(" + e.text + ")", json: map[string]any{"k": "fn", "keeps": true, "e": e.json}, isVec: true, closed: e.closed}
		}
		return seNode{text: "abs(" + e.text + ")", json: map[string]any{"k": "fn", "keeps": false, "e": e.json}, isVec: true, closed: e.closed}
	default:
		lv, rv := true, true
		switch rr.Intn(3) {
		case 0:
			lv = false
		case 1:
			rv = false
		}
		l, r2 := c12SE(rr, depth-1, lv), c12SE(rr, depth-1, rv)
		op := hx.Pick(rr, []string{"+", "-", "*", "==", "!=", "<=", "<", ">=", ">"})
		b := strings.ContainsAny(op, "<>=!") && rr.Intn(5) == 0
		bs := ""
		if b {
			bs = " bool"
		}
		return seNode{text: "(" + l.text + " " + op + bs + " " + r2.text + ")", json: map[string]any{"k": "bin", "op": op, "bool": b, "l": l.json, "r": r2.json}, isVec: true, closed: l.closed && r2.closed}
	}
}

// mirrors of Model/StaticFlow isVec / noVV / unlessSimple on the JSON form
func seIsVec(j map[string]any) bool {
	switch j["k"] {
	case "num":
		return false
	case "neg":
		return seIsVec(j["e"].(map[string]any))
	case "bin":
		return seIsVec(j["l"].(map[string]any)) || seIsVec(j["r"].(map[string]any))
	}
	return true
}

func seNoVV(j map[string]any) bool {
	switch j["k"] {
	case "bin":
		l, r := j["l"].(map[string]any), j["r"].(map[string]any)
		return !(seIsVec(l) && seIsVec(r)) && seNoVV(l) && seNoVV(r)
	case "unlessOn":
		return false
	case "vector", "neg", "fn", "agg":
		return seNoVV(j["e"].(map[string]any))
	}
	return true
}

func seUnlessSimple(j map[string]any) bool {
	switch j["k"] {
	case "unlessOn":
		l, r := j["l"].(map[string]any), j["r"].(map[string]any)
		return seNoVV(r) && seUnlessSimple(l) && seUnlessSimple(r)
	case "bin":
		return seUnlessSimple(j["l"].(map[string]any)) && seUnlessSimple(j["r"].(map[string]any))
	case "vector", "neg", "fn", "agg":
		return seUnlessSimple(j["e"].(map[string]any))
	}
	return true
}

func c12Static(r *hx.Run) {
	e := c12SE(r.Rng, 1+r.Rng.Intn(3), true)
	node, err := promParser.ParseExpr(e.text)
	if err != nil {
		r.Count("static:parse-error")
		return
	}
	cs := lfCase{Expr: e.text, Full: true}
	srcs, crashed := lfLabelsSource(r, cs, node)
	if crashed || len(srcs) != 1 {
		r.Count("static:not-one-source")
		return
	}
	s0 := srcs[0]
	num := "-"
	if s0.KnownReturn {
		num = fmt.Sprint(int64(s0.ReturnedNumber))
	}
	b, _ := json.Marshal(e.json)
	r.Count(fmt.Sprintf("static:dead=%v", s0.IsDead))
	if s0.IsDead && s0.IsDeadReason == "" {
		// the report's only text is this reason (fix 2359b11: arithmetic after the comparison blanked it)
		r.Violate(hx.Violation{Class: "dead-verdict-without-a-reason", Input: cs, Observed: lfShowSrc(s0), Expected: "a dead code report says why"})
	}
	r.Op("lfstatic\t"+string(b), fmt.Sprintf("%v %v %s %v %v", s0.AlwaysReturns, s0.KnownReturn, num, s0.IsDead, s0.IsConditional))
	// the `or` rule: is the right-hand side of `e or on() m9` declared unused? (model: orRhsDead; theorem or_on_rhs_unused)
	if onode, err := promParser.ParseExpr("(" + e.text + " or on() m9)"); err == nil {
		if osrcs, ocrashed := lfLabelsSource(r, lfCase{Expr: "(" + e.text + " or on() m9)", Full: true}, onode); !ocrashed && len(osrcs) == 2 {
			unused := osrcs[1].IsDead && strings.Contains(osrcs[1].IsDeadReason, "right hand side is never used")
			r.Op("lforrhs\t"+string(b), fmt.Sprint(unused))
			if unused && e.closed && seNoVV(e.json) && !strings.Contains(e.text, " bool ") {
				// observed on the engine: with the right side declared unused, dropping it changes nothing
				a1, v1, err1 := promeval.Instant(lfBuild([]map[string]string{{"__name__": "m9", "a": "x", "b": "x", "c": "x"}}, ""), "("+e.text+" or on() m9)", lfT0)
				a2, v2, err2 := promeval.Instant(lfBuild(nil, ""), e.text, lfT0)
				if err1 == nil && err2 == nil && lfResultKey(a1, v1) != lfResultKey(a2, v2) {
					r.Violate(hx.Violation{Class: "or-on-rhs-declared-unused-but-used", Input: cs, Observed: map[string]any{"with": lfResultKey(a1, v1), "left_alone": lfResultKey(a2, v2)},
						Expected: "the right side of `or on()` contributes nothing when pint says so"})
				}
			}
		}
	}
	if !e.closed {
		return
	}
	// the model's evaluation of closed expressions against the engine (no stored data is involved)
	ls, vals, err := promeval.Instant(lfBuild(nil, ""), e.text, lfT0)
	if err != nil {
		r.Count("static:eval-error")
		return
	}
	got := "v:none"
	if len(ls) == 1 {
		got = fmt.Sprintf("v:%d", int64(vals[0]))
	}
	r.Op("lfeval\t"+string(b), got)
	// the property on this fragment, observed: a static verdict means the query returns nothing (known: bool)
	if s0.IsDead && len(ls) > 0 {
		// the tags of the recorded findings, computed from the expression's structure (exactly the hypotheses of the
		// theorems: boolFree, valueKeeping / noVV, unlessSimple), not from its text as lfBool does
		class := "dead-operand-contributes:static-comparison"
		if strings.Contains(e.text, " bool ") {
			class += ":bool-modifier-in-query"
		}
		if strings.Contains(e.text, "count(") {
			class += ":value-changing-aggregation-in-query"
		}
		if !seUnlessSimple(e.json) && !strings.Contains(class, "constant-through-vector-matching") {
			// AlwaysReturns (and known numbers) survive vector-vector operations: the recorded unless / join finding.
			// Exactly the hypothesis of the theorem (unlessSimple): an `unless on()` whose right side is free of
			// vector-vector operations is judged in full
			class += ":constant-through-vector-matching"
		}
		if strings.Contains(e.text, "count(") && !strings.Contains(class, "value-changing-aggregation-in-query") {
			class += ":value-changing-aggregation-in-query"
		}
		if (strings.Contains(e.text, "abs(") || strings.Contains(e.text, "m1")) && !seNoVV(e.json) && !strings.Contains(class, "constant-through-vector-matching") {
			// a known number next to an unknown one survives a vector-vector operation (recorded finding; the model's
			// static_stale_through_join_not_sound): only these expressions have unknown numbers
			class += ":constant-through-vector-matching"
		}
		r.Violate(hx.Violation{Class: class, Known: true, Input: cs,
			Observed: map[string]any{"source": lfShowSrc(s0), "result": lfResultKey(ls, vals)}, Expected: "a query declared dead returns nothing"})
	}
}

func runC12(r *hx.Run, replay string) {
	if replay != "" {
		c12Eval(r, lfReplay(replay))
		return
	}
	for i := 0; i < r.N; i++ {
		c12CanJoin(r)
		c12Static(r)
		g := &lfGen{rr: r.Rng, c12: true}
		expr := g.vec(1 + r.Rng.Intn(3))
		for k := 0; k < 3; k++ {
			c12Eval(r, lfCase{Expr: expr, Series: lfDB(r.Rng, g.leaves, true), Full: true})
		}
	}
}

// the analysis of an expression the PromQL parser accepts must not panic (it runs inside every lint of such a rule)
func lfLabelsSource(r *hx.Run, cs lfCase, node promParser.Expr) (srcs []utils.Source, crashed bool) {
	defer func() {
		if p := recover(); p != nil {
			crashed = true
			r.Violate(hx.Violation{Class: "label-source-analysis-panics", Input: cs, Observed: fmt.Sprint(p), Expected: "a list of sources"})
		}
	}()
	return utils.LabelsSource(cs.Expr, node), false
}
