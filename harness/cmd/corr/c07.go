package main

import (
	"encoding/json"
	"fmt"
	"os"
	"sort"
	"strings"

	"github.com/cloudflare/pint/internal/config"
	"github.com/cloudflare/pint/internal/discovery"
	"github.com/cloudflare/pint/verifharness/hx"
	"github.com/cloudflare/pint/verifharness/pipe"
)

func init() { props["C07"] = runC07 }

type c07Case struct {
	Config    string `json:"config"`
	Locked    bool   `json:"locked"`
	File      string `json:"file"`
	Form      string `json:"form"`      // disable | snooze-future | snooze-past | file/disable | file/snooze-future | file/snooze-past
	Placement string `json:"placement"` // above | trailing | between | top | bottom
	RuleLine  int    `json:"rule_first_line"`
	RuleName  string `json:"rule_name"`
	Reporter  string `json:"reporter"`
	Modified  string `json:"modified_file"`
	InsertAt  int    `json:"inserted_after_line"` // 0-based index of the new line, -1 when no line was added
}

var c07Configurable = map[string]bool{"rule/label": true, "alerts/annotation": true, "rule/for": true, "rule/name": true, "rule/reject": true,
	"rule/report": true, "promql/aggregate": true, "promql/range_query": true}

func c07Keys(cfgText, file string, r *hx.Run, after, shift int) ([]string, []pipeReport, string) {
	cfg, err := pipe.LoadConfig(r.OutDir, cfgText)
	if err != nil {
		return nil, nil, "config: " + err.Error()
	}
	o := pipe.Options{Strict: true, Offline: true}
	pipe.ApplyFlags(&cfg, o)
	res := pipe.Lint(cfg, "rules/r.yml", []byte(file), o)
	if res.Panic != "" {
		return nil, nil, res.Panic
	}
	var keys []string
	var reps []pipeReport
	for _, rep := range res.Reports {
		k := pipe.ReportKey(rep, after, shift)
		keys = append(keys, k)
		reps = append(reps, pipeReport{Key: k, Reporter: rep.Problem.Reporter, RuleName: rep.Rule.Name(), RuleFirst: rep.Rule.Lines.First, RuleLast: rep.Rule.Lines.Last})
	}
	sort.Strings(keys)
	return keys, reps, ""
}

type pipeReport struct {
	Key       string
	Reporter  string
	RuleName  string
	RuleFirst int
	RuleLast  int
}

func c07Eval(r *hx.Run, cs c07Case) {
	base, baseReps, perr := c07Keys(cs.Config, cs.File, r, 1<<30, 0)
	if perr != "" {
		r.Count("baseline-error")
		return
	}
	shift := 0
	after := 1 << 30
	if cs.InsertAt >= 0 {
		shift, after = 1, cs.InsertAt // lines > InsertAt (1-based: the new line is InsertAt+1) move down by one
	}
	got, _, perr := c07Keys(cs.Config, cs.Modified, r, after, shift)
	if perr != "" {
		r.Violate(hx.Violation{Class: "run-failed", Input: cs, Observed: tail(perr, 1200)})
		return
	}
	// expected: baseline minus the targeted slice
	var want []string
	removed := 0
	for _, br := range baseReps {
		drop := false
		if br.Reporter == cs.Reporter {
			switch cs.Form {
			case "disable", "snooze-future", "snooze-future-2sp", "snooze-future-tab":
				drop = br.RuleName == cs.RuleName && br.RuleFirst == cs.RuleLine && !(cs.Locked && c07Configurable[cs.Reporter])
			case "file/disable", "file/snooze-future":
				drop = true
			}
		}
		if drop {
			removed++
		} else {
			want = append(want, br.Key)
		}
	}
	sort.Strings(want)
	r.Count("form:" + cs.Form)
	r.Count("placement:" + cs.Placement)
	r.Count(fmt.Sprintf("locked:%v", cs.Locked))
	r.Case(cs.Modified+cs.Config, len(base) > 0)
	r.Sample(cs)
	if strings.Join(got, "\n") != strings.Join(want, "\n") {
		r.Violate(hx.Violation{Class: "comment-slice:" + cs.Form + ":" + cs.Placement, Input: cs,
			Observed: map[string]any{"missing": minus(want, got), "unexpected": minus(got, want), "expected_removed": removed},
			Expected: "baseline reports minus exactly the (rule, reporter) slice the comment targets, modulo the one-line shift"})
	}
}

func c07Config(locked bool) string {
	if locked {
		return strings.Replace(c08AllKinds, "rule {", "rule {\n  locked = true", 1)
	}
	return c08AllKinds
}

func runC07(r *hx.Run, replay string) {
	if replay != "" {
		b, err := os.ReadFile(replay)
		if err != nil {
			panic(err)
		}
		var rp struct {
			Input c07Case `json:"input"`
		}
		if err := json.Unmarshal(b, &rp); err != nil {
			panic(err)
		}
		c07Eval(r, rp.Input)
		return
	}
	rr := r.Rng
	// the comment scanner against Model/Comments (the model the C07 theorems read comments through) on random comment
	// lines, including trailing blanks and carriage returns: the same op the C10 run uses
	for i := 0; i < 2*r.N; i++ {
		c10ReaderOp(r, []string{c10CommentLine(r)}, rr.Intn(2) == 0)
	}
	for i := 0; i < r.N; i++ {
		// correspondence of GetChecksForEntry on entries carrying control comments, configs with tags
		cfgText := enConfig(r, rr.Intn(2) == 0)
		if env, err := enLoad(r, cfgText); err == nil {
			o := pipe.Options{Strict: true}
			entries, pn := pipe.Entries("rules/a.yml", []byte(enFile(r)), o)
			if pn == "" {
				for _, e := range entries {
					e.State = hx.Pick(rr, []discovery.ChangeType{discovery.Noop, discovery.Added, discovery.Modified})
					op, ans := enChecksOp(env, hx.Pick(rr, []config.ContextCommandVal{config.LintCommand, config.CICommand}), e)
					r.Op(op, ans)
				}
			}
			env.Close()
		}

		// observation
		locked := rr.Intn(4) == 0
		cfg := c07Config(locked)
		file := c09File(r)
		_, reps, perr := c07Keys(cfg, file, r, 1<<30, 0)
		if perr != "" || len(reps) == 0 {
			r.Count("no-reports")
			continue
		}
		target := hx.Pick(rr, reps)
		if target.RuleFirst == 0 || target.Reporter == "yaml/parse" {
			continue
		}
		if rr.Intn(3) == 0 {
			// a rule block that enables the targeted check by name: `enable` re-enables what `check { disabled }` or
			// --disabled switched off, it does not override control comments (docs/configuration.md)
			cfg += fmt.Sprintf("\nrule {\n  enable = [%q]\n}\n", target.Reporter)
			_, reps3, perr3 := c07Keys(cfg, file, r, 1<<30, 0)
			if perr3 != "" || len(reps3) != len(reps) {
				r.Count("enable-block-changes-baseline")
				continue
			}
			r.Count("with-enable-block")
		}
		form := hx.Pick(rr, []string{"disable", "disable", "snooze-future", "snooze-past", "file/disable", "file/snooze-future", "file/snooze-past",
			"snooze-future-2sp", "snooze-future-tab", "junk-disable", "junk-file-disable"})
		var text string
		switch form {
		case "disable":
			text = "# pint disable " + target.Reporter
		case "snooze-future":
			text = "# pint snooze 2099-01-01 " + target.Reporter
		case "snooze-future-2sp": // any amount of whitespace separates the time from the check
			text = "# pint snooze 2099-01-01  " + target.Reporter
		case "snooze-future-tab":
			text = "# pint snooze 2099-01-01\t" + target.Reporter
		case "junk-disable": // not a control comment: nothing may change
			text = "# pint " + hx.Pick(rr, []string{"dis4able", "di.sable", "disa_ble", "d?isable", "disable="}) + " " + target.Reporter
		case "junk-file-disable":
			text = "# pint " + hx.Pick(rr, []string{"file/dis4able", "file/d.i.s.a.b.l.e", "fi1e/disable"}) + " " + target.Reporter
		case "snooze-past":
			text = "# pint snooze 2000-01-01 " + target.Reporter
		case "file/disable":
			text = "# pint file/disable " + target.Reporter
		case "file/snooze-future":
			text = "# pint file/snooze 2099-01-01T00:00:00Z " + target.Reporter
		case "file/snooze-past":
			text = "# pint file/snooze 2000-01-01 " + target.Reporter
		}
		lines := strings.Split(strings.TrimSuffix(file, "\n"), "\n")
		if rr.Intn(2) == 0 && !strings.HasPrefix(form, "file/") {
			// the rule already carries other control comments (the theorems hold for any existing comments):
			// an expired snooze of the same check, comments about other checks, an owner
			pre := []string{"# pint snooze 2000-01-01 " + target.Reporter, "# pint snooze 2099-01-01 promql/fragile", "# pint disable promql/regexp", "# pint rule/owner bob",
				"# pint snooze 1999-12-31T00:00:00Z " + target.Reporter}
			first := target.RuleFirst - 1
			var add []string
			for k, n := 0, 1+rr.Intn(2); k < n; k++ {
				add = append(add, "  "+hx.Pick(rr, pre))
			}
			out := append([]string{}, lines[:first]...)
			out = append(out, add...)
			out = append(out, lines[first:]...)
			lines = out
			file = strings.Join(lines, "\n") + "\n"
			_, reps2, perr2 := c07Keys(cfg, file, r, 1<<30, 0)
			if perr2 != "" {
				continue
			}
			found := false
			for _, x := range reps2 {
				if x.Reporter == target.Reporter && x.RuleName == target.RuleName && x.RuleFirst == target.RuleFirst+len(add) {
					target, found = x, true
					break
				}
			}
			if !found {
				r.Count("pre-existing-comments-changed-baseline")
				continue
			}
			r.Count("with-pre-existing-comments")
		}
		cs := c07Case{Config: cfg, Locked: locked, File: file, Form: form, RuleLine: target.RuleFirst, RuleName: target.RuleName, Reporter: target.Reporter, InsertAt: -1}
		var placements []string
		if strings.HasPrefix(form, "file/") {
			placements = []string{"top", "bottom", "above"}
		} else {
			placements = []string{"above", "trailing", "between"}
		}
		cs.Placement = hx.Pick(rr, placements)
		first := target.RuleFirst - 1 // 0-based index of the "- alert:" line
		ins := func(at int, l string) {
			out := append([]string{}, lines[:at]...)
			out = append(out, l)
			out = append(out, lines[at:]...)
			cs.Modified = strings.Join(out, "\n") + "\n"
			cs.InsertAt = at
		}
		switch cs.Placement {
		case "top":
			ins(0, text)
		case "bottom":
			ins(len(lines), text)
		case "above":
			ins(first, "  "+text)
		case "between":
			if first+2 > len(lines) {
				continue
			}
			ins(first+2, "    "+text)
		case "trailing":
			// on the rule's first line (- alert: X   # pint ...)
			out := append([]string{}, lines...)
			out[first] = out[first] + " " + text
			cs.Modified = strings.Join(out, "\n") + "\n"
		}
		// a fifth of the files end their lines with CRLF (seeded change C07-file-disable-keeps-carriage-return): the
		// comment, the rules and the line numbers are the same, only the line ends differ
		if r.Rng.Intn(5) == 0 {
			cs.File = strings.ReplaceAll(cs.File, "\n", "\r\n")
			cs.Modified = strings.ReplaceAll(cs.Modified, "\n", "\r\n")
			r.Count("line-ends:crlf")
		}
		c07Eval(r, cs)
	}
}
