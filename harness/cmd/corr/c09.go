package main

import (
	"encoding/json"
	"fmt"
	"os"
	"path/filepath"
	"sort"
	"regexp"
	"strings"
	"time"

	"github.com/prometheus/common/model"

	"github.com/cloudflare/pint/internal/config"
	"github.com/cloudflare/pint/internal/discovery"
	"github.com/cloudflare/pint/internal/parser"
	"github.com/cloudflare/pint/verifharness/hx"
	"github.com/cloudflare/pint/verifharness/pipe"
)

func init() { props["C09"] = runC09 }

type c09Case struct {
	Config  string            `json:"config"`
	Files   map[string]string `json:"files"`
	Command string            `json:"command"`
	States  []string          `json:"states"` // state given to each entry, in order
}

// ---- reference evaluator of the documented semantics (written from docs/configuration.md) ----

func refFull(anchorNaive bool, p, s string) bool {
	if anchorNaive {
		return regexp.MustCompile("^" + p + "$").MatchString(s)
	}
	return regexp.MustCompile("^(?:" + p + ")$").MatchString(s)
}

func refDur(expr string, rule *string, isAlert bool) bool {
	// "only alerting rules with the field present and matching the provided value"
	if !isAlert || rule == nil {
		return false
	}
	d, err := model.ParseDuration(*rule)
	if err != nil {
		return false
	}
	op, lim := "=", expr
	if i := strings.Index(expr, " "); i >= 0 {
		op, lim = expr[:i], expr[i+1:]
	}
	l, _ := model.ParseDuration(lim)
	a, b := time.Duration(d), time.Duration(l)
	switch op {
	case "=":
		return a == b
	case "!=":
		return a != b
	case "<":
		return a < b
	case "<=":
		return a <= b
	case ">":
		return a > b
	case ">=":
		return a >= b
	}
	return false
}

func refCond(naive bool, m config.Match, cmd string, e discovery.Entry, isIgnore bool) bool {
	if m.Command != nil && string(*m.Command) != cmd {
		return false
	}
	states := m.State
	if len(states) == 0 && isIgnore {
		states = []string{"any"} // the command-dependent default is a property of match blocks only
	}
	if len(states) == 0 {
		if cmd == "ci" {
			states = []string{"added", "modified", "renamed"} // documented default
		} else {
			states = []string{"any"}
		}
	}
	okState := false
	for _, s := range states {
		switch s {
		case "any":
			okState = true
		case "added":
			okState = okState || e.State == discovery.Added
		case "modified":
			okState = okState || e.State == discovery.Modified
		case "renamed":
			okState = okState || e.State == discovery.Moved
		case "removed":
			okState = okState || e.State == discovery.Removed
		case "unmodified":
			okState = okState || e.State == discovery.Noop
		}
	}
	if !okState {
		return false
	}
	isAlert := e.Rule.AlertingRule != nil
	name := e.Rule.Name()
	if m.Kind != "" && ((isAlert && m.Kind != "alerting") || (!isAlert && m.Kind != "recording")) {
		return false
	}
	if m.Path != "" && !refFull(naive, m.Path, e.Path.Name) {
		return false
	}
	if m.Name != "" && !refFull(naive, m.Name, name) {
		return false
	}
	if m.Label != nil {
		// rule labels and group-level labels (rule wins on conflict)
		ls := map[string]string{}
		if e.Group != nil && e.Group.Labels != nil {
			for _, it := range e.Group.Labels.Items {
				ls[it.Key.Value] = it.Value.Value
			}
		}
		var rl = e.Rule.RecordingRule
		if isAlert && e.Rule.AlertingRule.Labels != nil {
			for _, it := range e.Rule.AlertingRule.Labels.Items {
				ls[it.Key.Value] = it.Value.Value
			}
		} else if rl != nil && rl.Labels != nil {
			for _, it := range rl.Labels.Items {
				ls[it.Key.Value] = it.Value.Value
			}
		}
		ok := false
		for k, v := range ls {
			if refFull(naive, m.Label.Key, k) && refFull(naive, m.Label.Value, v) {
				ok = true
			}
		}
		if !ok {
			return false
		}
	}
	if m.Annotation != nil {
		ok := false
		if isAlert && e.Rule.AlertingRule.Annotations != nil {
			for _, it := range e.Rule.AlertingRule.Annotations.Items {
				if refFull(naive, m.Annotation.Key, it.Key.Value) && refFull(naive, m.Annotation.Value, it.Value.Value) {
					ok = true
				}
			}
		}
		if !ok {
			return false
		}
	}
	if m.For != "" {
		var v *string
		if isAlert && e.Rule.AlertingRule.For != nil {
			v = &e.Rule.AlertingRule.For.Value
		}
		if !refDur(m.For, v, isAlert) {
			return false
		}
	}
	if m.KeepFiringFor != "" {
		var v *string
		if isAlert && e.Rule.AlertingRule.KeepFiringFor != nil {
			v = &e.Rule.AlertingRule.KeepFiringFor.Value
		}
		if !refDur(m.KeepFiringFor, v, isAlert) {
			return false
		}
	}
	return true
}

func refApplies(naive bool, rule config.Rule, cmd string, e discovery.Entry) bool {
	for _, ig := range rule.Ignore {
		if refCond(naive, ig, cmd, e, true) {
			return false
		}
	}
	if len(rule.Match) == 0 {
		// an absent match block still carries the command-dependent state default
		return refCond(naive, config.Match{}, cmd, e, false)
	}
	for _, m := range rule.Match {
		if refCond(naive, m, cmd, e, false) {
			return true
		}
	}
	return false
}

// c09FocusBlock renders a loose sub-block that is mostly about command and state: the combinations in which the
// command-dependent state default matters (a match block that accepts unmodified rules next to an ignore block
// without `state`, and the reverse) are rare under the uniform generator.
func c09FocusBlock(r *hx.Run, kw string) string {
	rr := r.Rng
	var sb strings.Builder
	fmt.Fprintf(&sb, "  %s {\n", kw)
	n := 0
	add := func(s string) { sb.WriteString("    " + s + "\n"); n++ }
	if rr.Intn(3) == 0 {
		add(fmt.Sprintf("command = %q", hx.Pick(rr, []string{"lint", "ci", "watch"})))
	}
	pState := 2
	if kw == "ignore" {
		pState = 4
	}
	if rr.Intn(pState) == 0 {
		add("state = " + hx.Pick(rr, []string{`["any"]`, `["unmodified"]`, `["unmodified", "added"]`, `["added"]`, `["removed", "modified"]`, `["renamed", "unmodified"]`}))
	}
	switch rr.Intn(6) {
	case 0:
		add(fmt.Sprintf("kind = %q", hx.Pick(rr, []string{"alerting", "recording"})))
	case 1:
		add(`path = "rules/.*"`)
	case 2:
		add(`name = ".+"`)
	case 3, 4:
		// a key pattern that covers several labels of a rule (rule labels job/instance/env/cluster/severity, group
		// labels team/job) with a value only some of them carry: "any label" versus "the first one"
		add(fmt.Sprintf("label %q {\n      value = %q\n    }", hx.Pick(rr, []string{".*", "job|env|cluster", "team|job|severity", "instance|severity|env", ".+e.*"}),
			hx.Pick(rr, []string{"a", "b", "critical", "grp", "infra", "a|b"})))
	}
	if n == 0 {
		add(`path = ".*"`)
	}
	sb.WriteString("  }\n")
	return sb.String()
}

func c09Config(r *hx.Run) string {
	rr := r.Rng
	var sb strings.Builder
	focus := rr.Intn(2) == 0
	r.Count("config_state_focus=" + fmt.Sprint(focus))
	for i, n := 0, 1+rr.Intn(3); i < n; i++ {
		sb.WriteString("rule {\n")
		block := enMatchBlock
		if focus {
			block = c09FocusBlock
		}
		for j, m := 0, rr.Intn(3); j < m; j++ {
			sb.WriteString(block(r, "match"))
		}
		for j, m := 0, rr.Intn(3); j < m; j++ {
			sb.WriteString(block(r, "ignore"))
		}
		fmt.Fprintf(&sb, "  name \"marker%dzz\" {\n    severity = \"info\"\n  }\n}\n", i)
	}
	return sb.String()
}

func c09Eval(r *hx.Run, cs c09Case, corr bool) {
	env, err := enLoad(r, cs.Config)
	if err != nil {
		r.Count("config-rejected")
		return
	}
	defer env.Close()
	opts := pipe.Options{Strict: true, Offline: true, Command: config.ContextCommandVal(cs.Command)}
	var entries []discovery.Entry
	for _, p := range hx.SortedKeys(cs.Files) {
		es, pn := pipe.Entries(p, []byte(cs.Files[p]), opts)
		if pn != "" {
			r.Count("parse-panic")
			return
		}
		entries = append(entries, es...)
	}
	stOf := map[string]discovery.ChangeType{"noop": discovery.Noop, "added": discovery.Added, "modified": discovery.Modified, "moved": discovery.Moved, "removed": discovery.Removed}
	for i := range entries {
		if i < len(cs.States) {
			entries[i].State = stOf[cs.States[i]]
		}
	}
	cfg := env.cfg
	pipe.ApplyFlags(&cfg, opts)
	res := pipe.Check(cfg, entries, opts)
	if res.Panic != "" {
		r.Violate(hx.Violation{Class: "panic", Input: cs, Observed: tail(res.Panic, 1500)})
		return
	}
	// observed: which (block, entry) pairs carry the marker problem
	got := map[string]bool{}
	for _, rep := range res.Reports {
		if rep.Problem.Reporter != "rule/name" {
			continue
		}
		for _, d := range rep.Problem.Diagnostics {
			for i := range cfg.Rules {
				if strings.Contains(d.Message, fmt.Sprintf("marker%dzz", i)) {
					got[fmt.Sprintf("%d|%s|%d", i, rep.Path.Name, rep.Rule.Lines.First)] = true
				}
			}
		}
	}
	for _, e := range entries {
		if e.PathError != nil || e.Rule.Error.Err != nil {
			continue
		}
		if corr {
			op, ans := enChecksOp(env, config.ContextCommandVal(cs.Command), e)
			r.Op(op, ans)
		}
		for i, rule := range cfg.Rules {
			key := fmt.Sprintf("%d|%s|%d", i, e.Path.Name, e.Rule.Lines.First)
			doc := refApplies(false, rule, cs.Command, e)
			naive := refApplies(true, rule, cs.Command, e)
			// `removed` entries never reach configurable checks (Meta().States), whatever the block says
			if e.State == discovery.Removed {
				doc, naive = false, false
			}
			r.Case(cs.Config+key+cs.Command+fmt.Sprint(e.State), len(rule.Match)+len(rule.Ignore) > 0)
			r.Count(fmt.Sprintf("applies:%v", doc))
			if got[key] != doc {
				b, _ := json.Marshal(rule)
				r.Violate(hx.Violation{Class: "block-applies", Known: got[key] == naive, Input: cs,
					Observed: map[string]any{"block": i, "rule_block": string(b), "entry": e.Path.Name + ":" + e.Rule.Name(), "state": e.State.String(), "marker_reported": got[key]},
					Expected: map[string]any{"documented_semantics": doc, "with_naive_anchoring": naive},
					Note:     "known=true means the difference is exactly what `\"^\"+p+\"$\"` anchoring of a top-level alternation produces"})
			}
		}
	}
	r.Count("cmd:" + cs.Command)
	r.Sample(cs)
}

func runC09(r *hx.Run, replay string) {
	if replay != "" {
		b, err := os.ReadFile(replay)
		if err != nil {
			panic(err)
		}
		var rp struct {
			Input c09Case `json:"input"`
		}
		if err := json.Unmarshal(b, &rp); err != nil {
			panic(err)
		}
		c09Eval(r, rp.Input, false)
		return
	}
	rr := r.Rng
	c09Load(r)
	if os.Getenv("PINT_BIN") != "" {
		for i := 0; i < 1+r.N/100; i++ {
			c09Spelling(r)
		}
	}
	for i := 0; i < r.N; i++ {
		c09Merge(r)
	}
	for i := 0; i < r.N; i++ {
		cs := c09Case{Config: c09Config(r), Files: map[string]string{"rules/a.yml": c09File(r), "rules/b.yml": c09File(r)},
			Command: hx.Pick(rr, []string{"lint", "ci", "watch"})}
		for j := 0; j < 12; j++ {
			if cs.Command == "ci" {
				cs.States = append(cs.States, hx.Pick(rr, []string{"noop", "added", "modified", "moved", "removed"}))
			} else {
				cs.States = append(cs.States, "noop")
			}
		}
		c09Eval(r, cs, true)
	}
}

// c09File: like enFile but without control comments (a `for` value that is not a duration stays in: it satisfies no
// duration condition)
func c09File(r *hx.Run) string {
	for {
		f := enFile(r)
		if !strings.Contains(f, "# pint") {
			return f
		}
	}
}

// c09Merge: parser.MergeMaps (what Entry.Labels() uses to combine group and rule labels) against the
// pure Lean model, and the observation that merging does not change the group's own map.
func c09Merge(r *hx.Run) {
	rr := r.Rng
	mk := func(n int) (*parser.YamlMap, [][2]string) {
		ym := &parser.YamlMap{Key: &parser.YamlNode{Value: "labels"}}
		var kv [][2]string
		seen := map[string]bool{}
		for i := 0; i < n; i++ {
			k := hx.Pick(rr, []string{"job", "team", "env", "severity", "cluster"})
			if seen[k] {
				continue
			}
			seen[k] = true
			v := hx.Pick(rr, []string{"a", "b", "grp", "critical", "infra"})
			ym.Items = append(ym.Items, &parser.YamlKeyValue{Key: &parser.YamlNode{Value: k}, Value: &parser.YamlNode{Value: v}})
			kv = append(kv, [2]string{k, v})
		}
		return ym, kv
	}
	a, akv := mk(rr.Intn(4))
	b, bkv := mk(rr.Intn(4))
	m := parser.MergeMaps(a, b)
	got := [][2]string{}
	for _, it := range m.Items {
		got = append(got, [2]string{it.Key.Value, it.Value.Value})
	}
	if akv == nil {
		akv = [][2]string{}
	}
	if bkv == nil {
		bkv = [][2]string{}
	}
	op, _ := json.Marshal(map[string]any{"a": akv, "b": bkv})
	ans, _ := json.Marshal(got)
	r.Op("merge\t"+string(op), string(ans))
	after := [][2]string{}
	for _, it := range a.Items {
		after = append(after, [2]string{it.Key.Value, it.Value.Value})
	}
	r.Case("merge"+string(op), len(akv) > 0 && len(bkv) > 0)
	if fmt.Sprint(after) != fmt.Sprint(akv) {
		r.Violate(hx.Violation{Class: "mergemaps-modifies-group-labels", Input: map[string]any{"group": akv, "rule": bkv},
			Observed: map[string]any{"group_labels_after_merge": after}, Expected: "merging rule labels over group labels leaves the group's labels as they were"})
	}
}

// c09Load: sub-blocks whose conditions cannot mean anything are refused when the configuration is loaded (the code's own
// contract: "ignore block must have at least one condition", command and state values are checked)
func c09Load(r *hx.Run) {
	tmpl := "rule {\n  %s\n  name \"markerzz\" {\n    severity = \"info\"\n  }\n}\n"
	for _, c := range []struct {
		block string
		loads bool
	}{
		{`ignore { state = ["any"] }`, true},
		{`match { command = "lint" }`, true},
		{`ignore { command = "ci" }`, true},
		{`ignore { }`, false},
		{`ignore { state = [] }`, false},
		{`match { command = "lnit" }`, false},
		{`ignore { command = "CI" }`, false},
		{`match { state = ["changed"] }`, false},
		{`match { kind = "alert" }`, false},
		{`match { for = "abc" }`, false},
		{`ignore { keep_firing_for = "> x" }`, false},
	} {
		env, err := enLoad(r, fmt.Sprintf(tmpl, c.block))
		if err == nil {
			env.Close()
		}
		r.Case("load"+c.block, true)
		r.Count(fmt.Sprintf("load-probe:%v", c.loads))
		if (err == nil) != c.loads {
			r.Violate(hx.Violation{Class: "condition-validation", Input: map[string]any{"block": c.block}, Observed: map[string]any{"loads": err == nil, "error": fmt.Sprint(err)},
				Expected: map[string]any{"loads": c.loads}, Note: "a sub-block without a usable condition (or with a value no rule can have) is a configuration error, not a block that matches everything or nothing"})
		}
	}
}

// c09Spelling: a path condition sees the same file under every way of typing its path on the command line
func c09Spelling(r *hx.Run) {
	rr := r.Rng
	dir, err := os.MkdirTemp("", "c09s-")
	if err != nil {
		panic(err)
	}
	defer os.RemoveAll(dir)
	pat := hx.Pick(rr, []string{"rules/.*", "rules/a.yml", "rules/sub/.+", ".*/b.yml", "rules/[ab].yml"})
	kind := hx.Pick(rr, []string{"match", "ignore"})
	cfg := fmt.Sprintf("rule {\n  %s { path = %q }\n  name \"markerzz\" {\n    severity = \"info\"\n  }\n}\n", kind, pat)
	files := map[string]string{"rules/a.yml": c09File(r), "rules/b.yml": c09File(r), "rules/sub/c.yml": c09File(r)}
	for p, c := range files {
		_ = os.MkdirAll(filepath.Dir(filepath.Join(dir, p)), 0o755)
		_ = os.WriteFile(filepath.Join(dir, p), []byte(c), 0o644)
	}
	_ = os.WriteFile(filepath.Join(dir, ".pint.hcl"), []byte(cfg), 0o644)
	target := hx.Pick(rr, hx.SortedKeys(files))
	spellings := []string{target, "./" + target, "rules/../" + target, filepath.Dir(target) + "//" + filepath.Base(target), "./rules/../" + target}
	var base string
	for i, sp := range spellings {
		res := hx.RunCmd(dir, 60*time.Second, nil, hx.PintBin(), "--offline", "-l", "error", "--no-color", "lint", "--json", "out.json", sp)
		b, _ := os.ReadFile(filepath.Join(dir, "out.json"))
		_ = os.Remove(filepath.Join(dir, "out.json"))
		var reports []c05JSON
		_ = json.Unmarshal(b, &reports)
		var got []string
		for _, rep := range reports {
			got = append(got, fmt.Sprintf("%s %s %v %s", filepath.Clean(rep.Path), rep.Reporter, rep.Lines, rep.Problem))
		}
		sort.Strings(got)
		out := fmt.Sprintf("exit=%d\n%s", res.Exit, strings.Join(got, "\n"))
		if i == 0 {
			base = out
			continue
		}
		r.Case("spell"+cfg+sp+files[target], true)
		r.Count("path-spellings")
		if out != base {
			r.Violate(hx.Violation{Class: "path-spelling", Input: map[string]any{"config": cfg, "files": files, "argument": sp, "plain": target},
				Observed: out, Expected: base, Note: "the same file, named another way on the command line, is selected by the same rule blocks"})
			return
		}
	}
}
