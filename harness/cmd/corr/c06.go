package main

import (
	"github.com/cloudflare/pint/internal/output"
	"strconv"
	"encoding/hex"
	"encoding/json"
	"fmt"
	"os"
	"strings"

	"gopkg.in/yaml.v3"

	"github.com/cloudflare/pint/internal/diags"
	"github.com/cloudflare/pint/internal/parser"
	"github.com/cloudflare/pint/verifharness/hx"
	"github.com/cloudflare/pint/verifharness/pipe"
)

func init() { props["C06"] = runC06 }

type c06Case struct {
	Content string   `json:"content"`
	Strict  bool     `json:"strict"`
	Styles  []string `json:"styles"` // scalar styles used, in order
	InK     bool     `json:"in_class_K"`
}

// one scalar rendered in a style; words is the logical token list of the value
func c06Scalar(r *hx.Run, words []string, indent string, allowNonK bool) (text string, style string, inK bool) {
	rr := r.Rng
	flat := strings.Join(words, " ")
	styles := []string{"plain", "single", "double", "literal", "literal-strip", "literal-keep", "folded", "folded-strip", "folded-keep", "plain-multi", "double-multi"}
	if allowNonK {
		styles = append(styles, "double-escape", "folded-blank", "plain-blank", "trailing-space", "double-continuation", "single-multi")
	}
	style = hx.Pick(rr, styles)
	if len(words) < 2 && (strings.Contains(style, "multi") || strings.Contains(style, "blank") || strings.Contains(style, "continuation")) {
		style = "plain"
	}
	if hasHash := strings.Contains(" "+flat, " #"); hasHash && strings.HasPrefix(style, "plain") {
		// " #" starts a comment in a plain scalar; it is ordinary text in every other style
		style = hx.Pick(rr, []string{"single", "double", "literal", "folded-strip", "double-multi"})
	}
	inK = true
	block := func(ind string, blankAfter int, trailing bool) string {
		var sb strings.Builder
		k := 1 + rr.Intn(len(words))
		parts := []string{strings.Join(words[:k], " ")}
		if k < len(words) {
			parts = append(parts, strings.Join(words[k:], " "))
		}
		for i, p := range parts {
			sb.WriteString("\n" + indent + "  " + p)
			if trailing && i == 0 {
				sb.WriteString("  ")
			}
			if i == blankAfter {
				sb.WriteString("\n")
			}
		}
		return ind + sb.String()
	}
	switch style {
	case "plain":
		text = flat
	case "single":
		text = "'" + strings.ReplaceAll(flat, "'", "''") + "'"
	case "double":
		text = `"` + strings.ReplaceAll(strings.ReplaceAll(flat, `\`, `\\`), `"`, `\"`) + `"`
	case "literal":
		text = block("|", -1, false)
	case "literal-strip":
		text = block("|-", -1, false)
	case "literal-keep":
		text = block("|+", -1, false)
	case "folded":
		text = block(">", -1, false)
	case "folded-strip":
		text = block(">-", -1, false)
	case "folded-keep":
		text = block(">+", -1, false)
	case "plain-multi":
		text = strings.TrimPrefix(block("", -1, false), "\n"+indent+"  ")
	case "double-multi":
		text = `"` + strings.TrimPrefix(block("", -1, false), "\n"+indent+"  ") + `"`
	case "single-multi":
		text = "'" + strings.TrimPrefix(block("", -1, false), "\n"+indent+"  ") + "'"
		inK = false
	case "double-escape":
		text = `"` + strings.Replace(flat, " ", `\t`, 1) + `\x41"`
		inK = false
	case "folded-blank":
		text = block(">-", 0, false)
		inK = false
	case "plain-blank":
		text = strings.TrimPrefix(block("", 0, false), "\n"+indent+"  ")
		inK = false
	case "trailing-space":
		text = block(">", -1, true)
		inK = false
	case "double-continuation":
		text = `"` + words[0] + " \\\n" + indent + "    " + strings.Join(words[1:], " ") + `"`
		inK = false
	}
	return text, style, inK
}

var c06Exprs = [][]string{{"up"}, {"up", "==", "0"}, {"sum(foo)", "by", "(job)"}, {"rate(http_requests_total[5m])", ">", "10"}, {"foo", "/", "bar", "*", "100"}, {"absent(up)"}, {"up", "==", "0", "#", "inline", "promql", "comment"},
	{"up{job=\"é\"}", "==", "0"}, {"sum(föö)", "by", "(jöb)"}, {"up{\"日本\"=\"x\"}", ">", "0"}}
var c06Texts = [][]string{{"static"}, {"some", "longer", "text", "here"}, {"value", "is", "{{", "$value", "}}"}, {"a:b", "c#d"}, {"it's", "quoted"}, {"Ticket", "#", "{{", "$value", "}}", "open"}, {"page", "#1", "of", "#", "2"},
	{"größe", "ist", "{{", "$value", "}}"}, {"日本語", "text", "here"}, {"naïve", "café", "#", "x"}}

func c06Gen(r *hx.Run, allowNonK bool) c06Case {
	rr := r.Rng
	cs := c06Case{Strict: rr.Intn(2) == 0, InK: true}
	var sb strings.Builder
	ind := ""
	if cs.Strict {
		sb.WriteString("groups:\n")
		if rr.Intn(3) == 0 {
			sb.WriteString("\n# a comment\n")
		}
		sb.WriteString("- name: g\n  rules:\n")
		ind = "  "
	} else if rr.Intn(2) == 0 {
		sb.WriteString("wrapper:\n  inner:\n")
		ind = "    "
	}
	// pfx: what precedes the key on its line (the field indent, or the "- " of the rule's first key)
	addP := func(pfx, key string, words []string, fieldIndent string) {
		t, st, k := c06Scalar(r, words, fieldIndent, allowNonK)
		cs.Styles = append(cs.Styles, st)
		cs.InK = cs.InK && k
		sb.WriteString(pfx + key + ": " + t + "\n")
		if rr.Intn(6) == 0 {
			sb.WriteString("\n")
		}
		if rr.Intn(8) == 0 {
			sb.WriteString(fieldIndent + "# comment between fields\n")
		}
	}
	add := func(key string, words []string, fieldIndent string) { addP(fieldIndent, key, words, fieldIndent) }
	for i, n := 0, 1+rr.Intn(3); i < n; i++ {
		fi := ind + "  "
		// the keys of a rule in any order (YAML does not care): every key can be the first or the last one
		var parts []func(pfx string)
		if rr.Intn(2) == 0 {
			parts = append(parts, func(pfx string) {
				sb.WriteString(pfx + "alert: " + hx.Pick(rr, []string{"Down", "'Quoted Name'", "\"DQ\""}) + "\n")
			})
			parts = append(parts, func(pfx string) { addP(pfx, "expr", hx.Pick(rr, c06Exprs), fi) })
			if rr.Intn(2) == 0 {
				parts = append(parts, func(pfx string) { addP(pfx, "for", []string{hx.Pick(rr, []string{"5m", "1h"})}, fi) })
			}
			if rr.Intn(3) == 0 {
				parts = append(parts, func(pfx string) { addP(pfx, "keep_firing_for", []string{hx.Pick(rr, []string{"10m", "2h"})}, fi) })
			}
			if rr.Intn(2) == 0 {
				parts = append(parts, func(pfx string) {
					if rr.Intn(3) == 0 {
						sb.WriteString(pfx + "labels: {severity: critical, team: 'a b'}\n")
					} else {
						sb.WriteString(pfx + "labels:\n")
						add("severity", []string{"critical"}, fi+"  ")
					}
				})
			}
			if rr.Intn(2) == 0 {
				parts = append(parts, func(pfx string) {
					sb.WriteString(pfx + "annotations:\n")
					add("summary", hx.Pick(rr, c06Texts), fi+"  ")
					if rr.Intn(2) == 0 {
						add("description", hx.Pick(rr, c06Texts), fi+"  ")
					}
				})
			}
		} else {
			parts = append(parts, func(pfx string) {
				sb.WriteString(pfx + "record: " + hx.Pick(rr, []string{"job:up:sum", "'foo:bar'"}) + "\n")
			})
			parts = append(parts, func(pfx string) { addP(pfx, "expr", hx.Pick(rr, c06Exprs), fi) })
			if rr.Intn(3) == 0 {
				parts = append(parts, func(pfx string) {
					sb.WriteString(pfx + "labels:\n")
					add("team", []string{"infra"}, fi+"  ")
				})
			}
		}
		if rr.Intn(2) == 0 {
			rr.Shuffle(len(parts), func(a, b int) { parts[a], parts[b] = parts[b], parts[a] })
		}
		for k, part := range parts {
			if k == 0 {
				part(ind + "- ")
			} else {
				part(fi)
			}
		}
	}
	cs.Content = sb.String()
	return cs
}

func c06Readback(lines []string, prs diags.PositionRanges) string {
	var sb strings.Builder
	for _, p := range prs {
		if p.Line < 1 || p.Line > len(lines) {
			sb.WriteString("<line-out-of-file>")
			continue
		}
		l := lines[p.Line-1]
		for c := p.FirstColumn; c <= p.LastColumn; c++ {
			switch {
			case c >= 1 && c <= len(l):
				sb.WriteByte(l[c-1])
			case c == len(l)+1:
				sb.WriteByte('\n')
			default:
				sb.WriteString("<col-out-of-line>")
			}
		}
	}
	return sb.String()
}

// folded line breaks read back as the byte they became; trailing line breaks of block scalars (chomping)
// carry no position of their own: the comparison is on the value up to its final line break(s)
func c06Norm(s string) string { return strings.ReplaceAll(strings.TrimRight(s, "\n"), "\n", " ") }

// c06Carets renders one diagnostic over the position ranges `sub` with the real InjectDiagnostics and compares, line by
// line, the columns that carry a caret with the columns of `sub` (line-break cells, one past the end of a line, excepted).
func c06Carets(r *hx.Run, cs c06Case, field string, sub diags.PositionRanges) bool {
	if len(sub) == 0 {
		return true
	}
	for _, p := range sub {
		if p.Line != sub[0].Line {
			return true // ranges over several lines get their carets on the last line only: not judged here
		}
	}
	n := 0
	for _, p := range sub {
		n += p.LastColumn - p.FirstColumn + 1
	}
	var out string
	func() {
		defer func() {
			if p := recover(); p != nil {
				out = fmt.Sprintf("PANIC %v", p)
			}
		}()
		out = diags.InjectDiagnostics(cs.Content, []diags.Diagnostic{{Message: "zzmsg", Pos: sub, FirstColumn: 1, LastColumn: n}}, output.None)
	}()
	lines := strings.Split(strings.TrimSuffix(cs.Content, "\n"), "\n")
	want := map[int]map[int]bool{}
	for _, p := range sub {
		for c := p.FirstColumn; c <= p.LastColumn; c++ {
			if p.Line >= 1 && p.Line <= len(lines) && c <= len([]rune(lines[p.Line-1])) {
				if want[p.Line] == nil {
					want[p.Line] = map[int]bool{}
				}
				want[p.Line][c] = true
			}
		}
	}
	// rendered form: "<n> | <source line>" followed by a caret row with the same prefix width
	got := map[int]map[int]bool{}
	ol := strings.Split(out, "\n")
	for i := 0; i+1 < len(ol); i++ {
		bar := strings.Index(ol[i], " | ")
		if bar <= 0 {
			continue
		}
		ln, err := strconv.Atoi(strings.TrimSpace(ol[i][:bar]))
		if err != nil || !strings.Contains(ol[i+1], "^") || strings.Contains(ol[i+1], " | ") {
			continue
		}
		pre := bar + 3
		for j, ch := range []rune(ol[i+1]) {
			if ch == '^' {
				if got[ln] == nil {
					got[ln] = map[int]bool{}
				}
				got[ln][j-pre+1] = true
			}
		}
	}
	// only for ASCII lines: columns are bytes in positions and runes on the console
	if ln := sub[0].Line; ln >= 1 && ln-1 < len(lines) && len(lines[ln-1]) != len([]rune(lines[ln-1])) {
		return true
	}
	if fmt.Sprint(got) != fmt.Sprint(want) {
		r.Violate(hx.Violation{Class: "carets-not-under-selected-columns", Known: !cs.InK, Input: cs,
			Observed: map[string]any{"field": field, "positions": c06ShowPR(sub), "caret_columns_by_line": fmt.Sprint(got), "rendered": out},
			Expected: "carets under " + fmt.Sprint(want)})
		return false
	}
	return true
}

func c06Check(r *hx.Run, cs c06Case) {
	lines := strings.Split(strings.TrimSuffix(cs.Content, "\n"), "\n")
	entries, pn := pipe.Entries("r.yml", []byte(cs.Content), pipe.Options{Strict: cs.Strict})
	if pn != "" {
		r.Violate(hx.Violation{Class: "parse-panic", Known: !cs.InK, Input: cs, Observed: tail(pn, 1500)})
		return
	}
	fields := 0
	check := func(name string, n *parser.YamlNode, rule parser.Rule) bool {
		if n == nil {
			return true
		}
		fields++
		got := c06Readback(lines, n.Pos)
		if c06Norm(got) != c06Norm(n.Value) {
			r.Violate(hx.Violation{Class: "position-does-not-spell-value", Known: !cs.InK, Input: cs,
				Observed: map[string]any{"field": name, "value": n.Value, "read_back": got, "positions": fmt.Sprint(n.Pos)}, Expected: "positions read back spell the value"})
			return false
		}
		pl := n.Pos.Lines()
		if pl.First < rule.Lines.First || pl.Last > rule.Lines.Last || rule.Lines.First < 1 || rule.Lines.Last > len(lines) {
			r.Violate(hx.Violation{Class: "rule-lines-do-not-enclose-field", Known: !cs.InK, Input: cs,
				Observed: map[string]any{"field": name, "field_lines": pl, "rule_lines": rule.Lines, "file_lines": len(lines)}, Expected: "rule line range encloses every field and lies in the file"})
			return false
		}
		// a diagnostic's column range (offsets into the value) lands on the corresponding characters
		if len(n.Value) > 0 {
			vl := len(strings.TrimRight(n.Value, "\n"))
			if vl == 0 {
				return true
			}
			a := 1 + r.Rng.Intn(vl)
			b := a + r.Rng.Intn(vl-a+1)
			sub := diags.VerifReadRange(a, b, n.Pos)
			nl := func(s string) string { return strings.ReplaceAll(s, "\n", " ") }
			if nl(c06Readback(lines, sub)) != nl(n.Value[a-1:b]) {
				r.Violate(hx.Violation{Class: "column-range-off-target", Known: !cs.InK, Input: cs,
					Observed: map[string]any{"field": name, "first": a, "last": b, "read_back": c06Readback(lines, sub), "want": n.Value[a-1 : b]}, Expected: "columns [first,last] of the value"})
				return false
			}
			// the console rendering of that range: on every line the carets stand under exactly the selected columns
			if !c06Carets(r, cs, name, sub) {
				return false
			}
			// correspondence of readRange
			var jp []map[string]int
			for _, p := range n.Pos {
				jp = append(jp, map[string]int{"l": p.Line, "f": p.FirstColumn, "t": p.LastColumn})
			}
			op, _ := json.Marshal(map[string]any{"first": a, "last": b, "prs": jp})
			r.Op("readrange\t"+string(op), c06ShowPR(sub))
		}
		return true
	}
	for _, e := range entries {
		if e.PathError != nil || e.Rule.Error.Err != nil {
			continue
		}
		rule := e.Rule
		var nodes []struct {
			name string
			n    *parser.YamlNode
		}
		addMap := func(prefix string, m *parser.YamlMap) {
			if m == nil {
				return
			}
			for _, it := range m.Items {
				nodes = append(nodes, struct {
					name string
					n    *parser.YamlNode
				}{prefix + " key", it.Key}, struct {
					name string
					n    *parser.YamlNode
				}{prefix + " value " + it.Key.Value, it.Value})
			}
		}
		if rule.AlertingRule != nil {
			ar := rule.AlertingRule
			nodes = append(nodes, struct {
				name string
				n    *parser.YamlNode
			}{"alert", &ar.Alert}, struct {
				name string
				n    *parser.YamlNode
			}{"expr", ar.Expr.Value}, struct {
				name string
				n    *parser.YamlNode
			}{"for", ar.For}, struct {
				name string
				n    *parser.YamlNode
			}{"keep_firing_for", ar.KeepFiringFor})
			addMap("labels", ar.Labels)
			addMap("annotations", ar.Annotations)
		}
		if rule.RecordingRule != nil {
			rr := rule.RecordingRule
			nodes = append(nodes, struct {
				name string
				n    *parser.YamlNode
			}{"record", &rr.Record}, struct {
				name string
				n    *parser.YamlNode
			}{"expr", rr.Expr.Value})
			addMap("labels", rr.Labels)
		}
		for _, nd := range nodes {
			if !check(nd.name, nd.n, rule) {
				return
			}
		}
	}
	r.Case(cs.Content, fields > 0)
	r.Count(fmt.Sprintf("inK:%v", cs.InK))
	for _, s := range cs.Styles {
		r.Count("style:" + s)
	}
	r.Sample(cs)
}

func c06ShowPR(prs diags.PositionRanges) string {
	var o []string
	for _, p := range prs {
		o = append(o, fmt.Sprintf("%d:%d-%d", p.Line, p.FirstColumn, p.LastColumn))
	}
	return strings.Join(o, ",")
}

// correspondence of NewPositionRange on every scalar of the real yaml.v3 tree of a generated document
func c06Corr(r *hx.Run, cs c06Case) {
	var doc yaml.Node
	if err := yaml.Unmarshal([]byte(cs.Content), &doc); err != nil {
		return
	}
	lines := strings.Split(strings.TrimSuffix(cs.Content, "\n"), "\n")
	hl := make([]string, len(lines))
	for i, l := range lines {
		hl[i] = "-"
		if l != "" {
			hl[i] = hex.EncodeToString([]byte(l))
		}
	}
	var walk func(n *yaml.Node, minCol int)
	walk = func(n *yaml.Node, minCol int) {
		switch n.Kind {
		case yaml.ScalarNode:
			got := diags.NewPositionRange(lines, n, minCol)
			v := "-"
			if n.Value != "" {
				v = hex.EncodeToString([]byte(n.Value))
			}
			op, _ := json.Marshal(map[string]any{"lines": hl, "value": v, "line": n.Line, "col": n.Column, "minCol": minCol})
			r.Op("npr\t"+string(op), c06ShowPR(got))
		case yaml.MappingNode:
			for i := 0; i+1 < len(n.Content); i += 2 {
				walk(n.Content[i], 1)
				walk(n.Content[i+1], n.Content[i].Column+2)
			}
		default:
			for _, c := range n.Content {
				walk(c, 1)
			}
		}
	}
	walk(&doc, 1)
}

// c06Inject: the real InjectDiagnostics on random diagnostics (well-formed position ranges, any columns, sometimes no
// positions at all) against Model/Inject: which lines are written, under which line each message stands, and whether
// it panics (slices.Max of no lines)
func c06Inject(r *hx.Run) {
	rr := r.Rng
	n := 1 + rr.Intn(9)
	var content []string
	for i := 0; i < n; i++ {
		line := strings.Repeat("x", rr.Intn(12))
		if rr.Intn(4) == 0 && len(line) > 2 {
			k := rr.Intn(len(line) - 1)
			line = line[:k] + hx.Pick(rr, []string{"é", "€", "ü"}) + line[k+1:]
		}
		content = append(content, line)
	}
	nd := 1 + rr.Intn(3)
	if rr.Intn(12) == 0 {
		nd = 0
	}
	var ds []diags.Diagnostic
	var jd []map[string]any
	for i := 0; i < nd; i++ {
		var prs diags.PositionRanges
		jp := []map[string]int{}
		np := rr.Intn(4)
		if rr.Intn(3) == 0 {
			np = 1
		}
		line := 1 + rr.Intn(n+1) // sometimes past the end of the content
		for k := 0; k < np; k++ {
			f := 1 + rr.Intn(8)
			t := f + rr.Intn(5)
			prs = append(prs, diags.PositionRange{Line: line, FirstColumn: f, LastColumn: t})
			jp = append(jp, map[string]int{"l": line, "f": f, "t": t})
			if rr.Intn(2) == 0 {
				line += rr.Intn(3)
			} else if rr.Intn(6) == 0 && line > 1 {
				line--
			}
		}
		first, last := rr.Intn(14)-2, rr.Intn(16)-2
		if i > 0 && rr.Intn(3) == 0 {
			// the column range of the diagnostic before, on other positions or (sometimes) the same (fix ce2f37c)
			first, last = ds[i-1].FirstColumn, ds[i-1].LastColumn
			if rr.Intn(3) == 0 {
				prs = append(diags.PositionRanges{}, ds[i-1].Pos...)
				jp = jd[i-1]["prs"].([]map[string]int)
			}
		}
		ds = append(ds, diags.Diagnostic{Message: fmt.Sprintf("MSG%d!", i), Pos: prs, FirstColumn: first, LastColumn: last})
		jd = append(jd, map[string]any{"prs": jp, "first": first, "last": last})
	}
	impl := func() (out string) {
		defer func() {
			if p := recover(); p != nil {
				out = "PANIC"
			}
		}()
		body := diags.InjectDiagnostics(strings.Join(content, "\n"), ds, output.None)
		var parts []string
		cur := -1
		var msgs []string
		flush := func() {
			if cur >= 0 {
				parts = append(parts, fmt.Sprintf("%d:%s", cur, strings.Join(msgs, ",")))
			}
		}
		for _, l := range strings.Split(body, "\n") {
			if i := strings.Index(l, " | "); i >= 0 {
				if k, err := strconv.Atoi(strings.TrimSpace(l[:i])); err == nil {
					flush()
					cur, msgs = k, nil
					continue
				}
				if strings.TrimSpace(l[:i]) == "" && strings.HasSuffix(l, "[...]") {
					continue
				}
			}
			if i := strings.Index(l, "MSG"); i >= 0 {
				msgs = append(msgs, strings.TrimSuffix(l[i+3:], "!"))
			}
		}
		flush()
		return strings.Join(parts, ";")
	}()
	r.Count("inject:" + map[bool]string{true: "panic", false: "ok"}[impl == "PANIC"])
	op, _ := json.Marshal(map[string]any{"n": n, "diags": jd})
	r.Op("inject\t"+string(op), impl)
	// the caret rows: one character per rune of the line, `^` under the selected columns
	rows := func() (out string) {
		defer func() {
			if p := recover(); p != nil {
				out = "PANIC"
			}
		}()
		body := diags.InjectDiagnostics(strings.Join(content, "\n"), ds, output.None)
		var parts []string
		cur, width := -1, 0
		var got []string
		flush := func() {
			if cur >= 0 {
				parts = append(parts, fmt.Sprintf("%d:%s", cur, strings.Join(got, ",")))
			}
		}
		for _, l := range strings.Split(body, "\n") {
			if i := strings.Index(l, " | "); i >= 0 {
				if k, err := strconv.Atoi(strings.TrimSpace(l[:i])); err == nil {
					flush()
					cur, got, width = k, nil, i
					continue
				}
				if strings.TrimSpace(l[:i]) == "" && strings.HasSuffix(l, "[...]") {
					continue
				}
			}
			if i := strings.LastIndex(l, " MSG"); i >= 0 && len(l) >= width+3 {
				got = append(got, strings.TrimSuffix(l[i+4:], "!")+"="+strings.ReplaceAll(l[width+3:i], " ", "_"))
			}
		}
		flush()
		return strings.Join(parts, ";")
	}()
	var offs [][]int
	for _, l := range content {
		o := []int{}
		for i := range l {
			o = append(o, i)
		}
		offs = append(offs, o)
	}
	op2, _ := json.Marshal(map[string]any{"offs": offs, "diags": jd})
	r.Op("carets\t"+string(op2), rows)
	// the property on these diagnostics (what caretRow_ascii proves of the model): a diagnostic whose selected cells
	// reach into its last line gets carets there, unless an earlier diagnostic points at the very same text
	if rows != "PANIC" {
		rowOf := map[string]string{}
		for _, part := range strings.Split(rows, ";") {
			if k := strings.Index(part, ":"); k >= 0 {
				for _, e := range strings.Split(part[k+1:], ",") {
					if q := strings.Index(e, "="); q >= 0 {
						rowOf[e[:q]] = e[q+1:]
					}
				}
			}
		}
		for i, d := range ds {
			dl := d.Pos.Len()
			if dl < 1 {
				continue
			}
			first := max(1, min(d.FirstColumn, dl))
			last := max(first, min(d.LastColumn, dl))
			sel := diags.VerifReadRange(first, last, d.Pos)
			ll := sel.Lines().Last
			if ll < 1 || ll > len(content) || strings.ToValidUTF8(content[ll-1], "") != content[ll-1] || len(content[ll-1]) != len([]rune(content[ll-1])) {
				continue
			}
			visible := false
			for _, p := range sel {
				if p.Line == ll && p.FirstColumn <= len(content[ll-1]) {
					visible = true
				}
			}
			same := false
			for j := 0; j < i; j++ {
				if ds[j].FirstColumn == d.FirstColumn && ds[j].LastColumn == d.LastColumn && fmt.Sprint(ds[j].Pos) == fmt.Sprint(d.Pos) {
					same = true
				}
			}
			row, ok := rowOf[fmt.Sprint(i)]
			if visible && !same && ok && !strings.Contains(row, "^") {
				r.Violate(hx.Violation{Class: "diagnostic-without-carets", Input: map[string]any{"content": content, "diags": jd, "index": i},
					Observed: map[string]any{"row": row, "rendered": rows}, Expected: "carets under the selected columns of the diagnostic's last line"})
				return
			}
		}
	}
}

func runC06(r *hx.Run, replay string) {
	if replay != "" {
		b, err := os.ReadFile(replay)
		if err != nil {
			panic(err)
		}
		var rp struct {
			Input c06Case `json:"input"`
		}
		if err := json.Unmarshal(b, &rp); err != nil {
			panic(err)
		}
		c06Check(r, rp.Input)
		return
	}
	for i := 0; i < r.N; i++ {
		cs := c06Gen(r, i%4 == 3) // a quarter of the documents leave class K
		c06Check(r, cs)
		if i%3 == 0 {
			c06Corr(r, cs)
		}
		c06Inject(r)
	}
}
