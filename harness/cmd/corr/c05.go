package main

import (
	"encoding/json"
	"fmt"
	"os"
	"path/filepath"
	"strings"
	"time"

	"github.com/cloudflare/pint/verifharness/gen"
	"github.com/cloudflare/pint/verifharness/hx"
)

func init() { props["C05"] = runC05 }

var c05Sev = []string{"info", "warning", "bug", "fatal"}
var c05Rank = map[string]int{"Information": 0, "Warning": 1, "Bug": 2, "Fatal": 3, "info": 0, "warning": 1, "bug": 2, "fatal": 3}

type c05JSON struct {
	Path     string `json:"path"`
	Reporter string `json:"reporter"`
	Problem  string `json:"problem"`
	Details  string `json:"details"`
	Severity string `json:"severity"`
	Lines    []int  `json:"lines"`
	Owner    string `json:"owner"`
}

type c05Case struct {
	Command string   `json:"command"`
	Config  string   `json:"config"`
	File    string   `json:"file"`
	Args    []string `json:"args"`
	Global  []string `json:"global_args"`
	CfgName string   `json:"config_file_name,omitempty"` // "" = pint.hcl
}

func c05Config(r *hx.Run) string {
	rr := r.Rng
	if rr.Intn(3) == 0 {
		return ""
	}
	var sb strings.Builder
	if rr.Intn(2) == 0 {
		// the same check text with a different severity per file: identical problems that differ only in
		// severity (and path) are what duplicate folding sees
		for _, f := range []string{"r", "s"} {
			fmt.Fprintf(&sb, "rule {\n  match {\n    path = \"rules/%s.yml\"\n  }\n", f)
			fmt.Fprintf(&sb, "  report {\n    comment = \"same text\"\n    severity = %q\n  }\n", hx.Pick(rr, c05Sev))
			fmt.Fprintf(&sb, "  label \"team\" {\n    severity = %q\n    required = true\n  }\n}\n", hx.Pick(rr, c05Sev))
		}
		return sb.String()
	}
	sb.WriteString("rule {\n")
	if rr.Intn(2) == 0 {
		fmt.Fprintf(&sb, "  annotation \"summary\" {\n    severity = %q\n    required = true\n  }\n", hx.Pick(rr, c05Sev))
	}
	if rr.Intn(2) == 0 {
		fmt.Fprintf(&sb, "  label \"team\" {\n    severity = %q\n    required = true\n  }\n", hx.Pick(rr, c05Sev))
	}
	if rr.Intn(2) == 0 {
		fmt.Fprintf(&sb, "  name \"^[a-z:]+$\" {\n    severity = %q\n  }\n", hx.Pick(rr, c05Sev))
	}
	if rr.Intn(3) == 0 {
		fmt.Fprintf(&sb, "  for {\n    severity = %q\n    min = \"2m\"\n  }\n", hx.Pick(rr, c05Sev))
	}
	if rr.Intn(3) == 0 {
		fmt.Fprintf(&sb, "  report {\n    comment = \"reported\"\n    severity = %q\n  }\n", hx.Pick(rr, c05Sev))
	}
	sb.WriteString("}\n")
	return sb.String()
}

func c05Eval(r *hx.Run, cs c05Case) {
	dir, err := os.MkdirTemp("", "c05-")
	if err != nil {
		panic(err)
	}
	defer os.RemoveAll(dir)
	must := func(e error) {
		if e != nil {
			panic(e)
		}
	}
	args := []string{"--offline", "-l", "error", "--no-color"}
	args = append(args, cs.Global...)
	cfgName := "pint.hcl"
	if cs.CfgName != "" {
		cfgName = cs.CfgName
	}
	if cs.Config != "" {
		must(os.WriteFile(filepath.Join(dir, cfgName), []byte(cs.Config), 0o644))
		args = append(args, "-c", cfgName)
	}
	jsonPath := filepath.Join(dir, "out.json")
	if cs.Command == "lint" {
		must(os.MkdirAll(filepath.Join(dir, "rules"), 0o755))
		must(os.WriteFile(filepath.Join(dir, "rules", "r.yml"), []byte(cs.File), 0o644))
		must(os.WriteFile(filepath.Join(dir, "rules", "s.yml"), []byte(cs.File), 0o644))
		args = append(args, "lint", "--json", jsonPath)
		args = append(args, cs.Args...)
		args = append(args, "rules")
	} else {
		// scratch repository: base branch with an empty rules dir, feature branch adds the file
		hx.Git(dir, "init", "-q", "-b", "main", ".")
		must(os.MkdirAll(filepath.Join(dir, "rules"), 0o755))
		must(os.WriteFile(filepath.Join(dir, "rules", "keep.yml"), []byte("groups: []\n"), 0o644))
		hx.Git(dir, "add", "-A")
		hx.Git(dir, "commit", "-q", "-m", "base")
		hx.Git(dir, "checkout", "-q", "-b", "feature")
		must(os.WriteFile(filepath.Join(dir, "rules", "r.yml"), []byte(cs.File), 0o644))
		must(os.WriteFile(filepath.Join(dir, "rules", "s.yml"), []byte(cs.File), 0o644))
		hx.Git(dir, "add", "-A")
		hx.Git(dir, "commit", "-q", "-m", "add rules")
		args = append(args, "ci", "--base-branch", "main", "--json", jsonPath)
		args = append(args, cs.Args...)
	}
	res := hx.RunCmd(dir, 60*time.Second, []string{"GIT_CONFIG_GLOBAL=/dev/null"}, hx.PintBin(), args...)
	if cs.Command == "ci" {
		// every rule file of the repository was added on the branch, so `pint lint` over the same files sees the same
		// problems: the two commands must agree on whether the run fails
		largs := []string{"--offline", "-l", "error", "--no-color"}
		largs = append(largs, cs.Global...)
		if cs.Config != "" {
			largs = append(largs, "-c", cfgName)
		}
		largs = append(largs, "lint", "--min-severity", "info")
		for i, a := range cs.Args {
			if a == "--fail-on" && i+1 < len(cs.Args) {
				largs = append(largs, "--fail-on", cs.Args[i+1])
			}
		}
		largs = append(largs, "rules")
		lres := hx.RunCmd(dir, 60*time.Second, []string{"GIT_CONFIG_GLOBAL=/dev/null"}, hx.PintBin(), largs...)
		if lres.Exit >= 0 && res.Exit >= 0 && !lres.TimedOut && !res.TimedOut && (lres.Exit != 0) != (res.Exit != 0) {
			r.Violate(hx.Violation{Class: "ci-vs-lint-exit", Input: cs, Observed: map[string]any{"ci_exit": res.Exit, "lint_exit": lres.Exit, "ci_stderr": tail(res.Stderr, 600), "lint_stderr": tail(lres.Stderr, 600)},
				Expected: "the same verdict from `pint ci` and `pint lint` when every rule file is new on the branch"})
		}
	}
	var reports []c05JSON
	b, rerr := os.ReadFile(jsonPath)
	if rerr == nil {
		_ = json.Unmarshal(b, &reports)
	}
	failOn := "bug"
	for i, a := range cs.Args {
		if a == "--fail-on" && i+1 < len(cs.Args) {
			failOn = cs.Args[i+1]
		}
	}
	thr := c05Rank[failOn]
	reach := false
	var stream []string
	keys := map[string]int{}
	for _, rep := range reports {
		if c05Rank[rep.Severity] >= thr {
			reach = true
		}
		k := fmt.Sprintf("%v", rep)
		if _, ok := keys[k]; !ok {
			keys[k] = len(keys)
		}
		stream = append(stream, fmt.Sprintf("%d,%d", c05Rank[rep.Severity], keys[k]))
	}
	completed := rerr == nil && !res.TimedOut && res.Exit >= 0 &&
		(res.Exit == 0 || strings.Contains(res.Stderr, "problem(s) with severity") || strings.Contains(res.Stderr, "problems found"))
	r.Count("cmd:" + cs.Command)
	r.Count("failon:" + failOn)
	r.Count(fmt.Sprintf("reports:%d", min(len(reports), 6)))
	r.Count(fmt.Sprintf("exit:%d", res.Exit))
	maxSev := -1
	for _, rep := range reports {
		maxSev = max(maxSev, c05Rank[rep.Severity])
	}
	// non-trivial: at least one report and the threshold separates outcomes (some report below or at it)
	r.Case(cs.Command+cs.Config+cs.File+strings.Join(cs.Args, " "), len(reports) > 0)
	r.Sample(map[string]any{"case": cs, "exit": res.Exit, "severities": stream})
	if !completed {
		r.Count("not-completed")
		if res.TimedOut || res.Exit < 0 || strings.Contains(res.Stderr, "panic:") {
			r.Violate(hx.Violation{Class: "run-did-not-complete", Input: cs, Observed: map[string]any{"exit": res.Exit, "stderr": tail(res.Stderr, 1500)}, Expected: "a completed lint run"})
		}
		return
	}
	if (res.Exit != 0) != reach {
		r.Violate(hx.Violation{Class: "exit-vs-json:" + cs.Command, Input: cs,
			Observed: map[string]any{"exit": res.Exit, "severities": stream, "stderr": tail(res.Stderr, 800)},
			Expected: fmt.Sprintf("exit!=0 iff some severity rank >= %d", thr)})
	}
	// correspondence with the Lean decision model on the binary's own report stream
	impl := "0"
	if res.Exit != 0 {
		impl = "1"
	}
	s := "-"
	if len(stream) > 0 {
		s = strings.Join(stream, ";")
	}
	if cs.Command == "lint" {
		minSev, dup := 0, "0"
		for i, a := range cs.Args {
			if a == "--min-severity" && i+1 < len(cs.Args) {
				minSev = c05Rank[cs.Args[i+1]]
			}
		}
		for _, a := range cs.Global {
			if a == "--show-duplicates" {
				dup = "1"
			}
		}
		r.Op(fmt.Sprintf("exit\tlint\t%d\t%d\t%s\t%s", thr, minSev, dup, s), impl)
	} else {
		r.Op(fmt.Sprintf("exit\tci\t%d\t%s", thr, s), impl)
	}
}

func tail(s string, n int) string {
	if len(s) > n {
		return s[len(s)-n:]
	}
	return s
}

func runC05(r *hx.Run, replay string) {
	if replay != "" {
		b, err := os.ReadFile(replay)
		if err != nil {
			panic(err)
		}
		var rp struct {
			Input c05Case `json:"input"`
		}
		if err := json.Unmarshal(b, &rp); err != nil {
			panic(err)
		}
		c05Eval(r, rp.Input)
		return
	}
	rr := r.Rng
	// files that fail at the file level in one or two ways, through `pint ci` (compared with `pint lint`)
	okFile := "groups:\n- name: g\n  rules:\n  - record: a:b\n    expr: up\n"
	for _, f := range []string{
		"# pint file/owner\n" + okFile + "  - record: [\n",
		"# pint file/snooze xx\n" + okFile + "groups: {\n",
		okFile + "\tbad: yaml\n",
		"# pint file/owner\n" + okFile,
		"# pint file/owner\n# pint file/snooze xx\n" + okFile + "  - [\n",
	} {
		for _, fo := range []string{"fatal", "bug"} {
			c05Eval(r, c05Case{Command: "ci", Config: "", File: f, Args: []string{"--fail-on", fo}})
		}
	}
	// a change with no problem at all, under every threshold and both commands: the exit status is 0
	// (seeded change C05-ci-worst-severity-starts-at-info: an empty summary looked like an Information problem)
	for _, fo := range c05Sev {
		c05Eval(r, c05Case{Command: "ci", Config: "", File: okFile, Args: []string{"--fail-on", fo}})
		c05Eval(r, c05Case{Command: "lint", Config: "", File: okFile, Args: []string{"--fail-on", fo}})
	}
	// a configuration file whose name is not a regular expression: the verdict is the one for the same file under an
	// ordinary name (and there is one)
	for _, name := range []string{"pint(ci.hcl", "a[b.hcl", "c+d*.hcl", "p?{2,1}.hcl"} {
		c05Eval(r, c05Case{Command: "lint", Config: "parser {\n  relaxed = []\n}\n", File: okFile, Args: []string{"--fail-on", "bug"}, CfgName: name})
	}
	// severity parse table through the real binary: every spelling of --fail-on
	for i := 0; i < r.N; i++ {
		groups := gen.RandGroups(rr, 2, 3)
		lines, _ := gen.GroupFile(groups)
		file := strings.Join(lines, "\n") + "\n"
		cfg := c05Config(r)
		// whole flag table for this input (lint), one ci configuration
		for _, fo := range []string{"", "info", "warning", "bug", "fatal"} {
			ms := hx.Pick(rr, c05Sev)
			var args []string
			if fo != "" {
				args = append(args, "--fail-on", fo)
			}
			args = append(args, "--min-severity", ms)
			var global []string
			if rr.Intn(2) == 0 {
				global = append(global, "--show-duplicates")
			}
			// the verdict must not depend on which other outputs are written
			switch rr.Intn(4) {
			case 0:
				args = append(args, "--checkstyle", "checkstyle.xml")
			case 1:
				args = append(args, "--teamcity")
			}
			c05Eval(r, c05Case{Command: "lint", Config: cfg, File: file, Args: args, Global: global})
		}
		if i%4 == 0 {
			if rr.Intn(3) == 0 {
				// files that fail at the file level, possibly in more than one way
				file = hx.Pick(rr, []string{"# pint file/owner\n", "# pint file/snooze xx\n", ""}) + file + hx.Pick(rr, []string{"  - record: [\n", "\tbad: yaml\n", "groups: {\n", "# pint file/disable\n"})
			}
			fo := hx.Pick(rr, c05Sev)
			ciArgs := []string{"--fail-on", fo}
			switch rr.Intn(3) {
			case 0:
				ciArgs = append(ciArgs, "--checkstyle", "checkstyle.xml")
			case 1:
				ciArgs = append(ciArgs, "--teamcity")
			}
			c05Eval(r, c05Case{Command: "ci", Config: cfg, File: file, Args: ciArgs})
		}
	}
}
