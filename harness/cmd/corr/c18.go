package main

// C18: a configuration is either rejected when it is loaded or can be applied to any rule file without a crash.

import (
	"encoding/json"
	"fmt"
	"math/rand"
	"os"
	"path/filepath"
	"strings"
	"time"

	"github.com/cloudflare/pint/verifharness/hx"
	"github.com/cloudflare/pint/verifharness/pipe"
)

func init() { props["C18"] = runC18 }

type c18Case struct {
	Config string `json:"config"`
	Rules  string `json:"rules"`
	Strict bool   `json:"strict"`
}

var c18Patterns = []string{
	".*", "foo.+", "^abc$", "a|b", "(a)(b)", "[a-z]+", "x{1,3}", // valid
	"\\\\Qabc", "a\\\\Q)", "\\\\Qa|b", // valid alone, not inside a group: quoting runs to the end of the pattern
	"a(", "[z-a]", "*a", "x{3,1}", "(?P<n>a", "\\\\", "a)", "(?i", // invalid
	"{{ $alert }}.*", "{{ $record }}", "{{ $labels.team }}", "{{ $labels.team }}-.+", "{{ $annotations.summary }}", "{{ $for }}", // templated
	"{{ .Alert }}", "{{ $alert }}|{{ $record }}", "{{ $labels.missing }}x",
	// valid for the empty rule the configuration is validated with, invalid for some label values even after quoting
	".{1,{{ $labels.team }}}", "[{{ $labels.team }}-z].*", "[a-{{ $labels.team }}]+", "x{ {{ $labels.severity }},2}", "(a{2,{{ $labels.team }}}){2}",
	"{{ nofunc }}", "{{ $alert", "{{ end }}", "{{ $labels.team | len }}", "{{ printf \\\"%s\\\" $alert }}", // template problems
	"", " ", "{{", "}}",
}

func c18Pat(rr *rand.Rand) string {
	switch x := rr.Intn(20); {
	case x < 9:
		return hx.Pick(rr, c18Patterns[:10]) // valid
	case x < 17:
		return hx.Pick(rr, c18Patterns[18:32]) // templated, well formed
	case x < 18:
		return hx.Pick(rr, c18Patterns[10:18]) // invalid regexp
	default:
		return hx.Pick(rr, c18Patterns[32:]) // template problems, empties
	}
}

// keys of match conditions are mostly names the generated rules really carry, so that the condition is reached
func c18Key(rr *rand.Rand, real []string) string {
	if rr.Intn(3) != 0 {
		return hx.Pick(rr, real)
	}
	return c18Pat(rr)
}

// values of match conditions: mostly match-anything, sometimes any pattern (invalid ones included)
func c18Val(rr *rand.Rand) string {
	switch rr.Intn(4) {
	case 0:
		return ".*"
	case 1:
		return hx.Pick(rr, c18Patterns[10:18]) // invalid regexp
	default:
		return c18Pat(rr)
	}
}

func c18Dur(rr *rand.Rand) string {
	if rr.Intn(10) != 0 {
		return hx.Pick(rr, []string{"5m", "1h", "30s", "1d"})
	}
	return hx.Pick(rr, []string{"0s", "abc", "5", "-1m", "1.5h", "", "1y", "{{ $for }}"})
}

func c18Sev(rr *rand.Rand) string {
	if rr.Intn(10) != 0 {
		return hx.Pick(rr, []string{"bug", "warning", "info"})
	}
	return hx.Pick(rr, []string{"fatal", "Bug", "critical", "", "information"})
}

func c18Match(rr *rand.Rand, kw string) string {
	var sb strings.Builder
	sb.WriteString("  " + kw + " {\n")
	for i, n := 0, 1+rr.Intn(4); i < n; i++ {
		switch hx.Pick(rr, []int{0, 1, 2, 3, 4, 4, 4, 5, 5, 5, 6, 7, 8, 9, 9}) {
		case 0:
			fmt.Fprintf(&sb, "    name = \"%s\"\n", c18Pat(rr))
		case 1:
			fmt.Fprintf(&sb, "    path = \"%s\"\n", c18Pat(rr))
		case 2:
			fmt.Fprintf(&sb, "    kind = \"%s\"\n", hx.Pick(rr, []string{"alerting", "recording", "alerting", "both"}))
		case 3:
			fmt.Fprintf(&sb, "    command = \"%s\"\n", hx.Pick(rr, []string{"lint", "ci", "watch", "lint", "lint", "nope"}))
		case 4:
			fmt.Fprintf(&sb, "    label \"%s\" {\n      value = \"%s\"\n    }\n", c18Key(rr, []string{"team", "severity", "job"}), c18Val(rr))
		case 5:
			fmt.Fprintf(&sb, "    annotation \"%s\" {\n      value = \"%s\"\n    }\n", c18Key(rr, []string{"summary", "link"}), c18Val(rr))
		case 6:
			fmt.Fprintf(&sb, "    for = \"%s\"\n", hx.Pick(rr, []string{"> 5m", "< 1h", ">= 0s", "!= 1m", "> 1m", "< 2h", "abc", "> abc", "5m", ""}))
		case 7:
			fmt.Fprintf(&sb, "    keep_firing_for = \"%s\"\n", hx.Pick(rr, []string{"> 5m", "< 1h", "> 0s", "abc", "> abc", ""}))
		case 9:
			// both sub-blocks in one match: each has to be validated on its own; one of the two is mostly a condition every
			// generated rule meets, so that the other one is reached when rules are matched
			lv, av := c18Val(rr), c18Val(rr)
			switch rr.Intn(3) {
			case 0:
				lv = ".*"
				if rr.Intn(2) == 0 {
					av = hx.Pick(rr, c18Patterns[10:18])
				}
			case 1:
				av = ".*"
				if rr.Intn(2) == 0 {
					lv = hx.Pick(rr, c18Patterns[10:18])
				}
			}
			fmt.Fprintf(&sb, "    label \"%s\" {\n      value = \"%s\"\n    }\n", hx.Pick(rr, []string{"team", "severity", "job", "team"}), lv)
			fmt.Fprintf(&sb, "    annotation \"%s\" {\n      value = \"%s\"\n    }\n", hx.Pick(rr, []string{"summary", "link"}), av)
			i = n
		case 8:
			fmt.Fprintf(&sb, "    state = [\"%s\"]\n", hx.Pick(rr, []string{"any", "added", "modified", "renamed", "unmodified", "removed", "any", "any", "nope"}))
		}
	}
	sb.WriteString("  }\n")
	return sb.String()
}

func c18Config(rr *rand.Rand) string {
	var sb strings.Builder
	if rr.Intn(4) == 0 {
		fmt.Fprintf(&sb, "parser {\n  include = [\"%s\"]\n  exclude = [\"%s\"]\n  relaxed = [\"%s\"]\n}\n", c18Pat(rr), c18Pat(rr), c18Pat(rr))
	}
	if rr.Intn(5) == 0 {
		fmt.Fprintf(&sb, "owners {\n  allowed = [\"%s\"]\n}\n", c18Pat(rr))
	}
	if rr.Intn(5) == 0 {
		fmt.Fprintf(&sb, "checks {\n  disabled = [\"%s\"]\n}\n", hx.Pick(rr, []string{"promql/rate", "promql/.*", "a(", "{{ $alert }}", "alerts/template"}))
	}
	if rr.Intn(4) == 0 {
		fmt.Fprintf(&sb, "prometheus \"p\" {\n  uri = \"http://127.0.0.1:1\"\n  timeout = \"%s\"\n  include = [\"%s\"]\n  exclude = [\"%s\"]\n  tags = [\"%s\"]\n}\n",
			c18Dur(rr), c18Pat(rr), c18Pat(rr), hx.Pick(rr, []string{"a", "a b", "", "x/y"}))
	}
	for b, n := 0, 1+rr.Intn(3); b < n; b++ {
		sb.WriteString("rule {\n")
		if rr.Intn(2) == 0 {
			sb.WriteString(c18Match(rr, "match"))
		}
		if rr.Intn(3) == 0 {
			sb.WriteString(c18Match(rr, "ignore"))
		}
		for k, m := 0, 1+rr.Intn(3); k < m; k++ {
			switch rr.Intn(11) {
			case 0:
				fmt.Fprintf(&sb, "  annotation \"%s\" {\n    value = \"%s\"\n    token = \"%s\"\n    required = %v\n    severity = \"%s\"\n  }\n", c18Pat(rr), c18Pat(rr), c18Pat(rr), rr.Intn(2) == 0, c18Sev(rr))
			case 1:
				fmt.Fprintf(&sb, "  annotation \"%s\" {\n    values = [\"%s\", \"%s\"]\n    required = true\n  }\n", c18Pat(rr), c18Pat(rr), c18Pat(rr))
			case 2:
				fmt.Fprintf(&sb, "  label \"%s\" {\n    value = \"%s\"\n    token = \"%s\"\n    required = %v\n    severity = \"%s\"\n  }\n", c18Pat(rr), c18Pat(rr), c18Pat(rr), rr.Intn(2) == 0, c18Sev(rr))
			case 3:
				fmt.Fprintf(&sb, "  name \"%s\" {\n    severity = \"%s\"\n  }\n", c18Pat(rr), c18Sev(rr))
			case 4:
				fmt.Fprintf(&sb, "  reject \"%s\" {\n    label_keys = true\n    label_values = true\n    annotation_keys = true\n    annotation_values = true\n    severity = \"%s\"\n  }\n", c18Pat(rr), c18Sev(rr))
			case 5:
				fmt.Fprintf(&sb, "  aggregate \"%s\" {\n    keep = [\"job\"]\n    strip = [\"instance\"]\n    severity = \"%s\"\n  }\n", c18Pat(rr), c18Sev(rr))
			case 6:
				fmt.Fprintf(&sb, "  for {\n    min = \"%s\"\n    max = \"%s\"\n    severity = \"%s\"\n  }\n", c18Dur(rr), c18Dur(rr), c18Sev(rr))
			case 7:
				fmt.Fprintf(&sb, "  keep_firing_for {\n    min = \"%s\"\n    max = \"%s\"\n  }\n", c18Dur(rr), c18Dur(rr))
			case 8:
				fmt.Fprintf(&sb, "  link \"%s\" {\n    uri = \"%s\"\n    timeout = \"%s\"\n  }\n", c18Pat(rr), hx.Pick(rr, []string{"http://127.0.0.1:1/$1", "$1", "", "{{ $alert }}", "%zz", "http://[::1", "http://127.0.0.1:1/%zz$1"}), c18Dur(rr))
			case 9:
				fmt.Fprintf(&sb, "  range_query {\n    max = \"%s\"\n    severity = \"%s\"\n  }\n", c18Dur(rr), c18Sev(rr))
			case 10:
				fmt.Fprintf(&sb, "  report {\n    comment = \"%s\"\n    severity = \"%s\"\n  }\n", c18Pat(rr), c18Sev(rr))
			}
		}
		if rr.Intn(4) == 0 {
			fmt.Fprintf(&sb, "  enable = [\"%s\"]\n", hx.Pick(rr, []string{"promql/rate", "nope", "alerts/for"}))
		}
		sb.WriteString("}\n")
	}
	if rr.Intn(5) == 0 {
		fmt.Fprintf(&sb, "check \"promql/series\" {\n  lookbackRange = \"%s\"\n  ignoreMetrics = [\"%s\"]\n}\n", c18Dur(rr), c18Pat(rr))
	}
	return sb.String()
}

var c18Names = []string{"Down", "a(", "x[", "*up", "a)b", "{{ x }}", "foo|bar", "a\\\\b", "é", "$1", "a{1", "(?i)x", "2000", "~", "0", "1"}

func c18Rules(rr *rand.Rand) string {
	var sb strings.Builder
	sb.WriteString("groups:\n- name: g\n  rules:\n")
	for i, n := 0, 1+rr.Intn(3); i < n; i++ {
		q := func(s string) string { return "'" + strings.ReplaceAll(s, "'", "''") + "'" }
		if rr.Intn(2) == 0 {
			fmt.Fprintf(&sb, "  - alert: %s\n    expr: up == 0\n    for: %s\n    labels:\n      team: %s\n      %s: x\n    annotations:\n      summary: %s\n      link: %s\n",
				q(hx.Pick(rr, c18Names)), hx.Pick(rr, []string{"5m", "1h", "0s"}), q(hx.Pick(rr, c18Names)), hx.Pick(rr, []string{"severity", "job"}), q(hx.Pick(rr, c18Names)),
				q(hx.Pick(rr, []string{"http://127.0.0.1:1/a(", "https://x/[", "not a url"})))
		} else {
			fmt.Fprintf(&sb, "  - record: %s\n    expr: sum(up) by (job)\n    labels:\n      team: %s\n",
				q(hx.Pick(rr, []string{"job:up:sum", "a(", "x[", "é:x", "a|b"})), q(hx.Pick(rr, c18Names)))
		}
	}
	return sb.String()
}

func c18Eval(r *hx.Run, cs c18Case, dir string) {
	cfg, err := pipe.LoadConfig(dir, cs.Config)
	if err != nil {
		r.Count("config-rejected")
		r.Case(cs.Config, false)
		return
	}
	r.Count("config-accepted")
	o := pipe.Options{Strict: cs.Strict, Offline: true}
	pipe.ApplyFlags(&cfg, o)
	res := pipe.Lint(cfg, "rules/r.yml", []byte(cs.Rules), o)
	r.Case(cs.Config+cs.Rules, true)
	if res.Panic != "" {
		r.Violate(hx.Violation{Class: "accepted-config-panics:" + c02Site(res.Panic), Known: true, Input: cs, Observed: tail(res.Panic, 2000),
			Expected: "config.Load error, or a lint run without a crash"})
		return
	}
	if !strings.Contains(cs.Config, "prometheus \"") {
		// without a Prometheus server the online checks that need none (rule/link) also run in a plain `pint lint`;
		// link targets are on a closed local port, so requests fail at once
		o2 := pipe.Options{Strict: cs.Strict}
		cfg2, err2 := pipe.LoadConfig(dir, cs.Config)
		if err2 == nil {
			res2 := pipe.Lint(cfg2, "rules/r.yml", []byte(cs.Rules), o2)
			r.Count("online-lint-run")
			if res2.Panic != "" {
				r.Violate(hx.Violation{Class: "accepted-config-panics:" + c02Site(res2.Panic), Known: true, Input: cs, Observed: tail(res2.Panic, 2000),
					Expected: "config.Load error, or a lint run without a crash (online checks enabled)"})
				return
			}
		}
	}
	r.Count(fmt.Sprintf("reports:%d", min(len(res.Reports), 5)))
	if len(cs.Config) < 400 {
		r.Sample(map[string]any{"config": cs.Config, "reports": len(res.Reports)})
	}
}

func runC18(r *hx.Run, replay string) {
	dir, err := os.MkdirTemp("", "c18-")
	if err != nil {
		panic(err)
	}
	defer os.RemoveAll(dir)
	if replay != "" {
		b, err := os.ReadFile(replay)
		if err != nil {
			panic(err)
		}
		var rp struct {
			Input c18Case `json:"input"`
		}
		if err := json.Unmarshal(b, &rp); err != nil {
			panic(err)
		}
		c18Eval(r, rp.Input, dir)
		return
	}
	c18LaterInterpreted(r, dir)
	for i := 0; i < r.N; i++ {
		cfg := c18Config(r.Rng)
		for k := 0; k < 3; k++ {
			c18Eval(r, c18Case{Config: cfg, Rules: c18Rules(r.Rng), Strict: r.Rng.Intn(2) == 0}, dir)
		}
	}
}

// c18LaterInterpreted: numbers and durations that are only used when a run is under way. A value that would make
// that run hang (a zero query step: the slice loop never advances) or panic (a queue that cannot be allocated, a
// ticker with a non-positive interval) or silently fail every request (a timeout read by another parser than the one
// that validated it) has to be refused where it is read.
func c18LaterInterpreted(r *hx.Run, dir string) {
	for _, c := range []struct {
		cfg   string
		loads bool
	}{
		{"rule {\n  alerts {\n    range = \"1h\"\n    step = \"1m\"\n    resolve = \"5m\"\n  }\n}\n", true},
		{"rule {\n  alerts {\n    range = \"1h\"\n    step = \"0s\"\n    resolve = \"5m\"\n  }\n}\n", false},
		{"rule {\n  alerts {\n    range = \"1h\"\n    step = \"0m\"\n    resolve = \"5m\"\n  }\n}\n", false},
		{"check \"promql/series\" {\n  lookbackStep = \"1m\"\n}\n", true},
		{"check \"promql/series\" {\n  lookbackStep = \"0s\"\n}\n", false},
		{"prometheus \"p\" {\n  uri = \"http://127.0.0.1:9\"\n  concurrency = 64\n}\n", true},
		{"prometheus \"p\" {\n  uri = \"http://127.0.0.1:9\"\n  concurrency = 999999999999\n}\n", false},
		{"repository {\n  gitlab {\n    project = 1\n    timeout = \"30s\"\n  }\n}\n", true},
		{"repository {\n  gitlab {\n    project = 1\n    timeout = \"banana\"\n  }\n}\n", false},
	} {
		_, err := pipe.LoadConfig(dir, c.cfg)
		r.Case("later"+c.cfg, true)
		r.Count(fmt.Sprintf("later-interpreted-load:%v", c.loads))
		if (err == nil) != c.loads {
			r.Violate(hx.Violation{Class: "value-interpreted-later-not-validated", Input: map[string]any{"config": c.cfg}, Observed: map[string]any{"loads": err == nil, "error": fmt.Sprint(err)},
				Expected: map[string]any{"loads": c.loads}})
		}
	}
	if os.Getenv("PINT_BIN") == "" {
		return
	}
	_ = os.WriteFile(filepath.Join(dir, "r.yml"), []byte("groups:\n- name: g\n  rules:\n  - record: a:b\n    expr: sum(up)\n"), 0o644)
	_ = os.Remove(filepath.Join(dir, ".pint.hcl"))
	for _, args := range [][]string{
		{"--offline", "--workers", "999999999999", "lint", "r.yml"},
		{"--offline", "watch", "--listen", "127.0.0.1:0", "--interval", "0s", "glob", "r.yml"},
		{"--offline", "watch", "--listen", "127.0.0.1:0", "--interval", "-5s", "glob", "r.yml"},
	} {
		res := hx.RunCmd(dir, 20*time.Second, nil, hx.PintBin(), append([]string{"--no-color", "-l", "error"}, args...)...)
		r.Case("flags"+fmt.Sprint(args), true)
		r.Count("later-interpreted-flags")
		if strings.Contains(res.Stderr, "panic:") || strings.Contains(res.Stderr, "goroutine ") || res.Exit == 0 || res.Exit < 0 {
			r.Violate(hx.Violation{Class: "flag-value-crashes-or-hangs", Input: map[string]any{"args": args}, Observed: map[string]any{"exit": res.Exit, "stderr": tail(res.Stderr, 800)},
				Expected: "an error message and a non-zero exit status"})
		}
	}
}
