package main

import (
	"bytes"
	"errors"
	"io"
	"strings"
	"unicode/utf8"

	"github.com/prometheus/common/model"
	"github.com/prometheus/prometheus/promql"
	promParser "github.com/prometheus/prometheus/promql/parser"
	"github.com/prometheus/prometheus/template"
	"gopkg.in/yaml.v3"
)

// c01Doc abstracts the YAML document into the Lean model's Doc (JSON form). ok=false when the document is outside
// the modelled domain: YAML that does not parse, aliases/merge keys, non-string scalars (int, bool, float) where a
// string / duration is expected, non-string mapping keys.
func c01Doc(content []byte) (map[string]any, bool) {
	dec := yaml.NewDecoder(bytes.NewReader(content))
	var docs []*yaml.Node
	for {
		var n yaml.Node
		err := dec.Decode(&n)
		if errors.Is(err, io.EOF) {
			break
		}
		if err != nil {
			return nil, false
		}
		docs = append(docs, &n)
	}
	d := map[string]any{"empty": len(docs) == 0, "isMap": false, "unknownKey": false, "dupGroups": false, "multiDoc": len(docs) > 1, "groups": "absent"}
	if len(docs) == 0 {
		return d, true
	}
	root := docs[0]
	if root.Kind == yaml.DocumentNode && len(root.Content) == 1 {
		root = root.Content[0]
	}
	ok := true
	var bad func(n *yaml.Node)
	bad = func(n *yaml.Node) {
		if n.Kind == yaml.AliasNode || n.Anchor != "" {
			ok = false
		}
		for _, c := range n.Content {
			bad(c)
		}
	}
	for _, dn := range docs {
		bad(dn)
	}
	if !ok {
		return nil, false
	}
	if root.Kind != yaml.MappingNode {
		if root.Kind == yaml.ScalarNode && root.ShortTag() == "!!null" {
			// an empty document: both loaders treat it as no groups
			d["empty"] = true
			return d, len(docs) == 1
		}
		return d, true
	}
	d["isMap"] = true
	sv := func(n *yaml.Node) string {
		switch {
		case n.Kind == yaml.SequenceNode || n.Kind == yaml.MappingNode:
			return "coll"
		case n.ShortTag() == "!!null":
			return "null"
		case n.ShortTag() == "!!str":
			if n.Value == "" {
				return "empty"
			}
			return "val"
		case n.ShortTag() == "!!int", n.ShortTag() == "!!bool", n.ShortTag() == "!!float":
			// pint refuses the type; yaml.v3 hands the scalar's text to Prometheus's string fields
			return "other"
		}
		ok = false
		return "coll"
	}
	dv := func(n *yaml.Node) string {
		s := sv(n)
		if s == "empty" || s == "val" || s == "other" {
			dur, err := model.ParseDuration(n.Value)
			v := "valid"
			switch {
			case err != nil:
				v = "invalid"
			case dur == 0:
				v = "zero"
			}
			if s == "other" {
				return "other" + strings.ToUpper(v[:1]) + v[1:]
			}
			return v
		}
		return s
	}
	tmplOK := func(text string, alert bool) bool {
		defs := "{{$labels := .Labels}}{{$externalLabels := .ExternalLabels}}{{$externalURL := .ExternalURL}}{{$value := .Value}}"
		tmpl := template.NewTemplateExpander(nil, defs+text, "x", template.AlertTemplateData(map[string]string{}, map[string]string{}, "", promql.Sample{}), model.Time(0), nil, nil, nil)
		return tmpl.ParseTest() == nil
	}
	mapV := func(n *yaml.Node, isAnnotations bool) map[string]any {
		m := map[string]any{"kind": "absent", "dupKey": false, "collValue": false, "badName": false, "metricName": false, "badValue": false, "badTemplate": false, "nonEmpty": false, "otherValue": false}
		if n == nil {
			return m
		}
		switch {
		case n.Kind == yaml.MappingNode:
			m["kind"] = "map"
		case n.Kind == yaml.ScalarNode && n.ShortTag() == "!!null":
			m["kind"] = "null"
			return m
		default:
			m["kind"] = "notMap"
			return m
		}
		seen := map[string]bool{}
		for i := 0; i+1 < len(n.Content); i += 2 {
			k, v := n.Content[i], n.Content[i+1]
			m["nonEmpty"] = true
			if k.Kind != yaml.ScalarNode || k.ShortTag() != "!!str" {
				ok = false
				continue
			}
			if seen[k.Value] {
				m["dupKey"] = true
			}
			seen[k.Value] = true
			if !model.LabelName(k.Value).IsValid() {
				m["badName"] = true
			}
			if k.Value == model.MetricNameLabel {
				m["metricName"] = true
			}
			switch {
			case v.Kind != yaml.ScalarNode:
				m["collValue"] = true
			case v.ShortTag() == "!!null":
			case v.ShortTag() == "!!str", v.ShortTag() == "!!int", v.ShortTag() == "!!bool", v.ShortTag() == "!!float":
				if v.ShortTag() != "!!str" {
					m["otherValue"] = true
				}
				if !utf8.ValidString(v.Value) {
					m["badValue"] = true
				}
				if !tmplOK(v.Value, true) {
					m["badTemplate"] = true
				}
			default:
				ok = false
			}
		}
		return m
	}
	for i := 0; i+1 < len(root.Content); i += 2 {
		k, v := root.Content[i], root.Content[i+1]
		if k.Kind != yaml.ScalarNode || k.ShortTag() != "!!str" || k.Value != "groups" {
			d["unknownKey"] = true
			continue
		}
		if d["groups"] != "absent" {
			d["dupGroups"] = true
			continue
		}
		switch {
		case v.Kind == yaml.ScalarNode && v.ShortTag() == "!!null":
			d["groups"] = "null"
		case v.Kind != yaml.SequenceNode:
			d["groups"] = "notSeq"
		default:
			gs := []any{}
			for _, gn := range v.Content {
				g := map[string]any{"isNull": gn.Kind == yaml.ScalarNode && gn.ShortTag() == "!!null", "isMap": gn.Kind == yaml.MappingNode, "name": "absent", "nameText": "", "interval": "absent", "queryOffset": "absent",
					"limit": "absent", "labels": mapV(nil, false), "rules": "absent", "unknownKey": false, "duplicateKey": false}
				if gn.Kind == yaml.MappingNode {
					seen := map[string]bool{}
					for j := 0; j+1 < len(gn.Content); j += 2 {
						gk, gv := gn.Content[j], gn.Content[j+1]
						if gk.Kind != yaml.ScalarNode || gk.ShortTag() != "!!str" {
							ok = false
							continue
						}
						if seen[gk.Value] {
							g["duplicateKey"] = true
							continue
						}
						seen[gk.Value] = true
						switch gk.Value {
						case "name":
							g["name"] = sv(gv)
							g["nameText"] = gv.Value
						case "interval":
							g["interval"] = dv(gv)
						case "query_offset":
							g["queryOffset"] = dv(gv)
						case "limit":
							switch {
							case gv.Kind == yaml.ScalarNode && gv.ShortTag() == "!!int":
								g["limit"] = "int"
							case gv.Kind == yaml.ScalarNode && gv.ShortTag() == "!!null":
								g["limit"] = "null"
							case gv.Kind != yaml.ScalarNode, gv.ShortTag() == "!!str", gv.ShortTag() == "!!bool":
								g["limit"] = "other" // neither loader takes it
							default:
								ok = false // a float: yaml.v3's float-to-int rules are outside the model
							}
						case "labels":
							g["labels"] = mapV(gv, false)
						case "rules":
							switch {
							case gv.Kind == yaml.ScalarNode && gv.ShortTag() == "!!null":
								g["rules"] = "null"
							case gv.Kind != yaml.SequenceNode:
								g["rules"] = "notSeq"
							default:
								rs := []any{}
								for _, rn := range gv.Content {
									r := map[string]any{"isNull": rn.Kind == yaml.ScalarNode && rn.ShortTag() == "!!null", "isMap": rn.Kind == yaml.MappingNode, "record": "absent", "alert": "absent", "expr": "absent", "recordValid": true,
										"recordBraces": false, "exprParses": true, "for": "absent", "keepFiring": "absent", "labels": mapV(nil, false),
										"annotations": mapV(nil, true), "unknownKey": false, "duplicateKey": false}
									if rn.Kind == yaml.MappingNode {
										rseen := map[string]bool{}
										for q := 0; q+1 < len(rn.Content); q += 2 {
											rk, rv := rn.Content[q], rn.Content[q+1]
											if rk.Kind != yaml.ScalarNode || rk.ShortTag() != "!!str" {
												ok = false
												continue
											}
											if rseen[rk.Value] {
												r["duplicateKey"] = true
												continue
											}
											rseen[rk.Value] = true
											switch rk.Value {
											case "record":
												r["record"] = sv(rv)
												r["recordValid"] = model.IsValidMetricName(model.LabelValue(rv.Value))
												r["recordBraces"] = strings.ContainsAny(rv.Value, "{}")
											case "alert":
												r["alert"] = sv(rv)
											case "expr":
												r["expr"] = sv(rv)
												_, perr := promParser.ParseExpr(rv.Value)
												r["exprParses"] = perr == nil
											case "for":
												r["for"] = dv(rv)
											case "keep_firing_for":
												r["keepFiring"] = dv(rv)
											case "labels":
												r["labels"] = mapV(rv, false)
											case "annotations":
												r["annotations"] = mapV(rv, true)
											default:
												r["unknownKey"] = true
											}
										}
									}
									rs = append(rs, r)
								}
								g["rules"] = rs
							}
						default:
							g["unknownKey"] = true
						}
					}
				}
				gs = append(gs, g)
			}
			d["groups"] = gs
		}
	}
	return d, ok
}
