// corr: correspondence + property-observation runner. One sub-command per property.
//
//	corr <Cxx> -seed S -n N -tier quick|thorough -out DIR [-replay FILE]
package main

import (
	"flag"
	"fmt"
	"io"
	"log/slog"
	"os"

	"github.com/cloudflare/pint/verifharness/hx"
)

type propFn func(r *hx.Run, replay string)

var props = map[string]propFn{}

func main() {
	if len(os.Args) < 2 {
		fmt.Fprintln(os.Stderr, "usage: corr <Cxx> [flags]")
		os.Exit(2)
	}
	prop := os.Args[1]
	fs := flag.NewFlagSet("corr", flag.ExitOnError)
	seed := fs.Int64("seed", 1, "PRNG seed")
	n := fs.Int("n", 100, "case budget")
	tier := fs.String("tier", "quick", "tier")
	out := fs.String("out", "", "output directory")
	replay := fs.String("replay", "", "replay file")
	_ = fs.Parse(os.Args[2:])
	fn, ok := props[prop]
	if !ok {
		fmt.Fprintln(os.Stderr, "unknown property", prop)
		os.Exit(2)
	}
	slog.SetDefault(slog.New(slog.NewTextHandler(io.Discard, nil)))
	r := hx.New(prop, *seed, *n, *tier, *out)
	fn(r, *replay)
	r.Close()
}
