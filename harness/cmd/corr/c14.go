package main

// C14: identical questions reach a Prometheus server once; concurrency stays bounded.
// K concurrent callers ask a small set of questions through the real promapi stack (FailoverGroup, worker pool,
// partition locker, query cache) against a fake server that logs request start/end with a global sequence.
// The observed log is judged by predicates that are proved for every trace of the Lean model (Model/Flight.lean);
// the same predicates are evaluated by the Lean driver on the same log (flightlog op).

import (
	"context"
	"encoding/json"
	"fmt"
	"math"
	"net/http"
	"net/http/httptest"
	"os"
	"runtime"
	"sort"
	"strconv"
	"strings"
	"sync"
	"sync/atomic"
	"time"

	"github.com/prometheus/client_golang/prometheus"

	"github.com/cloudflare/pint/internal/promapi"
	"github.com/cloudflare/pint/verifharness/hx"
)

func init() { props["C14"] = runC14 }

type c14Event struct {
	Seq  int64  `json:"seq"`
	Kind string `json:"kind"` // S = request arrived, E = response sent
	Key  string `json:"key"`
	OK   bool   `json:"ok"`
}

type c14Server struct {
	mu        sync.Mutex
	events    []c14Event
	seq       atomic.Int64
	inflight  atomic.Int64
	peak      atomic.Int64
	cancelled atomic.Int64
	delayMs   int
	errEvery  int // every n-th request of a key fails (0 = never)
	counts    map[string]int
	onRequest func() // called when a request has arrived, before it is delayed
}

func (s *c14Server) log(kind, key string, ok bool) int64 {
	s.mu.Lock()
	defer s.mu.Unlock()
	n := s.seq.Add(1)
	s.events = append(s.events, c14Event{Seq: n, Kind: kind, Key: key, OK: ok})
	return n
}

// the question a request asks, in the terms pint's cache keys use
func c14ReqKey(r *http.Request) string {
	_ = r.ParseForm()
	switch r.URL.Path {
	case "/api/v1/query":
		return "query|" + r.Form.Get("query")
	case "/api/v1/query_range":
		st, _ := strconv.ParseFloat(r.Form.Get("start"), 64)
		en, _ := strconv.ParseFloat(r.Form.Get("end"), 64)
		step, _ := strconv.ParseFloat(r.Form.Get("step"), 64)
		if step <= 0 {
			step = 1
		}
		// a range question is its expression, its step and its two ends to the step (what the cache key hashes)
		start := time.Unix(0, int64(st*1e9)).UTC().Round(time.Duration(step * float64(time.Second)))
		end := time.Unix(0, int64(en*1e9)).UTC().Round(time.Duration(step * float64(time.Second)))
		return fmt.Sprintf("range|%s|%s|%s|%v", r.Form.Get("query"), start.Format(time.RFC3339), end.Format(time.RFC3339), step)
	case "/api/v1/status/config":
		return "config"
	case "/api/v1/status/flags":
		return "flags"
	case "/api/v1/metadata":
		return "metadata|" + r.Form.Get("metric")
	}
	return "other|" + r.URL.Path
}

func (s *c14Server) ServeHTTP(w http.ResponseWriter, r *http.Request) {
	key := c14ReqKey(r)
	cur := s.inflight.Add(1)
	for {
		p := s.peak.Load()
		if cur <= p || s.peak.CompareAndSwap(p, cur) {
			break
		}
	}
	n := s.log("S", key, true)
	if s.onRequest != nil {
		s.onRequest()
	}
	s.mu.Lock()
	s.counts[key]++
	cnt := s.counts[key]
	s.mu.Unlock()
	if s.delayMs > 0 {
		select {
		case <-time.After(time.Duration(1+int(n)%s.delayMs) * time.Millisecond):
		case <-r.Context().Done():
		}
	} else {
		runtime.Gosched()
	}
	if r.Context().Err() != nil {
		// the client gave up on this request (a sibling slice failed): from its side the request ended earlier than
		// we can know, so in-flight counts of this run are not judged
		s.cancelled.Add(1)
	}
	fail := s.errEvery > 0 && cnt%s.errEvery == 1
	s.inflight.Add(-1)
	s.log("E", key, !fail)
	w.Header().Set("Content-Type", "application/json")
	if fail {
		w.WriteHeader(500)
		_, _ = w.Write([]byte(`{"status":"error","errorType":"internal","error":"boom"}`))
		return
	}
	switch r.URL.Path {
	case "/api/v1/query":
		fmt.Fprintf(w, `{"status":"success","data":{"resultType":"vector","result":[{"metric":{"__name__":"x","seq":"%d"},"value":[1,"1"]}]}}`, n)
	case "/api/v1/query_range":
		st, _ := strconv.ParseFloat(r.Form.Get("start"), 64)
		fmt.Fprintf(w, `{"status":"success","data":{"resultType":"matrix","result":[{"metric":{"__name__":"x","seq":"%d"},"values":[[%d,"1"]]}]}}`, n, int64(math.Ceil(st)))
	case "/api/v1/status/config":
		fmt.Fprintf(w, `{"status":"success","data":{"yaml":"global:\n  scrape_interval: 1m\n  external_labels:\n    seq: \"%d\"\n"}}`, n)
	case "/api/v1/status/flags":
		fmt.Fprintf(w, `{"status":"success","data":{"seq":"%d"}}`, n)
	case "/api/v1/metadata":
		fmt.Fprintf(w, `{"status":"success","data":{"%s":[{"type":"gauge","help":"seq %d","unit":""}]}}`, r.Form.Get("metric"), n)
	default:
		w.WriteHeader(404)
	}
}

type c14Trace struct {
	Ev  string
	ID  string
	Key uint64
}

// turn the traced steps into model actions: every lock hold that carries a job becomes a holder
// (acquire+enqueue at the lock event, release at the unlock event); holds without a job (the outer lock of a range
// query) are not modelled. Returns the lockOf table and the action list.
func c14Actions(tr []c14Trace) (string, string, map[string]int) {
	stat := map[string]int{}
	lkID := map[string]int{}
	keyID := map[uint64]int{}
	id := func(m map[string]int, k string) int {
		if _, ok := m[k]; !ok {
			m[k] = len(m) + 1
		}
		return m[k]
	}
	kid := func(k uint64) int {
		if _, ok := keyID[k]; !ok {
			keyID[k] = len(keyID) + 1
		}
		return keyID[k]
	}
	lockIDOf := func(t c14Trace) string { // the lock id that guards a job, from what the worker sees
		parts := strings.SplitN(t.ID, "\x00", 2)
		if len(parts) != 2 {
			return "?"
		}
		if parts[0] == promapi.APIPathQueryRange {
			return strconv.FormatUint(t.Key, 10)
		}
		if parts[0] == promapi.APIPathConfig || parts[0] == promapi.APIPathFlags {
			return parts[0]
		}
		return parts[0] + parts[1]
	}
	// pass 1: the job of every lock hold
	jobOf := map[int]uint64{} // index of lock event -> cache key
	hasJob := map[int]bool{}
	open := map[string]int{} // lock id -> index of its lock event
	for i, t := range tr {
		switch t.Ev {
		case "lock":
			open[t.ID] = i
		case "unlock":
			delete(open, t.ID)
		case "take":
			if li, ok := open[lockIDOf(t)]; ok && !hasJob[li] {
				jobOf[li], hasJob[li] = t.Key, true
			} else {
				stat["take-without-lock-hold"]++
			}
		}
	}
	// pass 2
	var acts []string
	table := map[int]int{}
	var tab []string
	holderOfKey := map[uint64]int{} // cache key -> lk id of the hold that carries it now
	openJob := map[string]bool{}
	for i, t := range tr {
		switch t.Ev {
		case "lock":
			if hasJob[i] {
				l, k := id(lkID, t.ID), kid(jobOf[i])
				if old, ok := table[k]; ok && old != l {
					stat["cache-key-under-two-lock-keys"]++
				} else if !ok {
					table[k] = l
					tab = append(tab, fmt.Sprintf("%d=%d", k, l))
				}
				acts = append(acts, fmt.Sprintf("acquire:%d:%d", l, k), fmt.Sprintf("enqueue:%d", l))
				holderOfKey[jobOf[i]] = l
				openJob[t.ID] = true
			} else {
				stat["lock-hold-without-job"]++
			}
		case "unlock":
			if openJob[t.ID] {
				acts = append(acts, fmt.Sprintf("release:%d", id(lkID, t.ID)))
				delete(openJob, t.ID)
			}
		case "take", "hit", "miss", "unsupported", "send", "resperr", "set":
			acts = append(acts, fmt.Sprintf("%s:%d", t.Ev, holderOfKey[t.Key]))
		case "respok":
			acts = append(acts, fmt.Sprintf("respok:%d:1", holderOfKey[t.Key]))
		}
		stat["ev:"+t.Ev]++
	}
	return strings.Join(tab, ","), strings.Join(acts, " "), stat
}

type c14Case struct {
	Workers    int      `json:"concurrency"`
	Callers    int      `json:"callers"`
	Questions  []string `json:"questions"`
	DelayMs    int      `json:"server_delay_ms"`
	ErrEvery   int      `json:"server_error_every"`
	GoMaxProcs int      `json:"gomaxprocs"`
	Rounds     int      `json:"rounds_per_caller"`
	Seed       int64    `json:"seed"`
	Sweeps     bool     `json:"cache_sweeps_during_run"`
}

type c14Result struct {
	Question string
	Value    string
	Err      bool
}

func c14Ask(fg *promapi.FailoverGroup, q string) c14Result {
	ctx := context.Background()
	parts := strings.Split(q, "|")
	res := c14Result{Question: q}
	switch parts[0] {
	case "query":
		qr, err := fg.Query(ctx, parts[1])
		if err != nil {
			res.Err = true
		} else {
			res.Value = fmt.Sprint(qr.Series)
		}
	case "range":
		lb, _ := time.ParseDuration(parts[2])
		step, _ := time.ParseDuration(parts[3])
		_, err := fg.RangeQuery(ctx, parts[1], promapi.NewRelativeRange(lb, step))
		res.Err = err != nil
	case "arange": // absolute range: arange|expr|start|end|step (unix seconds)
		st, _ := strconv.ParseInt(parts[2], 10, 64)
		en, _ := strconv.ParseInt(parts[3], 10, 64)
		sp, _ := strconv.ParseInt(parts[4], 10, 64)
		_, err := fg.RangeQuery(ctx, parts[1], absRange{start: time.Unix(st, 0), end: time.Unix(en, 0), step: time.Duration(sp) * time.Second})
		res.Err = err != nil
	case "config":
		c, err := fg.Config(ctx, time.Minute)
		if err != nil {
			res.Err = true
		} else {
			res.Value = fmt.Sprint(c.Config)
		}
	case "flags":
		f, err := fg.Flags(ctx)
		if err != nil {
			res.Err = true
		} else {
			res.Value = fmt.Sprint(f.Flags)
		}
	case "metadata":
		m, err := fg.Metadata(ctx, parts[1])
		if err != nil {
			res.Err = true
		} else {
			res.Value = fmt.Sprint(m.Metadata)
		}
	}
	return res
}

// predicates on the server log (the same ones the Lean driver decides)
type c14Verdict struct {
	Peak        int    // maximum number of requests in flight
	Overlap     string // first key seen twice in flight, "" if none
	Resent      string // first key sent again although its previous request succeeded, "" if none
	RangeResent string
}

func c14Judge(events []c14Event, rangeOnly bool) c14Verdict {
	var v c14Verdict
	cur := 0
	open := map[string]int{}
	lastOK := map[string]bool{}
	for _, e := range events {
		isRange := strings.HasPrefix(e.Key, "range|")
		if e.Kind == "S" {
			cur++
			if cur > v.Peak {
				v.Peak = cur
			}
			open[e.Key]++
			if open[e.Key] > 1 && v.Overlap == "" && isRange == rangeOnly {
				v.Overlap = e.Key
			}
			if lastOK[e.Key] && v.Resent == "" && isRange == rangeOnly {
				v.Resent = e.Key
			}
		} else {
			cur--
			open[e.Key]--
			if e.OK {
				lastOK[e.Key] = true
			} else {
				lastOK[e.Key] = false
			}
		}
	}
	return v
}

func c14Eval(r *hx.Run, cs c14Case) {
	old := runtime.GOMAXPROCS(cs.GoMaxProcs)
	defer runtime.GOMAXPROCS(old)
	srv := &c14Server{delayMs: cs.DelayMs, errEvery: cs.ErrEvery, counts: map[string]int{}}
	ts := httptest.NewServer(srv)
	defer ts.Close()
	prom := promapi.NewPrometheus("p", ts.URL, "", nil, 10*time.Second, cs.Workers, 100000, nil)
	fg := promapi.NewFailoverGroup("p", ts.URL, []*promapi.Prometheus{prom}, true, "up", nil, nil, nil)
	reg := prometheus.NewRegistry()
	fg.StartWorkers(reg)
	defer fg.Close(reg)

	var tmu sync.Mutex
	var trace []c14Trace
	tf := func(ev, id string, key uint64) {
		tmu.Lock()
		trace = append(trace, c14Trace{ev, id, key})
		tmu.Unlock()
	}
	promapi.VerifTraceFn.Store(&tf)
	defer promapi.VerifTraceFn.Store(nil)

	var mu sync.Mutex
	var results []c14Result
	var wg sync.WaitGroup
	start := make(chan struct{})
	for c := 0; c < cs.Callers; c++ {
		wg.Add(1)
		go func(c int) {
			defer wg.Done()
			<-start
			for k := 0; k < cs.Rounds; k++ {
				q := cs.Questions[int(uint64(cs.Seed+int64(c*31+k*17))%uint64(len(cs.Questions)))]
				res := c14Ask(fg, q)
				if cs.Sweeps && (c+k)%3 == 0 {
					// a cache sweep in the middle of the run: nothing is old enough to go
					fg.CleanCache()
				}
				mu.Lock()
				results = append(results, res)
				mu.Unlock()
			}
		}(c)
	}
	close(start)
	done := make(chan struct{})
	go func() { wg.Wait(); close(done) }()
	select {
	case <-done:
	case <-time.After(60 * time.Second):
		r.Violate(hx.Violation{Class: "deadlock-or-timeout", Input: cs, Observed: "callers did not finish within 60s", Expected: "every caller returns"})
		return
	}
	srv.mu.Lock()
	events := append([]c14Event{}, srv.events...)
	srv.mu.Unlock()

	r.Case(fmt.Sprint(cs), cs.Callers > 1)
	r.Count(fmt.Sprintf("workers:%d", cs.Workers))
	r.CountN("requests", len(events)/2)
	r.CountN("calls", len(results))

	// the traced steps of the real request path must be a run of the model (Flight.runActs accepts it)
	// slice goroutines of a range query release their lock after the caller has its result: wait for them
	var tr []c14Trace
	for w := 0; w < 400; w++ {
		tmu.Lock()
		tr = append([]c14Trace{}, trace...)
		tmu.Unlock()
		n := 0
		for _, t := range tr {
			switch t.Ev {
			case "lock":
				n++
			case "unlock":
				n--
			}
		}
		if n == 0 {
			break
		}
		time.Sleep(5 * time.Millisecond)
	}
	tab, acts, tstat := c14Actions(tr)
	for k, v := range tstat {
		r.CountN("trace:"+k, v)
	}
	r.Op(fmt.Sprintf("flightrun\t%d\t%s\t%s", cs.Workers, tab, acts), "accepted peak-ok=true holders-left=0")

	// the Lean driver decides the same predicates on the same log
	var enc []string
	keyID := map[string]int{}
	for _, e := range events {
		if _, ok := keyID[e.Key]; !ok {
			keyID[e.Key] = len(keyID)
		}
		ok := 0
		if e.OK {
			ok = 1
		}
		enc = append(enc, fmt.Sprintf("%s:%d:%d", e.Kind, keyID[e.Key], ok))
	}
	all := c14Judge(events, false)
	rng := c14Judge(events, true)
	ovl, res := -1, -1
	first := func(vs ...string) int {
		best := -1
		for _, e := range events {
			for _, v := range vs {
				if v != "" && e.Key == v {
					return keyID[v]
				}
			}
		}
		return best
	}
	_ = first
	// (driver answers: peak, whether any key overlaps, whether any key was re-sent after success)
	anyOvl := all.Overlap != "" || rng.Overlap != ""
	anyRes := all.Resent != "" || rng.Resent != ""
	_, _ = ovl, res
	r.Op("flightlog\t"+strings.Join(enc, " "), fmt.Sprintf("peak=%d overlap=%v resent=%v", all.Peak, anyOvl, anyRes))

	cancelled := srv.cancelled.Load() > 0
	if cancelled {
		r.Count("run-with-cancelled-requests(in-flight not judged)")
	}
	if !cancelled && (int(srv.peak.Load()) > cs.Workers || all.Peak > cs.Workers) {
		r.Violate(hx.Violation{Class: "in-flight-above-concurrency", Input: cs, Observed: map[string]any{"peak": all.Peak, "server_peak": srv.peak.Load()}, Expected: fmt.Sprintf("at most %d requests in flight", cs.Workers)})
		return
	}
	if all.Overlap != "" {
		r.Violate(hx.Violation{Class: "identical-requests-overlap", Input: cs, Observed: map[string]any{"key": all.Overlap, "log": c14Window(events, all.Overlap)}, Expected: "identical requests are never in flight at the same time"})
		return
	}
	if all.Resent != "" {
		r.Violate(hx.Violation{Class: "question-sent-again-after-success", Input: cs, Observed: map[string]any{"key": all.Resent, "log": c14Window(events, all.Resent)}, Expected: "a successful answer is reused for its cache lifetime"})
		return
	}
	// a failed slice cancels its siblings: the server may have answered a slice the client no longer took, so
	// slice-level reuse is only judged on runs without injected errors
	rangeJudged := cs.ErrEvery == 0 && !cancelled
	if !rangeJudged {
		r.Count("range-slices-not-judged(errors injected)")
	}
	if rng.Overlap != "" && rangeJudged {
		r.Violate(hx.Violation{Class: "identical-range-slices-overlap", Input: cs, Observed: map[string]any{"key": rng.Overlap, "log": c14Window(events, rng.Overlap)}, Expected: "identical range slices are never in flight at the same time"})
		return
	}
	if rng.Resent != "" && rangeJudged {
		r.Violate(hx.Violation{Class: "range-slice-sent-again-after-success", Input: cs, Observed: map[string]any{"key": rng.Resent, "log": c14Window(events, rng.Resent)}, Expected: "a successful slice answer is reused for its cache lifetime"})
		return
	}
	// equal results: all successful callers of one question whose request succeeded exactly once agree
	okCount := map[string]int{}
	for _, e := range events {
		if e.Kind == "E" && e.OK {
			okCount[e.Key]++
		}
	}
	byQ := map[string]map[string]int{}
	for _, res := range results {
		if res.Err || strings.HasPrefix(res.Question, "range|") {
			continue
		}
		if byQ[res.Question] == nil {
			byQ[res.Question] = map[string]int{}
		}
		byQ[res.Question][res.Value]++
	}
	for q, vals := range byQ {
		if len(vals) > 1 {
			r.Violate(hx.Violation{Class: "callers-got-different-results", Input: cs, Observed: map[string]any{"question": q, "values": vals}, Expected: "all callers of one question receive equal results"})
			return
		}
	}
	if os.Getenv("C14_DUMP") != "" {
		for _, e := range events {
			fmt.Fprintln(os.Stderr, e.Seq, e.Kind, e.Key, e.OK)
		}
	}
	r.Sample(map[string]any{"case": cs, "requests": len(events) / 2, "peak": all.Peak})
}

func c14Window(events []c14Event, key string) []c14Event {
	var out []c14Event
	for _, e := range events {
		if e.Key == key {
			out = append(out, e)
		}
		if len(out) >= 12 {
			break
		}
	}
	return out
}

// random operation sequences on the real queryCache (clock under our control) against the Lean cache model
func c14CacheOps(r *hx.Run) {
	rr := r.Rng
	maxStale := int64(hx.Pick(rr, []int{50, 100, 1000}))
	vc := promapi.VerifNewCache(time.Duration(maxStale), time.Unix(0, 0).UTC())
	var ops, outs []string
	now := int64(0)
	expires := map[uint64]int64{} // key -> end of the lifetime it was stored with (positive ttl only)
	violated := false
	for i, n := 0, 5+rr.Intn(40); i < n; i++ {
		k := uint64(rr.Intn(4))
		switch rr.Intn(7) {
		case 0, 1:
			v, ttl := rr.Intn(100), hx.Pick(rr, []int{0, 0, 10, 60, 200})
			vc.Set(k, v, time.Duration(ttl))
			delete(expires, k)
			if ttl > 0 {
				expires[k] = now + int64(ttl)
			}
			ops = append(ops, fmt.Sprintf("s:%d:%d:%d", k, v, ttl))
		case 2, 3:
			v, ok := vc.Get(k)
			ops = append(ops, fmt.Sprintf("g:%d", k))
			if e, has := expires[k]; ok && has && now > e && !violated {
				// the property itself: reused for its cache lifetime, not longer
				violated = true
				r.Violate(hx.Violation{Class: "answer-served-after-its-lifetime", Input: map[string]any{"max_stale": maxStale, "ops": strings.Join(ops, " ")},
					Observed: fmt.Sprintf("get(%d) at t=%d is a hit", k, now), Expected: fmt.Sprintf("a miss: the entry's lifetime ended at t=%d", e)})
			}
			if ok {
				outs = append(outs, fmt.Sprintf("h%d", v.(int)))
			} else {
				outs = append(outs, "m")
			}
		case 4, 5:
			d := hx.Pick(rr, []int{1, 5, 10, 30, 49, 50, 51, 99, 100, 101})
			vc.Advance(time.Duration(d))
			now += int64(d)
			ops = append(ops, fmt.Sprintf("a:%d", d))
		case 6:
			vc.GC()
			ks := vc.Keys()
			sort.Slice(ks, func(i, j int) bool { return ks[i] < ks[j] })
			var kk []string
			for _, k := range ks {
				kk = append(kk, fmt.Sprint(k))
			}
			ops = append(ops, "c")
			outs = append(outs, "["+strings.Join(kk, ",")+"]e"+fmt.Sprint(vc.Evictions()))
		}
	}
	r.Op(fmt.Sprintf("cacheops\t%d\t%s", maxStale, strings.Join(ops, " ")), strings.Join(outs, " "))
	r.Count("cache-op-sequences")
}

func runC14(r *hx.Run, replay string) {
	if replay != "" {
		b, err := os.ReadFile(replay)
		if err != nil {
			panic(err)
		}
		var rp struct {
			Input c14Case `json:"input"`
		}
		if err := json.Unmarshal(b, &rp); err != nil {
			panic(err)
		}
		// schedules are not replayable exactly: repeat the case
		for i := 0; i < 20; i++ {
			c14Eval(r, rp.Input)
		}
		return
	}
	rr := r.Rng
	exprs := []string{"up", "sum(foo)", "count(bar) by (job)"}
	for i := 0; i < r.N; i++ {
		cs := c14Case{Workers: 1 + rr.Intn(8), Callers: 2 + rr.Intn(30), DelayMs: hx.Pick(rr, []int{0, 0, 2, 5}), GoMaxProcs: hx.Pick(rr, []int{1, 2, 4, 16}), Rounds: 1 + rr.Intn(3), Seed: rr.Int63n(1 << 30), Sweeps: rr.Intn(2) == 0}
		if rr.Intn(3) == 0 {
			cs.ErrEvery = 2 + rr.Intn(3)
		}
		qs := map[string]bool{}
		for k, n := 0, 1+rr.Intn(5); k < n; k++ {
			switch rr.Intn(6) {
			case 0, 1:
				qs["query|"+hx.Pick(rr, exprs)] = true
			case 2:
				qs["config"] = true
			case 3:
				qs["flags"] = true
			case 4:
				qs["metadata|"+hx.Pick(rr, []string{"foo", "bar"})] = true
			case 5:
				// one lookback per expression: the questions of one case never share slices across lock keys
				e := hx.Pick(rr, exprs)
				qs["range|"+e+"|"+hx.Pick(rr, []string{"6h", "24h"})+"|5m"] = true
			}
		}
		for q := range qs {
			cs.Questions = append(cs.Questions, q)
		}
		sort.Strings(cs.Questions)
		// drop a second lookback for the same range expression (kept for the dedicated stream below)
		seen := map[string]bool{}
		var keep []string
		for _, q := range cs.Questions {
			if strings.HasPrefix(q, "range|") {
				e := strings.Split(q, "|")[1]
				if seen[e] {
					continue
				}
				seen[e] = true
			}
			keep = append(keep, q)
		}
		cs.Questions = keep
		c14Eval(r, cs)
		for k := 0; k < 5; k++ {
			c14CacheOps(r)
		}
		if i%10 == 0 {
			// the same expression under two lookbacks: the slices coincide, the lock keys do not
			cs2 := c14Case{Workers: 4, Callers: 8, DelayMs: 5, GoMaxProcs: 4, Rounds: 1, Seed: rr.Int63n(1 << 30),
				Questions: []string{"range|up|6h|5m", "range|up|24h|5m"}}
			c14Eval(r, cs2)
			// an unsplit query (lookback below the slice size) that is exactly the last slice of a split one
			t0 := int64(1655164800) + 7200*int64(rr.Intn(5))
			cs3 := c14Case{Workers: 4, Callers: 8, DelayMs: 5, GoMaxProcs: 4, Rounds: 1, Seed: rr.Int63n(1 << 30),
				Questions: []string{fmt.Sprintf("arange|up|%d|%d|300", t0, t0+3600), fmt.Sprintf("arange|up|%d|%d|300", t0-4*3600, t0+3600)}}
			c14Eval(r, cs3)
			// an unsplit query asked again a few seconds later (what a relative range with a short lookback is): to the
			// step it is the same question
			d := int64(1 + rr.Intn(100))
			cs4 := c14Case{Workers: 4, Callers: 6, DelayMs: 5, GoMaxProcs: 4, Rounds: 2, Seed: rr.Int63n(1 << 30),
				Questions: []string{fmt.Sprintf("arange|up|%d|%d|300", t0+1, t0+3601), fmt.Sprintf("arange|up|%d|%d|300", t0+1+d, t0+3601+d)}}
			c14Eval(r, cs4)
			c14Cancelled(r)
		}
	}
}

// c14Cancelled: a caller that gives up gets an error, never an empty answer that looks like a successful one
// ("all callers receive equal results")
func c14Cancelled(r *hx.Run) {
	srv := &c14Server{delayMs: 200, counts: map[string]int{}}
	ts := httptest.NewServer(srv)
	defer ts.Close()
	prom := promapi.NewPrometheus("p", ts.URL, "", nil, 10*time.Second, 4, 100000, nil)
	fg := promapi.NewFailoverGroup("p", ts.URL, []*promapi.Prometheus{prom}, true, "up", nil, nil, nil)
	reg := prometheus.NewRegistry()
	fg.StartWorkers(reg)
	defer fg.Close(reg)
	for _, lb := range []time.Duration{time.Hour, 6 * time.Hour} {
		ctx, cancel := context.WithCancel(context.Background())
		// the caller gives up while the server is working on its first request
		srv.onRequest = func() {
			go func() {
				time.Sleep(5 * time.Millisecond)
				cancel()
			}()
		}
		res, err := fg.RangeQuery(ctx, "count(up)", promapi.NewRelativeRange(lb, 5*time.Minute))
		cancel()
		r.Case(fmt.Sprint("cancelled", lb), true)
		r.Count("cancelled-range-calls")
		if err == nil && len(res.Series.Ranges) == 0 {
			r.Violate(hx.Violation{Class: "cancelled-call-looks-successful", Input: map[string]any{"lookback": lb.String(), "question": "count(up)"},
				Observed: "err == nil, 0 ranges", Expected: "an error (a caller that is served gets one range for this question)"})
			return
		}
	}
}
