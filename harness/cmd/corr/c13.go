package main

import (
	"context"
	"encoding/json"
	"fmt"
	"net/http"
	"net/http/httptest"
	"os"
	"sort"
	"strconv"
	"strings"
	"time"

	"github.com/prometheus/common/model"
	"github.com/prometheus/prometheus/model/labels"

	"github.com/cloudflare/pint/internal/promapi"
	"github.com/cloudflare/pint/verifharness/hx"
)

func init() { props["C13"] = runC13 }

type c13Series struct {
	Name      string     `json:"name"`
	Extra     [][2]string `json:"extra_labels,omitempty"` // further labels of this series (label name sets differ between series)
	Intervals [][2]int64 `json:"present"` // absolute unix seconds, inclusive: the series has a sample at t iff t lies in one
}

type c13Case struct {
	Start    int64       `json:"start"`
	End      int64       `json:"end"`
	Step     int64       `json:"step"`
	Series   []c13Series `json:"series"`
	DelaysMs []int       `json:"delays_ms"` // per-request artificial delay (cycled) to shuffle arrival order
}

type absRange struct {
	start, end time.Time
	step       time.Duration
}

func (a absRange) Start() time.Time    { return a.start }
func (a absRange) End() time.Time      { return a.end }
func (a absRange) Dur() time.Duration  { return a.end.Sub(a.start) }
func (a absRange) Step() time.Duration { return a.step }
func (a absRange) String() string {
	return fmt.Sprintf("%d/%d/%d", a.start.Unix(), a.end.Unix(), a.step)
}

func (s c13Series) present(t int64) bool {
	for _, iv := range s.Intervals {
		if iv[0] <= t && t <= iv[1] {
			return true
		}
	}
	return false
}

// c13Spec: maximal runs of consecutive present grid points, each [first, last+step-1s]; the grid starts
// at g0 (start of the first slice) and ends at `end`.
func c13Spec(cs c13Case, g0 int64) map[string][][2]int64 {
	out := map[string][][2]int64{}
	for _, s := range cs.Series {
		var runs [][2]int64
		open := false
		var first, last int64
		for t := g0; t <= cs.End; t += cs.Step {
			if s.present(t) {
				if !open {
					open, first = true, t
				}
				last = t
			} else if open {
				runs = append(runs, [2]int64{first, last + cs.Step - 1})
				open = false
			}
		}
		if open {
			runs = append(runs, [2]int64{first, last + cs.Step - 1})
		}
		out[s.Name] = runs
	}
	return out
}

func c13Eval(r *hx.Run, cs c13Case) {
	reqN := 0
	var reqs []string
	srv := httptest.NewServer(http.HandlerFunc(func(w http.ResponseWriter, req *http.Request) {
		_ = req.ParseForm()
		if req.URL.Path != "/api/v1/query_range" {
			w.WriteHeader(404)
			return
		}
		st, _ := strconv.ParseFloat(req.Form.Get("start"), 64)
		en, _ := strconv.ParseFloat(req.Form.Get("end"), 64)
		sp, _ := strconv.ParseFloat(req.Form.Get("step"), 64)
		idx := reqN
		reqN++
		reqs = append(reqs, fmt.Sprintf("%d-%d", int64(st), int64(en)))
		if len(cs.DelaysMs) > 0 {
			time.Sleep(time.Duration(cs.DelaysMs[idx%len(cs.DelaysMs)]) * time.Millisecond)
		}
		type ss struct {
			Metric map[string]string `json:"metric"`
			Values [][]any           `json:"values"`
		}
		var result []ss
		for _, s := range cs.Series {
			var vals [][]any
			for t := int64(st); t <= int64(en); t += int64(sp) {
				if s.present(t) {
					vals = append(vals, []any{float64(t), "1"})
				}
			}
			if len(vals) > 0 {
				m := map[string]string{"__name__": "m", "s": s.Name}
				for _, kv := range s.Extra {
					m[kv[0]] = kv[1]
				}
				result = append(result, ss{Metric: m, Values: vals})
			}
		}
		if result == nil {
			result = []ss{}
		}
		w.Header().Set("Content-Type", "application/json")
		_ = json.NewEncoder(w).Encode(map[string]any{"status": "success", "data": map[string]any{"resultType": "matrix", "result": result}})
	}))
	defer srv.Close()
	prom := promapi.NewPrometheus("fake", srv.URL, "", nil, 10*time.Second, 4, 1000, nil)
	prom.StartWorkers()
	defer prom.Close()
	ar := absRange{start: time.Unix(cs.Start, 0), end: time.Unix(cs.End, 0), step: time.Duration(cs.Step) * time.Second}
	type out struct {
		res *promapi.RangeQueryResult
		err error
	}
	ch := make(chan out, 1)
	go func() {
		res, err := prom.RangeQuery(context.Background(), "m", ar)
		ch <- out{res, err}
	}()
	var o out
	select {
	case o = <-ch:
	case <-time.After(20 * time.Second):
		r.Violate(hx.Violation{Class: "range-query-hangs", Input: cs, Observed: "no answer after 20s", Expected: "a result"})
		return
	}
	if o.err != nil {
		r.Violate(hx.Violation{Class: "range-query-error", Input: cs, Observed: o.err.Error()})
		return
	}
	// the grid starts where the first slice starts
	qs := (2 * time.Hour).Round(ar.step)
	if qs < ar.step {
		qs = ar.step
	}
	slices := promapi.VerifSliceRange(ar.start, ar.end, ar.step, qs)
	if qs > ar.Dur() {
		slices = []promapi.TimeRange{{Start: ar.start, End: ar.end}}
	}
	g0 := slices[0].Start.Unix()
	want := c13Spec(cs, g0)
	got := map[string][][2]int64{}
	wantLabels := map[string]string{}
	for _, s := range cs.Series {
		ls := []string{"__name__", "m", "s", s.Name}
		for _, kv := range s.Extra {
			ls = append(ls, kv[0], kv[1])
		}
		wantLabels[s.Name] = labels.FromStrings(ls...).String()
	}
	for _, rg := range o.res.Series.Ranges {
		n := rg.Labels.Get("s")
		// a range is attributed to a series only under that series' exact label set
		if wl, ok := wantLabels[n]; !ok || wl != rg.Labels.String() {
			r.Violate(hx.Violation{Class: "sliced-series-identity", Input: cs, Observed: map[string]any{"labels": rg.Labels.String(), "start": rg.Start.Unix(), "end": rg.End.Unix(), "requests": reqs},
				Expected: map[string]any{"label_sets": wantLabels}})
			return
		}
		got[n] = append(got[n], [2]int64{rg.Start.Unix(), rg.End.Unix()})
	}
	for k := range got {
		sort.Slice(got[k], func(i, j int) bool { return got[k][i][0] < got[k][j][0] })
	}
	nontrivial := len(slices) > 1
	r.Case(fmt.Sprint(cs), nontrivial)
	r.Count(fmt.Sprintf("slices:%d", min(len(slices), 8)))
	r.Count(fmt.Sprintf("step-divides-2h:%v", 7200%cs.Step == 0))
	r.Count(fmt.Sprintf("step-above-4h:%v", cs.Step > 14400))
	r.Sample(map[string]any{"case": cs, "requests": reqs})
	for _, s := range cs.Series {
		if fmt.Sprint(got[s.Name]) != fmt.Sprint(want[s.Name]) {
			r.Violate(hx.Violation{Class: "sliced-vs-unsliced", Input: cs, Observed: map[string]any{"series": s.Name, "ranges": got[s.Name], "requests": reqs},
				Expected: map[string]any{"runs_on_unsliced_grid": want[s.Name], "grid_start": g0}})
			break
		}
	}
}

func showTR(ts []promapi.TimeRange) string {
	var o []string
	for _, t := range ts {
		o = append(o, fmt.Sprintf("%d:%d", t.Start.Unix(), t.End.Unix()))
	}
	return strings.Join(o, ",")
}

func showMTR(ts promapi.MetricTimeRanges) string {
	var o []string
	for _, t := range ts {
		o = append(o, fmt.Sprintf("%d:%d:%d", t.Fingerprint, t.Start.Unix(), t.End.Unix()))
	}
	return strings.Join(o, ",")
}

func jop(name string, v map[string]any) string {
	b, _ := json.Marshal(v)
	return name + "\t" + string(b)
}

func c13Corr(r *hx.Run) {
	rr := r.Rng
	base := int64(1700000000) + int64(rr.Intn(100000))
	steps := []int64{1, 15, 30, 60, 300, 7, 77, 1000, 3600, 5400, 7200, 14400, 61}
	step := hx.Pick(rr, steps)
	// sliceRange
	start := base + int64(rr.Intn(20000))
	end := start + int64(rr.Intn(40000))
	size := int64((2 * time.Hour).Round(time.Duration(step)*time.Second) / time.Second)
	if size > 0 {
		sl := promapi.VerifSliceRange(time.Unix(start, 0), time.Unix(end, 0), time.Duration(step)*time.Second, time.Duration(size)*time.Second)
		r.Op(jop("slice", map[string]any{"start": start, "end": end, "res": step, "size": size}), showTR(sl))
	}
	// plan (slice-size choice of RangeQuery): the model's `plan` vs the hook + the same guards
	{
		st := hx.Pick(rr, []int64{1, 15, 60, 77, 3600, 7200, 14400, 14401, 18000, 43200})
		look := int64(1+rr.Intn(30)) * 1800
		qs := (2 * time.Hour).Round(time.Duration(st) * time.Second)
		if qs < time.Duration(st)*time.Second {
			qs = time.Duration(st) * time.Second
		}
		var sl []promapi.TimeRange
		if qs > time.Duration(look)*time.Second {
			sl = []promapi.TimeRange{{Start: time.Unix(start, 0), End: time.Unix(start+look, 0)}}
		} else {
			sl = promapi.VerifSliceRange(time.Unix(start, 0), time.Unix(start+look, 0), time.Duration(st)*time.Second, qs)
		}
		r.Op(jop("plan", map[string]any{"start": start, "end": start + look, "lookback": look, "step": st}), showTR(sl))
	}
	// AppendSampleToRanges: ascending samples on a grid with holes, possibly onto existing ranges
	ls := labels.FromStrings("s", "a")
	fp := ls.Hash()
	var vals []model.SamplePair
	var vi []int64
	t := start
	for i := 0; i < 1+rr.Intn(12); i++ {
		t += step * int64(1+rr.Intn(3)*rr.Intn(2))
		vals = append(vals, model.SamplePair{Timestamp: model.TimeFromUnix(t), Value: 1})
		vi = append(vi, t)
	}
	if rr.Intn(3) == 0 { // unordered input as well
		rr.Shuffle(len(vals), func(i, j int) { vals[i], vals[j] = vals[j], vals[i]; vi[i], vi[j] = vi[j], vi[i] })
	}
	got := promapi.AppendSampleToRanges(nil, ls, vals, time.Duration(step)*time.Second)
	r.Op(jop("append", map[string]any{"step": step, "fp": 1, "vals": vi, "dst": []any{}}), strings.ReplaceAll(showMTR(got), strconv.FormatUint(fp, 10)+":", "1:"))
	// Overlaps on random pairs around each other
	mk := func() (promapi.MetricTimeRange, []any) {
		s := start + int64(rr.Intn(8))*step + int64(rr.Intn(3)-1)
		e := s + int64(rr.Intn(8))*step + int64(rr.Intn(3)-1)
		if e < s {
			e = s
		}
		return promapi.MetricTimeRange{Fingerprint: 1, Labels: ls, Start: time.Unix(s, 0), End: time.Unix(e, 0)}, []any{1, s, e}
	}
	a, ja := mk()
	b, jb := mk()
	tr, ok := promapi.Overlaps(a, b, time.Duration(step)*time.Second)
	ans := "none"
	if ok {
		ans = fmt.Sprintf("%d:%d", tr.Start.Unix(), tr.End.Unix())
	}
	r.Op(jop("overlaps", map[string]any{"a": ja, "b": jb, "step": step}), ans)
	// MergeRanges on one series: lists of ranges as they come out of slices (and arbitrary ones)
	var l promapi.MetricTimeRanges
	var jl []any
	for i := 0; i < 1+rr.Intn(6); i++ {
		x, jx := mk()
		l = append(l, x)
		jl = append(jl, jx)
	}
	m, _ := promapi.MergeRanges(append(promapi.MetricTimeRanges{}, l...), time.Duration(step)*time.Second)
	sort.Stable(m)
	r.Op(jop("mergeseries", map[string]any{"step": step, "l": jl}), showMTR(m))
}

func runC13(r *hx.Run, replay string) {
	if replay != "" {
		b, err := os.ReadFile(replay)
		if err != nil {
			panic(err)
		}
		var rp struct {
			Input c13Case `json:"input"`
		}
		if err := json.Unmarshal(b, &rp); err != nil {
			panic(err)
		}
		c13Eval(r, rp.Input)
		return
	}
	rr := r.Rng
	for i := 0; i < r.N*10; i++ {
		c13Corr(r)
	}
	steps := []int64{60, 300, 30, 77, 1000, 3600, 5400, 7200, 420, 61, 900, 14400, 18000, 21600, 14401}
	for i := 0; i < r.N; i++ {
		step := hx.Pick(rr, steps)
		base := int64(1700000000) + int64(rr.Intn(200000))
		if rr.Intn(3) == 0 {
			base = base / 7200 * 7200 // aligned to a slice boundary
		}
		look := int64(rr.Intn(8)+1) * 3600
		if step > 14400 {
			look = int64(rr.Intn(4)+1) * 86400
		}
		if rr.Intn(4) == 0 {
			look += int64(rr.Intn(3600))
		}
		cs := c13Case{Start: base, End: base + look, Step: step}
		for si := 0; si < 1+rr.Intn(3); si++ {
			s := c13Series{Name: fmt.Sprintf("s%d", si)}
			for _, k := range []string{"instance", "job", "zone"} {
				if rr.Intn(3) == 0 {
					s.Extra = append(s.Extra, [2]string{k, fmt.Sprintf("%s%d", k, rr.Intn(2))})
				}
			}
			t := base - 7200 - int64(rr.Intn(3600))
			for t < cs.End+3600 {
				var l int64
				switch rr.Intn(5) {
				case 0:
					l = step * int64(rr.Intn(3)) // shorter than / about a step
				case 1:
					l = 7200 * int64(1+rr.Intn(3)) // longer than a slice
				case 2:
					// end exactly on a slice boundary
					l = (t/7200+1+int64(rr.Intn(2)))*7200 - t
				default:
					l = int64(rr.Intn(7000))
				}
				s.Intervals = append(s.Intervals, [2]int64{t, t + l})
				gap := int64(1+rr.Intn(4)) * step
				if rr.Intn(3) == 0 {
					gap = int64(rr.Intn(9000))
				}
				t += l + gap + 1
				if rr.Intn(4) == 0 {
					t = (t/7200 + 1) * 7200 // next presence starts on a slice boundary
				}
			}
			cs.Series = append(cs.Series, s)
		}
		for d := 0; d < 5; d++ {
			cs.DelaysMs = append(cs.DelaysMs, rr.Intn(6))
		}
		c13Eval(r, cs)
	}
}
