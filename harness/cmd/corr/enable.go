package main

// shared by C07, C08, C09: random configurations, random entries, and the `checks` correspondence op
// (real GetChecksForEntry vs the Lean port of the match/enable logic).

import (
	"context"
	"encoding/json"
	"fmt"
	"sort"
	"strings"
	"time"

	"github.com/prometheus/client_golang/prometheus"
	"github.com/prometheus/common/model"

	"github.com/cloudflare/pint/internal/comments"
	"github.com/cloudflare/pint/internal/config"
	"github.com/cloudflare/pint/internal/discovery"
	"github.com/cloudflare/pint/verifharness/gen"
	"github.com/cloudflare/pint/verifharness/hx"
	"github.com/cloudflare/pint/verifharness/pipe"
)

var enPatterns = []string{"", "", ".*", "foo", "Down|HighErrors", "Down|zz", "zz|Extra", "job:.+", ".+_Alert", "rules/.*", "r[0-9]\\.yml", "rules/a\\.yml", "job", "severity", "critical|b", "a", "sum.*", "summary", "static.*", "(Down)|(x)", "Disk.*"}
var enStates = []string{"any", "added", "modified", "renamed", "removed", "unmodified"}
var enDurs = []string{"5m", "> 1m", ">= 5m", "< 1h", "<= 1m", "= 0s", "!= 5m", "1h"}
var enCheckNames = []string{"promql/syntax", "alerts/for", "alerts/comparison", "alerts/template", "promql/fragile", "promql/regexp", "promql/impossible",
	"rule/label", "alerts/annotation", "rule/for", "rule/name", "rule/reject", "rule/report", "promql/aggregate", "promql/range_query", "query/cost", "promql/series", "promql/rate", "rule/duplicate"}

func enMatchBlock(r *hx.Run, kw string) string {
	rr := r.Rng
	var sb strings.Builder
	fmt.Fprintf(&sb, "  %s {\n", kw)
	n := 0
	add := func(s string) { sb.WriteString("    " + s + "\n"); n++ }
	if rr.Intn(4) == 0 {
		add(fmt.Sprintf("command = %q", hx.Pick(rr, []string{"lint", "ci", "watch"})))
	}
	if rr.Intn(4) == 0 {
		k := 1 + rr.Intn(2)
		var ss []string
		for i := 0; i < k; i++ {
			ss = append(ss, fmt.Sprintf("%q", hx.Pick(rr, enStates)))
		}
		add(fmt.Sprintf("state = [%s]", strings.Join(ss, ", ")))
	}
	if rr.Intn(4) == 0 {
		add(fmt.Sprintf("kind = %q", hx.Pick(rr, []string{"alerting", "recording"})))
	}
	if rr.Intn(4) == 0 {
		add(fmt.Sprintf("path = %q", hx.Pick(rr, []string{"rules/.*", "rules/a\\.yml", "a\\.yml|rules/b\\.yml", ".*b.*", "rules"})))
	}
	if rr.Intn(3) == 0 {
		add(fmt.Sprintf("name = %q", hx.Pick(rr, enPatterns[2:])))
	}
	if rr.Intn(4) == 0 {
		add(fmt.Sprintf("label %q {\n      value = %q\n    }", hx.Pick(rr, []string{"job", "severity", "team", ".*", "env|job"}), hx.Pick(rr, []string{".*", "a", "critical|b", "infra", "a|critical"})))
	}
	if rr.Intn(5) == 0 {
		add(fmt.Sprintf("annotation %q {\n      value = %q\n    }", hx.Pick(rr, []string{"summary", "description", ".*"}), hx.Pick(rr, []string{".*", "static.*", "static text", "value.*"})))
	}
	if rr.Intn(5) == 0 {
		add(fmt.Sprintf("for = %q", hx.Pick(rr, enDurs)))
	}
	if rr.Intn(6) == 0 {
		add(fmt.Sprintf("keep_firing_for = %q", hx.Pick(rr, enDurs)))
	}
	if n == 0 {
		add(fmt.Sprintf("kind = %q", hx.Pick(rr, []string{"alerting", "recording"})))
	}
	sb.WriteString("  }\n")
	return sb.String()
}

func enStrList(r *hx.Run, max int) string {
	rr := r.Rng
	var ss []string
	for i, n := 0, 1+rr.Intn(max); i < n; i++ {
		ss = append(ss, fmt.Sprintf("%q", hx.Pick(rr, enCheckNames)))
	}
	return "[" + strings.Join(ss, ", ") + "]"
}

// enConfig renders a random pint configuration (HCL).
func enConfig(r *hx.Run, withProm bool) string {
	rr := r.Rng
	var sb strings.Builder
	if withProm {
		sb.WriteString("prometheus \"prom\" {\n  uri = \"http://127.0.0.1:1\"\n  tags = [\"dev\", \"eu\"]\n}\n")
		if rr.Intn(2) == 0 {
			sb.WriteString("prometheus \"other\" {\n  uri = \"http://127.0.0.1:2\"\n  tags = [\"prod\"]\n  include = [\"rules/.*\"]\n}\n")
		}
	}
	if rr.Intn(3) == 0 {
		sb.WriteString("checks {\n")
		if rr.Intn(2) == 0 {
			fmt.Fprintf(&sb, "  enabled = %s\n", enStrList(r, 6))
		}
		if rr.Intn(2) == 0 {
			l := enStrList(r, 3)
			if withProm && rr.Intn(2) == 0 {
				l = strings.TrimSuffix(l, "]") + ", " + hx.Pick(rr, []string{`"promql/series(prom)"`, `"promql/rate(+dev)"`, `"promql/series(+prod)"`}) + "]"
			}
			fmt.Fprintf(&sb, "  disabled = %s\n", l)
		}
		sb.WriteString("}\n")
	}
	for i, n := 0, rr.Intn(4); i < n; i++ {
		sb.WriteString("rule {\n")
		for j, m := 0, rr.Intn(3); j < m; j++ {
			sb.WriteString(enMatchBlock(r, "match"))
		}
		for j, m := 0, rr.Intn(2)+rr.Intn(2)*rr.Intn(2); j < m; j++ {
			sb.WriteString(enMatchBlock(r, "ignore"))
		}
		if rr.Intn(5) == 0 {
			fmt.Fprintf(&sb, "  enable = %s\n", enStrList(r, 2))
		}
		if rr.Intn(4) == 0 {
			fmt.Fprintf(&sb, "  disable = %s\n", enStrList(r, 2))
		}
		if rr.Intn(5) == 0 {
			sb.WriteString("  locked = true\n")
		}
		sev := func() string { return hx.Pick(rr, []string{"info", "warning", "bug"}) }
		if rr.Intn(2) == 0 {
			fmt.Fprintf(&sb, "  label %q {\n    severity = %q\n    required = true\n  }\n", hx.Pick(rr, []string{"team", "severity"}), sev())
		}
		if rr.Intn(3) == 0 {
			fmt.Fprintf(&sb, "  annotation \"summary\" {\n    severity = %q\n    required = true\n  }\n", sev())
		}
		if rr.Intn(3) == 0 {
			fmt.Fprintf(&sb, "  name \"^[a-z:]+$\" {\n    severity = %q\n  }\n", sev())
		}
		if rr.Intn(4) == 0 {
			fmt.Fprintf(&sb, "  for {\n    severity = %q\n    min = \"2m\"\n  }\n", sev())
		}
		if rr.Intn(5) == 0 {
			fmt.Fprintf(&sb, "  keep_firing_for {\n    severity = %q\n    max = \"1m\"\n  }\n", sev())
		}
		if rr.Intn(4) == 0 {
			fmt.Fprintf(&sb, "  report {\n    comment = \"reported %d\"\n    severity = %q\n  }\n", i, sev())
		}
		if rr.Intn(4) == 0 {
			fmt.Fprintf(&sb, "  aggregate \".+\" {\n    severity = %q\n    keep = [\"job\"]\n  }\n", sev())
		}
		if rr.Intn(5) == 0 {
			fmt.Fprintf(&sb, "  reject \".*bad.*\" {\n    label_values = true\n    annotation_values = true\n  }\n")
		}
		if rr.Intn(5) == 0 {
			fmt.Fprintf(&sb, "  range_query {\n    max = \"1h\"\n  }\n")
		}
		if withProm && rr.Intn(4) == 0 {
			fmt.Fprintf(&sb, "  cost {\n    maxSeries = 10\n  }\n")
		}
		sb.WriteString("}\n")
	}
	return sb.String()
}

var enRuleComments = []string{"# pint disable promql/syntax", "# pint disable alerts/template", "# pint disable rule/label", "# pint disable rule/label(team:true)",
	"# pint disable promql/series(prom)", "# pint disable promql/series(+dev)", "# pint disable promql/rate(+prod)", "# pint snooze 2099-01-01 rule/label",
	"# pint snooze 2000-01-01 rule/label", "# pint snooze 2099-01-01T00:00:00Z alerts/annotation", "# pint disable rule/report", "# pint disable alerts/annotation(summary:true)",
	"# pint rule/owner bob", "# pint disable promql/fragile"}
var enFileComments = []string{"# pint file/disable promql/syntax", "# pint file/disable rule/label", "# pint file/snooze 2099-01-01 rule/name", "# pint file/snooze 2000-01-01 rule/name",
	"# pint file/owner alice", "# pint file/disable promql/series(+dev)"}

// enFile renders a random strict rule file with group labels and control comments.
func enFile(r *hx.Run) string {
	rr := r.Rng
	var lines []string
	if rr.Intn(4) == 0 {
		lines = append(lines, hx.Pick(rr, enFileComments))
	}
	lines = append(lines, "groups:")
	for gi, n := 0, 1+rr.Intn(2); gi < n; gi++ {
		lines = append(lines, fmt.Sprintf("- name: g%d", gi))
		if rr.Intn(3) == 0 {
			lines = append(lines, "  labels:", fmt.Sprintf("    team: %s", hx.Pick(rr, []string{"infra", "a"})))
			if rr.Intn(2) == 0 {
				lines = append(lines, "    job: grp")
			}
		}
		lines = append(lines, "  rules:")
		for ri, m := 0, 1+rr.Intn(3); ri < m; ri++ {
			rs := gen.RandRule(rr)
			for rr.Intn(4) == 0 {
				rs.Comments = append(rs.Comments, hx.Pick(rr, enRuleComments))
			}
			if rr.Intn(6) == 0 {
				// stacks of comments about the same check: expired and live snoozes, disables, in either order
				chk := hx.Pick(rr, []string{"rule/label", "alerts/annotation", "rule/name", "promql/syntax", "alerts/template", "promql/aggregate"})
				stack := []string{"# pint snooze 2000-01-01 " + chk, "# pint snooze 2099-01-01 " + chk}
				if rr.Intn(3) == 0 {
					stack = append(stack, "# pint snooze 2001-02-03T00:00:00Z "+chk)
				}
				rr.Shuffle(len(stack), func(i, j int) { stack[i], stack[j] = stack[j], stack[i] })
				rs.Comments = append(rs.Comments, stack...)
			}
			lines = append(lines, rs.Lines("  ")...)
		}
	}
	return strings.Join(lines, "\n") + "\n"
}

type enEnv struct {
	cfg config.Config
	gen *config.PrometheusGenerator
}

func enLoad(r *hx.Run, text string) (*enEnv, error) {
	cfg, err := pipe.LoadConfig(r.OutDir, text)
	if err != nil {
		return nil, err
	}
	g := config.NewPrometheusGenerator(cfg, prometheus.NewRegistry())
	if err := g.GenerateStatic(); err != nil {
		return nil, err
	}
	return &enEnv{cfg: cfg, gen: g}, nil
}

func (e *enEnv) Close() { e.gen.Stop() }

type jMatch struct {
	Command    *string    `json:"command"`
	States     []string   `json:"states"`
	Kind       string     `json:"kind"`
	Path       string     `json:"path"`
	Name       string     `json:"name"`
	Label      *[2]string `json:"label"`
	Annotation *[2]string `json:"annotation"`
	For        *jDur      `json:"for"`
	KeepFiring *jDur      `json:"keep_firing_for"`
}
type jDur struct {
	Op  string `json:"op"`
	Dur int64  `json:"dur"`
}

func enJMatch(m config.Match, pats map[string]bool) jMatch {
	j := jMatch{States: m.State, Kind: m.Kind, Path: m.Path, Name: m.Name}
	if j.States == nil {
		j.States = []string{}
	}
	if m.Command != nil {
		s := string(*m.Command)
		j.Command = &s
	}
	pats[m.Path], pats[m.Name] = true, true
	if m.Label != nil {
		j.Label = &[2]string{m.Label.Key, m.Label.Value}
		pats[m.Label.Key], pats[m.Label.Value] = true, true
	}
	if m.Annotation != nil {
		j.Annotation = &[2]string{m.Annotation.Key, m.Annotation.Value}
		pats[m.Annotation.Key], pats[m.Annotation.Value] = true, true
	}
	dm := func(s string) *jDur {
		if s == "" {
			return nil
		}
		op, d, _ := config.VerifParseDurationMatch(s)
		return &jDur{Op: op, Dur: int64(d)}
	}
	j.For, j.KeepFiring = dm(m.For), dm(m.KeepFiringFor)
	return j
}

func enJMatches(ms []config.Match, pats map[string]bool) []jMatch {
	out := []jMatch{}
	for _, m := range ms {
		out = append(out, enJMatch(m, pats))
	}
	return out
}

func enRuleDur(n *struct{ v string }) map[string]any {
	if n == nil {
		return map[string]any{"k": "absent"}
	}
	d, err := model.ParseDuration(n.v)
	if err != nil {
		return map[string]any{"k": "unparsable"}
	}
	return map[string]any{"k": "dur", "d": int64(time.Duration(d))}
}

var stateNames = map[discovery.ChangeType]string{discovery.Unknown: "unknown", discovery.Noop: "noop", discovery.Added: "added", discovery.Modified: "modified", discovery.Removed: "removed", discovery.Moved: "moved"}

// enChecksOp builds the `checks` op for one (config, command, entry) and returns the op JSON and the
// real answer (String() of the checks GetChecksForEntry selected, in order).
func enChecksOp(env *enEnv, cmd config.ContextCommandVal, e discovery.Entry) (string, string) {
	ctx := context.WithValue(context.Background(), config.CommandKey, cmd)
	pats := map[string]bool{}
	subjects := map[string]bool{e.Path.Name: true}
	je := map[string]any{"path": e.Path.Name, "state": stateNames[e.State], "fileDisabled": e.DisabledChecks, "hasError": e.PathError != nil || e.Rule.Error.Err != nil}
	if e.DisabledChecks == nil {
		je["fileDisabled"] = []string{}
	}
	kind, name := "invalid", ""
	var forN, kffN *struct{ v string }
	var anns any
	switch {
	case e.Rule.AlertingRule != nil:
		kind, name = "alerting", e.Rule.AlertingRule.Alert.Value
		if e.Rule.AlertingRule.For != nil {
			forN = &struct{ v string }{e.Rule.AlertingRule.For.Value}
		}
		if e.Rule.AlertingRule.KeepFiringFor != nil {
			kffN = &struct{ v string }{e.Rule.AlertingRule.KeepFiringFor.Value}
		}
		if e.Rule.AlertingRule.Annotations != nil {
			l := [][2]string{}
			for _, a := range e.Rule.AlertingRule.Annotations.Items {
				l = append(l, [2]string{a.Key.Value, a.Value.Value})
				subjects[a.Key.Value], subjects[a.Value.Value] = true, true
			}
			anns = l
		}
	case e.Rule.RecordingRule != nil:
		kind, name = "recording", e.Rule.RecordingRule.Record.Value
	}
	subjects[name] = true
	labels := [][2]string{}
	for _, l := range e.Labels().Items {
		labels = append(labels, [2]string{l.Key.Value, l.Value.Value})
		subjects[l.Key.Value], subjects[l.Value.Value] = true, true
	}
	je["kind"], je["name"], je["labels"], je["annotations"] = kind, name, labels, anns
	je["for"], je["keep_firing_for"] = enRuleDur(forN), enRuleDur(kffN)
	dis := []string{}
	for _, d := range comments.Only[comments.Disable](e.Rule.Comments, comments.DisableType) {
		dis = append(dis, d.Match)
	}
	snz := []any{}
	for _, s := range comments.Only[comments.Snooze](e.Rule.Comments, comments.SnoozeType) {
		snz = append(snz, []any{s.Until.After(time.Now()), s.Match})
	}
	je["ruleDisable"], je["ruleSnooze"] = dis, snz

	rules := []map[string]any{}
	for _, cr := range env.cfg.Rules {
		en, di := cr.Enable, cr.Disable
		if en == nil {
			en = []string{}
		}
		if di == nil {
			di = []string{}
		}
		rules = append(rules, map[string]any{"match": enJMatches(cr.Match, pats), "ignore": enJMatches(cr.Ignore, pats), "enable": en, "disable": di})
	}
	insts := []map[string]any{}
	for _, vi := range config.VerifInstances(ctx, &env.cfg, env.gen, e) {
		st := []string{}
		for _, s := range vi.Check.Meta().States {
			st = append(st, stateNames[s])
		}
		tags := vi.Tags
		if tags == nil {
			tags = []string{}
		}
		insts = append(insts, map[string]any{"name": vi.Name, "str": vi.Check.String(), "reporter": vi.Check.Reporter(), "states": st,
			"always": vi.Check.Meta().AlwaysEnabled, "tags": tags, "locked": vi.Locked, "rule": vi.RuleIndex})
	}
	re := map[string]bool{}
	var pl, sl []string
	for p := range pats {
		pl = append(pl, p)
	}
	for s := range subjects {
		sl = append(sl, s)
	}
	sort.Strings(pl)
	sort.Strings(sl)
	retab := [][]any{}
	for _, p := range pl {
		if p == "" {
			continue
		}
		for _, s := range sl {
			m := config.VerifStrictMatch(p, s)
			re[p+"\x00"+s] = m
			if m {
				retab = append(retab, []any{p, s})
			}
		}
	}
	en, di := env.cfg.Checks.Enabled, env.cfg.Checks.Disabled
	if en == nil {
		en = []string{}
	}
	if di == nil {
		di = []string{}
	}
	op := map[string]any{"cmd": string(cmd), "enabled": en, "disabled": di, "rules": rules, "entry": je, "insts": insts, "re": retab}
	b, err := json.Marshal(op)
	if err != nil {
		panic(err)
	}
	var got []string
	for _, c := range env.cfg.GetChecksForEntry(ctx, env.gen, e) {
		got = append(got, c.String())
	}
	return "checks\t" + string(b), strings.Join(got, "|")
}
