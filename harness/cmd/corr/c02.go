package main

import (
	"bytes"
	"encoding/json"
	"fmt"
	"math/rand"
	"os"
	"path/filepath"
	"runtime/debug"
	"sort"
	"strings"
	"time"

	"github.com/cloudflare/pint/internal/checks"
	"github.com/cloudflare/pint/internal/parser"
	"github.com/cloudflare/pint/internal/reporter"
	"github.com/cloudflare/pint/verifharness/gen"
	"github.com/cloudflare/pint/verifharness/hx"
	"github.com/cloudflare/pint/verifharness/pipe"
	promParser "github.com/prometheus/prometheus/promql/parser"
)

func init() { props["C02"] = runC02 }

type c02Case struct {
	Content string `json:"content"` // may hold arbitrary bytes; JSON keeps it as a (possibly escaped) string
	Hex     string `json:"content_hex,omitempty"`
	Strict  bool   `json:"strict"`
	Thanos  bool   `json:"thanos_schema"`
	Origin  string `json:"origin"`
}

func (c c02Case) bytes() []byte {
	if c.Hex != "" {
		b := make([]byte, len(c.Hex)/2)
		fmt.Sscanf(c.Hex, "%x", &b)
		return b
	}
	return []byte(c.Content)
}

// signature of a panic: the first pint frame of the stack
func c02Site(stack string) string {
	lines := strings.Split(stack, "\n")
	for i, l := range lines {
		if strings.Contains(l, "github.com/cloudflare/pint/internal") && !strings.Contains(l, "verifharness") && i+1 < len(lines) {
			fn := strings.TrimSpace(l)
			if j := strings.Index(fn, "("); j > 0 {
				fn = fn[:j]
			}
			return strings.TrimPrefix(fn, "github.com/cloudflare/pint/internal/")
		}
	}
	return "unknown"
}

func c02Eval(r *hx.Run, cs c02Case, dir string) {
	r.Begin(cs)
	content := cs.bytes()
	path := filepath.Join(dir, "rules.yml")
	if err := os.WriteFile(path, content, 0o644); err != nil {
		panic(err)
	}
	opts := pipe.Options{Strict: cs.Strict, Offline: true}
	if cs.Thanos {
		opts.Schema = parser.ThanosSchema
	}
	cfg, err := pipe.LoadConfig(r.OutDir, "")
	if err != nil {
		panic(err)
	}
	pipe.ApplyFlags(&cfg, opts)
	type outcome struct {
		res   pipe.Result
		rpan  string
		rname string
	}
	done := make(chan outcome, 1)
	go func() {
		var o outcome
		o.res = pipe.Lint(cfg, path, content, opts)
		if o.res.Panic == "" {
			for _, rep := range []struct {
				name string
				run  func(reporter.Summary) error
			}{
				{"console", func(s reporter.Summary) error {
					var cb bytes.Buffer
					if err := reporter.NewConsoleReporter(&cb, checks.Information, true, false).Submit(s); err != nil {
						return err
					}
					// a renderable verdict says what is wrong: every diagnostic's message is in the console output
					// (exactly under the hypothesis of Props/C02 message_written: the diagnostic's lines exist in the content the
					// reporter splits on LF; positions outside it are the business of the line-range oracle below)
					nLF := bytes.Count(content, []byte("\n")) + 1
					for _, rp := range s.Reports() {
						for _, d := range rp.Problem.Diagnostics {
							inFile := len(d.Pos) > 0
							for _, p := range d.Pos {
								if p.Line < 1 || p.Line > nLF {
									inFile = false
								}
							}
							if !inFile {
								continue
							}
							if first := strings.SplitN(d.Message, "\n", 2)[0]; first != "" && !strings.Contains(cb.String(), first) {
								return fmt.Errorf("diagnostic message of %s missing from the console output: %q", rp.Problem.Reporter, first)
							}
						}
					}
					return nil
				}},
				{"json", func(s reporter.Summary) error { return reporter.NewJSONReporter(&bytes.Buffer{}).Submit(s) }},
				{"checkstyle", func(s reporter.Summary) error { return reporter.NewCheckStyleReporter(&bytes.Buffer{}).Submit(s) }},
				{"teamcity", func(s reporter.Summary) error { return reporter.NewTeamCityReporter(&bytes.Buffer{}).Submit(s) }},
			} {
				func() {
					defer func() {
						if p := recover(); p != nil && o.rpan == "" {
							o.rpan = fmt.Sprintf("%v\n%s", p, debug.Stack())
							o.rname = rep.name
						}
					}()
					s := reporter.NewSummary(append([]reporter.Report{}, o.res.Reports...))
					s.SortReports()
					s.Dedup()
					if err := rep.run(s); err != nil && o.rpan == "" {
						o.rpan = "reporter returned error: " + err.Error()
						o.rname = rep.name
					}
				}()
			}
		}
		done <- o
	}()
	var o outcome
	select {
	case o = <-done:
	case <-time.After(20 * time.Second):
		r.Violate(hx.Violation{Class: "hang", Input: cs, Observed: "no verdict after 20s", Expected: "lint terminates"})
		return
	}
	// number of lines in the YAML sense (\r\n, \n and a lone \r all break lines): the larger of the two counts
	nlines := bytes.Count(content, []byte("\n"))
	if len(content) > 0 && content[len(content)-1] != '\n' {
		nlines++
	}
	ylines := 1
	loneCR := false
	for i := 0; i < len(content); i++ {
		if content[i] == '\n' {
			ylines++
		} else if content[i] == '\r' && (i+1 >= len(content) || content[i+1] != '\n') {
			ylines++
			loneCR = true
		}
	}
	if loneCR {
		nlines = max(nlines, ylines)
	}
	r.Case(fmt.Sprintf("%x|%v|%v", content, cs.Strict, cs.Thanos), len(o.res.Entries) > 0)
	r.Count("origin:" + cs.Origin)
	r.Count(fmt.Sprintf("strict:%v", cs.Strict))
	r.Count(fmt.Sprintf("entries:%d", min(len(o.res.Entries), 5)))
	if len(cs.Content) < 400 {
		r.Sample(cs)
	}
	switch {
	case o.res.Panic != "":
		site := c02Site(o.res.Panic)
		r.Violate(hx.Violation{Class: "panic:" + site, Known: true, Input: cs, Observed: tail(o.res.Panic, 2500), Expected: "no panic"})
		return
	case o.rpan != "":
		site := o.rname + ":" + c02Site(o.rpan)
		r.Violate(hx.Violation{Class: "reporter-panic:" + site, Known: true, Input: cs, Observed: tail(o.rpan, 2500), Expected: "every report renders in every format"})
		return
	}
	for _, rep := range o.res.Reports {
		l := rep.Problem.Lines
		bad := l.First < 1 || l.Last < l.First || l.Last > max(nlines, 1)
		for _, d := range rep.Problem.Diagnostics {
			for _, p := range d.Pos {
				if p.Line < 1 || p.Line > max(nlines, 1) {
					bad = true
				}
			}
		}
		if bad {
			class := "line-range-outside-file:" + rep.Problem.Reporter
			if loneCR {
				// YAML counts a lone CR as a line break, pint's reader splits on LF only: node lines and pint's own lines
				// disagree from there on (recorded finding)
				class = "line-range-broken-by-lone-cr"
			}
			r.Violate(hx.Violation{Class: class, Known: true, Input: cs,
				Observed: map[string]any{"lines": l, "file_lines": nlines, "summary": rep.Problem.Summary}, Expected: "1 <= first <= last <= number of lines"})
			return
		}
	}
	// every parsed rule is a valid rule xor carries an error
	for _, e := range o.res.Entries {
		if e.PathError != nil {
			continue
		}
		valid := e.Rule.AlertingRule != nil || e.Rule.RecordingRule != nil
		if valid == (e.Rule.Error.Err != nil) {
			r.Violate(hx.Violation{Class: "rule-neither-valid-nor-error", Known: true, Input: cs, Observed: fmt.Sprintf("%+v", e.Rule.Lines), Expected: "valid rule xor error"})
			return
		}
	}
}

// c02Binary: the same content through the real binary with the options that add code paths of their own
// (--require-owner builds diagnostics in cmd/pint, every output format at once). A crash of the process is a violation.
func c02Binary(r *hx.Run, cs c02Case) {
	bin := hx.PintBin()
	if bin == "" {
		return
	}
	dir, err := os.MkdirTemp("", "c02b-")
	if err != nil {
		panic(err)
	}
	defer os.RemoveAll(dir)
	_ = os.MkdirAll(filepath.Join(dir, "rules"), 0o755)
	_ = os.WriteFile(filepath.Join(dir, "rules", "r.yml"), cs.bytes(), 0o644)
	cfg := ""
	if !cs.Strict {
		cfg = "parser {\n  relaxed = [\".*\"]\n}\n"
	}
	if cs.Thanos {
		cfg += "parser {\n  schema = \"thanos\"\n}\n"
		if !cs.Strict {
			cfg = "parser {\n  relaxed = [\".*\"]\n  schema = \"thanos\"\n}\n"
		}
	}
	_ = os.WriteFile(filepath.Join(dir, ".pint.hcl"), []byte(cfg), 0o644)
	for _, args := range [][]string{
		{"--offline", "--no-color", "-l", "error", "lint", "--require-owner", "--json", "o.json", "--checkstyle", "o.xml", "--teamcity", "rules"},
		{"--offline", "--no-color", "-l", "error", "lint", "--min-severity", "info", "rules"},
	} {
		res := hx.RunCmd(dir, 60*time.Second, nil, bin, args...)
		r.Count("binary-runs")
		crashed := strings.Contains(res.Stderr, "panic:") || strings.Contains(res.Stderr, "fatal error:") || strings.Contains(res.Stderr, "goroutine 1 [") || res.Exit < 0 || res.Exit > 1
		if crashed {
			site := c02Site(res.Stderr)
			r.Violate(hx.Violation{Class: "binary-crash:" + site, Input: map[string]any{"case": cs, "args": args}, Observed: map[string]any{"exit": res.Exit, "stderr": tail(res.Stderr, 2500)},
				Expected: "pint lint terminates with exit status 0 or 1 and no Go panic"})
			return
		}
	}
}

// ---- generators ----

var c02HostileExprs = []string{
	`up{"a(b"=~"foo"}`, `up{"a.b"="x", "c[d"=~"y"}`, `{"__name__"="up", "x y"!~"z"}`, `up{job=~"a|b", "job*"=~"c"}`, `sum by ("a(b") (up{"a(b"=~"x"})`,
	`up{job=~""}`, `up{job!~""}`, `foo{a=~"x", a=~"x"}`, `up{"\\"=~"a"}`, `up{"{{"=~"}}"}`, `label_replace(up, "a(b", "$1", "c)d", "(.*")`, `up{"é(ü"=~"ö"} > 0`,
	`count_values("a(b", up)`, `up offset -5m @ end()`, `up[5m:1s] > 0`, `1 > bool 2`, `-(-up)`, `up{job=~"(?i)x"}`, `up{job=~"x{1,3}"}`, `up{job=~"["}`,
}

// c02FunctionZoo: any PromQL function of the vendored parser applied to arguments of the right type that were not read
// from a time series (vector(...) of a scalar, subqueries of it, absent(...)) or were: sources without a selector are
// where the analysis dereferences what is not there (seeded change C02-function-of-vector-nil-selector)
func c02FunctionZoo(rr *rand.Rand) string {
	names := make([]string, 0, len(promParser.Functions))
	for n := range promParser.Functions {
		names = append(names, n)
	}
	sort.Strings(names)
	var arg func(t promParser.ValueType, depth int) string
	call := func(depth int) string {
		f := promParser.Functions[hx.Pick(rr, names)]
		var args []string
		for _, t := range f.ArgTypes {
			args = append(args, arg(t, depth))
		}
		if f.Variadic != 0 && len(args) > 0 && rr.Intn(2) == 0 {
			args = args[:len(args)-1]
		}
		return f.Name + "(" + strings.Join(args, ", ") + ")"
	}
	arg = func(t promParser.ValueType, depth int) string {
		switch t {
		case promParser.ValueTypeVector:
			if depth > 0 && rr.Intn(3) == 0 {
				return call(depth - 1)
			}
			return hx.Pick(rr, []string{"vector(1)", "vector(time() + 3600)", "up", "sum(up)", "(up or vector(0))", "absent(up)", "absent(vector(1))", "-vector(1)", "(vector(1) > 0)", "sum by (job) (vector(1))", "scalar(up) * vector(2)"})
		case promParser.ValueTypeMatrix:
			return hx.Pick(rr, []string{"up[5m]", "vector(1)[1h:1m]", "(vector(1) + up)[10m:1m]", "absent(up)[5m:]", "sum(up)[5m:30s]"})
		case promParser.ValueTypeScalar:
			return hx.Pick(rr, []string{"1", "0", "time()", "scalar(up)", "scalar(vector(1))", "-1", "pi()"})
		case promParser.ValueTypeString:
			return hx.Pick(rr, []string{`"a"`, `"__name__"`, `""`, `"(.*)"`, `("a")`})
		}
		return "1"
	}
	q := call(1 + rr.Intn(2))
	switch rr.Intn(4) {
	case 0:
		return q + " > 0"
	case 1:
		return "sum(" + q + ")"
	}
	return q
}

var c02HostileTemplates = []string{
	`{{ $x := .Labels }}{{ $x := $x }}{{ $x.job }}`, `{{ $a := $b }}`, `{{ $a := .Value }}{{ $b := $a }}{{ $a = $b }}{{ $b }}`,
	`{{ $labels := $labels }}{{ $labels.job }}`, `{{ $value := $value }}{{ $value }}`, `{{ with $x := .Labels }}{{ with $x := $x }}{{ $x.a }}{{ end }}{{ end }}`,
	`{{ range $i, $e := .Labels }}{{ $i := $e }}{{ $e := $i }}{{ end }}`, `{{ $v := .Value | humanize }}{{ $v := $v }}{{ $v }}`,
	`{{ define "x" }}{{ template "x" . }}{{ end }}{{ template "x" . }}`, `{{ $x := query "up" }}{{ $x := $x | first }}{{ $x | value }}`,
	`{{ printf "%s" $labels }}`, `{{ $labels.job | reReplaceAll "a(" "b" }}`, `{{ index $labels "a(b" }}`, `{{ .Labels }}{{ .Value }}{{ . }}`,
}

// lone CRs in front of a document that ends in a literal block scalar: YAML's line numbers run ahead of the LF line
// slice by one per CR, so some variant puts the block's header exactly one past the last LF line (the index the seeded
// change C02-scalar-line-off-by-one reads)
func c02CRBlockSnippets() []string {
	var out []string
	for k := 1; k <= 7; k++ {
		out = append(out, strings.Repeat("\r", k)+"groups:\n- name: g\n  rules:\n  - record: a\n    expr: up\nnotes: |\n  a\n  b\n  c\n")
		out = append(out, strings.Repeat("\r", k)+"- record: a\n  expr: up\n- notes: |\n    a\n    b\n    c")
	}
	return out
}

var c02Snippets = []string{
	// anchors that contain themselves (yaml.v3 builds a cyclic node graph) and alias bombs
	"groups:\n- name: g\n  rules:\n  - alert: A\n    expr: up == 0\n    for: \"\"\n",
	"x: &a [*a]\n",
	"x: &a {k: *a}\n",
	"groups:\n- name: g\n  rules: &r\n  - record: a\n    expr: up\n  - *r\n",
	"- &a\n  record: a\n  expr: up\n  labels: {x: y}\n- [*a, *a, [*a]]\n",
	"a0: &a0 [x, y]\n" + func() string {
		s := ""
		for i := 1; i <= 30; i++ {
			s += fmt.Sprintf("a%d: &a%d [*a%d, *a%d]\n", i, i, i-1, i-1)
		}
		return s
	}(),
	"\"\n",
	"z: 'a\n",
	"groups:\n- name: g\n  rules:\n  - record: a\n    expr: \"up\n",
	"groups:\n- name: g\n  rules:\n  - alert: a\n    expr: up == 0\n    annotations:\n      summary: '{{ $x := .Labels }}{{ $x := $x }}{{ $x.job }}'\n",
	"groups:\n- name: g\n  rules:\n  - alert: a\n    expr: up == 0\n    labels:\n      l: '{{ $a := .Value }}{{ $b := $a }}{{ $a := $b }}{{ $b }}'\n",
	"groups:\n- name: g\n  rules:\n  - record: a:b\n    expr: up{\"a(b\"=~\"foo\"}\n",
	"x: \"groups:\\n- name: g\\n  rules:\\n  - record: a\\n    expr: sum(foo) without(\\n\"\ny: 1\n",
	"groups:\n- name: g\n  rules:\n  - {}\n",
	"groups:\n- name: g\n  rules:\n  - labels:\n      a: b\n",
	"groups:\n- name: g\n  rules:\n  - record: a\n    expr: \"\\x75p\"\n",
	"groups:\n- name: g\n  rules:\n  - record: a\n    expr: \"u\\tp\"",
	"groups:\n- name: g\n  rules:\n  - alert: a\n    expr: >-\n      up\n\n      == 0\n    for: 1m\n",
	"groups:\n- name: g\n  rules:\n  - &r\n    record: a\n    expr: up\n  - *r\n",
	"groups:\n- name: g\n  rules:\n  - record: a\n    expr: up\n    <<: {labels: {a: b}}\n",
	"- record: a\n  expr: up\n---\n- alert: b\n  expr: up == 0\n",
	"groups:\r\n- name: g\r\n  rules:\r\n  - record: a\r\n    expr: up\r\n",
	"x: |\n  groups:\n  - name: g\n    rules:\n    - record: a\n      expr: up\n",
	"groups:\n- name: g\n  rules:\n  - record: a\n    expr: 'sum(foo)\n      by (job)'\n",
	"",
	"\n\n",
	"a:\r\r\r\r\r  - b: [\n",
	"groups:\r- name: g\r  rules:\r  - record: a\r    expr: up\r    bogus: 1\r",
	"groups:\r\r\r\r- name: g\r  rules:\r  - record: a\r    expr: [\r",
	"groups: []\n",
	"groups:\n- name: g\n  rules: []\n",
	"groups:\n- name: g\n  rules:\n  - alert: a\n    expr: up\n    annotations:\n      summary: \"{{ $labels.x }}\\n\\\n        more\"\n",
}

func c02Mutate(r *hx.Run, s string) string {
	rr := r.Rng
	b := []byte(s)
	lines := strings.Split(s, "\n")
	switch rr.Intn(18) {
	case 0: // delete a line
		if len(lines) > 1 {
			k := rr.Intn(len(lines))
			lines = append(lines[:k:k], lines[k+1:]...)
		}
		return strings.Join(lines, "\n")
	case 1: // duplicate a line
		k := rr.Intn(len(lines))
		lines = append(lines[:k+1:k+1], lines[k:]...)
		return strings.Join(lines, "\n")
	case 2: // swap two lines
		if len(lines) > 1 {
			i, j := rr.Intn(len(lines)), rr.Intn(len(lines))
			lines[i], lines[j] = lines[j], lines[i]
		}
		return strings.Join(lines, "\n")
	case 3: // insert a byte
		if len(b) == 0 {
			return string(hx.Pick(rr, []byte{'\t', '\r', '"', '\'', ':', '-', '#', '{', '[', '*', '&', 0xff, '|', '>'}))
		}
		k := rr.Intn(len(b) + 1)
		c := hx.Pick(rr, []byte{'\t', '\r', '"', '\'', ':', '-', '#', '{', '[', '*', '&', 0xff, 0xc3, '|', '>', '\n', ' ', '\\', '%', '@', '`'})
		return string(append(b[:k:k], append([]byte{c}, b[k:]...)...))
	case 4: // delete a byte
		if len(b) > 0 {
			k := rr.Intn(len(b))
			return string(append(b[:k:k], b[k+1:]...))
		}
	case 5: // drop final newline
		return strings.TrimSuffix(s, "\n")
	case 6: // CRLF
		return strings.ReplaceAll(s, "\n", "\r\n")
	case 7: // indent change on one line
		k := rr.Intn(len(lines))
		if rr.Intn(2) == 0 {
			lines[k] = " " + lines[k]
		} else {
			lines[k] = strings.TrimPrefix(lines[k], " ")
		}
		return strings.Join(lines, "\n")
	case 8: // quote style / escapes of a value
		k := rr.Intn(len(lines))
		if i := strings.Index(lines[k], ": "); i >= 0 {
			v := strings.Trim(lines[k][i+2:], "'\"")
			lines[k] = lines[k][:i+2] + hx.Pick(rr, []string{`"` + v + `"`, `"` + v + `\n"`, `"\x41` + v + `"`, "'" + v + "'", "|\n      " + v, ">-\n      " + v + "\n\n      x", `"` + v + `\` + "\n        tail\"", "!!str " + v, "&a " + v, "*a"})
		}
		return strings.Join(lines, "\n")
	case 9: // replace a rule by a degenerate mapping
		return s + hx.Pick(rr, []string{"  - {}\n", "  - labels: {}\n", "  - for: 1m\n", "  - annotations:\n      a: b\n", "  - []\n", "  - ~\n", "  - x\n", "  - record: ''\n    expr: ''\n"})
	case 12: // trailing non-rule content (relaxed mode walks every scalar), with or without a final newline
		t := hx.Pick(rr, []string{"notes: \"first\\nsecond\\nthird\"\n", "notes: \"first\\nsecond\\nthird\"", "k: |\n a: 1\n b: 2\n", "k: >-\n a\n\n b", "z: 'a\n\n  b'", "last: \"x\\n\\n\\n\"", "? complex\n: \"v\\n1\\n2\""})
		if !strings.HasSuffix(s, "\n") && s != "" {
			s += "\n"
		}
		return s + t
	case 13: // wrap the document in a manifest (rules are found below arbitrary keys in relaxed mode)
		var sb strings.Builder
		sb.WriteString("apiVersion: v1\nkind: ConfigMap\nmetadata:\n  annotations:\n    notes: \"a\\nb\\nc\"\nspec:\n")
		for _, l := range lines {
			sb.WriteString("  " + l + "\n")
		}
		return strings.TrimSuffix(sb.String(), "\n")
	case 15: // a hostile PromQL expression in place of some value (quoted UTF-8 label names, metacharacters, odd matchers)
		k := rr.Intn(len(lines))
		if i := strings.Index(lines[k], "expr: "); i >= 0 {
			switch rr.Intn(3) {
			case 0:
				lines[k] = lines[k][:i+6] + hx.Pick(rr, c02HostileExprs)
			case 1:
				// every query shape the label-flow generator of C04 / C12 knows
				g := &lfGen{rr: rr}
				lines[k] = lines[k][:i+6] + g.vec(1+rr.Intn(3))
			default:
				lines[k] = lines[k][:i+6] + c02FunctionZoo(rr)
			}
		}
		return strings.Join(lines, "\n")
	case 16: // a hostile template in place of a label / annotation value
		k := rr.Intn(len(lines))
		if i := strings.Index(lines[k], ": "); i >= 0 && !strings.Contains(lines[k], "expr:") && !strings.Contains(lines[k], "record:") && !strings.Contains(lines[k], "alert:") {
			lines[k] = lines[k][:i+2] + "'" + hx.Pick(rr, c02HostileTemplates) + "'"
		}
		return strings.Join(lines, "\n")
	case 17: // YAML nested in a string, in every scalar style, with and without content after it
		t := hx.Pick(rr, []string{
			"x: \"groups:\\n- name: g\\n  rules:\\n  - record: a\\n    expr: sum(foo) without(\\n\"\ny: 1\n",
			"x: \"- record: a\\n  expr: up\\n- alert: b\\n  expr: up ==\\n\"\nz: 2\n",
			"x: 'groups:\n\n  - name: g\n\n    rules:\n\n    - record: a\n\n      expr: sum(\n\n'\ny: 1\n",
			"x: >\n  groups:\n  - name: g\n    rules:\n    - record: a\n      expr: sum(\ny: 1\n",
			"x: |+\n  - alert: a\n    expr: up ==\n\n\ny: 1\n",
		})
		if !strings.HasSuffix(s, "\n") && s != "" {
			s += "\n"
		}
		if rr.Intn(2) == 0 {
			return t + s
		}
		return s + t
	case 14: // lone CR line breaks in front (YAML counts them as lines)
		return hx.Pick(rr, []string{"\r", "\r\r", "\r\n\r"}) + s
	case 10: // tabs
		k := rr.Intn(len(lines))
		lines[k] = strings.Replace(lines[k], "  ", "\t", 1)
		return strings.Join(lines, "\n")
	default: // truncate
		if len(b) > 0 {
			return string(b[:rr.Intn(len(b))])
		}
	}
	return s
}

func c02Corpus() []string {
	var out []string
	_ = filepath.Walk("/repo", func(p string, info os.FileInfo, err error) error {
		if err != nil || info.IsDir() {
			return nil
		}
		switch {
		case strings.HasSuffix(p, ".yml") || strings.HasSuffix(p, ".yaml"):
			if b, e := os.ReadFile(p); e == nil && len(b) < 20000 {
				out = append(out, string(b))
			}
		case strings.HasSuffix(p, ".txt") && strings.Contains(p, "cmd/pint/tests"):
			b, e := os.ReadFile(p)
			if e != nil {
				return nil
			}
			// txtar sections: "-- name --"
			var cur []string
			name := ""
			flush := func() {
				if (strings.HasSuffix(name, ".yml") || strings.HasSuffix(name, ".yaml")) && len(cur) > 0 {
					out = append(out, strings.Join(cur, "\n")+"\n")
				}
			}
			for _, l := range strings.Split(string(b), "\n") {
				if strings.HasPrefix(l, "-- ") && strings.HasSuffix(l, " --") {
					flush()
					name, cur = strings.TrimSuffix(strings.TrimPrefix(l, "-- "), " --"), nil
					continue
				}
				cur = append(cur, l)
			}
			flush()
		}
		return nil
	})
	return out
}

func runC02(r *hx.Run, replay string) {
	dir, err := os.MkdirTemp("", "c02-")
	if err != nil {
		panic(err)
	}
	defer os.RemoveAll(dir)
	if replay != "" {
		b, err := os.ReadFile(replay)
		if err != nil {
			panic(err)
		}
		var rp struct {
			Input c02Case `json:"input"`
		}
		if err := json.Unmarshal(b, &rp); err != nil {
			panic(err)
		}
		c02Eval(r, rp.Input, dir)
		return
	}
	rr := r.Rng
	nbin, binEvery := 0, 12
	if r.Tier != "quick" {
		binEvery = 60
	}
	mk := func(content, origin string) {
		cs := c02Case{Content: content, Strict: rr.Intn(2) == 0, Thanos: rr.Intn(4) == 0, Origin: origin}
		if !json.Valid([]byte(fmt.Sprintf("%q", content))) || strings.ToValidUTF8(content, "") != content {
			cs.Hex, cs.Content = fmt.Sprintf("%x", content), ""
		}
		c02Eval(r, cs, dir)
		nbin++
		if origin == "snippet" || nbin%binEvery == 0 {
			c02Binary(r, cs)
		}
	}
	// the model the C02 theorems about InjectDiagnostics rest on (Model/Inject) against the real function
	for i := 0; i < 1500; i++ {
		c06Inject(r)
	}
	corpus := c02Corpus()
	r.Note("seed corpus: %d YAML documents from the repository", len(corpus))
	for _, s := range c02Snippets {
		mk(s, "snippet")
		mk(s, "snippet")
	}
	for _, s := range c02CRBlockSnippets() {
		// both parser modes, deterministically
		for _, strict := range []bool{true, false} {
			cs := c02Case{Content: s, Strict: strict, Origin: "snippet"}
			c02Eval(r, cs, dir)
		}
	}
	budget := r.N
	for i, s := range corpus {
		if r.Tier == "quick" && i%3 != int(r.Seed)%3 {
			continue
		}
		mk(s, "corpus")
	}
	for i := 0; i < budget; i++ {
		var s string
		origin := "generated"
		switch rr.Intn(4) {
		case 0:
			s = hx.Pick(rr, c02Snippets)
			origin = "snippet-mutated"
		case 1:
			if len(corpus) > 0 {
				s = hx.Pick(rr, corpus)
				origin = "corpus-mutated"
			}
		default:
			lines, _ := gen.GroupFile(gen.RandGroups(rr, 2, 3))
			s = strings.Join(lines, "\n") + "\n"
		}
		for k, n := 0, rr.Intn(4); k < n; k++ {
			s = c02Mutate(r, s)
			origin = strings.TrimSuffix(origin, "-mutated") + "-mutated"
		}
		mk(s, origin)
	}
}
