package main

import (
	"bytes"
	"encoding/json"
	"errors"
	"fmt"
	"io"
	"os"
	"strings"

	"gopkg.in/yaml.v3"

	"github.com/cloudflare/pint/internal/discovery"
	"github.com/cloudflare/pint/internal/parser"
	"github.com/cloudflare/pint/verifharness/gen"
	"github.com/cloudflare/pint/verifharness/hx"
	"github.com/cloudflare/pint/verifharness/pipe"
)

func init() { props["C19"] = runC19 }

type c19Case struct {
	Kind    string `json:"kind"` // strict-vs-relaxed | wrap
	Content string `json:"content"`
	Bare    string `json:"bare,omitempty"`
	AddLine int    `json:"wrapper_lines,omitempty"`
	AddCol  int    `json:"wrapper_indent,omitempty"`
}

func c19NodeID(n *yaml.Node) int { return n.Line*1000 + n.Column }

// serialise a real yaml.v3 tree; ok=false when the tree uses aliases / non-scalar keys (outside the model)
func c19Tree(n *yaml.Node, lines []string) (map[string]any, bool) {
	switch n.Kind {
	case yaml.ScalarNode:
		return map[string]any{"k": "s", "id": c19NodeID(n), "v": n.Value}, true
	case yaml.SequenceNode:
		c := []any{}
		for _, ch := range n.Content {
			t, ok := c19Tree(ch, lines)
			if !ok {
				return nil, false
			}
			c = append(c, t)
		}
		return map[string]any{"k": "q", "id": c19NodeID(n), "c": c}, true
	case yaml.MappingNode:
		f := []any{}
		for i := 0; i+1 < len(n.Content); i += 2 {
			if n.Content[i].Kind != yaml.ScalarNode || n.Content[i].ShortTag() == "!!merge" {
				return nil, false
			}
			t, ok := c19Tree(n.Content[i+1], lines)
			if !ok {
				return nil, false
			}
			f = append(f, []any{n.Content[i].Value, t})
		}
		id := c19NodeID(n)
		if len(n.Content) > 0 {
			// an anchored block mapping ("- &a" on its own line) starts on the anchor's line; the parser reports a rule's
			// first line from its first key, so the id carries that line
			id = n.Content[0].Line*1000 + n.Column
		}
		return map[string]any{"k": "m", "id": id, "r": parser.VerifIsRuleNode(n, lines), "f": f}, true
	default:
		return nil, false
	}
}

func c19Docs(content string) (map[string]any, int, bool) {
	dec := yaml.NewDecoder(strings.NewReader(content))
	lines := strings.Split(strings.TrimSuffix(content, "\n"), "\n")
	children := []any{}
	n := 0
	for {
		var doc yaml.Node
		err := dec.Decode(&doc)
		if errors.Is(err, io.EOF) {
			break
		}
		if err != nil {
			return nil, 0, false
		}
		n++
		for _, ch := range doc.Content {
			t, ok := c19Tree(ch, lines)
			if !ok {
				return nil, 0, false
			}
			children = append(children, t)
		}
	}
	return map[string]any{"k": "d", "c": children}, n, true
}

type c19Rule struct {
	Kind, Name, Expr string
	First, Last      int
	Pos              string
}

func c19Rules(content string, strict bool, dl, dc int) ([]c19Rule, bool, string) {
	es, pn := pipe.Entries("r.yml", []byte(content), pipe.Options{Strict: strict})
	if pn != "" {
		return nil, false, pn
	}
	ok := true
	var out []c19Rule
	for _, e := range es {
		if e.PathError != nil {
			ok = false
			continue
		}
		if e.Rule.Error.Err != nil {
			// a rule that failed to parse: its error, its line and its line range are displaced like everything else
			ok = false
			out = append(out, c19Rule{"error", e.Rule.Error.Err.Error(), "", e.Rule.Lines.First - dl, e.Rule.Lines.Last - dl, fmt.Sprint(e.Rule.Error.Line - dl)})
			continue
		}
		ex := e.Rule.Expr()
		var ps []string
		for _, p := range ex.Value.Pos {
			ps = append(ps, fmt.Sprintf("%d:%d-%d", p.Line-dl, p.FirstColumn-dc, p.LastColumn-dc))
		}
		out = append(out, c19Rule{string(e.Rule.Type()), e.Rule.Name(), ex.Value.Value, e.Rule.Lines.First - dl, e.Rule.Lines.Last - dl, strings.Join(ps, ",")})
	}
	return out, ok, ""
}

func c19FirstLines(es []discovery.Entry) string {
	var o []string
	for _, e := range es {
		if e.PathError != nil {
			continue
		}
		o = append(o, fmt.Sprint(e.Rule.Lines.First))
	}
	return strings.Join(o, ",")
}

// model ids are line*1000+col of the mapping node; the real parser reports the rule's first line
func c19IDsToLines(ids string) string {
	if ids == "" || ids == "notok" {
		return ids
	}
	var o []string
	for _, s := range strings.Split(ids, ",") {
		var v int
		fmt.Sscan(s, &v)
		o = append(o, fmt.Sprint(v/1000))
	}
	return strings.Join(o, ",")
}

func c19Corr(r *hx.Run, content string) {
	tree, ndocs, ok := c19Docs(content)
	if !ok {
		r.Count("tree-outside-model")
		return
	}
	b, _ := json.Marshal(tree)
	// relaxed walk: the nodes kept, by line. The driver answers ids; convert expectations to ids instead.
	es, pn := pipe.Entries("r.yml", []byte(content), pipe.Options{Strict: false})
	if pn == "" {
		// expected ids: find for each kept rule the mapping node id with that first line — use lines on both sides
		r.Op("relaxedlines\t"+string(b), c19FirstLines(es))
	}
	if ndocs == 1 {
		ss, pn2 := pipe.Entries("r.yml", []byte(content), pipe.Options{Strict: true})
		if pn2 == "" {
			allok := true
			for _, e := range ss {
				if e.PathError != nil || e.Rule.Error.Err != nil {
					allok = false
				}
			}
			if allok {
				r.Op("strictlines\t"+string(b), c19FirstLines(ss))
			}
		}
	}
}

var c19Siblings = []string{"matrix: [[alert, Foo, expr, up], [record, x, expr, y]]", "steps:\n  - - record\n    - foo\n    - expr\n    - bar", "version: 1", "meta:\n  owner: team\n  tags: [a, b]", "description: |\n  some text\n  more text", "enabled: true", "list:\n  - 1\n  - 2", "other: {a: b}"}

func c19RuleList(r *hx.Run) []string {
	var lines []string
	for i, n := 0, 1+r.Rng.Intn(3); i < n; i++ {
		rs := gen.RandRule(r.Rng)
		rs.Labels = nil
		if strings.HasSuffix(rs.Expr, "(") || strings.HasSuffix(rs.Expr, "==") {
			rs.Expr = "up"
		}
		if rs.For == "abc" {
			rs.For = "1m"
		}
		if rs.KeepFiring == "abc" {
			rs.KeepFiring = ""
		}
		lines = append(lines, rs.Lines("")...)
	}
	return lines
}

func c19Eval(r *hx.Run, cs c19Case) {
	switch cs.Kind {
	case "strict-vs-relaxed":
		sr, sok, p1 := c19Rules(cs.Content, true, 0, 0)
		rr, _, p2 := c19Rules(cs.Content, false, 0, 0)
		if p1 != "" || p2 != "" {
			r.Violate(hx.Violation{Class: "panic", Input: cs, Observed: tail(p1+p2, 1500)})
			return
		}
		if !sok {
			r.Count("not-strict-valid")
			return
		}
		r.Case(cs.Content, len(sr) > 0)
		if fmt.Sprint(sr) != fmt.Sprint(rr) {
			r.Violate(hx.Violation{Class: "relaxed-differs-from-strict", Input: cs, Observed: map[string]any{"strict": sr, "relaxed": rr}, Expected: "same rules, names, expressions, line ranges and positions"})
		}
	case "folded-wrap":
		wr, _, p2 := c19Rules(cs.Content, false, 0, 0)
		if p2 != "" {
			r.Violate(hx.Violation{Class: "panic", Input: cs, Observed: tail(p2, 1500)})
			return
		}
		r.Case(cs.Content, true)
		// whatever is found must sit on lines that hold it: the name of a found rule is on one of its lines
		lines := strings.Split(cs.Content, "\n")
		for _, x := range wr {
			if x.Kind == "error" {
				continue
			}
			found := false
			for l := x.First; l <= x.Last && l-1 < len(lines); l++ {
				if l >= 1 && strings.Contains(lines[l-1], x.Name) {
					found = true
				}
			}
			if !found {
				r.Violate(hx.Violation{Class: "folded-block-rule-on-wrong-lines", Input: cs, Observed: x, Expected: "a rule reported for lines that hold its name, or no rule at all"})
				break
			}
		}
	case "mixed-list":
		// one list holds a rule of its own and an entry that is not a rule but has rules below it: relaxed mode finds the
		// rule and, displaced, every rule of the bare list (seeded change C19-wrapper-after-first-rule-skipped)
		br, _, p1 := c19Rules(cs.Bare, false, 0, 0)
		all, _, p2 := c19Rules(cs.Content, false, cs.AddLine, cs.AddCol)
		if p1 != "" || p2 != "" {
			r.Violate(hx.Violation{Class: "panic", Input: cs, Observed: tail(p1+p2, 1500)})
			return
		}
		var wr []c19Rule
		own := 0
		for _, x := range all {
			if x.Name == "own:rule" {
				own++
				continue
			}
			wr = append(wr, x)
		}
		r.Case(cs.Content, len(br) > 0)
		if own != 1 || fmt.Sprint(br) != fmt.Sprint(wr) {
			r.Violate(hx.Violation{Class: "rules-below-a-list-entry-next-to-a-rule-differ-from-bare", Input: cs, Observed: map[string]any{"bare": br, "nested_shifted_back": wr, "own_rule_found": own},
				Expected: "the list's own rule once, and the nested rules displaced exactly by the lines and indentation above them"})
		}
	case "wrap":
		br, _, p1 := c19Rules(cs.Bare, false, 0, 0)
		wr, _, p2 := c19Rules(cs.Content, false, cs.AddLine, cs.AddCol)
		if p1 != "" || p2 != "" {
			r.Violate(hx.Violation{Class: "panic", Input: cs, Observed: tail(p1+p2, 1500)})
			return
		}
		r.Case(cs.Content, len(br) > 0)
		if fmt.Sprint(br) != fmt.Sprint(wr) {
			r.Violate(hx.Violation{Class: "wrapped-differs-from-bare", Input: cs, Observed: map[string]any{"bare": br, "wrapped_shifted_back": wr}, Expected: "same rules displaced exactly by the wrapper's lines and indentation"})
		}
	}
	r.Count("kind:" + cs.Kind)
	r.Sample(cs)
}

func runC19(r *hx.Run, replay string) {
	if replay != "" {
		b, err := os.ReadFile(replay)
		if err != nil {
			panic(err)
		}
		var rp struct {
			Input c19Case `json:"input"`
		}
		if err := json.Unmarshal(b, &rp); err != nil {
			panic(err)
		}
		c19Eval(r, rp.Input)
		return
	}
	rr := r.Rng
	for i := 0; i < r.N; i++ {
		// strict-valid files (groups without rules, empty rules lists, group options)
		var sb bytes.Buffer
		sb.WriteString("groups:\n")
		var anchors []string
		for g, n := 0, 1+rr.Intn(3); g < n; g++ {
			fmt.Fprintf(&sb, "- name: g%d\n", g)
			if rr.Intn(3) == 0 {
				sb.WriteString("  interval: " + hx.Pick(rr, []string{"1m", "30s", "1h30m", "\"2m\"", "1d", "90s"}) + "\n")
			}
			if rr.Intn(3) == 0 {
				// every spelling yaml.v3 tags !!int: strict mode accepts the tag, whatever strconv thinks of the text
				sb.WriteString("  limit: " + hx.Pick(rr, []string{"0", "10", "-1", "0x10", "0o17", "0b101", "1_000", "+5", "007"}) + "\n")
			}
			if rr.Intn(4) == 0 {
				sb.WriteString("  query_offset: " + hx.Pick(rr, []string{"30s", "1m", "0s", "\"5m\""}) + "\n")
			}
			if rr.Intn(4) == 0 {
				sb.WriteString("  labels:\n    team: a\n")
			}
			switch rr.Intn(6) {
			case 0: // no rules key
			case 1:
				sb.WriteString("  rules: []\n")
			case 2:
				sb.WriteString("  rules:\n")
			default:
				sb.WriteString("  rules:\n")
				for _, l := range c19RuleList(r) {
					sb.WriteString("  " + l + "\n")
				}
				// YAML anchors and aliases: a rule entry that is itself an alias, aliased field values, flow mappings
				if len(anchors) > 0 && rr.Intn(2) == 0 {
					sb.WriteString("  - *" + hx.Pick(rr, anchors) + "\n")
				}
				switch rr.Intn(6) {
				case 0:
					a := fmt.Sprintf("shared%d", g)
					fmt.Fprintf(&sb, "  - &%s {record: \"shared:g%d\", expr: \"sum(up) by(job)\"}\n", a, g)
					anchors = append(anchors, a)
				case 1:
					a := fmt.Sprintf("blk%d", g)
					fmt.Fprintf(&sb, "  - &%s\n    alert: Shared%d\n    expr: up == 0\n", a, g)
					anchors = append(anchors, a)
				case 2:
					fmt.Fprintf(&sb, "  - record: val:g%d\n    expr: &e%d sum(foo)\n  - record: val2:g%d\n    expr: *e%d\n", g, g, g, g)
				}
			}
		}
		content := sb.String()
		c19Eval(r, c19Case{Kind: "strict-vs-relaxed", Content: content})
		c19Corr(r, content)

		// wrappers around a bare rule list
		rules := c19RuleList(r)
		if rr.Intn(5) == 0 {
			rules = append(rules, "- &w {record: \"w:x\", expr: up}", "- *w")
		}
		bare := strings.Join(rules, "\n") + "\n"
		depth := rr.Intn(5)
		var w []string
		indent := ""
		isList := map[int]bool{}
		levelIndent := map[int]string{}
		for d := 0; d < depth; d++ {
			isList[d] = rr.Intn(4) == 0
			levelIndent[d] = indent
			if rr.Intn(2) == 0 && !isList[d] {
				for _, l := range strings.Split(hx.Pick(rr, c19Siblings), "\n") {
					w = append(w, indent+l)
				}
			}
			key := hx.Pick(rr, []string{"spec", "rules", "data", "prometheus", "alerts", "group"}) + fmt.Sprint(d) + ":"
			switch isList[d] {
			case true:
				// a list level: the wrapper key sits inside a list item (possibly next to other keys of that item)
				if rr.Intn(2) == 0 {
					w = append(w, indent+"- tenant: a", indent+"  "+key)
				} else {
					w = append(w, indent+"- "+key)
				}
				indent += "    "
			default:
				w = append(w, indent+key)
				indent += "  "
			}
		}
		addLine := len(w)
		var body []string
		body = append(body, w...)
		for _, l := range rules {
			body = append(body, indent+l)
		}
		// trailing siblings at outer levels
		for d := depth - 1; d >= 0; d-- {
			if rr.Intn(3) == 0 && !isList[d] {
				ind := levelIndent[d]
				for k, l := range strings.Split(hx.Pick(rr, c19Siblings[:6]), "\n") {
					if k == 0 {
						l = "z" + l // a different key than the leading siblings
					}
					body = append(body, ind+l)
				}
			}
		}
		wrapped := strings.Join(body, "\n") + "\n"
		if rr.Intn(4) == 0 {
			wrapped = "other: doc\n---\n" + wrapped
			addLine += 2
		}
		if rr.Intn(4) == 0 {
			wrapped += "---\nlast: doc\n"
		}
		c19Eval(r, c19Case{Kind: "wrap", Content: wrapped, Bare: bare, AddLine: addLine, AddCol: len(indent)})
		c19Corr(r, wrapped)

		// a list that mixes a rule with a wrapper entry (before or after it)
		{
			var ml []string
			own := []string{"- record: own:rule", "  expr: up"}
			first := rr.Intn(2) == 0
			add := 1
			if first {
				ml = append(ml, own...)
				add = 3
			}
			ml = append(ml, "- nested:")
			for _, l := range rules {
				ml = append(ml, "    "+l)
			}
			if !first {
				ml = append(ml, own...)
			}
			pre := ""
			if rr.Intn(2) == 0 {
				pre = "spec:\n"
				add++
			}
			c19Eval(r, c19Case{Kind: "mixed-list", Content: pre + strings.Join(ml, "\n") + "\n", Bare: bare, AddLine: add, AddCol: 4})
		}

		// the same rules inside a literal block scalar (YAML in YAML, as in a ConfigMap): found, displaced by the lines above
		// the block and by its indentation; inside a folded block the layout is gone and nothing may be reported on lines
		// that do not hold it
		brules := append([]string{}, rules...)
		if rr.Intn(3) == 0 {
			brules = append(brules, "- alert: Dup", "  expr: up == 0", "  labels:", "    team: a", "    team: b")
		}
		if len(brules) < 3 {
			// pint only looks into scalars with more than one line break
			brules = append(brules, "- record: extra:rule", "  expr: up")
		}
		style := hx.Pick(rr, []string{"|", "|", "|-", "|+", ">"})
		if style == ">" {
			// a layout that survives folding as valid YAML: one-line rules with a blank line between them (two line breaks
			// fold into one, so every rule after the first ends up on another line than the one it is written on)
			brules = nil
			for k, n := 0, 3+rr.Intn(2); k < n; k++ {
				brules = append(brules, fmt.Sprintf("- {record: \"folded:r%d\", expr: up}", k))
			}
		}
		var withBlanks []string
		for k, l := range brules {
			if k > 0 && strings.HasPrefix(l, "- ") && (style == ">" || rr.Intn(4) == 0) {
				withBlanks = append(withBlanks, "") // a blank line between rules: a literal block keeps it, a folded one does not keep the count
			}
			withBlanks = append(withBlanks, l)
		}
		bbare := strings.Join(withBlanks, "\n") + "\n"
		pre := []string{"apiVersion: v1", "kind: ConfigMap"}[:rr.Intn(3)]
		bind := strings.Repeat(" ", 2+2*rr.Intn(2))
		var bl []string
		bl = append(bl, pre...)
		bl = append(bl, "data:", "  rules.yml: "+style)
		for _, l := range withBlanks {
			if l == "" {
				bl = append(bl, "")
			} else {
				bl = append(bl, "  "+bind+l)
			}
		}
		bl = append(bl, "other: x")
		kind := "wrap"
		if style == ">" {
			kind = "folded-wrap"
		}
		c19Eval(r, c19Case{Kind: kind, Content: strings.Join(bl, "\n") + "\n", Bare: bbare, AddLine: len(pre) + 2, AddCol: 2 + len(bind)})
	}
}
