package main

import (
	"context"
	"encoding/json"
	"errors"
	"fmt"
	"net"
	"net/http"
	"net/http/httptest"
	"os"
	"strings"
	"sync"
	"sync/atomic"
	"time"

	"github.com/prometheus/client_golang/prometheus"

	"github.com/cloudflare/pint/internal/checks"
	"github.com/cloudflare/pint/internal/config"
	"github.com/cloudflare/pint/internal/promapi"
	"github.com/cloudflare/pint/verifharness/hx"
	"github.com/cloudflare/pint/verifharness/pipe"
)

func init() { props["C15"] = runC15 }

var c15Modes = []string{"healthy", "refused", "timeout", "http500", "json_server_error", "bad_data_400", "execution_422", "http404", "truncated",
	"json_internal_500", "json_unavailable_503", "stalled_body"}
var c15Endpoints = []string{"Query", "RangeQuery", "Config", "Flags", "Metadata"}

type c15Case struct {
	Endpoint string   `json:"endpoint"`
	Modes    []string `json:"modes"` // fault mode of uri, failover[0], failover[1]
	Strict   bool     `json:"required"`
	Check    string   `json:"check,omitempty"` // "" | "series" | "external_labels": also run a real online check
}

// the outcome class each fault mode is expected to produce (net/http + JSON decoding + tryDecodingAPIError);
// validated row by row by the single-upstream cases.
func c15Outcome(ep, mode string) string {
	meta := ep == "Config" || ep == "Flags" || ep == "Metadata"
	switch mode {
	case "healthy":
		return "ok"
	case "refused", "timeout", "stalled_body": // a body that never finishes is a timeout like any other
		return "transport"
	case "http500", "json_server_error", "json_internal_500", "json_unavailable_503": // what Prometheus itself sends with 500 / 503
		return "api:v1.ErrServer"
	case "bad_data_400":
		return "api:v1.ErrBadData"
	case "execution_422":
		return "api:v1.ErrExec"
	case "http404":
		if meta {
			return "unsupported"
		}
		return "api:v1.ErrClient"
	case "truncated":
		if meta && ep != "Metadata" {
			return "other" // config/flags wrap the decode error: fmt.Errorf("failed to decode ...: %w", APIError{bad_response})
		}
		return "api:v1.ErrBadResponse"
	}
	return "?"
}

var c15TypeNames = map[string]string{"bad_data": "v1.ErrBadData", "timeout": "v1.ErrTimeout", "canceled": "v1.ErrCanceled", "execution": "v1.ErrExec",
	"bad_response": "v1.ErrBadResponse", "server_error": "v1.ErrServer", "client_error": "v1.ErrClient", "unknown": "ErrUnknown", "unsupported": "ErrAPIUnsupported"}

func c15Classify(err error) string {
	if err == nil {
		return "ok"
	}
	if errors.Is(err, promapi.ErrUnsupported) {
		return "unsupported"
	}
	var ae promapi.APIError
	if errors.As(err, &ae) {
		return "api:" + c15TypeNames[string(ae.ErrorType)]
	}
	return "transport"
}

type c15Server struct {
	srv   *httptest.Server
	uri   string
	count atomic.Int64
}

func c15Start(mode string, idx int) *c15Server {
	s := &c15Server{}
	if mode == "refused" {
		// a port nobody listens on, on a loopback address of its own: every test server of this harness (and of any
		// check running in parallel) binds 127.0.0.1, so the kernel can hand the port number out again without the
		// "refused" upstream coming back to life (which happened once: see DESIGN §11)
		l, _ := net.Listen("tcp", "127.0.0.2:0")
		s.uri = "http://" + l.Addr().String()
		l.Close()
		return s
	}
	s.srv = httptest.NewServer(http.HandlerFunc(func(w http.ResponseWriter, r *http.Request) {
		s.count.Add(1)
		ep := r.URL.Path
		jsonErr := func(code int, typ string) {
			w.Header().Set("Content-Type", "application/json")
			w.WriteHeader(code)
			fmt.Fprintf(w, `{"status":"error","errorType":%q,"error":"fault injected"}`, typ)
		}
		switch mode {
		case "timeout":
			select {
			case <-time.After(3 * time.Second):
			case <-r.Context().Done():
			}
			w.WriteHeader(200)
		case "http500":
			w.WriteHeader(500)
			fmt.Fprint(w, "boom")
		case "json_server_error":
			jsonErr(503, "server_error")
		case "json_internal_500":
			jsonErr(500, "internal")
		case "json_unavailable_503":
			jsonErr(503, "unavailable")
		case "stalled_body":
			w.Header().Set("Content-Type", "application/json")
			w.WriteHeader(200)
			fmt.Fprint(w, `{"status":"success","data":{"resu`)
			if f, ok := w.(http.Flusher); ok {
				f.Flush()
			}
			select {
			case <-time.After(3 * time.Second):
			case <-r.Context().Done():
			}
		case "bad_data_400":
			jsonErr(400, "bad_data")
		case "execution_422":
			jsonErr(422, "execution")
		case "http404":
			w.WriteHeader(404)
			fmt.Fprint(w, "404 page not found")
		case "truncated":
			w.Header().Set("Content-Type", "application/json")
			w.WriteHeader(200)
			fmt.Fprint(w, `{"status":"success","data":{"resu`)
		default: // healthy
			w.Header().Set("Content-Type", "application/json")
			switch {
			case strings.HasSuffix(ep, "/query"):
				fmt.Fprintf(w, `{"status":"success","data":{"resultType":"vector","result":[{"metric":{"__name__":"up","srv":"%d"},"value":[1700000000,"1"]}]}}`, idx)
			case strings.HasSuffix(ep, "/query_range"):
				fmt.Fprintf(w, `{"status":"success","data":{"resultType":"matrix","result":[{"metric":{"__name__":"up","srv":"%d"},"values":[[1700000000,"1"]]}]}}`, idx)
			case strings.HasSuffix(ep, "/status/config"):
				fmt.Fprintf(w, `{"status":"success","data":{"yaml":"global:\n  scrape_interval: %dm\n"}}`, idx+1)
			case strings.HasSuffix(ep, "/status/flags"):
				fmt.Fprintf(w, `{"status":"success","data":{"srv":"%d"}}`, idx)
			case strings.HasSuffix(ep, "/metadata"):
				fmt.Fprintf(w, `{"status":"success","data":{"up":[{"type":"gauge","help":"srv%d","unit":""}]}}`, idx)
			default:
				w.WriteHeader(404)
			}
		}
	}))
	s.uri = s.srv.URL
	return s
}

type c15Obs struct {
	Class    string  `json:"error_class"`
	Answered int     `json:"answered_by"` // index of the upstream whose answer was returned, -1
	ErrURI   int     `json:"error_uri"`   // index of the upstream whose URI the error carries, -1
	Counts   []int64 `json:"requests"`
	Unavail  bool    `json:"is_unavailable"`
	Sev      string  `json:"problem_severity,omitempty"`
	Summary  string  `json:"problem_summary,omitempty"`
	Problems int     `json:"problems"`
}

func c15Run(cs c15Case) c15Obs {
	var servers []*c15Server
	var proms []*promapi.Prometheus
	for i, m := range cs.Modes {
		s := c15Start(m, i)
		servers = append(servers, s)
		proms = append(proms, promapi.NewPrometheus("prom", s.uri, "", nil, 100*time.Millisecond, 2, 1000, nil))
	}
	reg := prometheus.NewRegistry()
	var fg *promapi.FailoverGroup
	if len(cs.Modes) >= 2 {
		// through the configuration, the way pint builds its servers: the failover list in the order it is written
		// (seeded change C15-failover-list-sorted; the ports, and so the lexical order of the URIs, are arbitrary)
		dir, err := os.MkdirTemp("", "c15cfg-")
		if err != nil {
			panic(err)
		}
		defer os.RemoveAll(dir)
		var fo []string
		for _, sv := range servers[1:] {
			fo = append(fo, fmt.Sprintf("%q", sv.uri))
		}
		text := fmt.Sprintf("prometheus \"prom\" {\n  uri = %q\n  failover = [%s]\n  timeout = \"100ms\"\n  concurrency = 2\n  rateLimit = 1000\n  required = %v\n}\n",
			servers[0].uri, strings.Join(fo, ", "), cs.Strict)
		cfg, err := pipe.LoadConfig(dir, text)
		if err != nil {
			panic("c15: generated configuration refused: " + err.Error())
		}
		gen := config.NewPrometheusGenerator(cfg, reg)
		if err := gen.GenerateStatic(); err != nil {
			panic(err)
		}
		fg = gen.Servers()[0]
	} else {
		fg = promapi.NewFailoverGroup("prom", servers[0].uri, proms, cs.Strict, "up", nil, nil, nil)
		fg.StartWorkers(reg)
	}
	defer func() {
		fg.Close(reg)
		for _, s := range servers {
			if s.srv != nil {
				s.srv.CloseClientConnections()
				s.srv.Close()
			}
		}
	}()
	ctx := context.Background()
	obs := c15Obs{Answered: -1, ErrURI: -1}
	var err error
	answeredTag := ""
	switch cs.Endpoint {
	case "Query":
		var qr *promapi.QueryResult
		qr, err = fg.Query(ctx, "up")
		if err == nil && len(qr.Series) > 0 {
			answeredTag = qr.Series[0].Labels.Get("srv")
		}
	case "RangeQuery":
		var rr *promapi.RangeQueryResult
		rr, err = fg.RangeQuery(ctx, "up", absRange{start: time.Unix(1700000000, 0), end: time.Unix(1700000600, 0), step: time.Minute})
		if err == nil && len(rr.Series.Ranges) > 0 {
			answeredTag = rr.Series.Ranges[0].Labels.Get("srv")
		}
	case "Config":
		var c *promapi.ConfigResult
		c, err = fg.Config(ctx, 0)
		if err == nil {
			answeredTag = fmt.Sprint(int(c.Config.Global.ScrapeInterval/time.Minute) - 1)
		}
	case "Flags":
		var f *promapi.FlagsResult
		f, err = fg.Flags(ctx)
		if err == nil {
			answeredTag = f.Flags["srv"]
		}
	case "Metadata":
		var m *promapi.MetadataResult
		m, err = fg.Metadata(ctx, "up")
		if err == nil && len(m.Metadata) > 0 {
			answeredTag = strings.TrimPrefix(m.Metadata[0].Help, "srv")
		}
	}
	obs.Class = c15Classify(err)
	if err == nil {
		fmt.Sscan(answeredTag, &obs.Answered)
	} else {
		obs.Unavail = promapi.IsUnavailableError(err)
		var fe *promapi.FailoverGroupError
		if errors.As(err, &fe) {
			for i, s := range servers {
				if fe.URI() == s.uri {
					obs.ErrURI = i
				}
			}
		}
	}
	for _, s := range servers {
		obs.Counts = append(obs.Counts, s.count.Load())
	}
	if cs.Check != "" {
		// a real online check against a fresh group with the same faults
		for _, s := range servers {
			s.count.Store(0)
		}
		entries, _ := pipe.Entries("r.yml", []byte("groups:\n- name: g\n  rules:\n  - alert: A\n    expr: up == 0\n    labels:\n      x: y\n"), pipe.Options{Strict: true})
		var chk checks.RuleChecker
		if cs.Check == "series" {
			chk = checks.NewSeriesCheck(fg)
		} else {
			chk = checks.NewAlertsExternalLabelsCheck(fg)
		}
		for _, e := range entries {
			ps := chk.Check(ctx, e, entries)
			obs.Problems = len(ps)
			if len(ps) > 0 {
				obs.Sev, obs.Summary = ps[0].Severity.String(), ps[0].Summary
			}
		}
	}
	return obs
}

func c15Eval(r *hx.Run, cs c15Case, mu *sync.Mutex) {
	obs := c15Run(cs)
	outs := make([]string, len(cs.Modes))
	for i, m := range cs.Modes {
		outs[i] = c15Outcome(cs.Endpoint, m)
	}
	mu.Lock()
	defer mu.Unlock()
	r.Case(fmt.Sprint(cs), len(cs.Modes) > 1)
	r.Count("endpoint:" + cs.Endpoint)
	for _, m := range cs.Modes {
		r.Count("mode:" + m)
	}
	r.Sample(map[string]any{"case": cs, "observed": obs})
	// single upstream: the fault-mode -> outcome-class table itself
	if len(cs.Modes) == 1 {
		want := outs[0]
		got := obs.Class
		if want == "other" {
			want = "api:v1.ErrBadResponse" // wrapped with %w: still an APIError for errors.As
		}
		if got != want {
			r.Violate(hx.Violation{Class: "fault-table:" + cs.Endpoint + ":" + cs.Modes[0], Input: cs, Observed: obs, Expected: "outcome class " + want})
		}
	}
	// the loop: same op through the Lean model
	for i := range outs {
		if outs[i] == "other" {
			outs[i] = "api:v1.ErrBadResponse"
		}
	}
	op, _ := json.Marshal(map[string]any{"ep": cs.Endpoint, "outcomes": outs})
	contacted := 0
	prefixOK := true
	for i, c := range obs.Counts {
		if cs.Modes[i] == "refused" {
			continue // a closed port cannot count; inferred from the others
		}
		if c > 0 {
			contacted = i + 1
		}
	}
	for i, c := range obs.Counts {
		if cs.Modes[i] != "refused" && i < contacted && c == 0 {
			prefixOK = false
		}
	}
	if obs.Answered >= 0 {
		contacted = max(contacted, obs.Answered+1)
	}
	if obs.ErrURI >= 0 {
		contacted = max(contacted, obs.ErrURI+1)
	}
	r.Op("failover\t"+string(op), fmt.Sprintf("answer=%d err=%d contacted=%d", obs.Answered, obs.ErrURI, contacted))
	if !prefixOK {
		r.Violate(hx.Violation{Class: "contacted-not-a-prefix", Input: cs, Observed: obs, Expected: "upstreams are contacted in configured order without skipping"})
	}
	// property clauses evaluated directly on the real result
	firstAvail := -1
	for i, o := range outs {
		un := o == "transport" || o == "api:v1.ErrServer" || o == "unsupported"
		if !un {
			firstAvail = i
			break
		}
	}
	switch {
	case firstAvail >= 0 && outs[firstAvail] == "ok":
		if obs.Answered != firstAvail {
			r.Violate(hx.Violation{Class: "not-answered-by-first-reachable", Input: cs, Observed: obs, Expected: fmt.Sprintf("answer of upstream %d", firstAvail)})
		}
	case firstAvail >= 0:
		if obs.Class != outs[firstAvail] || obs.ErrURI != firstAvail {
			r.Violate(hx.Violation{Class: "query-error-not-returned-as-is", Input: cs, Observed: obs, Expected: fmt.Sprintf("error %s from upstream %d", outs[firstAvail], firstAvail)})
		}
		for i := firstAvail + 1; i < len(obs.Counts); i++ {
			if obs.Counts[i] > 0 {
				r.Violate(hx.Violation{Class: "failover-after-query-error", Input: cs, Observed: obs, Expected: fmt.Sprintf("upstream %d not contacted", i)})
			}
		}
	default:
		if obs.Answered >= 0 || !obs.Unavail {
			r.Violate(hx.Violation{Class: "all-down-not-unavailable", Input: cs, Observed: obs, Expected: "an unavailability error"})
		}
	}
	if cs.Check != "" {
		allDown := firstAvail < 0
		if allDown {
			wantSev := "Warning"
			if cs.Strict {
				wantSev = "Bug"
			}
			unsupportedLast := outs[len(outs)-1] == "unsupported"
			if !(unsupportedLast && obs.Problems == 0) && (obs.Problems != 1 || obs.Sev != wantSev || obs.Summary != "unable to run checks") {
				r.Violate(hx.Violation{Class: "outage-severity:" + cs.Check, Input: cs, Observed: obs, Expected: "exactly one problem `unable to run checks` with severity " + wantSev})
			}
		}
	}
}

func runC15(r *hx.Run, replay string) {
	var mu sync.Mutex
	if replay != "" {
		b, err := os.ReadFile(replay)
		if err != nil {
			panic(err)
		}
		var rp struct {
			Input c15Case `json:"input"`
		}
		if err := json.Unmarshal(b, &rp); err != nil {
			panic(err)
		}
		c15Eval(r, rp.Input, &mu)
		return
	}
	rr := r.Rng
	c15FailoverURIs(r)
	var cases []c15Case
	// every single-upstream row (the fault table), every endpoint
	for _, ep := range c15Endpoints {
		for _, m := range c15Modes {
			cases = append(cases, c15Case{Endpoint: ep, Modes: []string{m}})
		}
	}
	if r.Tier == "thorough" {
		for _, ep := range c15Endpoints {
			for _, a := range c15Modes {
				for _, b := range c15Modes {
					cases = append(cases, c15Case{Endpoint: ep, Modes: []string{a, b}, Strict: rr.Intn(2) == 0})
					for _, c := range c15Modes {
						cases = append(cases, c15Case{Endpoint: ep, Modes: []string{a, b, c}, Strict: rr.Intn(2) == 0})
					}
				}
			}
		}
	} else {
		for i := 0; i < r.N; i++ {
			n := 2 + rr.Intn(2)
			cs := c15Case{Endpoint: hx.Pick(rr, c15Endpoints), Strict: rr.Intn(2) == 0}
			for j := 0; j < n; j++ {
				// bias towards unavailable prefixes so that later upstreams matter
				if j < n-1 && rr.Intn(2) == 0 {
					cs.Modes = append(cs.Modes, hx.Pick(rr, []string{"refused", "http500", "json_server_error", "timeout", "refused", "http500", "json_internal_500", "json_unavailable_503", "stalled_body"}))
				} else {
					cs.Modes = append(cs.Modes, hx.Pick(rr, c15Modes))
				}
			}
			cases = append(cases, cs)
		}
	}
	// online checks on all-down and query-error configurations
	for _, chk := range []string{"series", "external_labels"} {
		for _, strict := range []bool{false, true} {
			for _, ms := range [][]string{{"refused"}, {"http500", "refused"}, {"json_server_error", "http500", "refused"}, {"refused", "timeout"}} {
				ep := "Query"
				if chk == "external_labels" {
					ep = "Config"
				}
				cases = append(cases, c15Case{Endpoint: ep, Modes: ms, Strict: strict, Check: chk})
			}
		}
	}
	sem := make(chan struct{}, 24)
	var wg sync.WaitGroup
	for _, cs := range cases {
		wg.Add(1)
		sem <- struct{}{}
		go func(cs c15Case) {
			defer wg.Done()
			defer func() { <-sem }()
			c15Eval(r, cs, &mu)
		}(cs)
	}
	wg.Wait()
}

// c15FailoverURIs: every upstream address is checked when the configuration is loaded: an entry of the failover list that
// is not a URL is refused like a bad `uri` is, never kept until the first outage (where it used to be a nil dereference)
func c15FailoverURIs(r *hx.Run) {
	for _, c := range []struct {
		failover string
		loads    bool
	}{
		{`"http://127.0.0.1:9091"`, true},
		{`"http://127.0.0.1:9091", "https://b.example.com/prom"`, true},
		{`"127.0.0.1:9090"`, false},
		{`"http://127.0.0.1:abc"`, false},
		{`"http://ok.example.com", "http://[::1"`, false},
	} {
		text := fmt.Sprintf("prometheus \"prom\" {\n  uri = \"http://127.0.0.1:9090\"\n  failover = [%s]\n}\n", c.failover)
		cfg, err := pipe.LoadConfig(r.OutDir, text)
		r.Case("failover-uri"+c.failover, true)
		r.Count(fmt.Sprintf("failover-uri-probe:%v", c.loads))
		if (err == nil) != c.loads {
			r.Violate(hx.Violation{Class: "failover-uri-validation", Input: map[string]any{"config": text}, Observed: map[string]any{"loads": err == nil, "error": fmt.Sprint(err)},
				Expected: map[string]any{"loads": c.loads}})
		}
		_ = cfg
	}
}
