-- REGENERATED from /repo by tools/extract on every check run. Do not edit.
namespace Pint.Gen.Checks

def checkNames : List String := ["alerts/absent", "alerts/annotation", "alerts/count", "alerts/external_labels", "alerts/for", "alerts/template", "labels/conflict", "promql/aggregate", "alerts/comparison", "promql/impossible", "promql/fragile", "promql/range_query", "promql/rate", "promql/regexp", "promql/syntax", "promql/vector_matching", "query/cost", "promql/counter", "promql/series", "rule/dependency", "rule/duplicate", "rule/for", "rule/name", "rule/label", "rule/link", "rule/reject", "rule/report"]

def onlineChecks : List String := ["alerts/absent", "alerts/count", "alerts/external_labels", "labels/conflict", "promql/range_query", "promql/rate", "promql/vector_matching", "query/cost", "promql/counter", "promql/series", "rule/link"]

structure Kind where
  typ : String
  reporter : String
  stringHead : String
  online : Bool
  alwaysEnabled : Bool
  states : List String
  problemReporters : List String
  deriving Repr, DecidableEq

def kinds : List Kind := [
  ⟨"AggregationCheck", "promql/aggregate", "promql/aggregate", false, false, ["Noop", "Added", "Modified", "Moved"], ["c.Reporter()", "c.Reporter()"]⟩,
  ⟨"AlertsAbsentCheck", "alerts/absent", "alerts/absent", true, false, ["Noop", "Added", "Modified", "Moved"], ["c.Reporter()"]⟩,
  ⟨"AlertsCheck", "alerts/count", "alerts/count", true, false, ["Noop", "Added", "Modified", "Moved"], ["c.Reporter()"]⟩,
  ⟨"AlertsExternalLabelsCheck", "alerts/external_labels", "alerts/external_labels", true, false, ["Noop", "Added", "Modified", "Moved"], ["c.Reporter()", "c.Reporter()"]⟩,
  ⟨"AlertsForChecksFor", "alerts/for", "alerts/for", false, false, ["Noop", "Added", "Modified", "Moved"], ["c.Reporter()", "c.Reporter()"]⟩,
  ⟨"AnnotationCheck", "alerts/annotation", "alerts/annotation", false, false, ["Noop", "Added", "Modified", "Moved"], ["c.Reporter()", "c.Reporter()", "c.Reporter()", "c.Reporter()", "c.Reporter()"]⟩,
  ⟨"ComparisonCheck", "alerts/comparison", "alerts/comparison", false, false, ["Noop", "Added", "Modified", "Moved"], ["c.Reporter()"]⟩,
  ⟨"CostCheck", "query/cost", "query/cost", true, false, ["Noop", "Added", "Modified", "Moved"], ["c.Reporter()", "c.Reporter()", "c.Reporter()", "c.Reporter()", "c.Reporter()"]⟩,
  ⟨"CounterCheck", "promql/counter", "promql/counter", true, false, ["Noop", "Added", "Modified", "Moved"], ["c.Reporter()"]⟩,
  ⟨"ErrorCheck", "<dynamic:c.problem.Reporter>", "<dynamic>", false, true, ["Noop", "Added", "Modified", "Moved", "Removed"], []⟩,
  ⟨"FragileCheck", "promql/fragile", "promql/fragile", false, false, ["Noop", "Added", "Modified", "Moved"], ["c.Reporter()"]⟩,
  ⟨"ImpossibleCheck", "promql/impossible", "promql/impossible", false, false, ["Noop", "Added", "Modified", "Moved"], ["c.Reporter()"]⟩,
  ⟨"LabelCheck", "rule/label", "rule/label", false, false, ["Noop", "Added", "Modified", "Moved"], ["c.Reporter()", "c.Reporter()", "c.Reporter()", "c.Reporter()", "c.Reporter()", "c.Reporter()", "c.Reporter()"]⟩,
  ⟨"LabelsConflictCheck", "labels/conflict", "labels/conflict", true, false, ["Noop", "Added", "Modified", "Moved"], ["c.Reporter()"]⟩,
  ⟨"RangeQueryCheck", "promql/range_query", "promql/range_query", true, false, ["Noop", "Added", "Modified", "Moved"], ["c.Reporter()", "c.Reporter()"]⟩,
  ⟨"RateCheck", "promql/rate", "promql/rate", true, false, ["Noop", "Added", "Modified", "Moved"], ["c.Reporter()", "c.Reporter()", "c.Reporter()"]⟩,
  ⟨"RegexpCheck", "promql/regexp", "promql/regexp", false, false, ["Noop", "Added", "Modified", "Moved"], ["c.Reporter()"]⟩,
  ⟨"Reject", "rule/reject", "rule/reject", false, false, ["Noop", "Added", "Modified", "Moved"], ["c.Reporter()", "c.Reporter()"]⟩,
  ⟨"ReportCheck", "rule/report", "rule/report", false, false, ["Noop", "Added", "Modified", "Moved"], ["c.Reporter()"]⟩,
  ⟨"RuleDependencyCheck", "rule/dependency", "rule/dependency", false, false, ["Removed"], ["c.Reporter()"]⟩,
  ⟨"RuleDuplicateCheck", "rule/duplicate", "rule/duplicate", false, false, ["Noop", "Added", "Modified", "Moved"], ["c.Reporter()"]⟩,
  ⟨"RuleForCheck", "rule/for", "rule/for", false, false, ["Noop", "Added", "Modified", "Moved"], ["c.Reporter()", "c.Reporter()"]⟩,
  ⟨"RuleLinkCheck", "rule/link", "rule/link", true, false, ["Noop", "Added", "Modified", "Moved"], ["c.Reporter()", "c.Reporter()"]⟩,
  ⟨"RuleNameCheck", "rule/name", "rule/name", false, false, ["Noop", "Added", "Modified", "Moved"], ["c.Reporter()", "c.Reporter()"]⟩,
  ⟨"SeriesCheck", "promql/series", "promql/series", true, false, ["Noop", "Added", "Modified", "Moved"], ["c.Reporter()", "c.Reporter()", "c.Reporter()", "c.Reporter()", "c.Reporter()", "c.Reporter()", "c.Reporter()", "c.Reporter()", "c.Reporter()", "c.Reporter()", "c.Reporter()", "c.Reporter()"]⟩,
  ⟨"SyntaxCheck", "promql/syntax", "promql/syntax", false, false, ["Noop", "Added", "Modified", "Moved"], ["c.Reporter()"]⟩,
  ⟨"TemplateCheck", "alerts/template", "alerts/template", false, false, ["Noop", "Added", "Modified", "Moved"], ["c.Reporter()", "c.Reporter()", "c.Reporter()", "c.Reporter()", "c.Reporter()"]⟩,
  ⟨"VectorMatchingCheck", "promql/vector_matching", "promql/vector_matching", true, false, ["Noop", "Added", "Modified", "Moved"], ["c.Reporter()", "c.Reporter()", "c.Reporter()", "c.Reporter()", "c.Reporter()", "c.Reporter()"]⟩]

structure Registration where
  site : String
  name : String
  ctor : String
  typ : String
  guard : String
  deriving Repr, DecidableEq

def registrations : List Registration := [
  ⟨"baseRules", "promql/syntax", "NewSyntaxCheck", "SyntaxCheck", ""⟩,
  ⟨"baseRules", "alerts/for", "NewAlertsForCheck", "AlertsForChecksFor", ""⟩,
  ⟨"baseRules", "alerts/comparison", "NewComparisonCheck", "ComparisonCheck", ""⟩,
  ⟨"baseRules", "alerts/template", "NewTemplateCheck", "TemplateCheck", ""⟩,
  ⟨"baseRules", "promql/fragile", "NewFragileCheck", "FragileCheck", ""⟩,
  ⟨"baseRules", "promql/regexp", "NewRegexpCheck", "RegexpCheck", ""⟩,
  ⟨"baseRules", "rule/dependency", "NewRuleDependencyCheck", "RuleDependencyCheck", ""⟩,
  ⟨"baseRules", "promql/impossible", "NewImpossibleCheck", "ImpossibleCheck", ""⟩,
  ⟨"baseRules", "promql/rate", "NewRateCheck", "RateCheck", ""⟩,
  ⟨"baseRules", "promql/series", "NewSeriesCheck", "SeriesCheck", ""⟩,
  ⟨"baseRules", "promql/vector_matching", "NewVectorMatchingCheck", "VectorMatchingCheck", ""⟩,
  ⟨"baseRules", "promql/range_query", "NewRangeQueryCheck", "RangeQueryCheck", ""⟩,
  ⟨"baseRules", "rule/duplicate", "NewRuleDuplicateCheck", "RuleDuplicateCheck", ""⟩,
  ⟨"baseRules", "labels/conflict", "NewLabelsConflictCheck", "LabelsConflictCheck", ""⟩,
  ⟨"baseRules", "alerts/external_labels", "NewAlertsExternalLabelsCheck", "AlertsExternalLabelsCheck", ""⟩,
  ⟨"baseRules", "promql/counter", "NewCounterCheck", "CounterCheck", ""⟩,
  ⟨"baseRules", "alerts/absent", "NewAlertsAbsentCheck", "AlertsAbsentCheck", ""⟩,
  ⟨"parseRule", "promql/aggregate", "NewAggregationCheck", "AggregationCheck", "len(rule.Aggregate) > 0"⟩,
  ⟨"parseRule", "promql/aggregate", "NewAggregationCheck", "AggregationCheck", "len(rule.Aggregate) > 0"⟩,
  ⟨"parseRule", "query/cost", "NewCostCheck", "CostCheck", "rule.Cost != nil"⟩,
  ⟨"parseRule", "alerts/annotation", "NewAnnotationCheck", "AnnotationCheck", "len(rule.Annotation) > 0"⟩,
  ⟨"parseRule", "rule/label", "NewLabelCheck", "LabelCheck", "len(rule.Label) > 0"⟩,
  ⟨"parseRule", "alerts/count", "NewAlertsCheck", "AlertsCheck", "rule.Alerts != nil"⟩,
  ⟨"parseRule", "rule/reject", "NewRejectCheck", "Reject", "len(rule.Reject) > 0"⟩,
  ⟨"parseRule", "rule/reject", "NewRejectCheck", "Reject", "len(rule.Reject) > 0"⟩,
  ⟨"parseRule", "rule/reject", "NewRejectCheck", "Reject", "len(rule.Reject) > 0"⟩,
  ⟨"parseRule", "rule/reject", "NewRejectCheck", "Reject", "len(rule.Reject) > 0"⟩,
  ⟨"parseRule", "rule/link", "NewRuleLinkCheck", "RuleLinkCheck", "range rule.RuleLink"⟩,
  ⟨"parseRule", "rule/for", "NewRuleForCheck", "RuleForCheck", "rule.For != nil"⟩,
  ⟨"parseRule", "rule/for", "NewRuleForCheck", "RuleForCheck", "rule.KeepFiringFor != nil"⟩,
  ⟨"parseRule", "rule/name", "NewRuleNameCheck", "RuleNameCheck", "range rule.RuleName"⟩,
  ⟨"parseRule", "query/cost", "NewRangeQueryCheck", "RangeQueryCheck", "rule.RangeQuery != nil"⟩,
  ⟨"parseRule", "query/cost", "NewReportCheck", "ReportCheck", "rule.Report != nil"⟩]

end Pint.Gen.Checks
