-- REGENERATED from /repo by tools/extract on every check run. Do not edit.
namespace Pint.Gen.Severity

/-- `Severity` constants in iota order (lowest first) -/
def order : List String := ["Information", "Warning", "Bug", "Fatal"]

def parseTable : List (String × String) := [("fatal", "Fatal"), ("bug", "Bug"), ("warning", "Warning"), ("info", "Information")]

def stringTable : List (String × String) := [("Information", "Information"), ("Warning", "Warning"), ("Bug", "Bug"), ("Fatal", "Fatal")]

structure Threshold where
  lhs : String
  op : String
  rhs : String
  rhsFrom : String
  finalCond : String
  deriving Repr, DecidableEq

def lint : Threshold := ⟨"s", ">=", "failOn", "checks.ParseSeverity(c.String(failOnFlag))", "failProblems > 0"⟩

def ci : Threshold := ⟨"s", ">=", "minSeverity", "checks.ParseSeverity(c.String(failOnFlag))", "problemsFound"⟩

def failOnDefaults : List String := ["bug", "bug"]

end Pint.Gen.Severity
