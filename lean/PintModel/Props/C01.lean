import PintModel.Model.Enable
namespace Pint.Props.C01
theorem placeholder : True := trivial
end Pint.Props.C01
