import PintModel.Model.Load
/-!
# C01 — a file pint passes in strict mode is loadable by Prometheus

`C01_statement`: for every document of the modelled domain (any number of groups and rules), if pint's strict pipeline
raises no Bug/Fatal problem then `rulefmt.Parse` returns no error.  Both acceptors are models (`Model/Load.lean`),
each compared with the real code on the same bytes (`loadverdicts`); the leaf validators (durations, PromQL,
templates, name validity) are the real library functions, evaluated by the harness on the real scalars.
-/
namespace Pint.Props.C01
open Pint.Load

/-- a scalar of another type anywhere in a rule is a type error for pint -/
theorem other_blocks (r : RuleD)
    (h : r.record = .other ∨ r.alert = .other ∨ r.expr = .other ∨
         r.for_ = .otherValid ∨ r.for_ = .otherZero ∨ r.for_ = .otherInvalid ∨
         r.keepFiring = .otherValid ∨ r.keepFiring = .otherZero ∨ r.keepFiring = .otherInvalid) : pintRule r = true := by
  unfold pintRule
  rcases h with h | h | h | h | h | h | h | h | h <;> simp [h]

set_option maxHeartbeats 1600000 in
theorem rule_sound (r : RuleD) (h : promRule r = true) : pintRule r = true := by
  by_cases ho : r.record = .other ∨ r.alert = .other ∨ r.expr = .other ∨
         r.for_ = .otherValid ∨ r.for_ = .otherZero ∨ r.for_ = .otherInvalid ∨
         r.keepFiring = .otherValid ∨ r.keepFiring = .otherZero ∨ r.keepFiring = .otherInvalid
  · exact other_blocks r ho
  · obtain ⟨isNull, isMap, record, alert, expr, rv, rb, ep, f, k, l, a, u, d⟩ := r
    simp only [not_or] at ho
    obtain ⟨h1, h2, h3, h4, h5, h6, h7, h8, h9⟩ := ho
    cases record <;> cases alert <;> cases expr <;> simp at h1 h2 h3 <;>
      simp_all [promRule, pintRule, promMapBad, mapPresentMap, pv, pd] <;>
      (cases f <;> cases k <;> simp_all) <;> grind

theorem rules_sound (rs : List RuleD) (h : rs.any promRule = true) : rs.any pintRule = true := by
  obtain ⟨r, hr, hp⟩ := List.any_eq_true.mp h
  exact List.any_eq_true.mpr ⟨r, hr, rule_sound r hp⟩

theorem groupOwn_sound (g : GroupD) (h : promGroupOwn g = true) : pintGroupOwn g = true := by
  unfold promGroupOwn at h
  unfold pintGroupOwn
  simp only [Bool.or_eq_true] at h
  -- every reason Prometheus has is one of pint's
  rcases h with (((((((((((h | h) | h) | h) | h) | h) | h) | h) | h) | h) | h) | h) | h
  · simp [h]
  · simp [h]
  · simp [h]
  · have : g.name = .coll := by simpa using h
    simp [this]
  · cases hn : g.name <;> simp_all [pv]
  · cases hi : g.interval <;> simp_all [pd]
  · have : g.interval = .coll := by simpa using h
    simp [this]
  · cases hq : g.queryOffset <;> simp_all [pd]
  · have : g.queryOffset = .coll := by simpa using h
    simp [this]
  · have : g.limit = .other := by simpa using h
    simp [this]
  · simp only [promMapBad, Bool.or_eq_true, Bool.and_eq_true, beq_iff_eq] at h
    rcases h with h | ⟨hk, hv⟩
    · simp [h]
    · simp [mapPresentMap, hk]
      rcases hv with hv | hv <;> simp [hv]
  · simp only [Bool.and_eq_true, beq_iff_eq, Bool.or_eq_true] at h
    simp [mapPresentMap, h.1]
    rcases h.2 with (hv | hv) | hv <;> simp [hv]
  · simp [h]

theorem group_sound (g : GroupD) (h : promGroup g = true) : pintGroup g = true := by
  simp only [promGroup, Bool.and_eq_true, Bool.or_eq_true] at h
  replace h := h.2
  simp only [pintGroup, Bool.or_eq_true]
  rcases h with h | h
  · exact Or.inl (groupOwn_sound g h)
  · right
    cases hr : g.rules with
    | seq rs => rw [hr] at h; exact rules_sound rs h
    | absent => rw [hr] at h; simp at h
    | null => rw [hr] at h; simp at h
    | notSeq => rw [hr] at h; simp at h

/-- **C01**: no Bug/Fatal from pint's strict pipeline ⇒ Prometheus's loader accepts the document — for every document of
the modelled domain, with any number of groups and rules. -/
theorem C01_statement (d : Doc) (h : pintBlocks d = false) : promRejects d = false := by
  cases hp : promRejects d with
  | false => rfl
  | true =>
    exfalso
    unfold promRejects at hp
    unfold pintBlocks at h
    by_cases he : d.empty = true
    · simp [he] at hp
    · simp only [he, Bool.false_eq_true, if_false] at hp h
      simp only [Bool.or_eq_true, Bool.not_eq_true'] at hp
      simp only [Bool.or_eq_false_iff, Bool.not_eq_false'] at h
      obtain ⟨⟨⟨⟨h1, h2⟩, h3⟩, _⟩, h5⟩ := h
      rcases hp with ((hp | hp) | hp) | hp
      · rw [h1] at hp; exact absurd hp (by simp)
      · rw [h2] at hp; exact absurd hp (by simp)
      · rw [h3] at hp; exact absurd hp (by simp)
      · cases hg : d.groups with
        | seq gs =>
          rw [hg] at hp h5
          simp only [Bool.or_eq_true] at hp
          simp only [Bool.or_eq_false_iff] at h5
          rcases hp with hp | hp
          · obtain ⟨g, hgm, hgp⟩ := List.any_eq_true.mp hp
            have := List.any_eq_true.mpr ⟨g, hgm, group_sound g hgp⟩
            rw [h5.1] at this; exact absurd this (by simp)
          · rw [h5.2] at hp; exact absurd hp (by simp)
        | notSeq => rw [hg] at h5; simp at h5
        | absent => rw [hg] at hp; simp at hp
        | null => rw [hg] at hp; simp at hp

/-- the converse does not hold, on purpose: pint is stricter (a second YAML document, `limit: ~`, `for: ~`, ...) -/
example : ∃ d : Doc, pintBlocks d = true ∧ promRejects d = false :=
  ⟨{ empty := false, isMap := true, unknownKey := false, dupGroups := false, multiDoc := true, groups := .seq [] }, by decide⟩

/-- non-vacuity: a well-formed document passes both -/
def okRule : RuleD :=
  { isNull := false, isMap := true, record := .val, alert := .absent, expr := .val, recordValid := true, recordBraces := false, exprParses := true,
    for_ := .absent, keepFiring := .absent,
    labels := { kind := .absent, dupKey := false, collValue := false, badName := false, metricName := false, badValue := false, badTemplate := false, nonEmpty := false, otherValue := false },
    annotations := { kind := .absent, dupKey := false, collValue := false, badName := false, metricName := false, badValue := false, badTemplate := false, nonEmpty := false, otherValue := false },
    unknownKey := false, duplicateKey := false }
def okGroup : GroupD :=
  { isNull := false, isMap := true, name := .val, nameText := "g", interval := .valid, queryOffset := .absent, limit := .absent,
    labels := okRule.labels, rules := .seq [okRule], unknownKey := false, duplicateKey := false }
def okDoc : Doc := { empty := false, isMap := true, unknownKey := false, dupGroups := false, multiDoc := false, groups := .seq [okGroup] }
example : pintBlocks okDoc = false ∧ promRejects okDoc = false := by decide

/-- the five repaired gaps, as they were: each document passed the old pint and is rejected by Prometheus -/
example : promRejects { okDoc with dupGroups := true } = true := by decide
example : promRejects { okDoc with groups := .seq [{ okGroup with name := .absent, rules := .absent }] } = true := by decide
example : promRejects { okDoc with groups := .seq [{ okGroup with rules := .seq [{ okRule with recordBraces := true }] }] } = true := by decide
example : promRejects { okDoc with groups := .seq [{ okGroup with labels := { okRule.labels with kind := .map, metricName := true, nonEmpty := true } }] } = true := by decide
example : promRejects { okDoc with groups := .seq [{ okGroup with rules := .seq [{ okRule with record := .null }] }] } = true := by decide

end Pint.Props.C01
