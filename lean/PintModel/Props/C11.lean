/-
  C11 — results do not depend on worker count or scheduling (report-stream level).
  Any schedule of N workers delivers the same multiset of reports in some order, so the statement is
  permutation invariance of the pipeline insert → sort → dedup.  It is proved under two decidable
  hypotheses about the report stream, which the harness monitors on real runs:
    E  : on this stream `isEqual` is plain equality (identical or nothing);
    Ord: on this stream the Go comparator is a total order (total, transitive, antisymmetric).
  Data races and the Go scheduler are outside the model.
-/
import PintModel.Model.Report
set_option linter.unusedSimpArgs false
namespace Pint.Props.C11
open Pint.Report

variable {α : Type}

/-! ### the stable sort -/

theorem insertBy_perm (le : α → α → Bool) (x : α) (l : List α) : (insertBy le x l).Perm (x :: l) := by
  induction l with
  | nil => simp [insertBy]
  | cons y rest ih =>
    simp only [insertBy]
    split
    · exact (List.Perm.cons y ih).trans (List.Perm.swap x y rest)
    · exact List.Perm.refl _

theorem foldl_insertBy_perm (le : α → α → Bool) (l acc : List α) :
    (l.foldl (fun acc x => insertBy le x acc) acc).Perm (acc ++ l) := by
  induction l generalizing acc with
  | nil => simp
  | cons x rest ih =>
    simp only [List.foldl_cons]
    refine (ih (insertBy le x acc)).trans ?_
    have h1 : (insertBy le x acc ++ rest).Perm ((x :: acc) ++ rest) := List.Perm.append_right rest (insertBy_perm le x acc)
    refine h1.trans ?_
    simp only [List.cons_append]
    exact (List.perm_middle (l₁ := acc) (l₂ := rest) (a := x)).symm

theorem stableSort_perm (le : α → α → Bool) (l : List α) : (stableSort le l).Perm l := by
  have := foldl_insertBy_perm le l []
  simpa [stableSort] using this

/-- `le` behaves as a total preorder on the members of `s` -/
structure OrdOn (le : α → α → Bool) (s : List α) : Prop where
  total : ∀ a ∈ s, ∀ b ∈ s, le a b = true ∨ le b a = true
  trans : ∀ a ∈ s, ∀ b ∈ s, ∀ c ∈ s, le a b = true → le b c = true → le a c = true
  antisymm : ∀ a ∈ s, ∀ b ∈ s, le a b = true → le b a = true → a = b

theorem insertBy_pairwise (le : α → α → Bool) (s : List α) (ho : OrdOn le s) (x : α) (l : List α)
    (hx : x ∈ s) (hl : ∀ y ∈ l, y ∈ s) (hp : l.Pairwise fun a b => le a b = true) :
    (insertBy le x l).Pairwise fun a b => le a b = true := by
  induction l with
  | nil => simp [insertBy]
  | cons y rest ih =>
    have hy : y ∈ s := hl y (by simp)
    have hrest : ∀ z ∈ rest, z ∈ s := fun z hz => hl z (by simp [hz])
    obtain ⟨hyrest, hprest⟩ := List.pairwise_cons.1 hp
    simp only [insertBy]
    split
    · rename_i hyx
      rw [List.pairwise_cons]
      refine ⟨?_, ih hrest hprest⟩
      intro z hz
      have := (insertBy_perm le x rest).subset hz
      cases List.mem_cons.1 this with
      | inl h => subst h; exact hyx
      | inr h => exact hyrest z h
    · rename_i hyx
      have hxy : le x y = true := by
        cases ho.total x hx y hy with
        | inl h => exact h
        | inr h => exact absurd h hyx
      rw [List.pairwise_cons]
      refine ⟨?_, hp⟩
      intro z hz
      cases List.mem_cons.1 hz with
      | inl h => subst h; exact hxy
      | inr h => exact ho.trans x hx y hy z (hrest z h) hxy (hyrest z h)

theorem foldl_insertBy_pairwise (le : α → α → Bool) (s : List α) (ho : OrdOn le s) (l acc : List α)
    (hl : ∀ y ∈ l, y ∈ s) (hacc : ∀ y ∈ acc, y ∈ s) (hp : acc.Pairwise fun a b => le a b = true) :
    (l.foldl (fun acc x => insertBy le x acc) acc).Pairwise fun a b => le a b = true := by
  induction l generalizing acc with
  | nil => simpa
  | cons x rest ih =>
    simp only [List.foldl_cons]
    apply ih (insertBy le x acc) (fun y hy => hl y (by simp [hy]))
    · intro y hy
      cases List.mem_cons.1 ((insertBy_perm le x acc).subset hy) with
      | inl h => subst h; exact hl y (by simp)
      | inr h => exact hacc y h
    · exact insertBy_pairwise le s ho x acc (hl x (by simp)) hacc hp

/-- sorting is order independent on a totally ordered stream: two permutations sort to the same list -/
theorem stableSort_perm_invariant (le : α → α → Bool) (l₁ l₂ : List α) (hperm : l₁.Perm l₂) (ho : OrdOn le l₁) :
    stableSort le l₁ = stableSort le l₂ := by
  have p1 := stableSort_perm le l₁
  have p2 := stableSort_perm le l₂
  have s1 : (stableSort le l₁).Pairwise fun a b => le a b = true :=
    foldl_insertBy_pairwise le l₁ ho l₁ [] (fun _ h => h) (by simp) List.Pairwise.nil
  have ho2 : OrdOn le l₂ :=
    ⟨fun a ha b hb => ho.total a (hperm.symm.subset ha) b (hperm.symm.subset hb),
     fun a ha b hb c hc => ho.trans a (hperm.symm.subset ha) b (hperm.symm.subset hb) c (hperm.symm.subset hc),
     fun a ha b hb => ho.antisymm a (hperm.symm.subset ha) b (hperm.symm.subset hb)⟩
  have s2 : (stableSort le l₂).Pairwise fun a b => le a b = true :=
    foldl_insertBy_pairwise le l₂ ho2 l₂ [] (fun _ h => h) (by simp) List.Pairwise.nil
  apply List.Perm.eq_of_pairwise (le := fun a b => le a b = true) _ s1 s2 (p1.trans (hperm.trans p2.symm))
  intro a b ha hb hab hba
  exact ho.antisymm a (p1.subset ha) b (hperm.symm.subset (p2.subset hb)) hab hba

/-! ### insertion-time de-duplication -/

/-- E: on this stream `isEqual` never identifies two different reports (it may fail to identify a report
    with itself: it compares the problem's last line with the RULE's last line) -/
def EqOn (s : List Rep) : Prop := ∀ a ∈ s, ∀ b ∈ s, isEqual a b = true → a = b

theorem skip_iff (s : List Rep) (he : EqOn s) (acc : List Rep) (r : Rep) (hacc : ∀ x ∈ acc, x ∈ s) (hr : r ∈ s) :
    (acc.any fun er => isEqual er r) = true ↔ r ∈ acc ∧ isEqual r r = true := by
  constructor
  · intro h
    obtain ⟨er, her, heq⟩ := List.any_eq_true.1 h
    have := he er (hacc er her) r hr heq
    subst this
    exact ⟨her, heq⟩
  · rintro ⟨hm, hs⟩
    exact List.any_eq_true.2 ⟨r, hm, hs⟩

/-- what insertion-time de-duplication does to the number of copies of a report -/
def keptCount (v : Rep) (acc l : List Rep) : Nat :=
  if isEqual v v = true then (if v ∈ acc then acc.count v else min 1 (l.count v)) else acc.count v + l.count v

theorem count_foldl_insertRep (s : List Rep) (he : EqOn s) (v : Rep) (l acc : List Rep)
    (hl : ∀ x ∈ l, x ∈ s) (hacc : ∀ x ∈ acc, x ∈ s) (hone : isEqual v v = true → acc.count v ≤ 1) :
    (l.foldl insertRep acc).count v = keptCount v acc l := by
  induction l generalizing acc with
  | nil =>
    simp only [List.foldl_nil, keptCount, List.count_nil]
    split
    · split
      · rfl
      · rename_i hm; simp [List.count_eq_zero.2 hm]
    · simp
  | cons r rest ih =>
    have hr : r ∈ s := hl r (by simp)
    have hrest : ∀ x ∈ rest, x ∈ s := fun x hx => hl x (by simp [hx])
    simp only [List.foldl_cons, insertRep]
    by_cases hskip : (acc.any fun er => isEqual er r) = true
    · obtain ⟨hm, hs⟩ := (skip_iff s he acc r hacc hr).1 hskip
      simp only [hskip, if_true]
      rw [ih acc hrest hacc hone]
      unfold keptCount
      by_cases hv : v = r
      · subst hv; simp [hs, hm]
      · have : (r :: rest).count v = rest.count v := by simp [List.count_cons, Ne.symm hv]
        simp [this]
    · have hskip' : (acc.any fun er => isEqual er r) = false := by simpa using hskip
      simp only [hskip', Bool.false_eq_true, if_false]
      have hacc' : ∀ x ∈ acc ++ [r], x ∈ s := by
        intro x hx
        cases List.mem_append.1 hx with
        | inl h => exact hacc x h
        | inr h => simp at h; subst h; exact hr
      by_cases hv : v = r
      · subst hv
        by_cases hs : isEqual v v = true
        · have hnm : v ∉ acc := fun hm => hskip ((skip_iff s he acc v hacc hr).2 ⟨hm, hs⟩)
          have hc0 : acc.count v = 0 := List.count_eq_zero.2 hnm
          rw [ih (acc ++ [v]) hrest hacc' (by intro _; simp [List.count_append, hc0])]
          unfold keptCount
          simp [hs, hnm, List.count_append, hc0]
        · rw [ih (acc ++ [v]) hrest hacc' (by intro h; exact absurd h hs)]
          unfold keptCount
          simp [hs, List.count_append]; omega
      · rw [ih (acc ++ [r]) hrest hacc' (by intro h; have := hone h; simpa [List.count_append, List.count_cons, Ne.symm hv] using this)]
        unfold keptCount
        have c1 : (acc ++ [r]).count v = acc.count v := by simp [List.count_append, List.count_cons, Ne.symm hv]
        have c2 : (r :: rest).count v = rest.count v := by simp [List.count_cons, Ne.symm hv]
        have m1 : v ∈ acc ++ [r] ↔ v ∈ acc := by simp [hv]
        simp [c1, c2, m1]

theorem insertAll_perm (s₁ s₂ : List Rep) (hperm : s₁.Perm s₂) (he : EqOn s₁) : (insertAll s₁).Perm (insertAll s₂) := by
  have he2 : EqOn s₂ := fun a ha b hb => he a (hperm.symm.subset ha) b (hperm.symm.subset hb)
  rw [List.perm_iff_count]
  intro v
  simp only [insertAll]
  rw [count_foldl_insertRep s₁ he v s₁ [] (fun _ h => h) (by simp) (by simp),
      count_foldl_insertRep s₂ he2 v s₂ [] (fun _ h => h) (by simp) (by simp)]
  unfold keptCount
  rw [hperm.count_eq v]

theorem mem_insertAll (s : List Rep) (he : EqOn s) (x : Rep) : x ∈ insertAll s ↔ x ∈ s := by
  rw [← List.count_pos_iff, ← List.count_pos_iff]
  simp only [insertAll]
  rw [count_foldl_insertRep s he x s [] (fun _ h => h) (by simp) (by simp)]
  unfold keptCount
  simp only [List.not_mem_nil, if_false, List.count_nil, Nat.zero_add]
  split <;> omega

/-! ### the statement -/

def norm (r : Rep) : Rep := { r with diags := sortDiags r.diags }

/-- C11 at full strength: for every report stream, every arrival order gives the same result -/
def C11_statement : Prop := ∀ s₁ s₂ : List Rep, s₁.Perm s₂ → pipeline s₁ = pipeline s₂

/-- C11 under the two monitored hypotheses: every permutation of the report stream (every schedule,
    every worker count) produces the same sorted, de-duplicated, duplicate-marked report list -/
theorem C11_partial (s₁ s₂ : List Rep) (hperm : s₁.Perm s₂) (he : EqOn s₁) (ho : OrdOn leRep (s₁.map norm)) :
    pipeline s₁ = pipeline s₂ := by
  have hsort : sortReports (insertAll s₁) = sortReports (insertAll s₂) := by
    unfold sortReports
    apply stableSort_perm_invariant leRep _ _ ((insertAll_perm s₁ s₂ hperm he).map _)
    have hsub : ∀ x ∈ (insertAll s₁).map (fun r => { r with diags := sortDiags r.diags }), x ∈ s₁.map norm := by
      intro x hx
      obtain ⟨r, hr, rfl⟩ := List.mem_map.1 hx
      exact List.mem_map.2 ⟨r, (mem_insertAll s₁ he r).1 hr, rfl⟩
    exact ⟨fun a ha b hb => ho.total a (hsub a ha) b (hsub b hb),
           fun a ha b hb c hc => ho.trans a (hsub a ha) b (hsub b hb) c (hsub c hc),
           fun a ha b hb => ho.antisymm a (hsub a ha) b (hsub b hb)⟩
  unfold pipeline
  simp only [hsort]

/-! ### schedules: interleavings that keep every job's own order

  A job is one (entry, check) pair; a worker sends a job's problems in order, so every schedule keeps
  the relative order of reports of one job.  Ties of the comparator inside one job are therefore
  harmless; this section proves that. -/

/-- `le` is a total preorder on `s` whose ties are decided by `before` -/
structure OrdB (le : α → α → Bool) (before : α → α → Prop) (s : List α) : Prop where
  total : ∀ a ∈ s, ∀ b ∈ s, le a b = true ∨ le b a = true
  trans : ∀ a ∈ s, ∀ b ∈ s, ∀ c ∈ s, le a b = true → le b c = true → le a c = true
  tie : ∀ a ∈ s, ∀ b ∈ s, le a b = true → le b a = true → a = b ∨ before a b ∨ before b a

/-- the order the stable sort actually realises: `le`, and on ties never against `before` -/
def leB (le : α → α → Bool) (before : α → α → Prop) (a b : α) : Prop :=
  le a b = true ∧ (le b a = true → ¬ before b a)

theorem insertBy_pairwiseB (le : α → α → Bool) (before : α → α → Prop) (s : List α) (ho : OrdB le before s)
    (x : α) (l : List α) (hx : x ∈ s) (hl : ∀ y ∈ l, y ∈ s) (hnb : ∀ y ∈ l, ¬ before x y)
    (hp : l.Pairwise (leB le before)) : (insertBy le x l).Pairwise (leB le before) := by
  induction l with
  | nil => simp [insertBy]
  | cons y rest ih =>
    have hy : y ∈ s := hl y (by simp)
    have hrest : ∀ z ∈ rest, z ∈ s := fun z hz => hl z (by simp [hz])
    obtain ⟨hyrest, hprest⟩ := List.pairwise_cons.1 hp
    simp only [insertBy]
    split
    · rename_i hyx
      rw [List.pairwise_cons]
      refine ⟨?_, ih hrest (fun z hz => hnb z (by simp [hz])) hprest⟩
      intro z hz
      cases List.mem_cons.1 ((insertBy_perm le x rest).subset hz) with
      | inl h => subst h; exact ⟨hyx, fun _ => hnb y (by simp)⟩
      | inr h => exact hyrest z h
    · rename_i hyx
      have hxy : le x y = true := by
        cases ho.total x hx y hy with
        | inl h => exact h
        | inr h => exact absurd h hyx
      rw [List.pairwise_cons]
      refine ⟨?_, hp⟩
      intro z hz
      cases List.mem_cons.1 hz with
      | inl h => subst h; exact ⟨hxy, fun h' => absurd h' hyx⟩
      | inr h =>
        have hyz := (hyrest z h).1
        refine ⟨ho.trans x hx y hy z (hrest z h) hxy hyz, ?_⟩
        intro hzx
        exact absurd (ho.trans y hy z (hrest z h) x hx hyz hzx) hyx

theorem foldl_insertBy_pairwiseB (le : α → α → Bool) (before : α → α → Prop) (s : List α) (ho : OrdB le before s)
    (l acc : List α) (hl : ∀ y ∈ l, y ∈ s) (hacc : ∀ y ∈ acc, y ∈ s)
    (hresp : l.Pairwise fun a b => ¬ before b a) (hcross : ∀ y ∈ acc, ∀ x ∈ l, ¬ before x y)
    (hp : acc.Pairwise (leB le before)) :
    (l.foldl (fun acc x => insertBy le x acc) acc).Pairwise (leB le before) := by
  induction l generalizing acc with
  | nil => simpa
  | cons x rest ih =>
    obtain ⟨hxrest, hrrest⟩ := List.pairwise_cons.1 hresp
    simp only [List.foldl_cons]
    apply ih (insertBy le x acc) (fun y hy => hl y (by simp [hy]))
    · intro y hy
      cases List.mem_cons.1 ((insertBy_perm le x acc).subset hy) with
      | inl h => subst h; exact hl y (by simp)
      | inr h => exact hacc y h
    · exact hrrest
    · intro y hy z hz
      cases List.mem_cons.1 ((insertBy_perm le x acc).subset hy) with
      | inl h => subst h; exact hxrest z hz
      | inr h => exact hcross y h z (by simp [hz])
    · exact insertBy_pairwiseB le before s ho x acc (hl x (by simp)) hacc (fun y hy => hcross y hy x (by simp)) hp

/-- two arrival orders that both respect `before` sort to the same list -/
theorem stableSort_invariantB (le : α → α → Bool) (before : α → α → Prop) (l₁ l₂ : List α) (hperm : l₁.Perm l₂)
    (ho : OrdB le before l₁) (h1 : l₁.Pairwise fun a b => ¬ before b a) (h2 : l₂.Pairwise fun a b => ¬ before b a) :
    stableSort le l₁ = stableSort le l₂ := by
  have p1 := stableSort_perm le l₁
  have p2 := stableSort_perm le l₂
  have ho2 : OrdB le before l₂ :=
    ⟨fun a ha b hb => ho.total a (hperm.symm.subset ha) b (hperm.symm.subset hb),
     fun a ha b hb c hc => ho.trans a (hperm.symm.subset ha) b (hperm.symm.subset hb) c (hperm.symm.subset hc),
     fun a ha b hb => ho.tie a (hperm.symm.subset ha) b (hperm.symm.subset hb)⟩
  have s1 : (stableSort le l₁).Pairwise (leB le before) :=
    foldl_insertBy_pairwiseB le before l₁ ho l₁ [] (fun _ h => h) (by simp) h1 (by simp) List.Pairwise.nil
  have s2 : (stableSort le l₂).Pairwise (leB le before) :=
    foldl_insertBy_pairwiseB le before l₂ ho2 l₂ [] (fun _ h => h) (by simp) h2 (by simp) List.Pairwise.nil
  apply List.Perm.eq_of_pairwise (le := leB le before) _ s1 s2 (p1.trans (hperm.trans p2.symm))
  intro a b ha hb hab hba
  rcases ho.tie a (p1.subset ha) b (hperm.symm.subset (p2.subset hb)) hab.1 hba.1 with h | h | h
  · exact h
  · exact absurd h (hba.2 hab.1)
  · exact absurd h (hab.2 hba.1)

def nrep (x : Tagged) : Rep := x.rep

/-- an arrival order in which every job's reports arrive in the job's own order -/
def ValidSchedule (s : List Tagged) : Prop := s.Pairwise fun x y => x.job = y.job → x.seq < y.seq

def UniqueIn (s : List Tagged) (x : Tagged) : Prop := ∀ z ∈ s, nrep z = nrep x → z = x

/-- tie-break relation induced by the stream: same job, earlier in the job, both occurring once -/
def beforeS (s : List Tagged) (a b : Rep) : Prop :=
  ∃ x ∈ s, ∃ y ∈ s, nrep x = a ∧ nrep y = b ∧ x.job = y.job ∧ x.seq < y.seq ∧ UniqueIn s x ∧ UniqueIn s y

/-- hypotheses about the set of produced reports (independent of the arrival order) -/
structure StreamOk (s : List Tagged) : Prop where
  eqOn : EqOn (s.map (·.rep))
  total : ∀ a ∈ s, ∀ b ∈ s, leRep (nrep a) (nrep b) = true ∨ leRep (nrep b) (nrep a) = true
  trans : ∀ a ∈ s, ∀ b ∈ s, ∀ c ∈ s, leRep (nrep a) (nrep b) = true → leRep (nrep b) (nrep c) = true → leRep (nrep a) (nrep c) = true
  /-- comparator ties between different reports only happen inside one job, between reports that occur once -/
  ties : ∀ a ∈ s, ∀ b ∈ s, leRep (nrep a) (nrep b) = true → leRep (nrep b) (nrep a) = true →
    nrep a = nrep b ∨ (a.job = b.job ∧ UniqueIn s a ∧ UniqueIn s b)
  tags : ∀ a ∈ s, ∀ b ∈ s, a.job = b.job → a.seq = b.seq → a = b

theorem respects_of_valid (s : List Tagged) (hv : ValidSchedule s) :
    (s.map nrep).Pairwise fun a b => ¬ beforeS s b a := by
  rw [List.pairwise_map]
  apply List.Pairwise.imp_of_mem _ hv
  intro x y hx hy hxy hb
  obtain ⟨x', hx', y', hy', e1, e2, hj, hs, u1, u2⟩ := hb
  have h1 : y = x' := u1 y hy e1.symm
  have h2 : x = y' := u2 x hx e2.symm
  subst h1 h2
  have := hxy hj.symm
  omega

theorem insertRep_sublist (l acc : List Rep) : ∃ t, t.Sublist l ∧ l.foldl insertRep acc = acc ++ t := by
  induction l generalizing acc with
  | nil => exact ⟨[], List.Sublist.refl _, by simp⟩
  | cons r rest ih =>
    simp only [List.foldl_cons, insertRep]
    split
    · obtain ⟨t, ht, he⟩ := ih acc
      exact ⟨t, ht.cons r, he⟩
    · obtain ⟨t, ht, he⟩ := ih (acc ++ [r])
      exact ⟨r :: t, ht.cons₂ r, by rw [he]; simp⟩

theorem insertAll_sublist (l : List Rep) : (insertAll l).Sublist l := by
  obtain ⟨t, ht, he⟩ := insertRep_sublist l []
  simp only [insertAll, he, List.nil_append]
  exact ht

/-- C11 over schedules, on streams whose reports have sorted diagnostics -/
theorem C11_schedules_norm (s₁ s₂ : List Tagged) (hperm : s₁.Perm s₂) (hv1 : ValidSchedule s₁) (hv2 : ValidSchedule s₂)
    (hok : StreamOk s₁) : pipe2 (s₁.map (·.rep)) = pipe2 (s₂.map (·.rep)) := by
  have hpr : (s₁.map (·.rep)).Perm (s₂.map (·.rep)) := hperm.map _
  have hsort : stableSort leRep (insertAll (s₁.map (·.rep))) = stableSort leRep (insertAll (s₂.map (·.rep))) := by
    have lift : ∀ r, r ∈ insertAll (s₁.map (·.rep)) → ∃ x ∈ s₁, nrep x = r := by
      intro r hr
      have := (mem_insertAll _ hok.eqOn r).1 hr
      obtain ⟨x, hx, rfl⟩ := List.mem_map.1 this
      exact ⟨x, hx, rfl⟩
    apply stableSort_invariantB leRep (beforeS s₁) _ _ (insertAll_perm _ _ hpr hok.eqOn)
    · refine ⟨?_, ?_, ?_⟩
      · intro a ha b hb
        obtain ⟨x, hx, rfl⟩ := lift a ha
        obtain ⟨y, hy, rfl⟩ := lift b hb
        exact hok.total x hx y hy
      · intro a ha b hb c hc
        obtain ⟨x, hx, rfl⟩ := lift a ha
        obtain ⟨y, hy, rfl⟩ := lift b hb
        obtain ⟨z, hz, rfl⟩ := lift c hc
        exact hok.trans x hx y hy z hz
      · intro a ha b hb hab hba
        obtain ⟨x, hx, rfl⟩ := lift a ha
        obtain ⟨y, hy, rfl⟩ := lift b hb
        rcases hok.ties x hx y hy hab hba with h | ⟨hj, ux, uy⟩
        · exact Or.inl h
        · by_cases hxy : x = y
          · subst hxy; exact Or.inl rfl
          · have hseq : x.seq ≠ y.seq := fun e => hxy (hok.tags x hx y hy hj e)
            rcases Nat.lt_or_gt_of_ne hseq with h | h
            · exact Or.inr (Or.inl ⟨x, hx, y, hy, rfl, rfl, hj, h, ux, uy⟩)
            · exact Or.inr (Or.inr ⟨y, hy, x, hx, rfl, rfl, hj.symm, h, uy, ux⟩)
    · have r1 := respects_of_valid s₁ hv1
      have e : s₁.map nrep = s₁.map (·.rep) := rfl
      rw [e] at r1
      exact r1.sublist (insertAll_sublist _)
    · have r2 := respects_of_valid s₂ hv2
      have hb' : ∀ a b, beforeS s₁ a b → beforeS s₂ a b := by
        rintro a b ⟨x, hx, y, hy, e1, e2, hj, hs, u1, u2⟩
        exact ⟨x, hperm.subset hx, y, hperm.subset hy, e1, e2, hj, hs,
          fun z hz => u1 z (hperm.symm.subset hz), fun z hz => u2 z (hperm.symm.subset hz)⟩
      have r2' : (s₂.map nrep).Pairwise fun a b => ¬ beforeS s₁ b a := r2.imp (fun h hb1 => h (hb' _ _ hb1))
      have e : s₂.map nrep = s₂.map (·.rep) := rfl
      rw [e] at r2'
      exact r2'.sublist (insertAll_sublist _)
  unfold pipe2
  simp only [hsort]

/-! ### from raw reports to reports with sorted diagnostics -/

theorem any_perm {β} (p : β → Bool) (l l' : List β) (h : l.Perm l') : l.any p = l'.any p := by
  rw [Bool.eq_iff_iff, List.any_eq_true, List.any_eq_true]
  exact ⟨fun ⟨x, hx, hp⟩ => ⟨x, h.subset hx, hp⟩, fun ⟨x, hx, hp⟩ => ⟨x, h.symm.subset hx, hp⟩⟩

theorem all_perm {β} (p : β → Bool) (l l' : List β) (h : l.Perm l') : l.all p = l'.all p := by
  rw [Bool.eq_iff_iff, List.all_eq_true, List.all_eq_true]
  exact ⟨fun hl x hx => hl x (h.symm.subset hx), fun hl x hx => hl x (h.subset hx)⟩

theorem sortDiags_perm (ds : List Diag) : (sortDiags ds).Perm ds := stableSort_perm _ ds

theorem sameDiagnostics_sort (sa sb : List Diag) :
    sameDiagnostics (sortDiags sa) (sortDiags sb) = sameDiagnostics sa sb := by
  unfold sameDiagnostics
  rw [(sortDiags_perm sa).length_eq, (sortDiags_perm sb).length_eq, all_perm _ _ _ (sortDiags_perm sa)]
  congr 2
  funext a
  exact any_perm _ _ _ (sortDiags_perm sb)

/-- `isEqual` does not look at the order of diagnostics -/
theorem isEqual_norm (a b : Rep) : isEqual (norm a) (norm b) = isEqual a b := by
  simp only [isEqual, norm, sameDiagnostics_sort]
  try rfl

theorem insertAll_map_norm (l acc : List Rep) :
    (l.map norm).foldl insertRep (acc.map norm) = (l.foldl insertRep acc).map norm := by
  induction l generalizing acc with
  | nil => rfl
  | cons r rest ih =>
    simp only [List.map_cons, List.foldl_cons, insertRep]
    have hany : ((acc.map norm).any fun er => isEqual er (norm r)) = acc.any fun er => isEqual er r := by
      rw [List.any_map]
      congr 1
      funext er
      exact isEqual_norm er r
    rw [hany]
    split
    · exact ih acc
    · have := ih (acc ++ [r])
      simpa using this

/-- the real pipeline on raw reports is the normalised pipeline on the reports with sorted diagnostics -/
theorem pipeline_eq_pipe2 (stream : List Rep) : pipeline stream = pipe2 (stream.map norm) := by
  unfold pipeline pipe2 sortReports
  have h : insertAll (stream.map norm) = (insertAll stream).map norm := by
    have := insertAll_map_norm stream []
    simpa [insertAll] using this
  rw [h]
  rfl

def normTagged (x : Tagged) : Tagged := { x with rep := norm x.rep }

/-- C11 over schedules: for every two arrival orders of the same produced reports in which each job's
    reports keep their own order, the pipeline output (sorted reports with duplicate marks — what every
    reporter and the exit status are computed from) is identical, provided the produced set of reports,
    with diagnostics sorted, satisfies `StreamOk` (decidable, monitored on real runs). Comparator ties
    inside one job, which real checks do produce, are allowed. -/
theorem C11_schedules (s₁ s₂ : List Tagged) (hperm : s₁.Perm s₂) (hv1 : ValidSchedule s₁) (hv2 : ValidSchedule s₂)
    (hok : StreamOk (s₁.map normTagged)) : pipeline (s₁.map (·.rep)) = pipeline (s₂.map (·.rep)) := by
  rw [pipeline_eq_pipe2, pipeline_eq_pipe2]
  have hv1' : ValidSchedule (s₁.map normTagged) := by
    unfold ValidSchedule at *
    rw [List.pairwise_map]
    exact hv1
  have hv2' : ValidSchedule (s₂.map normTagged) := by
    unfold ValidSchedule at *
    rw [List.pairwise_map]
    exact hv2
  have := C11_schedules_norm (s₁.map normTagged) (s₂.map normTagged) (hperm.map _) hv1' hv2' hok
  simpa [List.map_map, normTagged, Function.comp_def] using this

/-- the schedule monitor is sound: when it answers true the hypotheses of `C11_schedules` hold -/
theorem streamOkB_sound (s : List Tagged) (h : streamOkB s = true) : StreamOk s := by
  simp only [streamOkB, okEq, okTotal, okTrans, okTies, okTags, Bool.and_eq_true, List.all_eq_true, Bool.or_eq_true, Bool.not_eq_true',
    Bool.and_eq_false_iff, beq_iff_eq, decide_eq_true_eq] at h
  obtain ⟨⟨⟨⟨h1, h2⟩, h3⟩, h4⟩, h5⟩ := h
  have hn : ∀ x : Tagged, nrepT x = nrep x := fun _ => rfl
  have huniq : ∀ x, uniqueInB s x = true → UniqueIn s x := by
    intro x hx z hz hzx
    simp only [uniqueInB, List.all_eq_true, Bool.or_eq_true, Bool.not_eq_true', beq_iff_eq, beq_eq_false_iff_ne] at hx
    rcases hx z hz with h | h
    · exact absurd (by rw [hn, hn]; exact hzx) h
    · exact h
  refine ⟨?_, ?_, ?_, ?_, ?_⟩
  · intro a ha b hb hab
    simp only [eqOnB, List.all_eq_true, Bool.or_eq_true, Bool.not_eq_true', decide_eq_true_eq] at h1
    rcases h1 a ha b hb with h | h
    · rw [hab] at h; cases h
    · exact h
  · intro a ha b hb; exact h2 a ha b hb
  · intro a ha b hb c hc hab hbc
    rcases h3 a ha b hb c hc with (h | h) | h
    · rw [hn, hn] at h; rw [hab] at h; cases h
    · rw [hn, hn] at h; rw [hbc] at h; cases h
    · exact h
  · intro a ha b hb hab hba
    rcases h4 a ha b hb with (h | h) | h
    · rw [hn, hn] at h; rw [hab] at h; cases h
    · rw [hn, hn] at h; rw [hba] at h; cases h
    · rcases h with h | ⟨⟨hj, u1⟩, u2⟩
      · exact Or.inl h
      · exact Or.inr ⟨hj, huniq a u1, huniq b u2⟩
  · intro a ha b hb hj hs
    rcases h5 a ha b hb with (h | h) | h
    · exact absurd hj (by simpa using h)
    · exact absurd hs (by simpa using h)
    · exact h

theorem validScheduleB_sound (s : List Tagged) (h : validScheduleB s = true) : ValidSchedule s := by
  induction s with
  | nil => exact List.Pairwise.nil
  | cons x rest ih =>
    simp only [validScheduleB, Bool.and_eq_true, List.all_eq_true, Bool.or_eq_true, Bool.not_eq_true',
      beq_eq_false_iff_ne, decide_eq_true_eq] at h
    refine List.Pairwise.cons ?_ (ih h.2)
    intro y hy hj
    rcases h.1 y hy with h' | h'
    · exact absurd hj h'
    · exact h'

/-- the harness monitors are sound: when they answer true the hypotheses of `C11_partial` hold -/
theorem monitors_sound (s : List Rep) (h1 : eqOnB s = true) (h2 : ordOnB s = true) :
    EqOn s ∧ OrdOn leRep (s.map norm) := by
  constructor
  · intro a ha b hb hab
    simp only [eqOnB, List.all_eq_true, Bool.or_eq_true, Bool.not_eq_true', decide_eq_true_eq] at h1
    rcases h1 a ha b hb with h | h
    · rw [hab] at h; cases h
    · exact h
  · simp only [ordOnB, Bool.and_eq_true, List.all_eq_true, Bool.or_eq_true, Bool.not_eq_true',
      Bool.and_eq_false_iff, decide_eq_true_eq] at h2
    obtain ⟨⟨t1, t2⟩, t3⟩ := h2
    have hn : s.map norm = s.map normRep := rfl
    rw [hn]
    refine ⟨fun a ha b hb => t1 a ha b hb, ?_, ?_⟩
    · intro a ha b hb c hc hab hbc
      rcases t2 a ha b hb c hc with (h | h) | h
      · rw [hab] at h; cases h
      · rw [hbc] at h; cases h
      · exact h
    · intro a ha b hb hab hba
      rcases t3 a ha b hb with (h | h) | h
      · rw [hab] at h; cases h
      · rw [hba] at h; cases h
      · exact h

/-- the full statement is false of the code as modelled: `isEqual` compares the first report's problem
    range with the second report's RULE range, so which of two such reports survives insertion depends
    on which arrives first (witness; whether real checks can emit such a pair is what the monitor decides) -/
def wA : Rep := ⟨0, 0, 0, 1, 5, 1, 5, 0, 0, 0, 0, 1, []⟩
def wB : Rep := ⟨0, 0, 0, 1, 3, 1, 5, 0, 0, 0, 1, 1, []⟩

theorem C11_not_full : ¬ C11_statement := by
  intro h
  have := h [wA, wB] [wB, wA] (List.Perm.swap wB wA [])
  revert this
  decide

/-- non-vacuity of `C11_partial`: three distinct reports, one arriving twice, satisfy E and Ord -/
def d1 : Rep := ⟨0, 0, 0, 1, 5, 1, 5, 0, 2, 0, 0, 1, [⟨1, 3, 0⟩]⟩
def d2 : Rep := ⟨0, 0, 0, 7, 9, 7, 9, 0, 1, 0, 0, 2, [⟨1, 3, 0⟩, ⟨4, 6, 1⟩]⟩
def d3 : Rep := ⟨1, 1, 0, 1, 5, 1, 5, 0, 2, 0, 0, 1, [⟨1, 3, 0⟩]⟩

theorem demo : pipeline [d1, d2, d3, d1] = pipeline [d3, d1, d1, d2] ∧ (pipeline [d1, d2, d3, d1]).map (·.1) = [norm d1, norm d2, norm d3] := by
  decide

end Pint.Props.C11
