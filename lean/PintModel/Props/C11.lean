/-
  C11 — results do not depend on worker count or scheduling (report-stream level).
  Any schedule of N workers delivers the same multiset of reports in some order, so the statement is
  permutation invariance of the pipeline insert → sort → dedup: `C11_holds`, with no hypothesis on the stream,
  for the code after the C11 `fix:` commit (folding and sorting are one total comparison).
  The older, conditional theorems are kept: `C11_partial` / `C11_schedules` hold for ANY `isEqual` / comparator
  that satisfies the decidable hypotheses E (isEqual is equality on the stream) and Ord (total order on the
  stream) — they are what was true of the pinned code, and the monitors are still evaluated on real runs.
  Data races and the Go scheduler are outside the model.
-/
import PintModel.Model.Report
set_option linter.unusedSimpArgs false
namespace Pint.Props.C11
open Pint.Report

variable {α : Type}

/-! ### the stable sort -/

theorem insertBy_perm (le : α → α → Bool) (x : α) (l : List α) : (insertBy le x l).Perm (x :: l) := by
  induction l with
  | nil => simp [insertBy]
  | cons y rest ih =>
    simp only [insertBy]
    split
    · exact (List.Perm.cons y ih).trans (List.Perm.swap x y rest)
    · exact List.Perm.refl _

theorem foldl_insertBy_perm (le : α → α → Bool) (l acc : List α) :
    (l.foldl (fun acc x => insertBy le x acc) acc).Perm (acc ++ l) := by
  induction l generalizing acc with
  | nil => simp
  | cons x rest ih =>
    simp only [List.foldl_cons]
    refine (ih (insertBy le x acc)).trans ?_
    have h1 : (insertBy le x acc ++ rest).Perm ((x :: acc) ++ rest) := List.Perm.append_right rest (insertBy_perm le x acc)
    refine h1.trans ?_
    simp only [List.cons_append]
    exact (List.perm_middle (l₁ := acc) (l₂ := rest) (a := x)).symm

theorem stableSort_perm (le : α → α → Bool) (l : List α) : (stableSort le l).Perm l := by
  have := foldl_insertBy_perm le l []
  simpa [stableSort] using this

/-- `le` behaves as a total preorder on the members of `s` -/
structure OrdOn (le : α → α → Bool) (s : List α) : Prop where
  total : ∀ a ∈ s, ∀ b ∈ s, le a b = true ∨ le b a = true
  trans : ∀ a ∈ s, ∀ b ∈ s, ∀ c ∈ s, le a b = true → le b c = true → le a c = true
  antisymm : ∀ a ∈ s, ∀ b ∈ s, le a b = true → le b a = true → a = b

theorem insertBy_pairwise (le : α → α → Bool) (s : List α) (ho : OrdOn le s) (x : α) (l : List α)
    (hx : x ∈ s) (hl : ∀ y ∈ l, y ∈ s) (hp : l.Pairwise fun a b => le a b = true) :
    (insertBy le x l).Pairwise fun a b => le a b = true := by
  induction l with
  | nil => simp [insertBy]
  | cons y rest ih =>
    have hy : y ∈ s := hl y (by simp)
    have hrest : ∀ z ∈ rest, z ∈ s := fun z hz => hl z (by simp [hz])
    obtain ⟨hyrest, hprest⟩ := List.pairwise_cons.1 hp
    simp only [insertBy]
    split
    · rename_i hyx
      rw [List.pairwise_cons]
      refine ⟨?_, ih hrest hprest⟩
      intro z hz
      have := (insertBy_perm le x rest).subset hz
      cases List.mem_cons.1 this with
      | inl h => subst h; exact hyx
      | inr h => exact hyrest z h
    · rename_i hyx
      have hxy : le x y = true := by
        cases ho.total x hx y hy with
        | inl h => exact h
        | inr h => exact absurd h hyx
      rw [List.pairwise_cons]
      refine ⟨?_, hp⟩
      intro z hz
      cases List.mem_cons.1 hz with
      | inl h => subst h; exact hxy
      | inr h => exact ho.trans x hx y hy z (hrest z h) hxy (hyrest z h)

theorem foldl_insertBy_pairwise (le : α → α → Bool) (s : List α) (ho : OrdOn le s) (l acc : List α)
    (hl : ∀ y ∈ l, y ∈ s) (hacc : ∀ y ∈ acc, y ∈ s) (hp : acc.Pairwise fun a b => le a b = true) :
    (l.foldl (fun acc x => insertBy le x acc) acc).Pairwise fun a b => le a b = true := by
  induction l generalizing acc with
  | nil => simpa
  | cons x rest ih =>
    simp only [List.foldl_cons]
    apply ih (insertBy le x acc) (fun y hy => hl y (by simp [hy]))
    · intro y hy
      cases List.mem_cons.1 ((insertBy_perm le x acc).subset hy) with
      | inl h => subst h; exact hl y (by simp)
      | inr h => exact hacc y h
    · exact insertBy_pairwise le s ho x acc (hl x (by simp)) hacc hp

/-- sorting is order independent on a totally ordered stream: two permutations sort to the same list -/
theorem stableSort_perm_invariant (le : α → α → Bool) (l₁ l₂ : List α) (hperm : l₁.Perm l₂) (ho : OrdOn le l₁) :
    stableSort le l₁ = stableSort le l₂ := by
  have p1 := stableSort_perm le l₁
  have p2 := stableSort_perm le l₂
  have s1 : (stableSort le l₁).Pairwise fun a b => le a b = true :=
    foldl_insertBy_pairwise le l₁ ho l₁ [] (fun _ h => h) (by simp) List.Pairwise.nil
  have ho2 : OrdOn le l₂ :=
    ⟨fun a ha b hb => ho.total a (hperm.symm.subset ha) b (hperm.symm.subset hb),
     fun a ha b hb c hc => ho.trans a (hperm.symm.subset ha) b (hperm.symm.subset hb) c (hperm.symm.subset hc),
     fun a ha b hb => ho.antisymm a (hperm.symm.subset ha) b (hperm.symm.subset hb)⟩
  have s2 : (stableSort le l₂).Pairwise fun a b => le a b = true :=
    foldl_insertBy_pairwise le l₂ ho2 l₂ [] (fun _ h => h) (by simp) List.Pairwise.nil
  apply List.Perm.eq_of_pairwise (le := fun a b => le a b = true) _ s1 s2 (p1.trans (hperm.trans p2.symm))
  intro a b ha hb hab hba
  exact ho.antisymm a (p1.subset ha) b (hperm.symm.subset (p2.subset hb)) hab hba

/-! ### insertion-time de-duplication -/

/-- E: on this stream `isEqual` never identifies two different reports (it may fail to identify a report
    with itself: it compares the problem's last line with the RULE's last line) -/
def EqOn (s : List Rep) : Prop := ∀ a ∈ s, ∀ b ∈ s, isEqual a b = true → a = b

theorem skip_iff (s : List Rep) (he : EqOn s) (acc : List Rep) (r : Rep) (hacc : ∀ x ∈ acc, x ∈ s) (hr : r ∈ s) :
    (acc.any fun er => isEqual er r) = true ↔ r ∈ acc ∧ isEqual r r = true := by
  constructor
  · intro h
    obtain ⟨er, her, heq⟩ := List.any_eq_true.1 h
    have := he er (hacc er her) r hr heq
    subst this
    exact ⟨her, heq⟩
  · rintro ⟨hm, hs⟩
    exact List.any_eq_true.2 ⟨r, hm, hs⟩

/-- what insertion-time de-duplication does to the number of copies of a report -/
def keptCount (v : Rep) (acc l : List Rep) : Nat :=
  if isEqual v v = true then (if v ∈ acc then acc.count v else min 1 (l.count v)) else acc.count v + l.count v

theorem count_foldl_insertRep (s : List Rep) (he : EqOn s) (v : Rep) (l acc : List Rep)
    (hl : ∀ x ∈ l, x ∈ s) (hacc : ∀ x ∈ acc, x ∈ s) (hone : isEqual v v = true → acc.count v ≤ 1) :
    (l.foldl insertRep acc).count v = keptCount v acc l := by
  induction l generalizing acc with
  | nil =>
    simp only [List.foldl_nil, keptCount, List.count_nil]
    split
    · split
      · rfl
      · rename_i hm; simp [List.count_eq_zero.2 hm]
    · simp
  | cons r rest ih =>
    have hr : r ∈ s := hl r (by simp)
    have hrest : ∀ x ∈ rest, x ∈ s := fun x hx => hl x (by simp [hx])
    simp only [List.foldl_cons, insertRep]
    by_cases hskip : (acc.any fun er => isEqual er r) = true
    · obtain ⟨hm, hs⟩ := (skip_iff s he acc r hacc hr).1 hskip
      simp only [hskip, if_true]
      rw [ih acc hrest hacc hone]
      unfold keptCount
      by_cases hv : v = r
      · subst hv; simp [hs, hm]
      · have : (r :: rest).count v = rest.count v := by simp [List.count_cons, Ne.symm hv]
        simp [this]
    · have hskip' : (acc.any fun er => isEqual er r) = false := by simpa using hskip
      simp only [hskip', Bool.false_eq_true, if_false]
      have hacc' : ∀ x ∈ acc ++ [r], x ∈ s := by
        intro x hx
        cases List.mem_append.1 hx with
        | inl h => exact hacc x h
        | inr h => simp at h; subst h; exact hr
      by_cases hv : v = r
      · subst hv
        by_cases hs : isEqual v v = true
        · have hnm : v ∉ acc := fun hm => hskip ((skip_iff s he acc v hacc hr).2 ⟨hm, hs⟩)
          have hc0 : acc.count v = 0 := List.count_eq_zero.2 hnm
          rw [ih (acc ++ [v]) hrest hacc' (by intro _; simp [List.count_append, hc0])]
          unfold keptCount
          simp [hs, hnm, List.count_append, hc0]
        · rw [ih (acc ++ [v]) hrest hacc' (by intro h; exact absurd h hs)]
          unfold keptCount
          simp [hs, List.count_append]; omega
      · rw [ih (acc ++ [r]) hrest hacc' (by intro h; have := hone h; simpa [List.count_append, List.count_cons, Ne.symm hv] using this)]
        unfold keptCount
        have c1 : (acc ++ [r]).count v = acc.count v := by simp [List.count_append, List.count_cons, Ne.symm hv]
        have c2 : (r :: rest).count v = rest.count v := by simp [List.count_cons, Ne.symm hv]
        have m1 : v ∈ acc ++ [r] ↔ v ∈ acc := by simp [hv]
        simp [c1, c2, m1]

theorem insertAll_perm (s₁ s₂ : List Rep) (hperm : s₁.Perm s₂) (he : EqOn s₁) : (insertAll s₁).Perm (insertAll s₂) := by
  have he2 : EqOn s₂ := fun a ha b hb => he a (hperm.symm.subset ha) b (hperm.symm.subset hb)
  rw [List.perm_iff_count]
  intro v
  simp only [insertAll]
  rw [count_foldl_insertRep s₁ he v s₁ [] (fun _ h => h) (by simp) (by simp),
      count_foldl_insertRep s₂ he2 v s₂ [] (fun _ h => h) (by simp) (by simp)]
  unfold keptCount
  rw [hperm.count_eq v]

theorem mem_insertAll (s : List Rep) (he : EqOn s) (x : Rep) : x ∈ insertAll s ↔ x ∈ s := by
  rw [← List.count_pos_iff, ← List.count_pos_iff]
  simp only [insertAll]
  rw [count_foldl_insertRep s he x s [] (fun _ h => h) (by simp) (by simp)]
  unfold keptCount
  simp only [List.not_mem_nil, if_false, List.count_nil, Nat.zero_add]
  split <;> omega

/-! ### the statement -/

def norm (r : Rep) : Rep := { r with diags := sortDiags r.diags }

/-- C11 at full strength: for every report stream, every arrival order gives the same result -/
def C11_statement : Prop := ∀ s₁ s₂ : List Rep, s₁.Perm s₂ → pipeline s₁ = pipeline s₂

/-- C11 under the two monitored hypotheses: every permutation of the report stream (every schedule,
    every worker count) produces the same sorted, de-duplicated, duplicate-marked report list -/
theorem C11_partial (s₁ s₂ : List Rep) (hperm : s₁.Perm s₂) (he : EqOn s₁) (ho : OrdOn leRep (s₁.map norm)) :
    pipeline s₁ = pipeline s₂ := by
  have hsort : sortReports (insertAll s₁) = sortReports (insertAll s₂) := by
    unfold sortReports
    apply stableSort_perm_invariant leRep _ _ ((insertAll_perm s₁ s₂ hperm he).map _)
    have hsub : ∀ x ∈ (insertAll s₁).map (fun r => { r with diags := sortDiags r.diags }), x ∈ s₁.map norm := by
      intro x hx
      obtain ⟨r, hr, rfl⟩ := List.mem_map.1 hx
      exact List.mem_map.2 ⟨r, (mem_insertAll s₁ he r).1 hr, rfl⟩
    exact ⟨fun a ha b hb => ho.total a (hsub a ha) b (hsub b hb),
           fun a ha b hb c hc => ho.trans a (hsub a ha) b (hsub b hb) c (hsub c hc),
           fun a ha b hb => ho.antisymm a (hsub a ha) b (hsub b hb)⟩
  unfold pipeline
  simp only [hsort]

/-! ### schedules: interleavings that keep every job's own order

  A job is one (entry, check) pair; a worker sends a job's problems in order, so every schedule keeps
  the relative order of reports of one job.  Ties of the comparator inside one job are therefore
  harmless; this section proves that. -/

/-- `le` is a total preorder on `s` whose ties are decided by `before` -/
structure OrdB (le : α → α → Bool) (before : α → α → Prop) (s : List α) : Prop where
  total : ∀ a ∈ s, ∀ b ∈ s, le a b = true ∨ le b a = true
  trans : ∀ a ∈ s, ∀ b ∈ s, ∀ c ∈ s, le a b = true → le b c = true → le a c = true
  tie : ∀ a ∈ s, ∀ b ∈ s, le a b = true → le b a = true → a = b ∨ before a b ∨ before b a

/-- the order the stable sort actually realises: `le`, and on ties never against `before` -/
def leB (le : α → α → Bool) (before : α → α → Prop) (a b : α) : Prop :=
  le a b = true ∧ (le b a = true → ¬ before b a)

theorem insertBy_pairwiseB (le : α → α → Bool) (before : α → α → Prop) (s : List α) (ho : OrdB le before s)
    (x : α) (l : List α) (hx : x ∈ s) (hl : ∀ y ∈ l, y ∈ s) (hnb : ∀ y ∈ l, ¬ before x y)
    (hp : l.Pairwise (leB le before)) : (insertBy le x l).Pairwise (leB le before) := by
  induction l with
  | nil => simp [insertBy]
  | cons y rest ih =>
    have hy : y ∈ s := hl y (by simp)
    have hrest : ∀ z ∈ rest, z ∈ s := fun z hz => hl z (by simp [hz])
    obtain ⟨hyrest, hprest⟩ := List.pairwise_cons.1 hp
    simp only [insertBy]
    split
    · rename_i hyx
      rw [List.pairwise_cons]
      refine ⟨?_, ih hrest (fun z hz => hnb z (by simp [hz])) hprest⟩
      intro z hz
      cases List.mem_cons.1 ((insertBy_perm le x rest).subset hz) with
      | inl h => subst h; exact ⟨hyx, fun _ => hnb y (by simp)⟩
      | inr h => exact hyrest z h
    · rename_i hyx
      have hxy : le x y = true := by
        cases ho.total x hx y hy with
        | inl h => exact h
        | inr h => exact absurd h hyx
      rw [List.pairwise_cons]
      refine ⟨?_, hp⟩
      intro z hz
      cases List.mem_cons.1 hz with
      | inl h => subst h; exact ⟨hxy, fun h' => absurd h' hyx⟩
      | inr h =>
        have hyz := (hyrest z h).1
        refine ⟨ho.trans x hx y hy z (hrest z h) hxy hyz, ?_⟩
        intro hzx
        exact absurd (ho.trans y hy z (hrest z h) x hx hyz hzx) hyx

theorem foldl_insertBy_pairwiseB (le : α → α → Bool) (before : α → α → Prop) (s : List α) (ho : OrdB le before s)
    (l acc : List α) (hl : ∀ y ∈ l, y ∈ s) (hacc : ∀ y ∈ acc, y ∈ s)
    (hresp : l.Pairwise fun a b => ¬ before b a) (hcross : ∀ y ∈ acc, ∀ x ∈ l, ¬ before x y)
    (hp : acc.Pairwise (leB le before)) :
    (l.foldl (fun acc x => insertBy le x acc) acc).Pairwise (leB le before) := by
  induction l generalizing acc with
  | nil => simpa
  | cons x rest ih =>
    obtain ⟨hxrest, hrrest⟩ := List.pairwise_cons.1 hresp
    simp only [List.foldl_cons]
    apply ih (insertBy le x acc) (fun y hy => hl y (by simp [hy]))
    · intro y hy
      cases List.mem_cons.1 ((insertBy_perm le x acc).subset hy) with
      | inl h => subst h; exact hl y (by simp)
      | inr h => exact hacc y h
    · exact hrrest
    · intro y hy z hz
      cases List.mem_cons.1 ((insertBy_perm le x acc).subset hy) with
      | inl h => subst h; exact hxrest z hz
      | inr h => exact hcross y h z (by simp [hz])
    · exact insertBy_pairwiseB le before s ho x acc (hl x (by simp)) hacc (fun y hy => hcross y hy x (by simp)) hp

/-- two arrival orders that both respect `before` sort to the same list -/
theorem stableSort_invariantB (le : α → α → Bool) (before : α → α → Prop) (l₁ l₂ : List α) (hperm : l₁.Perm l₂)
    (ho : OrdB le before l₁) (h1 : l₁.Pairwise fun a b => ¬ before b a) (h2 : l₂.Pairwise fun a b => ¬ before b a) :
    stableSort le l₁ = stableSort le l₂ := by
  have p1 := stableSort_perm le l₁
  have p2 := stableSort_perm le l₂
  have ho2 : OrdB le before l₂ :=
    ⟨fun a ha b hb => ho.total a (hperm.symm.subset ha) b (hperm.symm.subset hb),
     fun a ha b hb c hc => ho.trans a (hperm.symm.subset ha) b (hperm.symm.subset hb) c (hperm.symm.subset hc),
     fun a ha b hb => ho.tie a (hperm.symm.subset ha) b (hperm.symm.subset hb)⟩
  have s1 : (stableSort le l₁).Pairwise (leB le before) :=
    foldl_insertBy_pairwiseB le before l₁ ho l₁ [] (fun _ h => h) (by simp) h1 (by simp) List.Pairwise.nil
  have s2 : (stableSort le l₂).Pairwise (leB le before) :=
    foldl_insertBy_pairwiseB le before l₂ ho2 l₂ [] (fun _ h => h) (by simp) h2 (by simp) List.Pairwise.nil
  apply List.Perm.eq_of_pairwise (le := leB le before) _ s1 s2 (p1.trans (hperm.trans p2.symm))
  intro a b ha hb hab hba
  rcases ho.tie a (p1.subset ha) b (hperm.symm.subset (p2.subset hb)) hab.1 hba.1 with h | h | h
  · exact h
  · exact absurd h (hba.2 hab.1)
  · exact absurd h (hab.2 hba.1)

def nrep (x : Tagged) : Rep := x.rep

/-- an arrival order in which every job's reports arrive in the job's own order -/
def ValidSchedule (s : List Tagged) : Prop := s.Pairwise fun x y => x.job = y.job → x.seq < y.seq

def UniqueIn (s : List Tagged) (x : Tagged) : Prop := ∀ z ∈ s, nrep z = nrep x → z = x

/-- tie-break relation induced by the stream: same job, earlier in the job, both occurring once -/
def beforeS (s : List Tagged) (a b : Rep) : Prop :=
  ∃ x ∈ s, ∃ y ∈ s, nrep x = a ∧ nrep y = b ∧ x.job = y.job ∧ x.seq < y.seq ∧ UniqueIn s x ∧ UniqueIn s y

/-- hypotheses about the set of produced reports (independent of the arrival order) -/
structure StreamOk (s : List Tagged) : Prop where
  eqOn : EqOn (s.map (·.rep))
  total : ∀ a ∈ s, ∀ b ∈ s, leRep (nrep a) (nrep b) = true ∨ leRep (nrep b) (nrep a) = true
  trans : ∀ a ∈ s, ∀ b ∈ s, ∀ c ∈ s, leRep (nrep a) (nrep b) = true → leRep (nrep b) (nrep c) = true → leRep (nrep a) (nrep c) = true
  /-- comparator ties between different reports only happen inside one job, between reports that occur once -/
  ties : ∀ a ∈ s, ∀ b ∈ s, leRep (nrep a) (nrep b) = true → leRep (nrep b) (nrep a) = true →
    nrep a = nrep b ∨ (a.job = b.job ∧ UniqueIn s a ∧ UniqueIn s b)
  tags : ∀ a ∈ s, ∀ b ∈ s, a.job = b.job → a.seq = b.seq → a = b

theorem respects_of_valid (s : List Tagged) (hv : ValidSchedule s) :
    (s.map nrep).Pairwise fun a b => ¬ beforeS s b a := by
  rw [List.pairwise_map]
  apply List.Pairwise.imp_of_mem _ hv
  intro x y hx hy hxy hb
  obtain ⟨x', hx', y', hy', e1, e2, hj, hs, u1, u2⟩ := hb
  have h1 : y = x' := u1 y hy e1.symm
  have h2 : x = y' := u2 x hx e2.symm
  subst h1 h2
  have := hxy hj.symm
  omega

theorem insertRep_sublist (l acc : List Rep) : ∃ t, t.Sublist l ∧ l.foldl insertRep acc = acc ++ t := by
  induction l generalizing acc with
  | nil => exact ⟨[], List.Sublist.refl _, by simp⟩
  | cons r rest ih =>
    simp only [List.foldl_cons, insertRep]
    split
    · obtain ⟨t, ht, he⟩ := ih acc
      exact ⟨t, ht.cons r, he⟩
    · obtain ⟨t, ht, he⟩ := ih (acc ++ [r])
      exact ⟨r :: t, ht.cons₂ r, by rw [he]; simp⟩

theorem insertAll_sublist (l : List Rep) : (insertAll l).Sublist l := by
  obtain ⟨t, ht, he⟩ := insertRep_sublist l []
  simp only [insertAll, he, List.nil_append]
  exact ht

/-- C11 over schedules, on streams whose reports have sorted diagnostics -/
theorem C11_schedules_norm (s₁ s₂ : List Tagged) (hperm : s₁.Perm s₂) (hv1 : ValidSchedule s₁) (hv2 : ValidSchedule s₂)
    (hok : StreamOk s₁) : pipe2 (s₁.map (·.rep)) = pipe2 (s₂.map (·.rep)) := by
  have hpr : (s₁.map (·.rep)).Perm (s₂.map (·.rep)) := hperm.map _
  have hsort : stableSort leRep (insertAll (s₁.map (·.rep))) = stableSort leRep (insertAll (s₂.map (·.rep))) := by
    have lift : ∀ r, r ∈ insertAll (s₁.map (·.rep)) → ∃ x ∈ s₁, nrep x = r := by
      intro r hr
      have := (mem_insertAll _ hok.eqOn r).1 hr
      obtain ⟨x, hx, rfl⟩ := List.mem_map.1 this
      exact ⟨x, hx, rfl⟩
    apply stableSort_invariantB leRep (beforeS s₁) _ _ (insertAll_perm _ _ hpr hok.eqOn)
    · refine ⟨?_, ?_, ?_⟩
      · intro a ha b hb
        obtain ⟨x, hx, rfl⟩ := lift a ha
        obtain ⟨y, hy, rfl⟩ := lift b hb
        exact hok.total x hx y hy
      · intro a ha b hb c hc
        obtain ⟨x, hx, rfl⟩ := lift a ha
        obtain ⟨y, hy, rfl⟩ := lift b hb
        obtain ⟨z, hz, rfl⟩ := lift c hc
        exact hok.trans x hx y hy z hz
      · intro a ha b hb hab hba
        obtain ⟨x, hx, rfl⟩ := lift a ha
        obtain ⟨y, hy, rfl⟩ := lift b hb
        rcases hok.ties x hx y hy hab hba with h | ⟨hj, ux, uy⟩
        · exact Or.inl h
        · by_cases hxy : x = y
          · subst hxy; exact Or.inl rfl
          · have hseq : x.seq ≠ y.seq := fun e => hxy (hok.tags x hx y hy hj e)
            rcases Nat.lt_or_gt_of_ne hseq with h | h
            · exact Or.inr (Or.inl ⟨x, hx, y, hy, rfl, rfl, hj, h, ux, uy⟩)
            · exact Or.inr (Or.inr ⟨y, hy, x, hx, rfl, rfl, hj.symm, h, uy, ux⟩)
    · have r1 := respects_of_valid s₁ hv1
      have e : s₁.map nrep = s₁.map (·.rep) := rfl
      rw [e] at r1
      exact r1.sublist (insertAll_sublist _)
    · have r2 := respects_of_valid s₂ hv2
      have hb' : ∀ a b, beforeS s₁ a b → beforeS s₂ a b := by
        rintro a b ⟨x, hx, y, hy, e1, e2, hj, hs, u1, u2⟩
        exact ⟨x, hperm.subset hx, y, hperm.subset hy, e1, e2, hj, hs,
          fun z hz => u1 z (hperm.symm.subset hz), fun z hz => u2 z (hperm.symm.subset hz)⟩
      have r2' : (s₂.map nrep).Pairwise fun a b => ¬ beforeS s₁ b a := r2.imp (fun h hb1 => h (hb' _ _ hb1))
      have e : s₂.map nrep = s₂.map (·.rep) := rfl
      rw [e] at r2'
      exact r2'.sublist (insertAll_sublist _)
  unfold pipe2
  simp only [hsort]

/-! ### from raw reports to reports with sorted diagnostics -/

theorem any_perm {β} (p : β → Bool) (l l' : List β) (h : l.Perm l') : l.any p = l'.any p := by
  rw [Bool.eq_iff_iff, List.any_eq_true, List.any_eq_true]
  exact ⟨fun ⟨x, hx, hp⟩ => ⟨x, h.subset hx, hp⟩, fun ⟨x, hx, hp⟩ => ⟨x, h.symm.subset hx, hp⟩⟩

theorem all_perm {β} (p : β → Bool) (l l' : List β) (h : l.Perm l') : l.all p = l'.all p := by
  rw [Bool.eq_iff_iff, List.all_eq_true, List.all_eq_true]
  exact ⟨fun hl x hx => hl x (h.symm.subset hx), fun hl x hx => hl x (h.subset hx)⟩

theorem sortDiags_perm (ds : List Diag) : (sortDiags ds).Perm ds := stableSort_perm _ ds

/-! ### the comparator is a total order (after the `fix:` commit that made folding and sorting one comparison)

  `Good c`: `c` is a three-way comparison — antisymmetric in sign, transitive, and a zero means the two sides
  compare alike against everything.  Closed under `orElse` chains, pull-backs, argument swap and `cmpList`. -/

structure Good {β : Type} (c : β → β → Int) : Prop where
  swap : ∀ a b, c a b = -(c b a)
  zero : ∀ a b d, c a b = 0 → c a d = c b d
  trans : ∀ a b d, c a b ≤ 0 → c b d ≤ 0 → c a d ≤ 0

theorem Good.strict {β : Type} {c : β → β → Int} (g : Good c) (a b d : β) (h1 : c a b < 0) (h2 : c b d ≤ 0) : c a d < 0 := by
  have hle := g.trans a b d (by omega) h2
  by_cases h0 : c a d = 0
  · -- then d and a compare alike: c d b = c a b < 0, so c b d > 0
    have h3 : c d b = c a b := by
      have := g.zero a d b h0
      omega
    have h4 := g.swap b d
    omega
  · omega

theorem good_cmpInt {β : Type} (f : β → Int) : Good (fun a b => cmpInt (f a) (f b)) := by
  refine ⟨?_, ?_, ?_⟩
  · intro a b; unfold cmpInt; split <;> split <;> (try split) <;> omega
  · intro a b d h
    have hab : f a = f b := by
      unfold cmpInt at h; split at h <;> (try split at h) <;> omega
    simp only [hab]
  · intro a b d h1 h2
    unfold cmpInt at *
    split at h1 <;> split at h2 <;> (try split at h1) <;> (try split at h2) <;> split <;> (try split) <;> omega

theorem good_cmpNat {β : Type} (f : β → Nat) : Good (fun a b => cmpNat (f a) (f b)) := by
  refine ⟨?_, ?_, ?_⟩
  · intro a b; unfold cmpNat; split <;> split <;> (try split) <;> omega
  · intro a b d h
    have hab : f a = f b := by
      unfold cmpNat at h; split at h <;> (try split at h) <;> omega
    simp only [hab]
  · intro a b d h1 h2
    unfold cmpNat at *
    split at h1 <;> split at h2 <;> (try split at h1) <;> (try split at h2) <;> split <;> (try split) <;> omega

theorem good_flip {β : Type} {c : β → β → Int} (g : Good c) : Good (fun a b => c b a) := by
  refine ⟨fun a b => g.swap b a, ?_, ?_⟩
  · intro a b d h
    have h' : c a b = 0 := by have := g.swap a b; omega
    have := g.zero a b d h'
    have s1 := g.swap d a
    have s2 := g.swap d b
    omega
  · intro a b d h1 h2
    exact g.trans d b a h2 h1

theorem good_orElse {β : Type} {c₁ c₂ : β → β → Int} (g₁ : Good c₁) (g₂ : Good c₂) :
    Good (fun a b => orElse (c₁ a b) (c₂ a b)) := by
  refine ⟨?_, ?_, ?_⟩
  · intro a b
    have s1 := g₁.swap a b
    have s2 := g₂.swap a b
    unfold orElse
    split <;> split <;> omega
  · intro a b d h
    have h1 : c₁ a b = 0 := by unfold orElse at h; split at h <;> omega
    have h2 : c₂ a b = 0 := by unfold orElse at h; split at h <;> omega
    simp only [g₁.zero a b d h1, g₂.zero a b d h2]
  · intro a b d h1 h2
    unfold orElse at *
    by_cases hab : c₁ a b = 0
    · have hz := g₁.zero a b d hab
      have h1' : c₂ a b ≤ 0 := by simpa [hab] using h1
      by_cases hbd : c₁ b d = 0
      · have h2' : c₂ b d ≤ 0 := by simpa [hbd] using h2
        have := g₂.trans a b d h1' h2'
        rw [if_neg (by omega : ¬ c₁ a d ≠ 0)]
        exact this
      · have h2' : c₁ b d ≤ 0 := by simpa [hbd] using h2
        rw [if_pos (by omega : c₁ a d ≠ 0)]
        omega
    · have h1' : c₁ a b < 0 := by
        rw [if_pos hab] at h1; omega
      have h2' : c₁ b d ≤ 0 := by
        split at h2 <;> omega
      have := g₁.strict a b d h1' h2'
      rw [if_pos (by omega : c₁ a d ≠ 0)]
      omega

theorem good_pull {β γ : Type} {c : γ → γ → Int} (g : Good c) (f : β → γ) : Good (fun a b => c (f a) (f b)) :=
  ⟨fun a b => g.swap _ _, fun a b d h => g.zero _ _ _ h, fun a b d h1 h2 => g.trans _ _ _ h1 h2⟩

theorem cmpList_swap {β : Type} {c : β → β → Int} (g : Good c) : ∀ xs ys : List β, cmpList c xs ys = -(cmpList c ys xs)
  | [], [] => by simp [cmpList]
  | [], _ :: _ => by simp [cmpList]
  | _ :: _, [] => by simp [cmpList]
  | x :: xs, y :: ys => by
    have ih := cmpList_swap g xs ys
    have s := g.swap x y
    simp only [cmpList, orElse]
    split <;> split <;> omega

theorem cmpList_zero {β : Type} {c : β → β → Int} (g : Good c) :
    ∀ xs ys zs : List β, cmpList c xs ys = 0 → cmpList c xs zs = cmpList c ys zs
  | [], [], _, _ => rfl
  | [], _ :: _, _, h => by simp [cmpList] at h
  | _ :: _, [], _, h => by simp [cmpList] at h
  | x :: xs, y :: ys, zs, h => by
    have h1 : c x y = 0 := by simp only [cmpList, orElse] at h; split at h <;> omega
    have h2 : cmpList c xs ys = 0 := by simp only [cmpList, orElse] at h; split at h <;> omega
    cases zs with
    | nil => simp [cmpList]
    | cons z zs =>
      simp only [cmpList, g.zero x y z h1, cmpList_zero g xs ys zs h2]

theorem cmpList_trans {β : Type} {c : β → β → Int} (g : Good c) :
    ∀ xs ys zs : List β, cmpList c xs ys ≤ 0 → cmpList c ys zs ≤ 0 → cmpList c xs zs ≤ 0
  | [], _, [], _, _ => by simp [cmpList]
  | [], _, _ :: _, _, _ => by simp [cmpList]
  | _ :: _, [], _, h, _ => by simp [cmpList] at h
  | _ :: _, _ :: _, [], _, h => by simp [cmpList] at h
  | x :: xs, y :: ys, z :: zs, h1, h2 => by
    have ih := cmpList_trans g xs ys zs
    simp only [cmpList] at *
    -- the same case analysis as good_orElse, with the tails as second component
    unfold orElse at *
    by_cases hab : c x y = 0
    · have hz := g.zero x y z hab
      have h1' : cmpList c xs ys ≤ 0 := by simpa [hab] using h1
      by_cases hbd : c y z = 0
      · have h2' : cmpList c ys zs ≤ 0 := by simpa [hbd] using h2
        have := ih h1' h2'
        rw [if_neg (by omega : ¬ c x z ≠ 0)]
        exact this
      · have h2' : c y z ≤ 0 := by simpa [hbd] using h2
        rw [if_pos (by omega : c x z ≠ 0)]
        omega
    · have h1' : c x y < 0 := by
        rw [if_pos hab] at h1; omega
      have h2' : c y z ≤ 0 := by
        split at h2 <;> omega
      have := g.strict x y z h1' h2'
      rw [if_pos (by omega : c x z ≠ 0)]
      omega

theorem good_cmpList {β : Type} {c : β → β → Int} (g : Good c) : Good (cmpList c) :=
  ⟨cmpList_swap g, cmpList_zero g, cmpList_trans g⟩

theorem cmpList_eq {β : Type} {c : β → β → Int} (hc : ∀ a b, c a b = 0 → a = b) :
    ∀ xs ys : List β, cmpList c xs ys = 0 → xs = ys
  | [], [], _ => rfl
  | [], _ :: _, h => by simp [cmpList] at h
  | _ :: _, [], h => by simp [cmpList] at h
  | x :: xs, y :: ys, h => by
    have h1 : c x y = 0 := by simp only [cmpList, orElse] at h; split at h <;> omega
    have h2 : cmpList c xs ys = 0 := by simp only [cmpList, orElse] at h; split at h <;> omega
    rw [hc x y h1, cmpList_eq hc xs ys h2]

theorem cmpInt_eq (a b : Int) (h : cmpInt a b = 0) : a = b := by
  unfold cmpInt at h; split at h <;> (try split at h) <;> omega

theorem cmpNat_eq (a b : Nat) (h : cmpNat a b = 0) : a = b := by
  unfold cmpNat at h; split at h <;> (try split at h) <;> omega

theorem orElse_zero (x y : Int) (h : orElse x y = 0) : x = 0 ∧ y = 0 := by
  unfold orElse at h; split at h <;> omega

theorem good_cmpDiags : Good cmpDiags := by
  unfold cmpDiags
  exact good_orElse (good_flip (good_cmpInt (fun x : Diag => x.firstCol))) (good_orElse (good_cmpInt (fun x : Diag => x.lastCol)) (good_cmpNat (fun x : Diag => x.msg)))

theorem cmpDiags_eq (a b : Diag) (h : cmpDiags a b = 0) : a = b := by
  unfold cmpDiags at h
  obtain ⟨h1, h23⟩ := orElse_zero _ _ h
  obtain ⟨h2, h3⟩ := orElse_zero _ _ h23
  have e1 := cmpInt_eq _ _ h1
  have e2 := cmpInt_eq _ _ h2
  have e3 := cmpNat_eq _ _ h3
  cases a; cases b; simp_all

theorem good_cmpDiagnostics : Good (fun a b : Rep => cmpDiagnostics a.diags b.diags) := by
  unfold cmpDiagnostics
  exact good_pull (good_cmpList good_cmpDiags) (fun r : Rep => sortDiags r.diags)

theorem good_cmpRules : Good cmpRules := by
  unfold cmpRules
  exact good_orElse (good_cmpInt (fun x : Rep => x.rFirst)) (good_orElse (good_cmpInt (fun x : Rep => x.rLast)) (good_orElse (good_cmpNat (fun x : Rep => x.ruleName)) (good_cmpNat (fun x : Rep => x.ruleKind))))

theorem good_cmpReports : Good cmpReports := by
  unfold cmpReports
  exact good_orElse (good_cmpNat (fun x : Rep => x.pathName)) <| good_orElse (good_cmpInt (fun x : Rep => x.pFirst)) <| good_orElse (good_cmpInt (fun x : Rep => x.pLast)) <|
    good_orElse (good_cmpNat (fun x : Rep => x.sev)) <| good_orElse (good_cmpNat (fun x : Rep => x.reporter)) <| good_orElse (good_cmpNat (fun x : Rep => x.summary)) <|
    good_orElse good_cmpDiagnostics <| good_orElse (good_cmpNat (fun x : Rep => x.details)) <| good_orElse (good_cmpNat (fun x : Rep => x.anchor)) <|
    good_orElse (good_cmpNat (fun x : Rep => x.owner)) <| good_orElse (good_cmpNat (fun x : Rep => x.pathTarget)) good_cmpRules

/-- a zero of the comparator: every field is the same and the diagnostics are the same once sorted -/
theorem cmpReports_zero (a b : Rep) (h : cmpReports a b = 0) :
    { a with diags := sortDiags a.diags } = { b with diags := sortDiags b.diags } := by
  unfold cmpReports at h
  obtain ⟨e1, h⟩ := orElse_zero _ _ h
  obtain ⟨e2, h⟩ := orElse_zero _ _ h
  obtain ⟨e3, h⟩ := orElse_zero _ _ h
  obtain ⟨e4, h⟩ := orElse_zero _ _ h
  obtain ⟨e5, h⟩ := orElse_zero _ _ h
  obtain ⟨e6, h⟩ := orElse_zero _ _ h
  obtain ⟨e7, h⟩ := orElse_zero _ _ h
  obtain ⟨e8, h⟩ := orElse_zero _ _ h
  obtain ⟨e9, h⟩ := orElse_zero _ _ h
  obtain ⟨e10, h⟩ := orElse_zero _ _ h
  obtain ⟨e11, h⟩ := orElse_zero _ _ h
  unfold cmpRules at h
  obtain ⟨e12, h⟩ := orElse_zero _ _ h
  obtain ⟨e13, h⟩ := orElse_zero _ _ h
  obtain ⟨e14, e15⟩ := orElse_zero _ _ h
  have d : sortDiags a.diags = sortDiags b.diags := cmpList_eq cmpDiags_eq _ _ e7
  have := cmpNat_eq _ _ e1; have := cmpInt_eq _ _ e2; have := cmpInt_eq _ _ e3; have := cmpNat_eq _ _ e4
  have := cmpNat_eq _ _ e5; have := cmpNat_eq _ _ e6; have := cmpNat_eq _ _ e8; have := cmpNat_eq _ _ e9
  have := cmpNat_eq _ _ e10; have := cmpNat_eq _ _ e11; have := cmpInt_eq _ _ e12; have := cmpInt_eq _ _ e13
  have := cmpNat_eq _ _ e14; have := cmpNat_eq _ _ e15
  cases a; cases b; simp_all

/-- the order of diagnostics inside a report is a total order on `Diag` -/
theorem ordOn_diags (l : List Diag) : OrdOn (fun a b => decide (cmpDiags b a ≥ 0)) l := by
  refine ⟨?_, ?_, ?_⟩
  · intro a _ b _
    have := good_cmpDiags.swap a b
    simp only [decide_eq_true_eq]; omega
  · intro a _ b _ d _ h1 h2
    simp only [decide_eq_true_eq] at *
    have s1 := good_cmpDiags.swap a b
    have s2 := good_cmpDiags.swap b d
    have s3 := good_cmpDiags.swap a d
    have := good_cmpDiags.trans a b d (by omega) (by omega)
    omega
  · intro a _ b _ h1 h2
    simp only [decide_eq_true_eq] at *
    have s1 := good_cmpDiags.swap a b
    exact cmpDiags_eq a b (by omega)

/-- sorting sorted diagnostics changes nothing -/
theorem sortDiags_idem (ds : List Diag) : sortDiags (sortDiags ds) = sortDiags ds := by
  unfold sortDiags
  exact stableSort_perm_invariant _ _ _ (stableSort_perm _ ds) (ordOn_diags _)

theorem cmpReports_norm (a b : Rep) : cmpReports (norm a) (norm b) = cmpReports a b := by
  simp only [cmpReports, cmpRules, cmpDiagnostics, norm, sortDiags_idem]

/-- `isEqual` does not look at the order of diagnostics -/
theorem isEqual_norm (a b : Rep) : isEqual (norm a) (norm b) = isEqual a b := by
  simp only [isEqual, cmpReports_norm]

theorem insertAll_map_norm (l acc : List Rep) :
    (l.map norm).foldl insertRep (acc.map norm) = (l.foldl insertRep acc).map norm := by
  induction l generalizing acc with
  | nil => rfl
  | cons r rest ih =>
    simp only [List.map_cons, List.foldl_cons, insertRep]
    have hany : ((acc.map norm).any fun er => isEqual er (norm r)) = acc.any fun er => isEqual er r := by
      rw [List.any_map]
      congr 1
      funext er
      exact isEqual_norm er r
    rw [hany]
    split
    · exact ih acc
    · have := ih (acc ++ [r])
      simpa using this

/-- the real pipeline on raw reports is the normalised pipeline on the reports with sorted diagnostics -/
theorem pipeline_eq_pipe2 (stream : List Rep) : pipeline stream = pipe2 (stream.map norm) := by
  unfold pipeline pipe2 sortReports
  have h : insertAll (stream.map norm) = (insertAll stream).map norm := by
    have := insertAll_map_norm stream []
    simpa [insertAll] using this
  rw [h]
  rfl

def normTagged (x : Tagged) : Tagged := { x with rep := norm x.rep }

/-- C11 over schedules: for every two arrival orders of the same produced reports in which each job's
    reports keep their own order, the pipeline output (sorted reports with duplicate marks — what every
    reporter and the exit status are computed from) is identical, provided the produced set of reports,
    with diagnostics sorted, satisfies `StreamOk` (decidable, monitored on real runs). Comparator ties
    inside one job, which real checks do produce, are allowed. -/
theorem C11_schedules (s₁ s₂ : List Tagged) (hperm : s₁.Perm s₂) (hv1 : ValidSchedule s₁) (hv2 : ValidSchedule s₂)
    (hok : StreamOk (s₁.map normTagged)) : pipeline (s₁.map (·.rep)) = pipeline (s₂.map (·.rep)) := by
  rw [pipeline_eq_pipe2, pipeline_eq_pipe2]
  have hv1' : ValidSchedule (s₁.map normTagged) := by
    unfold ValidSchedule at *
    rw [List.pairwise_map]
    exact hv1
  have hv2' : ValidSchedule (s₂.map normTagged) := by
    unfold ValidSchedule at *
    rw [List.pairwise_map]
    exact hv2
  have := C11_schedules_norm (s₁.map normTagged) (s₂.map normTagged) (hperm.map _) hv1' hv2' hok
  simpa [List.map_map, normTagged, Function.comp_def] using this

/-- the schedule monitor is sound: when it answers true the hypotheses of `C11_schedules` hold -/
theorem streamOkB_sound (s : List Tagged) (h : streamOkB s = true) : StreamOk s := by
  simp only [streamOkB, okEq, okTotal, okTrans, okTies, okTags, Bool.and_eq_true, List.all_eq_true, Bool.or_eq_true, Bool.not_eq_true',
    Bool.and_eq_false_iff, beq_iff_eq, decide_eq_true_eq] at h
  obtain ⟨⟨⟨⟨h1, h2⟩, h3⟩, h4⟩, h5⟩ := h
  have hn : ∀ x : Tagged, nrepT x = nrep x := fun _ => rfl
  have huniq : ∀ x, uniqueInB s x = true → UniqueIn s x := by
    intro x hx z hz hzx
    simp only [uniqueInB, List.all_eq_true, Bool.or_eq_true, Bool.not_eq_true', beq_iff_eq, beq_eq_false_iff_ne] at hx
    rcases hx z hz with h | h
    · exact absurd (by rw [hn, hn]; exact hzx) h
    · exact h
  refine ⟨?_, ?_, ?_, ?_, ?_⟩
  · intro a ha b hb hab
    simp only [eqOnB, List.all_eq_true, Bool.or_eq_true, Bool.not_eq_true', decide_eq_true_eq] at h1
    rcases h1 a ha b hb with h | h
    · rw [hab] at h; cases h
    · exact h
  · intro a ha b hb; exact h2 a ha b hb
  · intro a ha b hb c hc hab hbc
    rcases h3 a ha b hb c hc with (h | h) | h
    · rw [hn, hn] at h; rw [hab] at h; cases h
    · rw [hn, hn] at h; rw [hbc] at h; cases h
    · exact h
  · intro a ha b hb hab hba
    rcases h4 a ha b hb with (h | h) | h
    · rw [hn, hn] at h; rw [hab] at h; cases h
    · rw [hn, hn] at h; rw [hba] at h; cases h
    · rcases h with h | ⟨⟨hj, u1⟩, u2⟩
      · exact Or.inl h
      · exact Or.inr ⟨hj, huniq a u1, huniq b u2⟩
  · intro a ha b hb hj hs
    rcases h5 a ha b hb with (h | h) | h
    · exact absurd hj (by simpa using h)
    · exact absurd hs (by simpa using h)
    · exact h

theorem validScheduleB_sound (s : List Tagged) (h : validScheduleB s = true) : ValidSchedule s := by
  induction s with
  | nil => exact List.Pairwise.nil
  | cons x rest ih =>
    simp only [validScheduleB, Bool.and_eq_true, List.all_eq_true, Bool.or_eq_true, Bool.not_eq_true',
      beq_eq_false_iff_ne, decide_eq_true_eq] at h
    refine List.Pairwise.cons ?_ (ih h.2)
    intro y hy hj
    rcases h.1 y hy with h' | h'
    · exact absurd hj h'
    · exact h'

/-- the harness monitors are sound: when they answer true the hypotheses of `C11_partial` hold -/
theorem monitors_sound (s : List Rep) (h1 : eqOnB s = true) (h2 : ordOnB s = true) :
    EqOn s ∧ OrdOn leRep (s.map norm) := by
  constructor
  · intro a ha b hb hab
    simp only [eqOnB, List.all_eq_true, Bool.or_eq_true, Bool.not_eq_true', decide_eq_true_eq] at h1
    rcases h1 a ha b hb with h | h
    · rw [hab] at h; cases h
    · exact h
  · simp only [ordOnB, Bool.and_eq_true, List.all_eq_true, Bool.or_eq_true, Bool.not_eq_true',
      Bool.and_eq_false_iff, decide_eq_true_eq] at h2
    obtain ⟨⟨t1, t2⟩, t3⟩ := h2
    have hn : s.map norm = s.map normRep := rfl
    rw [hn]
    refine ⟨fun a ha b hb => t1 a ha b hb, ?_, ?_⟩
    · intro a ha b hb c hc hab hbc
      rcases t2 a ha b hb c hc with (h | h) | h
      · rw [hab] at h; cases h
      · rw [hbc] at h; cases h
      · exact h
    · intro a ha b hb hab hba
      rcases t3 a ha b hb with (h | h) | h
      · rw [hab] at h; cases h
      · rw [hba] at h; cases h
      · exact h

/-! ### C11 at full strength

  Before the `fix:` commit that made `isEqual` and the sort one comparison the full statement was FALSE of the code
  (`isEqual` compared one report's problem range with the other report's rule range, ignored details and rule names,
  the comparator was not total): this file carried `C11_not_full : ¬ C11_statement` with the witness below, and
  defect-hunting agents then produced the same failures with real checks (hunt/C11).  After the fix it is a theorem. -/

theorem norm_norm (r : Rep) : norm (norm r) = norm r := by
  simp only [norm, sortDiags_idem]

/-- on reports with sorted diagnostics `isEqual` is equality -/
theorem eqOn_norm (s : List Rep) : EqOn (s.map norm) := by
  intro a ha b hb hab
  obtain ⟨a', _, rfl⟩ := List.mem_map.1 ha
  obtain ⟨b', _, rfl⟩ := List.mem_map.1 hb
  have h0 : cmpReports (norm a') (norm b') = 0 := by simpa [isEqual] using hab
  have := cmpReports_zero _ _ h0
  have e : ∀ r : Rep, ({ norm r with diags := sortDiags (norm r).diags } : Rep) = norm r := by
    intro r; simp only [norm, sortDiags_idem]
  rw [e a', e b'] at this
  exact this

/-- on reports with sorted diagnostics the comparator is a total order -/
theorem ordOn_norm (s : List Rep) : OrdOn leRep (s.map norm) := by
  refine ⟨?_, ?_, ?_⟩
  · intro a _ b _
    have := good_cmpReports.swap a b
    simp only [leRep, decide_eq_true_eq]; omega
  · intro a _ b _ d _ h1 h2
    simp only [leRep, decide_eq_true_eq] at *
    have s1 := good_cmpReports.swap a b
    have s2 := good_cmpReports.swap b d
    have s3 := good_cmpReports.swap a d
    have := good_cmpReports.trans a b d (by omega) (by omega)
    omega
  · intro a ha b hb h1 h2
    simp only [leRep, decide_eq_true_eq] at h1 h2
    have s1 := good_cmpReports.swap a b
    exact eqOn_norm s a ha b hb (by simp only [isEqual, decide_eq_true_eq]; omega)

theorem pipe2_perm (t₁ t₂ : List Rep) (hperm : t₁.Perm t₂) (he : EqOn t₁) (ho : OrdOn leRep t₁) : pipe2 t₁ = pipe2 t₂ := by
  have hsort : stableSort leRep (insertAll t₁) = stableSort leRep (insertAll t₂) := by
    apply stableSort_perm_invariant leRep _ _ (insertAll_perm t₁ t₂ hperm he)
    have hsub : ∀ x ∈ insertAll t₁, x ∈ t₁ := fun x hx => (mem_insertAll t₁ he x).1 hx
    exact ⟨fun a ha b hb => ho.total a (hsub a ha) b (hsub b hb),
           fun a ha b hb c hc => ho.trans a (hsub a ha) b (hsub b hb) c (hsub c hc),
           fun a ha b hb => ho.antisymm a (hsub a ha) b (hsub b hb)⟩
  unfold pipe2
  simp only [hsort]

/-- **C11**: for every stream of reports, every arrival order (every worker count, every interleaving — any
permutation at all, not only those that keep a job's own order) gives the same sorted, folded, duplicate-marked list:
what every reporter and the exit status are computed from.  No hypothesis on the stream. -/
theorem C11_holds : C11_statement := by
  intro s₁ s₂ hperm
  rw [pipeline_eq_pipe2, pipeline_eq_pipe2]
  exact pipe2_perm _ _ (hperm.map norm) (eqOn_norm s₁) (ordOn_norm s₁)

/-- the witness that used to refute the statement: same path, problem 1-5 vs 1-3 on a rule 1-5, different details -/
def wA : Rep := ⟨0, 0, 0, 1, 5, 1, 5, 0, 0, 0, 0, 0, 0, 1, []⟩
def wB : Rep := ⟨0, 0, 0, 1, 3, 1, 5, 0, 0, 0, 0, 1, 0, 1, []⟩

example : pipeline [wA, wB] = pipeline [wB, wA] ∧ (pipeline [wA, wB]).length = 2 := by decide

/-- non-vacuity: three distinct reports, one arriving twice, diagnostics in two orders -/
def d1 : Rep := ⟨0, 0, 0, 1, 5, 1, 5, 0, 0, 2, 0, 0, 0, 1, [⟨1, 3, 0⟩]⟩
def d2 : Rep := ⟨0, 0, 0, 7, 9, 7, 9, 1, 0, 1, 0, 0, 0, 2, [⟨1, 3, 0⟩, ⟨4, 6, 1⟩]⟩
def d2' : Rep := ⟨0, 0, 0, 7, 9, 7, 9, 1, 0, 1, 0, 0, 0, 2, [⟨4, 6, 1⟩, ⟨1, 3, 0⟩]⟩
def d3 : Rep := ⟨1, 1, 0, 1, 5, 1, 5, 0, 0, 2, 0, 0, 0, 1, [⟨1, 3, 0⟩]⟩

theorem demo : pipeline [d1, d2, d3, d1, d2'] = pipeline [d3, d2', d1, d1, d2] ∧
    (pipeline [d1, d2, d3, d1, d2']).map (·.1) = [norm d1, norm d2, norm d3] := by
  decide

end Pint.Props.C11
