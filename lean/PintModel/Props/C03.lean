import PintModel.Model.Enable
namespace Pint.Props.C03
theorem placeholder : True := trivial
end Pint.Props.C03
