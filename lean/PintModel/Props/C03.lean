import PintModel.Model.Git
/-!
# C03 — `pint ci` classifies every rule's change state correctly for any branch history

Two theorems about the model of `git.Changes` + `matchEntries` (`Model/Git.lean`), for every history and every
rule list, with no bound on the number of commits, files or rules:

* `fold_tracks_lineage` — for every well-formed sequence of name-status records, the change list pint builds holds,
  for each file of the HEAD tree that the branch touched, exactly one non-delete change, and that change carries the
  base path the file descends from through renames, deletions and re-creations (the reference tree semantics
  `applyRec`) together with every commit of its chain; files the branch did not touch have no change at all.
  `old_fold_loses_lineage` shows the pre-`fix:` fold violating exactly this.
* `match_states` — when rule names are unique per type in a file, the states `matchEntries` + the state switch give
  to the HEAD rules are the reference classification `specState` (compare with the base rule of the same type and
  name: absent → added, path differs → renamed, same content → unmodified, else modified).

Added later, also for every history / list, by induction:

* part C, `bodies_are_base_and_head` — the two bodies pint reads for a change (`c.before` at the parent of the first
  commit, `c.after` at the last commit) are the base content of the path the file descends from and the content at
  HEAD, for any content function that only changes a path in commits whose name-status lists it;
* part D, `mergeAll_spec` — the final loop of `Find` gives every entry of the glob finder the state the branch
  computed for the same rule (same path, kind, error and line range: what `Rule.IsSame` compares), leaves the others
  untouched and appends the removed rules, provided the glob finder holds one entry per rule, every rule the branch
  did not remove is among them and the branch lists no rule twice.

What is *not* proved but run (correspondence `gitfold`, `c03wf`, `c03states` against real git and `pint ci`): git's own
rename detection, the parsing of the two bodies into entries (so that the hypotheses of part D hold), symlink
handling.  The name `C03_partial` of the bundle of parts A and B is kept.
-/
namespace Pint.Props.C03
open Pint.Git

/-! ## part A: matching of rule entries -/

theorem identical_sameKey {a b : Ent} (h : identical a b = true) : sameKey a b = true := by
  simp only [identical, sameKey, Bool.and_eq_true] at *
  exact ⟨h.1.1, h.1.2⟩

theorem sameKey_trans_left {a x y : Ent} (h1 : sameKey a x = true) (h2 : sameKey a y = true) : sameKey x y = true := by
  simp only [sameKey, Bool.and_eq_true, beq_iff_eq] at *
  exact ⟨h1.1 ▸ h2.1, h1.2 ▸ h2.2⟩

/-- rule names are unique per type in a list -/
def UniqueKeys (l : List Ent) : Prop := l.Pairwise fun x y => sameKey x y = false

theorem unique_tail_no_key {a x : Ent} {xs : List Ent} (hU : UniqueKeys (x :: xs)) (hax : sameKey a x = true) :
    ∀ y ∈ xs, sameKey a y = false := by
  intro y hy
  have hxy : sameKey x y = false := (List.pairwise_cons.mp hU).1 y hy
  cases h : sameKey a y with
  | false => rfl
  | true => rw [sameKey_trans_left hax h] at hxy; exact absurd hxy (by simp)

theorem filter_not_key_eq_self {a : Ent} {xs : List Ent} (h : ∀ y ∈ xs, sameKey a y = false) :
    xs.filter (fun b => !sameKey a b) = xs := by
  apply List.filter_eq_self.mpr
  intro y hy; simp [h y hy]

theorem filter_key_eq_nil {a : Ent} {xs : List Ent} (h : ∀ y ∈ xs, sameKey a y = false) :
    xs.filter (sameKey a) = [] := by
  apply List.filter_eq_nil_iff.mpr
  intro y hy; simp [h y hy]

theorem find_key_eq_none {a : Ent} {xs : List Ent} (h : ∀ y ∈ xs, sameKey a y = false) :
    xs.find? (sameKey a) = none := by
  apply List.find?_eq_none.mpr
  intro y hy; simp [h y hy]

/-- what the first loop of `matchEntries` does on a list with unique keys -/
theorem takeIdentical_spec (a : Ent) (hn : a.name ≠ "") :
    ∀ bs : List Ent, UniqueKeys bs →
      match bs.find? (sameKey a) with
      | some b => (identical a b = true → takeIdentical a bs = (some b, bs.filter fun x => !sameKey a x)) ∧
                  (identical a b = false → takeIdentical a bs = (none, bs))
      | none => takeIdentical a bs = (none, bs) := by
  intro bs
  induction bs with
  | nil => intro _; simp [takeIdentical]
  | cons x xs ih =>
    intro hU
    have hUxs : UniqueKeys xs := (List.pairwise_cons.mp hU).2
    have hne : (a.name != "") = true := by simp [hn]
    cases hax : sameKey a x with
    | true =>
      have hno := unique_tail_no_key hU hax
      simp only [List.find?_cons, hax]
      constructor
      · intro hid
        simp only [takeIdentical, hne, hid, Bool.and_self, if_true, List.filter_cons, hax, Bool.not_true]
        simp [filter_not_key_eq_self hno]
      · intro hid
        have ihx := ih hUxs
        rw [find_key_eq_none hno] at ihx
        simp [takeIdentical, hid, ihx]
    | false =>
      have hid : identical a x = false := by
        cases h : identical a x with
        | false => rfl
        | true => rw [identical_sameKey h] at hax; exact absurd hax (by simp)
      have ihx := ih hUxs
      simp only [List.find?_cons, hax]
      cases hf : xs.find? (sameKey a) with
      | none =>
        rw [hf] at ihx
        simp [takeIdentical, hid, ihx]
      | some b =>
        rw [hf] at ihx
        simp only at ihx ⊢
        constructor
        · intro hb
          simp [takeIdentical, hid, ihx.1 hb, List.filter_cons, hax]
        · intro hb
          simp [takeIdentical, hid, ihx.2 hb]

theorem filter_key_of_find {a b : Ent} :
    ∀ bs : List Ent, UniqueKeys bs → bs.find? (sameKey a) = some b → bs.filter (sameKey a) = [b] := by
  intro bs
  induction bs with
  | nil => intro _ h; simp at h
  | cons x xs ih =>
    intro hU hf
    cases hax : sameKey a x with
    | true =>
      simp only [List.find?_cons, hax] at hf
      have hxb : x = b := by simpa using hf
      subst hxb
      simp [List.filter_cons, hax, filter_key_eq_nil (unique_tail_no_key hU hax)]
    | false =>
      simp only [List.find?_cons, hax] at hf
      simp [List.filter_cons, hax, ih (List.pairwise_cons.mp hU).2 hf]

theorem find_none_filter {a : Ent} (bs : List Ent) (h : bs.find? (sameKey a) = none) : bs.filter (sameKey a) = [] := by
  apply List.filter_eq_nil_iff.mpr
  intro y hy
  have := List.find?_eq_none.mp h y hy
  simpa using this

theorem unique_filter {l : List Ent} (p : Ent → Bool) (h : UniqueKeys l) : UniqueKeys (l.filter p) :=
  List.Pairwise.filter p h

theorem sameKey_symm {a b : Ent} (h : sameKey a b = true) : sameKey b a = true := by
  simp only [sameKey, Bool.and_eq_true, beq_iff_eq] at h ⊢; exact ⟨h.1.symm, h.2.symm⟩

theorem sameKey_congr {a a' : Ent} (h : sameKey a a' = true) (x : Ent) : sameKey a x = sameKey a' x := by
  simp only [sameKey, Bool.and_eq_true, beq_iff_eq] at h
  simp [sameKey, h.1, h.2]

theorem find_filter_other {a a' : Ent} (h : sameKey a a' = false) (bs : List Ent) :
    (bs.filter fun x => !sameKey a x).find? (sameKey a') = bs.find? (sameKey a') := by
  induction bs with
  | nil => rfl
  | cons x xs ih =>
    cases hax : sameKey a x with
    | false => simp [List.filter_cons, hax, List.find?_cons, ih]
    | true =>
      have : sameKey a' x = false := by
        cases h' : sameKey a' x with
        | false => rfl
        | true =>
          rw [sameKey_trans_left (sameKey_symm hax) (sameKey_symm h')] at h; exact absurd h (by simp)
      simp [List.filter_cons, hax, List.find?_cons, this, ih]

theorem find_filter_same {a a' : Ent} (h : sameKey a a' = true) (bs : List Ent) :
    (bs.filter fun x => !sameKey a x).find? (sameKey a') = none := by
  apply List.find?_eq_none.mpr
  intro x hx
  have := (List.mem_filter.mp hx).2
  rw [← sameKey_congr h x]
  simpa using this

/-- two members of a list with unique keys that share a key are the same entry -/
theorem unique_eq {l : List Ent} (hU : UniqueKeys l) {x y : Ent} (hx : x ∈ l) (hy : y ∈ l) (h : sameKey x y = true) : x = y := by
  induction l with
  | nil => simp at hx
  | cons z zs ih =>
    have hz := List.pairwise_cons.mp hU
    rcases List.mem_cons.mp hx with rfl | hx' <;> rcases List.mem_cons.mp hy with rfl | hy'
    · rfl
    · rw [hz.1 y hy'] at h; exact absurd h (by simp)
    · have := sameKey_symm h
      rw [hz.1 x hx'] at this; exact absurd this (by simp)
    · exact ih hz.2 hx' hy'

/-- how the current list of unclaimed base rules relates to the original one: every key in `ks` is gone, every other
key looks up as in the original -/
def Agree (before cur : List Ent) (ks : List Ent) : Prop :=
  UniqueKeys cur ∧ ∀ x, cur.find? (sameKey x) = if ks.any (fun k => sameKey k x) then none else before.find? (sameKey x)

theorem agree_refl (before : List Ent) (h : UniqueKeys before) : Agree before before [] := ⟨h, fun x => by simp⟩

theorem agree_consume {before cur ks : List Ent} (hA : Agree before cur ks) (a : Ent) :
    Agree before (cur.filter fun x => !sameKey a x) (a :: ks) := by
  refine ⟨unique_filter _ hA.1, fun x => ?_⟩
  cases hax : sameKey a x with
  | true => simp [find_filter_same hax, hax]
  | false => simp [find_filter_other hax, hA.2 x, hax]

/-- identical entry found for `a` in the original base list -/
def identMatched (before : List Ent) (a : Ent) : Bool :=
  match before.find? (sameKey a) with
  | some b => identical a b
  | none => false

/-- what the first pass leaves for one HEAD rule -/
def p1spec (before : List Ent) (a : Ent) : Matched :=
  match before.find? (sameKey a) with
  | some b => if identical a b then { before := some b, after := some a, isIdentical := b.disabled == a.disabled, wasMoved := a.path != b.path }
              else { before := none, after := some a, isIdentical := false, wasMoved := false }
  | none => { before := none, after := some a, isIdentical := false, wasMoved := false }

theorem pass1One_spec {before cur ks : List Ent} (hA : Agree before cur ks) (a : Ent) (hn : a.name ≠ "")
    (hk : ks.any (fun k => sameKey k a) = false) :
    (pass1One cur a).1 = p1spec before a ∧
    Agree before (pass1One cur a).2 (if identMatched before a then a :: ks else ks) := by
  have ht := takeIdentical_spec a hn cur hA.1
  have hfind := hA.2 a
  rw [hk] at hfind
  simp only [Bool.false_eq_true, if_false] at hfind
  rw [hfind] at ht
  cases hf : before.find? (sameKey a) with
  | none =>
    rw [hf] at ht
    simp only at ht
    simp [pass1One, ht, p1spec, hf, identMatched, hA]
  | some b =>
    rw [hf] at ht
    simp only at ht
    cases hid : identical a b with
    | true =>
      simp only [pass1One, ht.1 hid, p1spec, hf, hid, if_true, identMatched, true_and]
      exact agree_consume hA a
    | false =>
      simp only [pass1One, ht.2 hid, p1spec, hf, hid, identMatched, Bool.false_eq_true, if_false, true_and]
      exact hA

theorem pass1_spec (before : List Ent) :
    ∀ (after cur ks : List Ent), Agree before cur ks → UniqueKeys after → (∀ a ∈ after, a.name ≠ "") →
      (∀ a ∈ after, ks.any (fun k => sameKey k a) = false) →
      (pass1 cur after).1 = after.map (p1spec before) ∧
      ∃ ks', Agree before (pass1 cur after).2 ks' ∧
        ∀ k ∈ ks', k ∈ ks ∨ (k ∈ after ∧ identMatched before k = true) := by
  intro after
  induction after with
  | nil => intro cur ks hA _ _ _; exact ⟨rfl, ks, hA, fun k hk => Or.inl hk⟩
  | cons a as ih =>
    intro cur ks hA hU hN hK
    have h1 := pass1One_spec hA a (hN a (by simp)) (hK a (by simp))
    have hUas := (List.pairwise_cons.mp hU)
    have hK' : ∀ a' ∈ as, (if identMatched before a then a :: ks else ks).any (fun k => sameKey k a') = false := by
      intro a' ha'
      have h0 := hK a' (by simp [ha'])
      cases hm : identMatched before a <;> simp [h0, hUas.1 a' ha']
    obtain ⟨hmap, ks', hA', hks'⟩ := ih (pass1One cur a).2 _ h1.2 hUas.2 (fun x hx => hN x (by simp [hx])) hK'
    refine ⟨by simp [pass1, h1.1, hmap], ks', hA', fun k hk => ?_⟩
    rcases hks' k hk with h | h
    · cases hm : identMatched before a with
      | false => rw [hm] at h; exact Or.inl (by simpa using h)
      | true =>
        rw [hm] at h
        rcases List.mem_cons.mp (by simpa using h) with rfl | h'
        · exact Or.inr ⟨by simp, hm⟩
        · exact Or.inl h'
    · exact Or.inr ⟨by simp [h.1], h.2⟩

theorem state_p1spec_matched {before : List Ent} {a : Ent} (hm : identMatched before a = true) :
    stateOf (p1spec before a) = specState before a := by
  unfold identMatched at hm
  cases hf : before.find? (sameKey a) with
  | none => simp [hf] at hm
  | some b =>
    rw [hf] at hm
    simp only at hm
    have hc : (b.content == a.content) = true := by
      simp only [identical, Bool.and_eq_true, beq_iff_eq] at hm
      simp [hm.2]
    simp only [p1spec, hf, hm, if_true, stateOf, specState, hc, Bool.true_and]
    cases hp : (a.path != b.path) <;> cases hd : (b.disabled == a.disabled) <;> simp

theorem pass2One_spec {before cur ks : List Ent} (hA : Agree before cur ks) (a : Ent)
    (hk : identMatched before a = false → ks.any (fun k => sameKey k a) = false) :
    stateOf (pass2One cur (p1spec before a)).1 = specState before a ∧
    (pass2One cur (p1spec before a)).1.after = some a ∧
    Agree before (pass2One cur (p1spec before a)).2 (if identMatched before a then ks else a :: ks) := by
  cases hm : identMatched before a with
  | true =>
    have hs := state_p1spec_matched hm
    have hb : ∃ b, (p1spec before a).before = some b ∧ (p1spec before a).after = some a := by
      unfold identMatched at hm
      cases hf : before.find? (sameKey a) with
      | none => simp [hf] at hm
      | some b => rw [hf] at hm; simp only at hm; exact ⟨b, by simp [p1spec, hf, hm]⟩
    obtain ⟨b, hb1, hb2⟩ := hb
    simp only [pass2One, hb1, hb2, hs, if_true, true_and]
    exact hA
  | false =>
    have hk' := hk hm
    have hfind := hA.2 a
    rw [hk'] at hfind
    simp only [Bool.false_eq_true, if_false] at hfind
    have hp : p1spec before a = { before := none, after := some a, isIdentical := false, wasMoved := false } := by
      unfold identMatched at hm
      cases hf : before.find? (sameKey a) with
      | none => simp [p1spec, hf]
      | some b => rw [hf] at hm; simp only at hm; simp [p1spec, hf, hm]
    rw [hp]
    cases hf : before.find? (sameKey a) with
    | none =>
      rw [hf] at hfind
      have hp2 : pass2One cur { before := none, after := some a, isIdentical := false, wasMoved := false } =
          ({ before := none, after := some a, isIdentical := false, wasMoved := false }, cur.filter fun x => !sameKey a x) := by
        simp [pass2One, byName, find_none_filter cur hfind]
      rw [hp2]
      refine ⟨by simp [stateOf, specState, hf], rfl, ?_⟩
      simpa using agree_consume hA a
    | some b =>
      rw [hf] at hfind
      have hnid : identical a b = false := by unfold identMatched at hm; rw [hf] at hm; exact hm
      have hkb : sameKey a b = true := by simpa using List.find?_some hf
      have hc : (b.content == a.content) = false := by
        simp only [identical, sameKey, Bool.and_eq_true, beq_iff_eq] at hnid hkb
        cases h : (b.content == a.content) with
        | false => rfl
        | true =>
          have : b.content = a.content := by simpa using h
          simp [hkb.1, hkb.2, this] at hnid
      have hp2 : pass2One cur { before := none, after := some a, isIdentical := false, wasMoved := false } =
          ({ before := some b, after := some a, isIdentical := false, wasMoved := a.path != b.path }, cur.filter fun x => !sameKey a x) := by
        simp [pass2One, byName, filter_key_of_find cur hA.1 hfind]
      rw [hp2]
      refine ⟨?_, rfl, ?_⟩
      · simp only [stateOf, specState, hf, hc, Bool.false_and]
        cases hp' : (a.path != b.path) <;> simp
      · simpa using agree_consume hA a

theorem pass2_spec (before : List Ent) :
    ∀ (as cur ks : List Ent), Agree before cur ks → UniqueKeys as →
      (∀ a ∈ as, identMatched before a = false → ks.any (fun k => sameKey k a) = false) →
      (pass2 cur (as.map (p1spec before))).1.map stateOf = as.map (specState before) ∧
      (pass2 cur (as.map (p1spec before))).1.map (·.after) = as.map some := by
  intro as
  induction as with
  | nil => intro cur ks _ _ _; simp [pass2]
  | cons a as ih =>
    intro cur ks hA hU hK
    have h1 := pass2One_spec hA a (hK a (by simp))
    have hUas := List.pairwise_cons.mp hU
    have hK' : ∀ a' ∈ as, identMatched before a' = false →
        (if identMatched before a then ks else a :: ks).any (fun k => sameKey k a') = false := by
      intro a' ha' hm'
      have h0 := hK a' (by simp [ha']) hm'
      cases hm : identMatched before a <;> simp [h0, hUas.1 a' ha']
    have hrest := ih (pass2One cur (p1spec before a)).2 _ h1.2.2 hUas.2 hK'
    simp [pass2, h1.1, h1.2.1, hrest.1, hrest.2]

/-- **C03, matching**: with unique rule keys on both sides and non-empty names, the HEAD rules get, in order, exactly
the reference states; whatever the number of rules. -/
theorem match_states (after before : List Ent) (hB : UniqueKeys before) (hA : UniqueKeys after)
    (hN : ∀ a ∈ after, a.name ≠ "") :
    (matchAfter before after).1.map stateOf = after.map (specState before) ∧
    (matchAfter before after).1.map (·.after) = after.map some := by
  obtain ⟨hmap, ks', hAg, hks'⟩ := pass1_spec before after before [] (agree_refl before hB) hA hN (by simp)
  unfold matchAfter
  rw [hmap]
  apply pass2_spec before after _ ks' hAg hA
  intro a ha hm
  apply List.any_eq_false.mpr
  intro k hk
  rcases hks' k hk with h | h
  · simp at h
  · cases hka : sameKey k a with
    | false => simp
    | true =>
      have := unique_eq hA h.1 ha hka
      rw [this] at h
      rw [h.2] at hm
      exact absurd hm (by simp)


/-- the matching before the `fix:` commit: a warning alert added above the existing critical alert of the same name
claims its base version by name, the untouched rule comes out `added`; the two-pass matching keeps it `noop` -/
theorem old_matching_misclassifies_untouched :
    let crit : Ent := { alert := true, name := "HostDown", content := 1, disabled := 0, path := "a.yml" }
    let warn : Ent := { alert := true, name := "HostDown", content := 2, disabled := 0, path := "a.yml" }
    (matchAfterOld [crit] [warn, crit]).1.map stateOf = [.modified, .added] ∧
    (matchAfter [crit] [warn, crit]).1.map stateOf = [.added, .noop] := by decide

/-- the HEAD part of `matchEntries` is `matchAfter`; the leftovers are the removed rules -/
theorem matchEntries_head (before after : List Ent) :
    (matchEntries before after).filterMap (fun m => m.after.map fun a => (a, stateOf m)) =
    (matchAfter before after).1.filterMap (fun m => m.after.map fun a => (a, stateOf m)) := by
  simp [matchEntries, List.filterMap_append, List.filterMap_map]

/-! non-vacuity and the documented precedence: renamed wins over modified -/
example :
    let b : Ent := { alert := true, name := "Down", content := 1, disabled := 0, path := "a.yml" }
    let a : Ent := { alert := true, name := "Down", content := 2, disabled := 0, path := "b.yml" }
    (matchEntries [b] [a]).map stateOf = [.moved] ∧ specState [b] a = .moved := by decide

example :
    let b1 : Ent := { alert := true, name := "Down", content := 1, disabled := 0, path := "a.yml" }
    let b2 : Ent := { alert := false, name := "x:y", content := 5, disabled := 0, path := "a.yml" }
    let a1 : Ent := { alert := true, name := "Down", content := 1, disabled := 0, path := "a.yml" }
    let a2 : Ent := { alert := false, name := "x:y", content := 6, disabled := 0, path := "a.yml" }
    let a3 : Ent := { alert := false, name := "new", content := 6, disabled := 0, path := "a.yml" }
    (matchEntries [b1, b2] [a2, a3, a1]).map stateOf = [.modified, .added, .noop] := by decide

/-- without unique names the matching is positional: two base rules of one name and no identical one leave the
HEAD rule `added` (and both base rules `removed`) -/
example :
    let b1 : Ent := { alert := true, name := "Down", content := 1, disabled := 0, path := "a.yml" }
    let b2 : Ent := { alert := true, name := "Down", content := 2, disabled := 0, path := "a.yml" }
    let a : Ent := { alert := true, name := "Down", content := 3, disabled := 0, path := "a.yml" }
    (matchEntries [b1, b2] [a]).map stateOf = [.added, .removed, .removed] := by decide

/-! ## part B: the fold over name-status records tracks the lineage of every file -/

theorem filter_eraseP_self {α : Type} (p : α → Bool) : ∀ l : List α, (l.eraseP p).filter p = (l.filter p).tail
  | [] => rfl
  | x :: xs => by
    cases h : p x
    · simp [List.eraseP_cons, h, List.filter_cons, filter_eraseP_self p xs]
    · simp [List.eraseP_cons, h, List.filter_cons]

theorem filter_eraseP_disjoint {α : Type} (p q : α → Bool) (h : ∀ x, p x = true → q x = false) :
    ∀ l : List α, (l.eraseP p).filter q = l.filter q
  | [] => rfl
  | x :: xs => by
    cases hp : p x
    · simp [List.eraseP_cons, hp, List.filter_cons, filter_eraseP_disjoint p q h xs]
    · simp [List.eraseP_cons, hp, List.filter_cons, h x hp]

theorem find_eq_head_filter {α : Type} (p : α → Bool) (l : List α) : l.find? p = (l.filter p).head? :=
  List.head?_filter.symm

def liveAt (t : Tree) (p : String) : List TFile := t.live.filter fun f => atPath p f && touched f
def deadAt (t : Tree) (p : String) : List TFile := t.dead.filter (atPath p)

/-- per path, the changes pint holds are: the live file's change (if the branch touched it), then the deleted files
that were at this path, most recent first -/
def Inv (cs : List Chg) (t : Tree) : Prop :=
  ∀ p, cs.filter (hasAfter p) = (liveAt t p ++ deadAt t p).map toChg

structure TInv (t : Tree) : Prop where
  uniq : t.live.Pairwise fun f g => f.path ≠ g.path
  fresh : ∀ f ∈ t.live, touched f = false → f.origin = f.path ∧ deadAt t f.path = []
  deadD : ∀ f ∈ t.dead, f.st = .D
  liveND : ∀ f ∈ t.live, f.st ≠ .D

theorem untouched_commits {f : TFile} (h : touched f = false) : f.commits = [] := by
  simpa [touched] using h

theorem hasAfter_toChg (p : String) (f : TFile) : hasAfter p (toChg f) = atPath p f := rfl

theorem atPath_eq {p : String} {f : TFile} (h : atPath p f = true) : f.path = p := by simpa [atPath] using h

theorem atPath_ne {p q : String} {f : TFile} (h : atPath p f = true) (hne : q ≠ p) : atPath q f = false := by
  have := atPath_eq h
  simp [atPath, this, Ne.symm hne]

theorem any_atPath_false {l : List TFile} {p : String} (h : l.any (atPath p) = false) : ∀ f ∈ l, atPath p f = false := by
  intro f hf
  have := List.any_eq_false.mp h f hf
  simpa using this

theorem exists_find_of_any {l : List TFile} {p : String} (h : l.any (atPath p) = true) : ∃ f, l.find? (atPath p) = some f := by
  cases hf : l.find? (atPath p) with
  | some f => exact ⟨f, rfl⟩
  | none =>
    have := List.find?_eq_none.mp hf
    obtain ⟨x, hx, hpx⟩ := List.any_eq_true.mp h
    exact absurd hpx (this x hx)

/-- after taking the file at `s` out of a tree with unique paths, nothing is left at `s` -/
theorem erase_none_left {s : String} {f : TFile} :
    ∀ {l : List TFile}, (l.Pairwise fun f g => f.path ≠ g.path) → l.find? (atPath s) = some f →
      ∀ g ∈ l.eraseP (atPath s), atPath s g = false := by
  intro l
  induction l with
  | nil => intro _ h; simp at h
  | cons x xs ih =>
    intro hU hf g hg
    cases hx : atPath s x with
    | true =>
      simp only [List.eraseP_cons, hx, if_true] at hg
      have hne : x.path ≠ g.path := (List.pairwise_cons.mp hU).1 g hg
      have hxs := atPath_eq hx
      cases hgs : atPath s g with
      | false => rfl
      | true => exact absurd ((atPath_eq hgs).trans hxs.symm).symm hne
    | false =>
      simp only [List.eraseP_cons, hx] at hg
      simp only [List.find?_cons, hx] at hf
      rcases List.mem_cons.mp hg with h | h
      · rw [h]; exact hx
      · exact ih (List.pairwise_cons.mp hU).2 hf g h

theorem liveAt_erase_same {t : Tree} {s : String} {f : TFile} (hU : t.live.Pairwise fun f g => f.path ≠ g.path)
    (hf : t.live.find? (atPath s) = some f) :
    (t.live.eraseP (atPath s)).filter (fun g => atPath s g && touched g) = [] := by
  apply List.filter_eq_nil_iff.mpr
  intro g hg
  simp [erase_none_left hU hf g hg]

theorem liveAt_erase_other {l : List TFile} {s q : String} (hne : q ≠ s) :
    (l.eraseP (atPath s)).filter (fun g => atPath q g && touched g) = l.filter (fun g => atPath q g && touched g) :=
  filter_eraseP_disjoint _ _ (fun x hx => by simp [atPath_ne hx hne]) l

theorem chg_erase_other (cs : List Chg) {s q : String} (hne : q ≠ s) :
    (cs.eraseP (hasAfter s)).filter (hasAfter q) = cs.filter (hasAfter q) :=
  filter_eraseP_disjoint _ _ (fun x hx => by
    have : x.after = s := by simpa [hasAfter] using hx
    simp [hasAfter, this, Ne.symm hne]) cs

theorem dead_erase_other (l : List TFile) {s q : String} (hne : q ≠ s) :
    (l.eraseP (atPath s)).filter (atPath q) = l.filter (atPath q) :=
  filter_eraseP_disjoint _ _ (fun x hx => atPath_ne hx hne) l

/-- the live file at `s` as the fold sees it -/
theorem liveAt_of_find_list {s : String} {f : TFile} : ∀ {l : List TFile}, (l.Pairwise fun f g => f.path ≠ g.path) →
    l.find? (atPath s) = some f → l.filter (fun g => atPath s g && touched g) = if touched f then [f] else [] := by
  intro l
  induction l with
  | nil => intro _ hf; simp at hf
  | cons x xs ih =>
    intro hU hf
    cases hx : atPath s x with
    | true =>
      simp only [List.find?_cons, hx] at hf
      have hxf : x = f := by simpa using hf
      subst hxf
      have hrest : xs.filter (fun g => atPath s g && touched g) = [] := by
        apply List.filter_eq_nil_iff.mpr
        intro g hg
        have hne : x.path ≠ g.path := (List.pairwise_cons.mp hU).1 g hg
        cases hgs : atPath s g with
        | false => simp
        | true => exact absurd ((atPath_eq hgs).trans (atPath_eq hx).symm).symm hne
      cases ht : touched x <;> simp [List.filter_cons, hx, ht, hrest]
    | false =>
      simp only [List.find?_cons, hx] at hf
      simp [List.filter_cons, hx, ih (List.pairwise_cons.mp hU).2 hf]

theorem liveAt_of_find {t : Tree} {s : String} {f : TFile} (hU : t.live.Pairwise fun f g => f.path ≠ g.path)
    (hf : t.live.find? (atPath s) = some f) : liveAt t s = if touched f then [f] else [] :=
  liveAt_of_find_list hU hf

theorem liveAt_of_not_live {t : Tree} {p : String} (h : t.live.any (atPath p) = false) : liveAt t p = [] := by
  apply List.filter_eq_nil_iff.mpr
  intro g hg
  simp [any_atPath_false h g hg]

/-- what `getChangeByPath(src)` finds and what is left after `changesWithout(prev)`, for a live source file -/
theorem step_on_live {cs : List Chg} {t : Tree} (hI : Inv cs t) (hT : TInv t) {r : Rec} {f : TFile}
    (hf : t.live.find? (atPath r.src) = some f) (hst : r.st ≠ .A ∧ r.st ≠ .C) :
    ∃ rest, step cs r = toChg (touch r.commit r.st r.dst f) :: rest ∧
      rest.filter (hasAfter r.src) = (deadAt t r.src).map toChg ∧
      ∀ q, q ≠ r.src → rest.filter (hasAfter q) = cs.filter (hasAfter q) := by
  have hfs : f.path = r.src := atPath_eq (by simpa using List.find?_some hf)
  have hfm : f ∈ t.live := List.mem_of_find?_eq_some hf
  have hs := hI r.src
  rw [liveAt_of_find hT.uniq hf] at hs
  cases ht : touched f with
  | true =>
    simp only [ht, if_true, List.cons_append, List.nil_append, List.map_cons] at hs
    have hfind : cs.find? (hasAfter r.src) = some (toChg f) := by rw [find_eq_head_filter, hs]; rfl
    refine ⟨cs.eraseP (hasAfter r.src), ?_, ?_, fun q hq => chg_erase_other cs hq⟩
    · simp [step, hfind, toChg, touch]
    · rw [filter_eraseP_self, hs]; rfl
  | false =>
    have hd := (hT.fresh f hfm ht)
    rw [hfs] at hd
    simp only [ht, Bool.false_eq_true, if_false, List.nil_append, hd.2, List.map_nil] at hs
    have hfind : cs.find? (hasAfter r.src) = none := by rw [find_eq_head_filter, hs]; rfl
    refine ⟨cs, ?_, ?_, fun q _ => rfl⟩
    · have hfb : freshBefore r = r.src := by
        unfold freshBefore
        cases hr : r.st <;> simp_all
      simp [step, hfind, toChg, touch, untouched_commits ht, hd.1, hfb]
    · rw [hs, hd.2]; rfl

theorem touched_touch (c : Nat) (st : St) (d : String) (f : TFile) : touched (touch c st d f) = true := by
  simp [touched, touch]

theorem atPath_touch (q : String) (c : Nat) (st : St) (d : String) (f : TFile) : atPath q (touch c st d f) = (d == q) := rfl

theorem mem_eraseP_mem {α : Type} {p : α → Bool} {l : List α} {x : α} (h : x ∈ l.eraseP p) : x ∈ l :=
  (List.eraseP_sublist).subset h

/-- `M`, `T` and `R` records: the live file moves (or stays) and stays live -/
theorem preserve_move {cs : List Chg} {t : Tree} (hI : Inv cs t) (hT : TInv t) {r : Rec} {f : TFile}
    (hf : t.live.find? (atPath r.src) = some f) (hst : r.st ≠ .A ∧ r.st ≠ .C ∧ r.st ≠ .D)
    (hdst : r.dst = r.src ∨ t.live.any (atPath r.dst) = false) :
    let t' : Tree := { live := touch r.commit r.st r.dst f :: t.live.eraseP (atPath r.src), dead := t.dead }
    Inv (step cs r) t' ∧ TInv t' := by
  intro t'
  obtain ⟨rest, hstep, hsrc, hoth⟩ := step_on_live hI hT hf ⟨hst.1, hst.2.1⟩
  constructor
  · intro q
    rw [hstep]
    simp only [List.filter_cons, hasAfter_toChg, atPath_touch, liveAt, deadAt, t', touched_touch, Bool.and_true]
    by_cases hq : q = r.src
    · subst hq
      rw [hsrc, liveAt_erase_same hT.uniq hf]
      by_cases hd : (r.dst == r.src) = true <;> simp [hd, deadAt]
    · rw [hoth q hq, hI q, liveAt_erase_other hq]
      by_cases hd : (r.dst == q) = true <;> simp [hd, liveAt, deadAt]
  · constructor
    · simp only [t']
      apply List.pairwise_cons.mpr
      constructor
      · intro g hg
        have hgl := erase_none_left hT.uniq hf g hg
        simp only [touch]
        intro hpath
        rcases hdst with h | h
        · rw [h] at hpath
          simp [atPath, ← hpath] at hgl
        · have := any_atPath_false h g (mem_eraseP_mem hg)
          simp [atPath, ← hpath] at this
      · exact List.Pairwise.sublist List.eraseP_sublist hT.uniq
    · intro g hg hgt
      simp only [t'] at hg
      rcases List.mem_cons.mp hg with h | h
      · rw [h, touched_touch] at hgt; exact absurd hgt (by simp)
      · exact hT.fresh g (mem_eraseP_mem h) hgt
    · exact hT.deadD
    · intro g hg
      simp only [t'] at hg
      rcases List.mem_cons.mp hg with h | h
      · rw [h]; exact hst.2.2
      · exact hT.liveND g (mem_eraseP_mem h)

/-- `D` records: the live file becomes the newest deleted file of its path -/
theorem preserve_delete {cs : List Chg} {t : Tree} (hI : Inv cs t) (hT : TInv t) {r : Rec} {f : TFile}
    (hf : t.live.find? (atPath r.src) = some f) (hst : r.st = .D) (hdst : r.dst = r.src) :
    let t' : Tree := { live := t.live.eraseP (atPath r.src), dead := touch r.commit .D r.dst f :: t.dead }
    Inv (step cs r) t' ∧ TInv t' := by
  intro t'
  obtain ⟨rest, hstep, hsrc, hoth⟩ := step_on_live hI hT hf (by simp [hst])
  rw [hst] at hstep
  constructor
  · intro q
    rw [hstep]
    simp only [List.filter_cons, hasAfter_toChg, atPath_touch, liveAt, deadAt, t', hdst]
    by_cases hq : q = r.src
    · subst hq
      rw [hsrc, liveAt_erase_same hT.uniq hf]
      simp [deadAt]
    · rw [hoth q hq, hI q, liveAt_erase_other hq]
      have : (r.src == q) = false := by simp [Ne.symm hq]
      simp [liveAt, deadAt, this]
  · constructor
    · exact List.Pairwise.sublist List.eraseP_sublist hT.uniq
    · intro g hg hgt
      simp only [t'] at hg
      have hgl := erase_none_left hT.uniq hf g hg
      have h0 := hT.fresh g (mem_eraseP_mem hg) hgt
      refine ⟨h0.1, ?_⟩
      have hne : (r.src == g.path) = false := by
        cases h : (r.src == g.path) with
        | false => rfl
        | true =>
          have : r.src = g.path := by simpa using h
          simp [atPath, this] at hgl
      simp only [deadAt, t', List.filter_cons, atPath_touch, hdst, hne]
      exact h0.2
    · intro g hg
      simp only [t'] at hg
      rcases List.mem_cons.mp hg with h | h
      · rw [h]; rfl
      · exact hT.deadD g h
    · intro g hg
      exact hT.liveND g (mem_eraseP_mem hg)

/-- `A` records: a file created at a path deleted earlier on the branch continues that file's chain -/
theorem preserve_add {cs : List Chg} {t : Tree} (hI : Inv cs t) (hT : TInv t) {r : Rec}
    (hst : r.st = .A) (hfree : t.live.any (atPath r.dst) = false) (hsrc : r.src = r.dst) (hex : r.exBefore = false) :
    Inv (step cs r) (applyRec t r) ∧ TInv (applyRec t r) := by
  have hs := hI r.dst
  rw [liveAt_of_not_live hfree, List.nil_append] at hs
  cases hd : t.dead.find? (atPath r.dst) with
  | some d =>
    have hdp : d.path = r.dst := atPath_eq (by simpa using List.find?_some hd)
    have hhead : (deadAt t r.dst).head? = some d := by rw [deadAt, ← find_eq_head_filter]; exact hd
    have hfind : cs.find? (hasAfter r.src) = some (toChg d) := by
      rw [hsrc, find_eq_head_filter, hs, List.head?_map, hhead]; rfl
    have hstep : step cs r = toChg (touch r.commit .A r.dst d) :: cs.eraseP (hasAfter r.dst) := by
      rw [hsrc] at hfind
      simp only [step, hsrc, hfind, toChg, touch, hst]
    have happ : applyRec t r = { live := touch r.commit .A r.dst d :: t.live, dead := t.dead.eraseP (atPath r.dst) } := by
      simp [applyRec, hst, hd]
    rw [happ, hstep]
    constructor
    · intro q
      simp only [List.filter_cons, hasAfter_toChg, atPath_touch, liveAt, deadAt, touched_touch, Bool.and_true]
      by_cases hq : q = r.dst
      · subst hq
        rw [filter_eraseP_self, hs, filter_eraseP_self]
        have := liveAt_of_not_live hfree
        simp only [liveAt] at this
        simp [this, deadAt, List.map_tail]
      · rw [chg_erase_other cs hq, hI q, dead_erase_other _ hq]
        have : (r.dst == q) = false := by simp [Ne.symm hq]
        simp [liveAt, deadAt, this]
    · constructor
      · apply List.pairwise_cons.mpr
        refine ⟨?_, hT.uniq⟩
        intro g hg hpath
        have := any_atPath_false hfree g hg
        simp [atPath, touch] at hpath this
        exact this hpath.symm
      · intro g hg hgt
        rcases List.mem_cons.mp hg with h | h
        · rw [h, touched_touch] at hgt; exact absurd hgt (by simp)
        · have h0 := hT.fresh g h hgt
          refine ⟨h0.1, ?_⟩
          have hne : g.path ≠ r.dst := by
            intro he
            have := any_atPath_false hfree g h
            simp [atPath, he] at this
          simp only [deadAt]
          rw [dead_erase_other _ hne]
          exact h0.2
      · intro g hg
        exact hT.deadD g (mem_eraseP_mem hg)
      · intro g hg
        rcases List.mem_cons.mp hg with h | h
        · rw [h]; simp [touch]
        · exact hT.liveND g h
  | none =>
    have hnil : deadAt t r.dst = [] := by
      apply List.filter_eq_nil_iff.mpr
      intro g hg
      have := List.find?_eq_none.mp hd g hg
      simpa using this
    rw [hnil] at hs
    have hfind : cs.find? (hasAfter r.src) = none := by rw [hsrc, find_eq_head_filter, hs]; rfl
    have hstep : step cs r = { st := .A, before := "", after := r.dst, commits := [r.commit] } :: cs := by
      simp [step, hfind, freshBefore, hst, hex]
    have happ : applyRec t r = { live := { path := r.dst, origin := "", commits := [r.commit], st := .A } :: t.live, dead := t.dead } := by
      simp [applyRec, hst, hd]
    rw [happ, hstep]
    constructor
    · intro q
      simp only [List.filter_cons, liveAt, deadAt, hasAfter, atPath, touched]
      rw [hI q]
      by_cases hq : (r.dst == q) = true <;> simp [hq, liveAt, deadAt, atPath, touched, toChg]
    · constructor
      · apply List.pairwise_cons.mpr
        refine ⟨?_, hT.uniq⟩
        intro g hg hpath
        have := any_atPath_false hfree g hg
        simp [atPath] at hpath this
        exact this hpath.symm
      · intro g hg hgt
        rcases List.mem_cons.mp hg with h | h
        · rw [h] at hgt; simp [touched] at hgt
        · exact hT.fresh g h hgt
      · exact hT.deadD
      · intro g hg
        rcases List.mem_cons.mp hg with h | h
        · rw [h]; simp
        · exact hT.liveND g h

/-- one record: the change list keeps describing the tree -/
theorem step_preserves {cs : List Chg} {t : Tree} (hI : Inv cs t) (hT : TInv t) {r : Rec} (ha : applicable t r = true) :
    Inv (step cs r) (applyRec t r) ∧ TInv (applyRec t r) := by
  cases hst : r.st with
  | A =>
    simp only [applicable, hst, Bool.and_eq_true, Bool.not_eq_true', beq_iff_eq] at ha
    exact preserve_add hI hT hst ha.1.1 ha.1.2 ha.2
  | C => simp [applicable, hst] at ha
  | D =>
    simp only [applicable, hst, Bool.and_eq_true, beq_iff_eq] at ha
    obtain ⟨f, hf⟩ := exists_find_of_any ha.1
    have := preserve_delete hI hT hf hst ha.2.symm
    simpa [applyRec, hst, hf] using this
  | M =>
    simp only [applicable, hst, Bool.and_eq_true, beq_iff_eq] at ha
    obtain ⟨f, hf⟩ := exists_find_of_any ha.1
    have := preserve_move hI hT hf (by simp [hst]) (Or.inl ha.2.symm)
    simpa [applyRec, hst, hf] using this
  | T =>
    simp only [applicable, hst, Bool.and_eq_true, beq_iff_eq] at ha
    obtain ⟨f, hf⟩ := exists_find_of_any ha.1
    have := preserve_move hI hT hf (by simp [hst]) (Or.inl ha.2.symm)
    simpa [applyRec, hst, hf] using this
  | R =>
    simp only [applicable, hst, Bool.and_eq_true, Bool.not_eq_true'] at ha
    obtain ⟨f, hf⟩ := exists_find_of_any ha.1.1
    have := preserve_move hI hT hf (by simp [hst]) (Or.inr ha.1.2)
    simpa [applyRec, hst, hf] using this

theorem run_preserves : ∀ (rs : List Rec) (cs : List Chg) (t : Tree), Inv cs t → TInv t → WF t rs →
    Inv (rs.foldl step cs) (run t rs) ∧ TInv (run t rs)
  | [], _, _, hI, hT, _ => ⟨hI, hT⟩
  | r :: rs, cs, t, hI, hT, hW => by
    have h := step_preserves hI hT hW.1
    exact run_preserves rs (step cs r) (applyRec t r) h.1 h.2 hW.2

theorem base_inv (paths : List String) (hN : paths.Nodup) : Inv [] (baseTree paths) ∧ TInv (baseTree paths) := by
  constructor
  · intro q
    simp [liveAt, deadAt, baseTree, touched]
  · constructor
    · simp only [baseTree]
      exact List.Pairwise.map _ (fun a b h => h) hN
    · intro f hf _
      simp only [baseTree, List.mem_map] at hf
      obtain ⟨p, _, hp⟩ := hf
      subst hp
      simp [deadAt, baseTree]
    · intro f hf; simp [baseTree] at hf
    · intro f hf
      simp only [baseTree, List.mem_map] at hf
      obtain ⟨p, _, hp⟩ := hf
      subst hp
      simp

theorem find_of_mem_unique {f : TFile} : ∀ {l : List TFile}, (l.Pairwise fun f g => f.path ≠ g.path) → f ∈ l →
    l.find? (atPath f.path) = some f := by
  intro l
  induction l with
  | nil => intro _ h; simp at h
  | cons x xs ih =>
    intro hU hm
    rcases List.mem_cons.mp hm with h | h
    · subst h; simp [List.find?_cons, atPath]
    · have hne : x.path ≠ f.path := (List.pairwise_cons.mp hU).1 f h
      simp [List.find?_cons, atPath, hne, ih (List.pairwise_cons.mp hU).2 h]

/-- **C03, lineage**: for every well-formed history of name-status records over any base tree, and every file `f` of
the resulting HEAD tree,
* if the branch touched `f`: the changes pint holds for `f`'s path are the change that carries the base path `f`
  descends from (through any chain of renames, deletions and re-creations) with every commit of that chain — it is the
  most recent one and the only one that is not a deletion — followed by the deletions of earlier files at that path;
* if the branch did not touch `f`: pint holds no change for its path at all (its rules stay `unmodified`) and its
  base path is its own. -/
theorem fold_tracks_lineage (paths : List String) (hN : paths.Nodup) (rs : List Rec) (hW : WF (baseTree paths) rs) :
    ∀ f ∈ (run (baseTree paths) rs).live,
      (touched f = true →
        (fold rs).filter (hasAfter f.path) = toChg f :: (deadAt (run (baseTree paths) rs) f.path).map toChg ∧
        (fold rs).find? (hasAfter f.path) = some (toChg f) ∧
        (fold rs).filter (fun c => hasAfter f.path c && c.st != .D) = [toChg f]) ∧
      (touched f = false → (fold rs).filter (hasAfter f.path) = [] ∧ f.origin = f.path) := by
  have hb := base_inv paths hN
  have h := run_preserves rs [] (baseTree paths) hb.1 hb.2 hW
  intro f hf
  have hfind := find_of_mem_unique h.2.uniq hf
  have hI := h.1 f.path
  rw [liveAt_of_find h.2.uniq hfind] at hI
  constructor
  · intro ht
    simp only [ht, if_true, List.cons_append, List.nil_append, List.map_cons] at hI
    have hI' : (fold rs).filter (hasAfter f.path) = toChg f :: (deadAt (run (baseTree paths) rs) f.path).map toChg := hI
    refine ⟨hI', ?_, ?_⟩
    · rw [find_eq_head_filter, hI']; rfl
    · have hsplit : (fold rs).filter (fun c => hasAfter f.path c && c.st != .D) =
          ((fold rs).filter (hasAfter f.path)).filter (fun c => c.st != .D) := by
        rw [List.filter_filter]; congr 1; funext c; exact Bool.and_comm _ _
      rw [hsplit, hI']
      have hfD : (toChg f).st ≠ .D := h.2.liveND f hf
      have hdead : ((deadAt (run (baseTree paths) rs) f.path).map toChg).filter (fun c => c.st != .D) = [] := by
        apply List.filter_eq_nil_iff.mpr
        intro c hc
        obtain ⟨g, hg, hgc⟩ := List.mem_map.mp hc
        have : g.st = .D := h.2.deadD g (List.mem_filter.mp hg).1
        simp [← hgc, toChg, this]
      simp [List.filter_cons, hfD, hdead]
  · intro ht
    have hfr := h.2.fresh f hf ht
    simp only [ht, Bool.false_eq_true, if_false, List.nil_append, hfr.2, List.map_nil] at hI
    exact ⟨hI, hfr.1⟩

/-- deleted files: every deletion pint reports for a path is a file the branch deleted there, with its lineage -/
theorem fold_deletions (paths : List String) (hN : paths.Nodup) (rs : List Rec) (hW : WF (baseTree paths) rs) (p : String)
    (hfree : (run (baseTree paths) rs).live.any (atPath p) = false) :
    (fold rs).filter (hasAfter p) = (deadAt (run (baseTree paths) rs) p).map toChg := by
  have hb := base_inv paths hN
  have h := run_preserves rs [] (baseTree paths) hb.1 hb.2 hW
  have := h.1 p
  rwa [liveAt_of_not_live hfree, List.nil_append] at this

/-! ## part C: the bodies pint reads are the base and the HEAD versions -/

def touches (r : Rec) (p : String) : Bool := r.src == p || r.dst == p
def lastOf (cs : List Nat) : Nat := cs.getLast?.getD 0
def firstOf (cs : List Nat) : Nat := cs.head?.getD 0

/-- what the processed part of the history (`done`, latest commit `K`) says about every file of the tree -/
structure HInv (t : Tree) (done : List Rec) (K : Nat) : Prop where
  bounded : ∀ r ∈ done, r.commit ≤ K
  chainLe : ∀ f ∈ t.live ++ t.dead, ∀ c ∈ f.commits, c ≤ K
  chainFrom : ∀ f ∈ t.live ++ t.dead, ∀ c ∈ f.commits, ∃ r ∈ done, r.commit = c
  deadTouched : ∀ f ∈ t.dead, f.commits ≠ []
  /-- a record that touches the path of a live file is not later than the file's last commit -/
  liveLast : ∀ f ∈ t.live, ∀ r ∈ done, touches r f.path = true → f.commits ≠ [] ∧ r.commit ≤ lastOf f.commits
  /-- a record that touches the base path a file comes from is not earlier than the file's first commit -/
  origFirst : ∀ f ∈ t.live ++ t.dead, f.origin ≠ "" → ∀ r ∈ done, touches r f.origin = true →
    f.commits ≠ [] ∧ firstOf f.commits ≤ r.commit

theorem lastOf_append (cs : List Nat) (c : Nat) : lastOf (cs ++ [c]) = c := by simp [lastOf]

theorem firstOf_append (cs : List Nat) (c : Nat) : firstOf (cs ++ [c]) = if cs = [] then c else firstOf cs := by
  cases cs <;> simp [firstOf]

theorem firstOf_mem {cs : List Nat} (h : cs ≠ []) : firstOf cs ∈ cs := by
  cases cs with
  | nil => exact absurd rfl h
  | cons x xs => simp [firstOf]

/-- the generic step: one file `nf` is new (built from `old`, if any, plus the record's commit), everything else is
as before, and the record touches no other live path -/
theorem hinv_step {t t' : Tree} {done : List Rec} {K : Nat} {r : Rec} (hH : HInv t done K) (hK : K ≤ r.commit)
    (hT' : TInv t') (nf : TFile) (old : Option TFile)
    (hold : ∀ o, old = some o → o ∈ t.live ++ t.dead)
    (hcommits : nf.commits = ((old.map (·.commits)).getD []) ++ [r.commit])
    (horigin : nf.origin = (old.map (·.origin)).getD "")
    (hlive' : ∀ g ∈ t'.live, g = nf ∨ g ∈ t.live)
    (hdead' : ∀ g ∈ t'.dead, g = nf ∨ g ∈ t.dead)
    (hothers : ∀ g ∈ t'.live, g ≠ nf → touches r g.path = false) :
    HInv t' (done ++ [r]) r.commit := by
  have hnfne : nf.commits ≠ [] := by rw [hcommits]; simp
  have hnfle : ∀ c ∈ nf.commits, c ≤ r.commit := by
    intro c hc
    rw [hcommits] at hc
    rcases List.mem_append.mp hc with h | h
    · cases ho : old with
      | none => simp [ho] at h
      | some o =>
        simp only [ho, Option.map_some, Option.getD_some] at h
        exact Nat.le_trans (hH.chainLe o (hold o ho) c h) hK
    · have : c = r.commit := by simpa using h
      omega
  have hnffrom : ∀ c ∈ nf.commits, ∃ r' ∈ done ++ [r], r'.commit = c := by
    intro c hc
    rw [hcommits] at hc
    rcases List.mem_append.mp hc with h | h
    · cases ho : old with
      | none => simp [ho] at h
      | some o =>
        simp only [ho, Option.map_some, Option.getD_some] at h
        obtain ⟨r', hr', hrc⟩ := hH.chainFrom o (hold o ho) c h
        exact ⟨r', List.mem_append.mpr (Or.inl hr'), hrc⟩
    · have : c = r.commit := by simpa using h
      exact ⟨r, by simp, this.symm⟩
  refine ⟨?_, ?_, ?_, ?_, ?_, ?_⟩
  · intro r' hr'
    rcases List.mem_append.mp hr' with h | h
    · exact Nat.le_trans (hH.bounded r' h) hK
    · have : r' = r := by simpa using h
      subst this; exact Nat.le_refl _
  · intro g hg c hc
    rcases List.mem_append.mp hg with hgl | hgd
    · rcases hlive' g hgl with rfl | h
      · exact hnfle c hc
      · exact Nat.le_trans (hH.chainLe g (List.mem_append.mpr (Or.inl h)) c hc) hK
    · rcases hdead' g hgd with rfl | h
      · exact hnfle c hc
      · exact Nat.le_trans (hH.chainLe g (List.mem_append.mpr (Or.inr h)) c hc) hK
  · intro g hg c hc
    have lift : ∀ g', g' ∈ t.live ++ t.dead → c ∈ g'.commits → ∃ r' ∈ done ++ [r], r'.commit = c := by
      intro g' hg' hc'
      obtain ⟨r', hr', hrc⟩ := hH.chainFrom g' hg' c hc'
      exact ⟨r', List.mem_append.mpr (Or.inl hr'), hrc⟩
    rcases List.mem_append.mp hg with hgl | hgd
    · rcases hlive' g hgl with rfl | h
      · exact hnffrom c hc
      · exact lift g (List.mem_append.mpr (Or.inl h)) hc
    · rcases hdead' g hgd with rfl | h
      · exact hnffrom c hc
      · exact lift g (List.mem_append.mpr (Or.inr h)) hc
  · intro g hg
    rcases hdead' g hg with rfl | h
    · exact hnfne
    · exact hH.deadTouched g h
  · intro g hg r' hr' ht
    rcases hlive' g hg with rfl | h
    · refine ⟨hnfne, ?_⟩
      rw [hcommits, lastOf_append]
      rcases List.mem_append.mp hr' with h' | h'
      · exact Nat.le_trans (hH.bounded r' h') hK
      · have : r' = r := by simpa using h'
        subst this; exact Nat.le_refl _
    · by_cases hgn : g = nf
      · subst hgn
        refine ⟨hnfne, ?_⟩
        rw [hcommits, lastOf_append]
        rcases List.mem_append.mp hr' with h' | h'
        · exact Nat.le_trans (hH.bounded r' h') hK
        · have : r' = r := by simpa using h'
          subst this; exact Nat.le_refl _
      · rcases List.mem_append.mp hr' with h' | h'
        · exact hH.liveLast g h r' h' ht
        · have : r' = r := by simpa using h'
          subst this
          rw [hothers g hg hgn] at ht; exact absurd ht (by simp)
  · intro g hg hgo r' hr' ht
    -- is g the new file?
    have hcase : g = nf ∨ g ∈ t.live ++ t.dead := by
      rcases List.mem_append.mp hg with hgl | hgd
      · rcases hlive' g hgl with h | h
        · exact Or.inl h
        · exact Or.inr (List.mem_append.mpr (Or.inl h))
      · rcases hdead' g hgd with h | h
        · exact Or.inl h
        · exact Or.inr (List.mem_append.mpr (Or.inr h))
    rcases List.mem_append.mp hr' with h' | h'
    · -- an earlier record
      rcases hcase with rfl | hold'
      · cases ho : old with
        | none => rw [horigin, ho] at hgo; simp at hgo
        | some o =>
          have hoo : g.origin = o.origin := by rw [horigin, ho]; rfl
          have hinv := hH.origFirst o (hold o ho) (by rw [← hoo]; exact hgo) r' h' (by rw [← hoo]; exact ht)
          refine ⟨hnfne, ?_⟩
          rw [hcommits, ho]
          simp only [Option.map_some, Option.getD_some, firstOf_append, hinv.1, if_false]
          exact hinv.2
      · exact hH.origFirst g hold' hgo r' h' ht
    · -- the record just processed
      have : r' = r := by simpa using h'
      subst this
      by_cases hgn : g = nf
      · subst hgn
        exact ⟨hnfne, hnfle _ (firstOf_mem hnfne)⟩
      · rcases hcase with h | hold'
        · exact absurd h hgn
        · by_cases hgc : g.commits = []
          · -- an untouched file is live and sits at its base path: the record cannot touch it
            exfalso
            have hgl : g ∈ t'.live := by
              rcases List.mem_append.mp hg with hgl | hgd
              · exact hgl
              · rcases hdead' g hgd with h | h
                · exact absurd h hgn
                · exact absurd hgc (hH.deadTouched g h)
            have hfresh := hT'.fresh g hgl (by simp [touched, hgc])
            have := hothers g hgl hgn
            rw [hfresh.1] at ht
            rw [this] at ht; exact absurd ht (by simp)
          · exact ⟨hgc, Nat.le_trans (hH.chainLe g hold' _ (firstOf_mem hgc)) hK⟩

theorem not_touches_of_ne {r : Rec} {p : String} (h1 : r.src ≠ p) (h2 : r.dst ≠ p) : touches r p = false := by
  simp [touches, h1, h2]

theorem path_ne_of_atPath_false {p : String} {g : TFile} (h : atPath p g = false) : p ≠ g.path := by
  intro e; simp [atPath, e] at h

/-- the shape of `applyRec` for records that move a live file (M, T, R) -/
theorem hist_move {cs : List Chg} {t : Tree} {done : List Rec} {K : Nat} (hT : TInv t) (hH : HInv t done K)
    {r : Rec} {f : TFile} (hf : t.live.find? (atPath r.src) = some f) (hK : K ≤ r.commit)
    (hdst : r.dst = r.src ∨ t.live.any (atPath r.dst) = false)
    (hT' : TInv { live := touch r.commit r.st r.dst f :: t.live.eraseP (atPath r.src), dead := t.dead }) :
    HInv { live := touch r.commit r.st r.dst f :: t.live.eraseP (atPath r.src), dead := t.dead } (done ++ [r]) r.commit := by
  have hfm : f ∈ t.live := List.mem_of_find?_eq_some hf
  refine hinv_step hH hK hT' (touch r.commit r.st r.dst f) (some f) ?_ rfl rfl ?_ ?_ ?_
  · intro o ho; have : o = f := by simpa using ho.symm
    subst this; exact List.mem_append.mpr (Or.inl hfm)
  · intro g hg
    rcases List.mem_cons.mp hg with h | h
    · exact Or.inl h
    · exact Or.inr (mem_eraseP_mem h)
  · intro g hg; exact Or.inr hg
  · intro g hg hne
    rcases List.mem_cons.mp hg with h | h
    · exact absurd h hne
    · have h1 : r.src ≠ g.path := path_ne_of_atPath_false (erase_none_left hT.uniq hf g h)
      have h2 : r.dst ≠ g.path := by
        rcases hdst with hd | hd
        · rw [hd]; exact h1
        · exact path_ne_of_atPath_false (any_atPath_false hd g (mem_eraseP_mem h))
      exact not_touches_of_ne h1 h2

theorem hist_delete {t : Tree} {done : List Rec} {K : Nat} (hT : TInv t) (hH : HInv t done K)
    {r : Rec} {f : TFile} (hf : t.live.find? (atPath r.src) = some f) (hK : K ≤ r.commit) (hdst : r.dst = r.src)
    (hT' : TInv { live := t.live.eraseP (atPath r.src), dead := touch r.commit .D r.dst f :: t.dead }) :
    HInv { live := t.live.eraseP (atPath r.src), dead := touch r.commit .D r.dst f :: t.dead } (done ++ [r]) r.commit := by
  have hfm : f ∈ t.live := List.mem_of_find?_eq_some hf
  refine hinv_step hH hK hT' (touch r.commit .D r.dst f) (some f) ?_ rfl rfl ?_ ?_ ?_
  · intro o ho; have : o = f := by simpa using ho.symm
    subst this; exact List.mem_append.mpr (Or.inl hfm)
  · intro g hg; exact Or.inr (mem_eraseP_mem hg)
  · intro g hg
    rcases List.mem_cons.mp hg with h | h
    · exact Or.inl h
    · exact Or.inr h
  · intro g hg _
    have h1 : r.src ≠ g.path := path_ne_of_atPath_false (erase_none_left hT.uniq hf g hg)
    exact not_touches_of_ne h1 (by rw [hdst]; exact h1)

theorem hist_add {t : Tree} {done : List Rec} {K : Nat} (hH : HInv t done K) {r : Rec} (hK : K ≤ r.commit)
    (hst : r.st = .A) (hfree : t.live.any (atPath r.dst) = false) (hsrc : r.src = r.dst)
    (hT' : TInv (applyRec t r)) : HInv (applyRec t r) (done ++ [r]) r.commit := by
  have hothers : ∀ g ∈ t.live, touches r g.path = false := fun g hg => by
    have h2 : r.dst ≠ g.path := path_ne_of_atPath_false (any_atPath_false hfree g hg)
    exact not_touches_of_ne (by rw [hsrc]; exact h2) h2
  cases hd : t.dead.find? (atPath r.dst) with
  | some d =>
    have happ : applyRec t r = { live := touch r.commit .A r.dst d :: t.live, dead := t.dead.eraseP (atPath r.dst) } := by
      simp [applyRec, hst, hd]
    rw [happ] at hT' ⊢
    refine hinv_step hH hK hT' (touch r.commit .A r.dst d) (some d) ?_ rfl rfl ?_ ?_ ?_
    · intro o ho; have : o = d := by simpa using ho.symm
      subst this; exact List.mem_append.mpr (Or.inr (List.mem_of_find?_eq_some hd))
    · intro g hg
      rcases List.mem_cons.mp hg with h | h
      · exact Or.inl h
      · exact Or.inr h
    · intro g hg; exact Or.inr (mem_eraseP_mem hg)
    · intro g hg hne
      rcases List.mem_cons.mp hg with h | h
      · exact absurd h hne
      · exact hothers g h
  | none =>
    have happ : applyRec t r = { live := { path := r.dst, origin := "", commits := [r.commit], st := .A } :: t.live, dead := t.dead } := by
      simp [applyRec, hst, hd]
    rw [happ] at hT' ⊢
    refine hinv_step hH hK hT' { path := r.dst, origin := "", commits := [r.commit], st := .A } none ?_ rfl rfl ?_ ?_ ?_
    · intro o ho; simp at ho
    · intro g hg
      rcases List.mem_cons.mp hg with h | h
      · exact Or.inl h
      · exact Or.inr h
    · intro g hg; exact Or.inr hg
    · intro g hg hne
      rcases List.mem_cons.mp hg with h | h
      · exact absurd h hne
      · exact hothers g h

/-- one record keeps the history invariant -/
theorem hist_step {cs : List Chg} {t : Tree} {done : List Rec} {K : Nat} (hI : Inv cs t) (hT : TInv t) (hH : HInv t done K)
    {r : Rec} (ha : applicable t r = true) (hK : K ≤ r.commit) : HInv (applyRec t r) (done ++ [r]) r.commit := by
  have hT' := (step_preserves hI hT ha).2
  cases hst : r.st with
  | A =>
    simp only [applicable, hst, Bool.and_eq_true, Bool.not_eq_true', beq_iff_eq] at ha
    exact hist_add hH hK hst ha.1.1 ha.1.2 hT'
  | C => simp [applicable, hst] at ha
  | D =>
    simp only [applicable, hst, Bool.and_eq_true, beq_iff_eq] at ha
    obtain ⟨f, hf⟩ := exists_find_of_any ha.1
    have happ : applyRec t r = { live := t.live.eraseP (atPath r.src), dead := touch r.commit .D r.dst f :: t.dead } := by
      simp [applyRec, hst, hf]
    rw [happ] at hT' ⊢
    exact hist_delete hT hH hf hK ha.2.symm hT'
  | M =>
    simp only [applicable, hst, Bool.and_eq_true, beq_iff_eq] at ha
    obtain ⟨f, hf⟩ := exists_find_of_any ha.1
    have happ : applyRec t r = { live := touch r.commit r.st r.dst f :: t.live.eraseP (atPath r.src), dead := t.dead } := by
      simp [applyRec, hst, hf]
    rw [happ] at hT' ⊢
    exact hist_move (cs := cs) hT hH hf hK (Or.inl ha.2.symm) hT'
  | T =>
    simp only [applicable, hst, Bool.and_eq_true, beq_iff_eq] at ha
    obtain ⟨f, hf⟩ := exists_find_of_any ha.1
    have happ : applyRec t r = { live := touch r.commit r.st r.dst f :: t.live.eraseP (atPath r.src), dead := t.dead } := by
      simp [applyRec, hst, hf]
    rw [happ] at hT' ⊢
    exact hist_move (cs := cs) hT hH hf hK (Or.inl ha.2.symm) hT'
  | R =>
    simp only [applicable, hst, Bool.and_eq_true, Bool.not_eq_true'] at ha
    obtain ⟨f, hf⟩ := exists_find_of_any ha.1.1
    have happ : applyRec t r = { live := touch r.commit r.st r.dst f :: t.live.eraseP (atPath r.src), dead := t.dead } := by
      simp [applyRec, hst, hf]
    rw [happ] at hT' ⊢
    exact hist_move (cs := cs) hT hH hf hK (Or.inr ha.1.2) hT'

/-- commits do not decrease along the record list (git log --reverse) -/
def SortedFrom : Nat → List Rec → Prop
  | _, [] => True
  | K, r :: rs => K ≤ r.commit ∧ SortedFrom r.commit rs

theorem hist_run : ∀ (rs : List Rec) (cs : List Chg) (t : Tree) (done : List Rec) (K : Nat),
    Inv cs t → TInv t → HInv t done K → WF t rs → SortedFrom K rs →
    ∃ K', HInv (run t rs) (done ++ rs) K' ∧ TInv (run t rs) ∧ Inv (rs.foldl step cs) (run t rs)
  | [], cs, t, done, K, hI, hT, hH, _, _ => ⟨K, by simpa [run] using hH, hT, hI⟩
  | r :: rs, cs, t, done, K, hI, hT, hH, hW, hS => by
    have h1 := step_preserves hI hT hW.1
    have h2 := hist_step hI hT hH hW.1 hS.1
    obtain ⟨K', h3, h4, h5⟩ := hist_run rs (step cs r) (applyRec t r) (done ++ [r]) r.commit h1.1 h1.2 h2 hW.2 hS.2
    exact ⟨K', by simpa [run, List.append_assoc] using h3, h4, h5⟩

theorem base_hinv (paths : List String) : HInv (baseTree paths) [] 0 := by
  have hempty : ∀ f ∈ (baseTree paths).live ++ (baseTree paths).dead, f.commits = [] := by
    intro f hf
    simp only [baseTree, List.append_nil, List.mem_map] at hf
    obtain ⟨p, _, rfl⟩ := hf
    rfl
  refine ⟨by simp, ?_, ?_, by simp [baseTree], by simp, by simp⟩
  · intro f hf c hc; rw [hempty f hf] at hc; simp at hc
  · intro f hf c hc; rw [hempty f hf] at hc; simp at hc

/-- the content of the paths as git would show them at each commit: a path's content only changes in a commit whose
name-status lists it -/
def Stable (rs : List Rec) (content : Nat → String → Option Nat) : Prop :=
  ∀ a b p, a ≤ b → (∀ r ∈ rs, a < r.commit → r.commit ≤ b → touches r p = false) → content a p = content b p

/-- **C03, bodies**: for every well-formed history in commit order (commits numbered from 1, HEAD = commit `N`), and
every file `f` of the HEAD tree that the branch touched, with `c = toChg f` the change pint holds for it:
the *after* body pint reads (`c.after` at the last commit of `c`) is the file's content at HEAD, and, when the file
descends from a base path, the *before* body (`c.before` at the parent of the first commit of `c`) is the base
content of that path (commit 0). -/
theorem bodies_are_base_and_head (paths : List String) (hN : paths.Nodup) (rs : List Rec) (hW : WF (baseTree paths) rs)
    (hS : SortedFrom 1 rs) (content : Nat → String → Option Nat) (hC : Stable rs content) (N : Nat)
    (hNmax : ∀ r ∈ rs, r.commit ≤ N) :
    ∀ f ∈ (run (baseTree paths) rs).live, touched f = true →
      content (lastOf (toChg f).commits) (toChg f).after = content N f.path ∧
      ((toChg f).before ≠ "" → content (firstOf (toChg f).commits - 1) (toChg f).before = content 0 f.origin) := by
  have hb := base_inv paths hN
  have hS0 : SortedFrom 0 rs := by
    cases rs with
    | nil => trivial
    | cons r rs => exact ⟨Nat.zero_le _, hS.2⟩
  obtain ⟨K', hH, _, _⟩ := hist_run rs [] (baseTree paths) [] 0 hb.1 hb.2 (base_hinv paths) hW hS0
  simp only [List.nil_append] at hH
  intro f hf ht
  have hne : f.commits ≠ [] := by
    intro e; simp [touched, e] at ht
  have hfm : f ∈ (run (baseTree paths) rs).live ++ (run (baseTree paths) rs).dead := List.mem_append.mpr (Or.inl hf)
  have all1 : ∀ (l : List Rec) (k : Nat), 1 ≤ k → SortedFrom k l → ∀ x ∈ l, 1 ≤ x.commit := by
    intro l
    induction l with
    | nil => intro _ _ _ x hx; simp at hx
    | cons y ys ih =>
      intro k hk hs x hx
      rcases List.mem_cons.mp hx with rfl | hx'
      · exact Nat.le_trans hk hs.1
      · exact ih y.commit (Nat.le_trans hk hs.1) hs.2 x hx'
  constructor
  · -- nothing after the chain's last commit touches the path
    simp only [toChg]
    have hmem : lastOf f.commits ∈ f.commits := by
      unfold lastOf
      cases hl : f.commits.getLast? with
      | none => simp [List.getLast?_eq_none_iff] at hl; exact absurd hl hne
      | some x => simpa using List.mem_of_getLast? hl
    obtain ⟨r0, hr0, hr0c⟩ := hH.chainFrom f hfm _ hmem
    have hle : lastOf f.commits ≤ N := by rw [← hr0c]; exact hNmax r0 hr0
    apply hC _ _ _ hle
    intro r hr hlt _
    cases htr : touches r f.path with
    | false => rfl
    | true =>
      have := (hH.liveLast f hf r hr htr).2
      omega
  · -- nothing before the chain's first commit touches the base path
    intro hbefore
    simp only [toChg] at hbefore ⊢
    symm
    apply hC 0 (firstOf f.commits - 1) f.origin (Nat.zero_le _)
    intro r hr _ hle
    cases htr : touches r f.origin with
    | false => rfl
    | true =>
      have h2 := (hH.origFirst f hfm hbefore r hr htr).2
      obtain ⟨r1, hr1, hr1c⟩ := hH.chainFrom f hfm _ (firstOf_mem hne)
      have : 1 ≤ r1.commit := all1 rs 1 (Nat.le_refl 1) hS r1 hr1
      omega

/-- the hypotheses of `bodies_are_base_and_head` are met by a concrete history (commit order, a content function
that changes `b` in commits 1–3 and `a` in commit 2 only) -/
example : SortedFrom 1 [ ({ commit := 1, st := .D, src := "b", dst := "b" } : Rec),
    { commit := 2, st := .R, src := "a", dst := "b" }, { commit := 3, st := .M, src := "b", dst := "b" } ] := by
  simp [SortedFrom]

/-! the code before the fix: delete `b`, rename `a` to `b`, edit `b` -/
def reuseHistory : List Rec :=
  [ { commit := 1, st := .D, src := "b", dst := "b" },
    { commit := 2, st := .R, src := "a", dst := "b" },
    { commit := 3, st := .M, src := "b", dst := "b" } ]

/-- the history is well formed, HEAD's `b` descends from `a` … -/
example : wfB (baseTree ["a", "b"]) reuseHistory = true ∧
    ((run (baseTree ["a", "b"]) reuseHistory).live.map fun f => (f.path, f.origin, f.commits)) = [("b", "a", [2, 3])] := by decide

/-- … the repaired fold compares `b` with `a` (and still reports the deletion of the old `b`) … -/
example : (fold reuseHistory).map (fun c => (c.before, c.after, c.commits)) = [("a", "b", [2, 3]), ("b", "b", [1])] := by decide

/-- … while the fold before the fix compared HEAD's `b` with the deleted `b` and lost the rename. -/
theorem old_fold_loses_lineage :
    (foldOld reuseHistory).map (fun c => (c.before, c.after, c.commits)) = [("b", "b", [1, 3])] := by decide

theorem wfB_iff (t : Tree) (rs : List Rec) : wfB t rs = true ↔ WF t rs := by
  induction rs generalizing t with
  | nil => simp [wfB, WF]
  | cons r rs ih => simp [wfB, WF, ih]

/-- The composition of the two theorems with the bodies pint reads (`Commits[0]^`, the last commit) and the merge into
the glob entries is run, not proved: C03 is claimed at the level of these two theorems plus the correspondence. -/
theorem C03_partial (paths : List String) (hN : paths.Nodup) (rs : List Rec) (hW : WF (baseTree paths) rs)
    (before after : List Ent) (hB : UniqueKeys before) (hA : UniqueKeys after) (hNm : ∀ a ∈ after, a.name ≠ "") :
    (∀ f ∈ (run (baseTree paths) rs).live,
      (touched f = true → (fold rs).filter (fun c => hasAfter f.path c && c.st != .D) = [toChg f]) ∧
      (touched f = false → (fold rs).filter (hasAfter f.path) = [])) ∧
    (matchAfter before after).1.map stateOf = after.map (specState before) :=
  ⟨fun f hf => ⟨fun ht => ((fold_tracks_lineage paths hN rs hW f hf).1 ht).2.2,
                fun ht => ((fold_tracks_lineage paths hN rs hW f hf).2 ht).1⟩,
   (match_states after before hB hA hNm).1⟩

set_option linter.unusedVariables false

/-! ## part D: the final merge into the glob finder's entries -/

theorem sameRule_iff (e g : GE) : sameRule e g = true ↔ g.path = e.path ∧ g.key = e.key := by
  simp [sameRule]

/-- `setFirst` on a list that holds exactly one entry for the rule: that entry gets the state, nothing else changes -/
theorem setFirst_unique (e : GE) : ∀ (l : List GE), (∃ g ∈ l, sameRule e g = true) →
    (l.Pairwise fun a b => ¬ (a.path = b.path ∧ a.key = b.key)) →
    setFirst e l = some (l.map fun g => if sameRule e g then { g with state := e.state } else g) := by
  intro l
  induction l with
  | nil => intro ⟨g, hg, _⟩; simp at hg
  | cons a rest ih =>
    intro hex hnd
    rw [List.pairwise_cons] at hnd
    simp only [setFirst, List.map_cons]
    by_cases ha : sameRule e a = true
    · simp only [ha, if_true]
      have hid : rest.map (fun g => if sameRule e g then { g with state := e.state } else g) = rest := by
        have hall : ∀ g ∈ rest, (fun g => if sameRule e g then { g with state := e.state } else g) g = id g := by
          intro g hg
          have hne := hnd.1 g hg
          have : sameRule e g = false := by
            cases h : sameRule e g with
            | false => rfl
            | true =>
              exfalso; apply hne
              obtain ⟨p1, k1⟩ := (sameRule_iff e a).mp ha
              obtain ⟨p2, k2⟩ := (sameRule_iff e g).mp h
              exact ⟨p1.trans p2.symm, k1.trans k2.symm⟩
          simp [this]
        rw [List.map_congr_left hall, List.map_id]
      rw [hid]
    · have ha' : sameRule e a = false := by simpa using ha
      simp only [ha', Bool.false_eq_true, if_false]
      have hex' : ∃ g ∈ rest, sameRule e g = true := by
        obtain ⟨g, hg, hs⟩ := hex
        rcases List.mem_cons.mp hg with rfl | hg'
        · rw [ha'] at hs; cases hs
        · exact ⟨g, hg', hs⟩
      rw [ih hex' hnd.2]
      rfl

theorem setFirst_append_left (e : GE) (B : List GE) : ∀ (A A' : List GE), setFirst e A = some A' → setFirst e (A ++ B) = some (A' ++ B) := by
  intro A
  induction A with
  | nil => intro A' h; simp [setFirst] at h
  | cons a rest ih =>
    intro A' h
    simp only [setFirst, List.cons_append] at h ⊢
    split at h
    · rename_i hs
      simp only [hs, if_true]
      cases h; rfl
    · rename_i hs
      simp only [hs, if_false]
      cases hr : setFirst e rest with
      | none => rw [hr] at h; simp at h
      | some r =>
        rw [hr] at h
        simp only [Option.map_some, Option.some.injEq] at h
        subst h
        rw [ih r hr]; rfl

theorem stateFrom_keeps (es : List GE) (g : GE) : (stateFrom es g).path = g.path ∧ (stateFrom es g).key = g.key ∧ (stateFrom es g).removed = g.removed := by
  unfold stateFrom; split <;> simp

theorem sameRule_stateFrom (e : GE) (es : List GE) (g : GE) : sameRule e (stateFrom es g) = sameRule e g := by
  obtain ⟨h1, h2, _⟩ := stateFrom_keeps es g
  simp [sameRule, h1, h2]

/-- what the final loop needs: the glob finder holds one entry per rule, every rule the branch did not remove is among
them, and the branch lists no rule twice -/
structure MergeOK (G E : List GE) : Prop where
  globDistinct : G.Pairwise fun a b => ¬ (a.path = b.path ∧ a.key = b.key)
  known : ∀ e ∈ E, e.removed = false → ∃ g ∈ G, sameRule e g = true
  branchDistinct : (E.filter fun e => !e.removed).Pairwise fun a b => ¬ (a.path = b.path ∧ a.key = b.key)

theorem mergeAll_from (G : List GE) (hG : G.Pairwise fun a b => ¬ (a.path = b.path ∧ a.key = b.key)) :
    ∀ (E₂ E₁ : List GE), MergeOK G (E₁ ++ E₂) →
      E₂.foldl mergeOne (G.map (stateFrom E₁) ++ E₁.filter (·.removed)) =
        G.map (stateFrom (E₁ ++ E₂)) ++ (E₁ ++ E₂).filter (·.removed) := by
  intro E₂
  induction E₂ with
  | nil => intro E₁ _; simp
  | cons e rest ih =>
    intro E₁ ok
    have hassoc : E₁ ++ e :: rest = (E₁ ++ [e]) ++ rest := by simp
    simp only [List.foldl_cons]
    have step : mergeOne (G.map (stateFrom E₁) ++ E₁.filter (·.removed)) e =
        G.map (stateFrom (E₁ ++ [e])) ++ (E₁ ++ [e]).filter (·.removed) := by
      cases hr : e.removed with
      | true =>
        have hsf : ∀ g, stateFrom (E₁ ++ [e]) g = stateFrom E₁ g := by
          intro g
          simp [stateFrom, List.find?_append, hr]
        simp only [mergeOne, hr, if_true, List.filter_append, List.filter_cons, List.filter_nil]
        rw [List.map_congr_left (fun g _ => hsf g)]
        simp
      | false =>
        -- no earlier branch entry is the same rule
        have hearlier : ∀ e' ∈ E₁, e'.removed = false → ¬ (e'.path = e.path ∧ e'.key = e.key) := by
          intro e' he' hr'
          have := ok.branchDistinct
          rw [List.filter_append, List.pairwise_append] at this
          apply this.2.2 e' (List.mem_filter.mpr ⟨he', by simp [hr']⟩) e
          exact List.mem_filter.mpr ⟨List.mem_cons_self .., by simp [hr]⟩
        obtain ⟨g0, hg0, hs0⟩ := ok.known e (List.mem_append.mpr (Or.inr (List.mem_cons_self ..))) hr
        have hex : ∃ g ∈ G.map (stateFrom E₁), sameRule e g = true :=
          ⟨stateFrom E₁ g0, List.mem_map.mpr ⟨g0, hg0, rfl⟩, by rw [sameRule_stateFrom]; exact hs0⟩
        have hnd : (G.map (stateFrom E₁)).Pairwise fun a b => ¬ (a.path = b.path ∧ a.key = b.key) := by
          rw [List.pairwise_map]
          refine hG.imp ?_
          intro a b hab
          obtain ⟨a1, a2, _⟩ := stateFrom_keeps E₁ a
          obtain ⟨b1, b2, _⟩ := stateFrom_keeps E₁ b
          rw [a1, a2, b1, b2]; exact hab
        have hset := setFirst_append_left e (E₁.filter (·.removed)) _ _ (setFirst_unique e _ hex hnd)
        simp only [mergeOne, hr, Bool.false_eq_true, if_false, hset]
        have hfil : (E₁ ++ [e]).filter (·.removed) = E₁.filter (·.removed) := by simp [List.filter_append, hr]
        rw [hfil]
        congr 1
        rw [List.map_map]
        apply List.map_congr_left
        intro g hg
        simp only [Function.comp]
        rw [sameRule_stateFrom]
        cases hsg : sameRule e g with
        | true =>
          simp only [if_true]
          -- nothing in E₁ names this rule, so the new entry decides
          have hnone : E₁.find? (fun e' => !e'.removed && sameRule e' g) = none := by
            rw [List.find?_eq_none]
            intro e' he'
            cases hr' : e'.removed with
            | true => simp
            | false =>
              have hne := hearlier e' he' hr'
              have : sameRule e' g = false := by
                cases h : sameRule e' g with
                | false => rfl
                | true =>
                  exfalso; apply hne
                  obtain ⟨p1, k1⟩ := (sameRule_iff e g).mp hsg
                  obtain ⟨p2, k2⟩ := (sameRule_iff e' g).mp h
                  exact ⟨p2.symm.trans p1, k2.symm.trans k1⟩
              simp [this]
          simp [stateFrom, List.find?_append, hnone, hr, hsg]
        | false =>
          simp [stateFrom, List.find?_append, hr, hsg]
    rw [step, hassoc]
    exact ih (E₁ ++ [e]) (by rw [← hassoc]; exact ok)

/-- **C03, the final loop.** When the glob finder holds one entry per HEAD rule, every rule the branch did not remove
is among them and the branch lists no rule twice, the loop gives every glob entry the state the branch computed for the
same rule (and leaves the others as they were), and appends the removed rules. -/
theorem mergeAll_spec (G E : List GE) (ok : MergeOK G E) :
    mergeAll G E = G.map (stateFrom E) ++ E.filter (·.removed) := by
  have h := mergeAll_from G ok.globDistinct E [] (by simpa using ok)
  have h0 : G.map (stateFrom []) = G := by
    have : ∀ g ∈ G, stateFrom [] g = id g := fun g _ => by simp [stateFrom]
    rw [List.map_congr_left this, List.map_id]
  simp only [List.filter_nil, List.append_nil, List.nil_append, h0] at h
  exact h

/-- the hypotheses are met, and the loop does what the statement says, on a small example: two glob rules in `a.yml`, one
modified on the branch, one rule removed -/
example : mergeAll [⟨"a.yml", 1, 0, false⟩, ⟨"a.yml", 2, 0, false⟩] [⟨"a.yml", 2, 3, false⟩, ⟨"a.yml", 9, 4, true⟩] =
    [⟨"a.yml", 1, 0, false⟩, ⟨"a.yml", 2, 3, false⟩, ⟨"a.yml", 9, 4, true⟩] := by decide

end Pint.Props.C03
