/-
  C15 — failover happens on unavailability only, and outages degrade to warnings.
-/
import PintModel.Model.Failover
set_option linter.unusedSimpArgs false
namespace Pint.Props.C15
open Pint.Failover

/-! ### regenerated facts -/

/-- only `server_error` API errors count as unavailability; everything that is not an API error does;
    every endpoint's loop stops on anything else; the severity switch has the documented three arms -/
theorem classification_facts :
    Gen.Errors.unavailableType = "v1.ErrServer" ∧ Gen.Errors.unavailableDefault = "true" ∧
    Gen.Errors.unsupportedType = "ErrAPIUnsupported" ∧ Gen.Errors.unsupportedDefault = "false" ∧
    Gen.Errors.loops.map (·.1) = ["Query", "RangeQuery", "Config", "Flags", "Metadata"] ∧
    Gen.Errors.severityCases = [("promapi.IsQueryTooExpensive(err)", "Warning", ""),
      ("promapi.IsUnavailableError(err)", "Warning", "perrOk && perr.IsStrict() => Bug"), ("default", "s", "")] := by
  decide

/-- the wire spelling of every API error type decodes to that type (so `server_error` is the only
    spelling that is unavailable and bad_data / execution / client_error … are not) -/
theorem decode_table :
    Gen.Errors.decodeTable = [("string(v1.ErrBadData)", "v1.ErrBadData"), ("string(v1.ErrTimeout)", "v1.ErrTimeout"),
      ("string(v1.ErrCanceled)", "v1.ErrCanceled"), ("string(v1.ErrExec)", "v1.ErrExec"),
      ("string(v1.ErrBadResponse)", "v1.ErrBadResponse"), ("string(v1.ErrServer)", "v1.ErrServer"),
      ("string(v1.ErrClient)", "v1.ErrClient")] ∧ Gen.Errors.decodeDefault = "ErrUnknown" := by decide

def endpoints : List String := ["Query", "RangeQuery", "Config", "Flags", "Metadata"]

/-- for every endpoint: a loop moves on to the next upstream exactly on unavailability -/
theorem stops_iff (ep : String) (hep : ep ∈ endpoints) (o : Outcome) : stops ep o = !isUnavailable o := by
  simp only [endpoints, List.mem_cons, List.not_mem_nil, or_false] at hep
  have hu : isUnavailable .unsupported = true := by decide
  rcases hep with rfl | rfl | rfl | rfl | rfl
  · rfl
  · rfl
  all_goals
    cases o with
    | unsupported => decide
    | ok a => simp [stops, Gen.Errors.loops, List.lookup]
    | api t => simp [stops, Gen.Errors.loops, List.lookup]
    | transport => simp [stops, Gen.Errors.loops, List.lookup]

/-! ### the loop, for upstream lists of any length -/

/-- a request is answered by the first upstream that is reachable: if all earlier upstreams were
    unavailable and upstream k answered, that answer is returned and nothing after k is contacted -/
theorem answered_by_first_available (ep : String) (hep : ep ∈ endpoints) (pre post : List Outcome) (a : Nat)
    (i : Nat) (last : Option (Outcome × Nat)) (hpre : ∀ o ∈ pre, isUnavailable o = true) :
    failover ep (pre ++ .ok a :: post) i last = ⟨some a, none, i + pre.length + 1⟩ := by
  induction pre generalizing i last with
  | nil => simp [failover]
  | cons o pre ih =>
    have ho := hpre o (by simp)
    have hst : stops ep o = false := by rw [stops_iff ep hep]; simp [ho]
    have hnok : ∀ x, o ≠ .ok x := by intro x hx; subst hx; simp [isUnavailable] at ho
    cases o with
    | ok x => exact absurd rfl (hnok x)
    | api t =>
      simp only [List.cons_append, failover, hst]
      rw [ih (i + 1) _ (fun o' ho' => hpre o' (by simp [ho']))]
      simp only [List.length_cons]
      rw [show i + 1 + pre.length + 1 = i + (pre.length + 1) + 1 by omega]
      simp
    | transport =>
      simp only [List.cons_append, failover, hst]
      rw [ih (i + 1) _ (fun o' ho' => hpre o' (by simp [ho']))]
      simp only [List.length_cons]
      rw [show i + 1 + pre.length + 1 = i + (pre.length + 1) + 1 by omega]
      simp
    | unsupported =>
      simp only [List.cons_append, failover, hst]
      rw [ih (i + 1) _ (fun o' ho' => hpre o' (by simp [ho']))]
      simp only [List.length_cons]
      rw [show i + 1 + pre.length + 1 = i + (pre.length + 1) + 1 by omega]
      simp

/-- an error caused by the query itself (anything that is not unavailability) from upstream k is
    returned as is, carrying k's URI, and no later upstream is contacted -/
theorem query_error_returned_as_is (ep : String) (hep : ep ∈ endpoints) (pre post : List Outcome) (o : Outcome)
    (i : Nat) (last : Option (Outcome × Nat)) (hpre : ∀ x ∈ pre, isUnavailable x = true)
    (ho : isUnavailable o = false) (hnok : ∀ a, o ≠ .ok a) :
    failover ep (pre ++ o :: post) i last = ⟨none, some (o, i + pre.length), i + pre.length + 1⟩ := by
  induction pre generalizing i last with
  | nil =>
    have hst : stops ep o = true := by rw [stops_iff ep hep]; simp [ho]
    cases o with
    | ok a => exact absurd rfl (hnok a)
    | api t => simp [failover, hst]
    | transport => simp [failover, hst]
    | unsupported => simp [failover, hst]
  | cons x pre ih =>
    have hx := hpre x (by simp)
    have hst : stops ep x = false := by rw [stops_iff ep hep]; simp [hx]
    cases x with
    | ok a => simp [isUnavailable] at hx
    | api t =>
      simp only [List.cons_append, failover, hst]
      rw [ih (i + 1) _ (fun o' ho' => hpre o' (by simp [ho']))]
      simp only [List.length_cons]
      rw [show i + 1 + pre.length = i + (pre.length + 1) by omega]
      simp
    | transport =>
      simp only [List.cons_append, failover, hst]
      rw [ih (i + 1) _ (fun o' ho' => hpre o' (by simp [ho']))]
      simp only [List.length_cons]
      rw [show i + 1 + pre.length = i + (pre.length + 1) by omega]
      simp
    | unsupported =>
      simp only [List.cons_append, failover, hst]
      rw [ih (i + 1) _ (fun o' ho' => hpre o' (by simp [ho']))]
      simp only [List.length_cons]
      rw [show i + 1 + pre.length = i + (pre.length + 1) by omega]
      simp

/-- when every upstream is unavailable all of them are contacted, in order, and the error returned is
    the last one's (an unavailability) -/
theorem all_down (ep : String) (hep : ep ∈ endpoints) (os : List Outcome) (i : Nat) (last : Option (Outcome × Nat))
    (h : ∀ o ∈ os, isUnavailable o = true) (hne : os ≠ []) :
    ∃ o, o ∈ os ∧ failover ep os i last = ⟨none, some (o, i + os.length - 1), i + os.length⟩ := by
  induction os generalizing i last with
  | nil => exact absurd rfl hne
  | cons x rest ih =>
    have hx := h x (by simp)
    have hst : stops ep x = false := by rw [stops_iff ep hep]; simp [hx]
    have step : failover ep (x :: rest) i last = failover ep rest (i + 1) (some (x, i)) := by
      cases x with
      | ok a => simp [isUnavailable] at hx
      | api t => simp [failover, hst]
      | transport => simp [failover, hst]
      | unsupported => simp [failover, hst]
    rw [step]
    cases rest with
    | nil => exact ⟨x, by simp, by simp [failover]⟩
    | cons y r =>
      obtain ⟨o, ho, he⟩ := ih (i + 1) (some (x, i)) (fun o' ho' => h o' (by simp [ho'])) (by simp)
      refine ⟨o, by simp [ho], ?_⟩
      rw [he]
      simp only [List.length_cons]
      rw [show i + 1 + (r.length + 1) - 1 = i + (r.length + 1 + 1) - 1 by omega,
        show i + 1 + (r.length + 1) = i + (r.length + 1 + 1) by omega]
      try simp

/-- an outage is a Warning (Bug when the server is `required`), never the check's own severity -/
theorem outage_severity (o : Outcome) (strict : Bool) (own : Sev) (h : isUnavailable o = true) :
    problemSeverity false o strict own = if strict then .bug else .warning := by
  simp [problemSeverity, h]

/-- an error caused by the query keeps the check's own severity -/
theorem query_error_severity (o : Outcome) (strict : Bool) (own : Sev) (h : isUnavailable o = false) :
    problemSeverity false o strict own = own := by
  simp [problemSeverity, h]

/-- non-vacuity: refused, 5xx, then bad_data, then a healthy upstream that must not be reached -/
theorem demo :
    failover "Query" [.transport, .api "v1.ErrServer", .api "v1.ErrBadData", .ok 7] 0 none =
      ⟨none, some (.api "v1.ErrBadData", 2), 3⟩ ∧
    failover "Config" [.unsupported, .transport, .ok 5] 0 none = ⟨some 5, none, 3⟩ := by decide

end Pint.Props.C15
