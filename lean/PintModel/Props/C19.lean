/-
  C19 — relaxed mode finds the same rules as strict mode, wherever they are nested (tree level).
-/
import PintModel.Model.Yaml
set_option linter.unusedSimpArgs false
namespace Pint.Props.C19
open Pint.Yaml

theorem relaxedDocs_eq (l : List Y) : relaxedDocs l = l.flatMap (relaxed none) := by
  induction l with
  | nil => simp [relaxedDocs]
  | cons d rest ih => simp [relaxedDocs, ih]

theorem relaxedFields_eq (l : List (String × Y)) : relaxedFields l = l.flatMap fun f => relaxed (some f.1) f.2 := by
  induction l with
  | nil => simp [relaxedFields]
  | cons f rest ih => obtain ⟨k, v⟩ := f; simp [relaxedFields, ih]

/-! equation lemmas of the mutual walk, stated by hand (all hold by `rfl`) -/
theorem lastRules_nil : lastRules [] = none := by rfl
theorem lastRules_cons_seq (k : String) (i : Nat) (items : List Y) (rest : List (String × Y)) :
    lastRules ((k, .seq i items) :: rest) = (lastRules rest).or (if k = "rules" then some (keptOf items ++ nestedOf items) else none) := by rfl
theorem lastRules_cons_scalar (k : String) (i : Nat) (x : String) (rest : List (String × Y)) :
    lastRules ((k, .scalar i x) :: rest) = (lastRules rest).or none := by
  have : lastRules ((k, .scalar i x) :: rest) = (lastRules rest).or (if k = "rules" then none else none) := by rfl
  rw [this]; split <;> rfl
theorem lastRules_cons_map (k : String) (i : Nat) (r : Bool) (fs : List (String × Y)) (rest : List (String × Y)) :
    lastRules ((k, .map i r fs) :: rest) = (lastRules rest).or none := by
  have : lastRules ((k, .map i r fs) :: rest) = (lastRules rest).or (if k = "rules" then none else none) := by rfl
  rw [this]; split <;> rfl
theorem lastRules_cons_doc (k : String) (cs : List Y) (rest : List (String × Y)) :
    lastRules ((k, .doc cs) :: rest) = (lastRules rest).or none := by
  have : lastRules ((k, .doc cs) :: rest) = (lastRules rest).or (if k = "rules" then none else none) := by rfl
  rw [this]; split <;> rfl
theorem relaxedGroups_nil : relaxedGroups [] = [] := by rfl
theorem relaxedGroups_cons_map (i : Nat) (r : Bool) (fields : List (String × Y)) (rest : List Y) :
    relaxedGroups (.map i r fields :: rest) = (if groupName fields ≠ "" then (lastRules fields).getD [] else []) ++ relaxedGroups rest := by rfl
theorem relaxedGroups_cons_scalar (i : Nat) (x : String) (rest : List Y) : relaxedGroups (.scalar i x :: rest) = relaxedGroups rest := by rfl
theorem relaxedGroups_cons_seq (i : Nat) (xs : List Y) (rest : List Y) : relaxedGroups (.seq i xs :: rest) = relaxedGroups rest := by rfl
theorem relaxedGroups_cons_doc (xs : List Y) (rest : List Y) : relaxedGroups (.doc xs :: rest) = relaxedGroups rest := by rfl
theorem nestedOf_nil : nestedOf [] = [] := by rfl
theorem nestedOf_cons (x : Y) (rest : List Y) : nestedOf (x :: rest) = (if x.keeps then [] else relaxed none x) ++ nestedOf rest := by rfl

/-- the structurally recursive helper of the model is "the last `rules` key that holds a sequence" -/
theorem lastRules_spec (fields : List (String × Y)) : lastRules fields = (groupRulesSeq fields).map relaxedSeq := by
  induction fields with
  | nil => simp [lastRules_nil, groupRulesSeq]
  | cons f rest ih =>
    obtain ⟨k, v⟩ := f
    have hrev : groupRulesSeq ((k, v) :: rest) =
        (groupRulesSeq rest).or (if k = "rules" then seqItems? v else none) := by
      unfold groupRulesSeq
      simp only [List.reverse_cons, List.findSome?_append, List.findSome?_cons, List.findSome?_nil]
      cases (if k = "rules" then seqItems? v else none) <;> simp
    rw [hrev]
    cases v with
    | seq i items =>
      rw [lastRules_cons_seq, ih]
      cases groupRulesSeq rest with
      | some r => simp
      | none => by_cases hk : k = "rules" <;> simp [hk, seqItems?, relaxedSeq]
    | scalar i x =>
      rw [lastRules_cons_scalar, ih]
      cases groupRulesSeq rest <;> by_cases hk : k = "rules" <;> simp [hk, seqItems?]
    | map i r fs =>
      rw [lastRules_cons_map, ih]
      cases groupRulesSeq rest <;> by_cases hk : k = "rules" <;> simp [hk, seqItems?]
    | doc cs =>
      rw [lastRules_cons_doc, ih]
      cases groupRulesSeq rest <;> by_cases hk : k = "rules" <;> simp [hk, seqItems?]

theorem relaxedGroups_eq (l : List Y) : relaxedGroups l = l.flatMap groupContribution := by
  induction l with
  | nil => simp [relaxedGroups_nil]
  | cons g rest ih =>
    cases g with
    | map i r fields =>
      rw [relaxedGroups_cons_map, ih, List.flatMap_cons]
      congr 1
      simp only [groupContribution, groupRules, lastRules_spec]
      by_cases hn : groupName fields = ""
      · simp [hn]
      · simp only [ne_eq, hn, not_false_eq_true, if_true]
        cases groupRulesSeq fields <;> simp
    | scalar _ _ => rw [relaxedGroups_cons_scalar, ih]; simp [groupContribution]
    | seq _ _ => rw [relaxedGroups_cons_seq, ih]; simp [groupContribution]
    | doc _ => rw [relaxedGroups_cons_doc, ih]; simp [groupContribution]

theorem nestedOf_all_keep (items : List Y) (h : ∀ x ∈ items, x.keeps = true) : nestedOf items = [] := by
  induction items with
  | nil => exact nestedOf_nil
  | cons x rest ih =>
    rw [nestedOf_cons]
    simp only [h x (List.mem_cons_self ..), if_true, List.nil_append]
    exact ih (fun y hy => h y (List.mem_cons_of_mem _ hy))

theorem relaxedSeq_all_keep (items : List Y) (h : ∀ x ∈ items, x.keeps = true) : relaxedSeq items = items := by
  simp only [relaxedSeq, keptOf, nestedOf_all_keep items h, List.append_nil]
  exact List.filter_eq_self.2 h

theorem flatMap_congr_mem {α β} (l : List α) (f g : α → List β) (h : ∀ x ∈ l, f x = g x) : l.flatMap f = l.flatMap g := by
  induction l with
  | nil => rfl
  | cons x rest ih =>
    simp only [List.flatMap_cons]
    rw [h x (by simp), ih (fun y hy => h y (by simp [hy]))]

/-- decomposition of a field list around its unique occurrence of a key -/
theorem split_unique (fields : List (String × Y)) (k : String) (hn : (fields.map (·.1)).Nodup)
    (hk : k ∈ fields.map (·.1)) :
    ∃ pre v post, fields = pre ++ (k, v) :: post ∧ (∀ f ∈ pre, f.1 ≠ k) ∧ (∀ f ∈ post, f.1 ≠ k) := by
  obtain ⟨f, hf, hfk⟩ := List.mem_map.1 hk
  obtain ⟨pre, post, hsplit⟩ := List.append_of_mem hf
  obtain ⟨fk, v⟩ := f
  simp only at hfk
  subst hfk
  refine ⟨pre, v, post, hsplit, ?_, ?_⟩
  · intro g hg hgk
    rw [hsplit, List.map_append, List.nodup_append] at hn
    have := hn.2.2 g.1 (List.mem_map.2 ⟨g, hg, rfl⟩) fk (by simp)
    exact this hgk
  · intro g hg hgk
    rw [hsplit, List.map_append, List.map_cons, List.nodup_append] at hn
    have h2 := hn.2.1
    rw [List.nodup_cons] at h2
    apply h2.1
    rw [← hgk]
    exact List.mem_map.2 ⟨g, hg, rfl⟩

theorem find_none_of_no_key (l : List (String × Y)) (k : String) (h : ∀ f ∈ l, f.1 ≠ k) :
    l.find? (fun f => f.1 = k) = none := by
  rw [List.find?_eq_none]
  intro f hf
  simpa using h f hf

theorem findSome_none_of_no_key (l : List (String × Y)) (k : String) (g : Y → Option (List Y)) (h : ∀ f ∈ l, f.1 ≠ k) :
    l.findSome? (fun f => if f.1 = k then g f.2 else none) = none := by
  rw [List.findSome?_eq_none_iff]
  intro f hf
  simp [h f hf]

theorem flatMap_nil_of_no_key (l : List (String × Y)) (k : String) (g : Y → List Y) (h : ∀ f ∈ l, f.1 ≠ k) :
    (l.flatMap fun f => if f.1 = k then g f.2 else []) = [] := by
  rw [List.flatMap_eq_nil_iff]
  intro f hf
  simp [h f hf]

/-- one strict-valid group: the relaxed walk keeps exactly the rule nodes the strict walk parses -/
theorem group_eq (g : Y) (h : groupOK g = true) : groupContribution g = (match g with | .map _ _ gf => strictGroupRules gf | _ => []) := by
  cases g with
  | scalar _ _ => simp [groupOK] at h
  | seq _ _ => simp [groupOK] at h
  | doc _ => simp [groupOK] at h
  | map i r fields =>
    simp only [groupOK, Bool.and_eq_true, List.all_eq_true, decide_eq_true_eq] at h
    obtain ⟨⟨⟨⟨_, hnodup⟩, hrules⟩, hname⟩, hnames⟩ := h
    simp only [groupContribution, strictGroupRules]
    by_cases hr : "rules" ∈ fields.map (·.1)
    · obtain ⟨pre, v, post, hsplit, hpre, hpost⟩ := split_unique fields "rules" hnodup hr
      -- the value of the unique rules field
      have hv := hrules ("rules", v) (by rw [hsplit]; simp)
      simp only [if_true] at hv
      -- a non-empty name exists
      have hcont : (fields.map (·.1)).contains "rules" = true := by simpa using hr
      simp only [hcont, if_true, List.any_eq_true, Bool.and_eq_true, decide_eq_true_eq] at hname
      obtain ⟨nf, hnf, hnk, hnv⟩ := hname
      have hnm : "name" ∈ fields.map (·.1) := List.mem_map.2 ⟨nf, hnf, hnk⟩
      obtain ⟨npre, nv, npost, hnsplit, hnpre, hnpost⟩ := split_unique fields "name" hnodup hnm
      have hnv' := hnames ("name", nv) (by rw [hnsplit]; simp)
      simp only [if_true] at hnv'
      have hname_eval : groupName fields ≠ "" := by
        unfold groupName
        rw [hnsplit]
        simp only [List.reverse_append, List.reverse_cons, List.append_assoc, List.cons_append, List.nil_append]
        rw [List.find?_append, find_none_of_no_key npost.reverse "name" (by intro f hf; exact hnpost f (List.mem_reverse.1 hf))]
        simp only [Option.none_or, List.find?_cons, decide_true]
        cases nv with
        | scalar _ val => simpa using hnv'
        | seq _ _ => simp at hnv'
        | map _ _ _ => simp at hnv'
        | doc _ => simp at hnv'
      simp only [groupRules, hname_eval, ne_eq, not_false_eq_true, if_true, groupRulesSeq]
      rw [hsplit]
      simp only [List.reverse_append, List.reverse_cons, List.append_assoc, List.cons_append, List.nil_append,
        List.flatMap_append, List.flatMap_cons]
      rw [List.findSome?_append, findSome_none_of_no_key post.reverse "rules" seqItems? (by intro f hf; exact hpost f (List.mem_reverse.1 hf))]
      rw [flatMap_nil_of_no_key pre "rules" seqItems hpre, flatMap_nil_of_no_key post "rules" seqItems hpost]
      simp only [Option.none_or, List.findSome?_cons, if_true, List.nil_append, List.append_nil]
      cases v with
      | scalar _ val =>
        rw [findSome_none_of_no_key pre.reverse "rules" seqItems? (by intro f hf; exact hpre f (List.mem_reverse.1 hf))]
        simp [seqItems?, seqItems]
      | seq _ items =>
        simp only [List.all_eq_true] at hv
        simp only [seqItems?, seqItems]
        exact relaxedSeq_all_keep items (fun x hx => hv x hx)
      | map _ _ _ => simp at hv
      | doc _ => simp at hv
    · -- no rules key at all: neither walk finds anything
      have hno : ∀ f ∈ fields, f.1 ≠ "rules" := fun f hf hk => hr (List.mem_map.2 ⟨f, hf, hk⟩)
      rw [flatMap_nil_of_no_key fields "rules" seqItems hno]
      have : (fields.reverse.findSome? fun f => if f.1 = "rules" then seqItems? f.2 else none) = none :=
        findSome_none_of_no_key fields.reverse "rules" seqItems? (by intro f hf; exact hno f (List.mem_reverse.1 hf))
      have hnone : groupRules fields = none := by
        unfold groupRules groupRulesSeq
        rw [this]
        split <;> rfl
      rw [hnone]

/-- C19 (first clause): for a file the strict walk accepts, the relaxed walk hands exactly the same
    rule nodes, in the same order, to the same parseRule — hence the same names, expressions, line
    ranges and positions. Any number of documents, groups and rules. -/
theorem relaxed_eq_strict (t : Y) (h : strictOK t = true) : relaxed none t = strictRules t := by
  cases t with
  | scalar _ _ => simp [strictOK] at h
  | seq _ _ => simp [strictOK] at h
  | map _ _ _ => simp [strictOK] at h
  | doc children =>
    simp only [strictOK, List.all_eq_true] at h
    simp only [relaxed, relaxedDocs_eq, strictRules]
    apply flatMap_congr_mem
    intro c hc
    have hcok := h c hc
    cases c with
    | scalar _ _ => simp at hcok
    | seq _ _ => simp at hcok
    | doc _ => simp at hcok
    | map i r fields =>
      simp only [List.all_eq_true, Bool.and_eq_true, decide_eq_true_eq] at hcok
      simp only [relaxed, relaxedFields_eq]
      apply flatMap_congr_mem
      intro f hf
      obtain ⟨hk, hv⟩ := hcok f hf
      obtain ⟨k, v⟩ := f
      simp only at hk hv
      subst hk
      cases v with
      | scalar _ _ => simp at hv
      | map _ _ _ => simp at hv
      | doc _ => simp at hv
      | seq j groups =>
        simp only [List.all_eq_true] at hv
        simp only [relaxed, if_true, relaxedGroups_eq]
        apply flatMap_congr_mem
        intro g hg
        rw [group_eq g (hv g hg)]
        cases g <;> rfl

/-! ### wrapping -/

/-- a wrapper around a hole: parent keys at any depth, sibling keys, sibling documents -/
inductive Ctx where
  | hole (key : String)                                           -- the rule list sits directly under `key`
  | field (id : Nat) (pre : List (String × Y)) (key : String) (inner : Ctx) (post : List (String × Y))
  deriving Repr

/-- plug a rule list into a context, giving a mapping value chain -/
def Ctx.fill : Ctx → Y → Y
  | .hole _, t => t
  | .field i pre k inner post, t => .map i false (pre ++ (k, inner.fill t) :: post)

def Ctx.key : Ctx → String
  | .hole k => k
  | .field _ _ k _ _ => k

/-- every sibling on the path contributes no rules and no key on the path is the reserved `groups` -/
def Ctx.Quiet : Ctx → Prop
  | .hole k => k ≠ "groups"
  | .field _ pre k inner post =>
    k ≠ "groups" ∧ inner.Quiet ∧ (∀ f ∈ pre, relaxed (some f.1) f.2 = []) ∧ (∀ f ∈ post, relaxed (some f.1) f.2 = [])

theorem relaxed_seq_any_key (k : String) (hk : k ≠ "groups") (i : Nat) (items : List Y) :
    relaxed (some k) (.seq i items) = relaxedSeq items := by
  simp [relaxed, hk, relaxedSeq]

/-- C19 (second clause, tree level): wrapping a list of rules under parent keys at any depth (none of
    them `groups`) with siblings that hold no rules yields exactly the rule nodes of the bare list -/
theorem relaxed_wrap_invariant (c : Ctx) (hq : c.Quiet) (i : Nat) (items : List Y) (pk : String) :
    relaxed (some pk) (c.fill (.seq i items)) =
      (match c with | .hole _ => relaxed (some pk) (.seq i items) | _ => relaxedSeq items) := by
  induction c generalizing pk with
  | hole k => rfl
  | field j pre k inner post ih =>
    obtain ⟨hk, hin, hpre, hpost⟩ := hq
    simp only [Ctx.fill, relaxed, relaxedFields_eq, List.flatMap_append, List.flatMap_cons]
    have e1 : (pre.flatMap fun f => relaxed (some f.1) f.2) = [] := by
      rw [List.flatMap_eq_nil_iff]; exact hpre
    have e2 : (post.flatMap fun f => relaxed (some f.1) f.2) = [] := by
      rw [List.flatMap_eq_nil_iff]; exact hpost
    rw [e1, e2]
    simp only [List.nil_append, List.append_nil]
    have := ih hin k
    rw [this]
    cases inner with
    | hole k' => exact relaxed_seq_any_key k hk i items
    | field _ _ _ _ _ => rfl

/-- the whole file: extra documents that contain no rules do not matter either -/
theorem relaxed_docs_invariant (before after : List Y) (d : Y)
    (hb : ∀ x ∈ before, relaxed none x = []) (ha : ∀ x ∈ after, relaxed none x = []) :
    relaxed none (.doc (before ++ d :: after)) = relaxed none d := by
  simp only [relaxed, relaxedDocs_eq, List.flatMap_append, List.flatMap_cons]
  have e1 : before.flatMap (relaxed none) = [] := by rw [List.flatMap_eq_nil_iff]; exact hb
  have e2 : after.flatMap (relaxed none) = [] := by rw [List.flatMap_eq_nil_iff]; exact ha
  simp [e1, e2]

/-- non-vacuity: a strict-valid document with two groups (one without rules) -/
def demoDoc : Y := .doc [.map 1 false [("groups", .seq 2 [
  .map 3 false [("name", .scalar 4 "g1"), ("rules", .seq 5 [.map 6 true [], .map 7 true []])],
  .map 8 false [("name", .scalar 9 "g2"), ("interval", .scalar 10 "1m")]])]]

theorem demo : strictOK demoDoc = true ∧ (relaxed none demoDoc).map Y.id = [6, 7] := by decide

end Pint.Props.C19
