/-
  C20 — removing a rule that other rules depend on is reported, and only then.
-/
import PintModel.Model.Dependency
import PintModel.Gen.Checks
set_option linter.unusedSimpArgs false
namespace Pint.Props.C20
open Pint.Dependency

/-- a remaining (not removed, error free) rule that selects what `r` produced -/
def Dependant (r : DEntry) (entries : List DEntry) (e : DEntry) : Prop :=
  e ∈ entries ∧ e.removed = false ∧ e.hasError = false ∧ uses r e = true

/-- a remaining rule of the same kind and name replaces `r` -/
def Replaced (r : DEntry) (entries : List DEntry) : Prop :=
  ∃ e ∈ entries, e.removed = false ∧ e.hasError = false ∧ e.kind = r.kind ∧ e.name = r.name

theorem mem_nonRemoved (es : List DEntry) (e : DEntry) :
    e ∈ nonRemoved es ↔ e ∈ es ∧ e.removed = false ∧ e.hasError = false := by
  simp [nonRemoved, List.mem_filter]

theorem mem_dedupKeys (l acc : List DKey) (k : DKey) : k ∈ dedupKeys l acc ↔ k ∈ acc ∨ k ∈ l := by
  induction l generalizing acc with
  | nil => simp [dedupKeys]
  | cons x rest ih =>
    simp only [dedupKeys]
    split
    · rename_i h
      rw [ih]
      have hx : x ∈ acc := by simpa using h
      constructor
      · rintro (h1 | h1); exact Or.inl h1; exact Or.inr (List.mem_cons_of_mem _ h1)
      · rintro (h1 | h1)
        · exact Or.inl h1
        · cases List.mem_cons.1 h1 with
          | inl e => subst e; exact Or.inl hx
          | inr e => exact Or.inr e
    · rw [ih]
      simp [List.mem_append, or_assoc]

theorem nodup_dedupKeys (l acc : List DKey) (h : acc.Nodup) : (dedupKeys l acc).Nodup := by
  induction l generalizing acc with
  | nil => simpa [dedupKeys]
  | cons x rest ih =>
    simp only [dedupKeys]
    split
    · exact ih acc h
    · rename_i hx
      apply ih
      rw [List.nodup_append]
      refine ⟨h, by simp, ?_⟩
      intro a ha b hb
      simp only [List.mem_singleton] at hb
      subst hb
      intro e; subst e
      exact hx (by simpa using ha)

theorem mem_insertKey (k x : DKey) (l : List DKey) : x ∈ insertKey k l ↔ x = k ∨ x ∈ l := by
  induction l with
  | nil => simp [insertKey]
  | cons y rest ih =>
    simp only [insertKey]
    split
    · simp
    · simp only [List.mem_cons, ih]
      constructor
      · rintro (h | h | h); exact Or.inr (Or.inl h); exact Or.inl h; exact Or.inr (Or.inr h)
      · rintro (h | h | h); exact Or.inr (Or.inl h); exact Or.inl h; exact Or.inr (Or.inr h)

theorem mem_sortKeys (l : List DKey) (x : DKey) : x ∈ sortKeys l ↔ x ∈ l := by
  induction l with
  | nil => simp [sortKeys]
  | cons k rest ih =>
    simp only [sortKeys, List.foldr_cons] at ih ⊢
    rw [mem_insertKey, ih]
    simp

theorem length_insertKey (k : DKey) (l : List DKey) : (insertKey k l).length = l.length + 1 := by
  induction l with
  | nil => rfl
  | cons y rest ih => simp only [insertKey]; split <;> simp [ih]

theorem length_sortKeys (l : List DKey) : (sortKeys l).length = l.length := by
  induction l with
  | nil => rfl
  | cons k rest ih => simp only [sortKeys, List.foldr_cons] at ih ⊢; rw [length_insertKey, ih]; rfl

/-- C20, decision: a rule/dependency problem is reported on a removed rule iff it is not a symlink,
    no remaining rule of the same kind and name replaces it, and some remaining error-free rule still
    selects the metric (or ALERTS{alertname="…"}) it produced — for every set of entries -/
theorem C20_statement (r : DEntry) (entries : List DEntry) :
    (check r entries).isSome = true ↔
      r.isSymlink = false ∧ ¬ Replaced r entries ∧ ∃ e, Dependant r entries e := by
  unfold check
  by_cases hs : r.isSymlink = true
  · simp [hs]
  · have hs' : r.isSymlink = false := by simpa using hs
    simp only [hs', Bool.false_eq_true, if_false, true_and]
    by_cases hrep : ((nonRemoved entries).any fun e => e.kind = r.kind && e.name = r.name) = true
    · have : Replaced r entries := by
        obtain ⟨e, he, hk⟩ := List.any_eq_true.1 hrep
        rw [mem_nonRemoved] at he
        simp only [Bool.and_eq_true, decide_eq_true_eq] at hk
        exact ⟨e, he.1, he.2.1, he.2.2, hk.1, hk.2⟩
      simp [hrep, this]
    · have hnr : ¬ Replaced r entries := by
        rintro ⟨e, he, h1, h2, h3, h4⟩
        apply hrep
        exact List.any_eq_true.2 ⟨e, (mem_nonRemoved _ _).2 ⟨he, h1, h2⟩, by simp [h3, h4]⟩
      simp only [hrep, Bool.false_eq_true, if_false, hnr, not_false_eq_true, true_and]
      constructor
      · intro h
        split at h
        · cases h
        · rename_i hne
          have : broken r entries ≠ [] := by
            simpa [List.isEmpty_iff] using hne
          obtain ⟨k, hk⟩ := List.exists_mem_of_ne_nil _ this
          unfold broken at hk
          rw [mem_dedupKeys] at hk
          simp only [List.not_mem_nil, false_or, List.mem_map, List.mem_filter] at hk
          obtain ⟨e, ⟨he, hu⟩, _⟩ := hk
          rw [mem_nonRemoved] at he
          exact ⟨e, he.1, he.2.1, he.2.2, hu⟩
      · rintro ⟨e, he, h1, h2, hu⟩
        have hk : keyOf e ∈ broken r entries := by
          unfold broken
          rw [mem_dedupKeys]
          right
          exact List.mem_map.2 ⟨e, List.mem_filter.2 ⟨(mem_nonRemoved _ _).2 ⟨he, h1, h2⟩, hu⟩, rfl⟩
        have hne : (broken r entries).isEmpty = false := by
          cases hd : broken r entries with
          | nil => rw [hd] at hk; cases hk
          | cons _ _ => rfl
        simp [hne]

/-- C20, the list: it names exactly the dependent rules (by path, line of the expression, name),
    each once -/
theorem details_exactly_dependents (r : DEntry) (entries : List DEntry) (ks : List DKey)
    (h : check r entries = some ks) :
    (∀ k, k ∈ ks ↔ ∃ e, Dependant r entries e ∧ keyOf e = k) ∧ ks.length = (broken r entries).length := by
  unfold check at h
  split at h
  · cases h
  · split at h
    · cases h
    · split at h
      · cases h
      · simp only [Option.some.injEq] at h
        subst h
        refine ⟨?_, length_sortKeys _⟩
        intro k
        unfold broken
        rw [mem_sortKeys, mem_dedupKeys]
        simp only [List.not_mem_nil, false_or, List.mem_map, List.mem_filter, mem_nonRemoved]
        constructor
        · rintro ⟨e, ⟨⟨he, h1, h2⟩, hu⟩, hk⟩; exact ⟨e, ⟨he, h1, h2, hu⟩, hk⟩
        · rintro ⟨e, ⟨he, h1, h2, hu⟩, hk⟩; exact ⟨e, ⟨⟨he, h1, h2⟩, hu⟩, hk⟩

/-- each dependant is listed once: the list before sorting has no duplicates and sorting keeps its length -/
theorem details_no_duplicates (r : DEntry) (entries : List DEntry) :
    (broken r entries).Nodup := by
  unfold broken
  exact nodup_dedupKeys _ [] (by simp)

/-- the check is dispatched on an entry iff its state is `removed` (regenerated registration facts) -/
theorem only_removed_dispatched :
    (Gen.Checks.kinds.find? (·.typ = "RuleDependencyCheck")).map (·.states) = some ["Removed"] ∧
    (Gen.Checks.registrations.filter (·.typ = "RuleDependencyCheck")).map (·.site) = ["baseRules"] ∧
    ∀ k ∈ Gen.Checks.kinds, k.typ ≠ "RuleDependencyCheck" → k.typ ≠ "ErrorCheck" → "Removed" ∉ k.states := by
  decide

/-- non-vacuity: a removed recording rule used by two remaining rules, one of them twice in one file -/
theorem demo :
    let r : DEntry := ⟨0, false, .recording, "job:up:sum", 0, true, false, false, 3, [⟨"up", [], []⟩]⟩
    let a : DEntry := ⟨1, false, .alerting, "Down", 1, false, false, false, 7, [⟨"job:up:sum", [], []⟩]⟩
    let b : DEntry := ⟨0, false, .recording, "x", 2, false, false, false, 9, [⟨"foo", [], []⟩, ⟨"", [], ["job:up:sum"]⟩]⟩
    let c : DEntry := ⟨0, false, .recording, "y", 3, true, false, false, 12, [⟨"job:up:sum", [], []⟩]⟩
    check r [r, a, b, c] = some [(0, 9, 2), (1, 7, 1)] := by
  decide

end Pint.Props.C20
