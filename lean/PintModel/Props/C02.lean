/-
  C02 — linting any input terminates with a renderable verdict, never a crash.
  What is PROVED here concerns the modelled index sites and decisions:
    * every YAML node gets at least one position and scanned positions lie inside the file (Props/C06);
    * a parsed rule is a valid alerting/recording rule xor carries an error — never the "empty" rule
      that crashed the checks (strict mode), and the relaxed walker drops exactly the empty ones;
    * entries with errors are routed to the error check only (regenerated source fact);
    * the console reporter's line loop never indexes outside the file.
  Everything else (yaml.v3, every check body, the other reporters) is covered by the crash/hang search.
-/
import PintModel.Model.RuleShape
import PintModel.Props.C06
import PintModel.Gen.Guards
import PintModel.Model.Inject
set_option linter.unusedSimpArgs false
namespace Pint.Props.C02
open Pint.RuleShape

/-- regenerated source facts the argument rests on -/
theorem source_guards :
    Gen.Guards.errorRouteCond = "entry.PathError != nil || entry.Rule.Error.Err != nil" ∧
    Gen.Guards.errorRouteChecks = "checks.NewErrorCheck" ∧
    Gen.Guards.strictHandlesEmpty = true ∧ Gen.Guards.nprHasFallback = true ∧
    Gen.Guards.consoleLineGuard = "i < 1 || i > len(lines) => continue" := by decide

/-- strict mode: every rule handed to the checks is a valid rule or carries an error, for every
    combination of present keys and failed validations (256k combinations, decided exhaustively by
    case analysis, not sampled) -/
theorem strict_rule_valid_xor_error (f : Flags) :
    parseRuleStrict Gen.Guards.strictHandlesEmpty f ≠ .empty := by
  have h : Gen.Guards.strictHandlesEmpty = true := by decide
  rw [h]
  unfold parseRuleStrict
  split
  · simp
  · split <;> simp_all

/-- the rule outcome is `empty` exactly when there is neither record nor alert nor any error: the
    relaxed walker drops only mappings that are not rules at all -/
theorem empty_iff (f : Flags) :
    parseRule f = .empty ↔ anyError f = false ∧ f.record = false ∧ f.alert = false ∧ f.expr = false := by
  unfold parseRule
  cases he : anyError f with
  | true => simp
  | false =>
    simp only [Bool.false_eq_true, if_false, true_and]
    simp only [anyError, Bool.or_eq_false_iff, Bool.and_eq_false_iff, Bool.not_eq_false'] at he
    cases hr : f.record <;> cases ha : f.alert <;> cases hx : f.expr <;> simp_all

/-- a recording / alerting outcome really has its name and a non-empty expression -/
theorem valid_has_name_and_expr (f : Flags) (h : parseRule f = .recording ∨ parseRule f = .alerting) :
    f.expr = true ∧ f.exprEmpty = false ∧ f.nameEmpty = false ∧ (f.record = true ∨ f.alert = true) := by
  unfold parseRule at h
  cases he : anyError f with
  | true => simp [he] at h
  | false =>
    simp only [he, Bool.false_eq_true, if_false] at h
    simp only [anyError, Bool.or_eq_false_iff, Bool.and_eq_false_iff, Bool.not_eq_false'] at he
    cases hr : f.record <;> cases ha : f.alert <;> cases hx : f.expr <;> cases hn : f.nameEmpty <;> cases hxe : f.exprEmpty <;> simp_all

/-- the console reporter's line loop only touches lines that exist, for every problem range -/
theorem console_lines_in_file (first last nlines : Nat) : ∀ i ∈ consoleLines first last nlines, 1 ≤ i ∧ i ≤ nlines := by
  intro i hi
  simp only [consoleLines, List.mem_filterMap, List.mem_range] at hi
  obtain ⟨k, _, hk⟩ := hi
  split at hk
  · cases hk
  · simp only [Option.some.injEq] at hk
    subst hk
    omega

/-- and it prints every line of the range that does exist (nothing is lost by the guard) -/
theorem console_lines_complete (first last nlines i : Nat) (h1 : first ≤ i) (h2 : i ≤ last) (h3 : 1 ≤ i) (h4 : i ≤ nlines) :
    i ∈ consoleLines first last nlines := by
  simp only [consoleLines, List.mem_filterMap, List.mem_range]
  refine ⟨i - first, by omega, ?_⟩
  have : first + (i - first) = i := by omega
  simp only [this]
  split
  · omega
  · rfl

/-- re-export: a node always has a position (what InjectDiagnostics' `slices.Max` needs) -/
theorem node_has_position (lines : List (List Nat)) (value : List Nat) (vLine vCol minCol : Nat) :
    Pint.Position.newPositionRange lines value vLine vCol minCol ≠ [] :=
  Pint.Props.C06.npr_nonempty lines value vLine vCol minCol

/-- non-vacuity: `- {}` and `- labels: {...}` in strict mode are errors, a plain rule is a rule -/
theorem demo :
    parseRuleStrict true ⟨false, false, false, false, false, false, false, false, false, false, false, false, false, false, false⟩ = .error ∧
    parseRuleStrict true ⟨false, false, false, false, false, false, true, false, false, false, false, false, false, false, false⟩ = .error ∧
    parseRuleStrict true ⟨false, true, false, true, false, false, true, false, false, false, false, false, false, false, false⟩ = .recording := by
  decide

/-! ## `InjectDiagnostics` (console, GitHub / GitLab / Bitbucket comments): the one panic site and where messages go -/
section inject
open Pint.Position Pint.Inject Pint.Props.C06

/-- `InjectDiagnostics` panics (in `slices.Max`) exactly when no diagnostic has any position -/
theorem inject_panics_iff (n : Nat) (ds : List Diag) : inject n ds = none ↔ ∀ d ∈ ds, d.pos = [] := by
  unfold inject
  constructor
  · intro h
    cases hm : (allLines ds).max? with
    | some last => simp [hm] at h
    | none =>
      have hnil : allLines ds = [] := List.max?_eq_none_iff.mp hm
      intro d hd
      cases hp : d.pos with
      | nil => rfl
      | cons p ps =>
        have : p.line ∈ allLines ds := by
          simp only [allLines, List.mem_flatMap, List.mem_map]
          exact ⟨d, hd, p, by simp [hp], rfl⟩
        rw [hnil] at this; simp at this
  · intro h
    have hnil : allLines ds = [] := by
      simp only [allLines, List.flatMap_eq_nil_iff, List.map_eq_nil_iff]
      exact h
    simp [hnil]

/-- every diagnostic pint builds takes its positions from `NewPositionRange`, which never returns none
(`node_has_position`): one such diagnostic is enough for the reporter not to panic -/
theorem inject_total (n : Nat) (ds : List Diag) (d : Diag) (hd : d ∈ ds) (hp : d.pos ≠ []) : inject n ds ≠ none := by
  intro h
  exact hp ((inject_panics_iff n ds).mp h d hd)

theorem inject_total_npr (n : Nat) (ds : List Diag) (d : Diag) (hd : d ∈ ds)
    (lines : List (List Nat)) (value : List Nat) (vLine vCol minCol : Nat)
    (hpos : d.pos = newPositionRange lines value vLine vCol minCol) : inject n ds ≠ none :=
  inject_total n ds d hd (by rw [hpos]; exact node_has_position lines value vLine vCol minCol)

theorem cells_length (prs : List PR) : (cells prs).length = posLen prs := by
  induction prs with
  | nil => simp [cells, posLen]
  | cons p ps ih =>
    have : cells (p :: ps) = cells [p] ++ cells ps := by
      have := cells_append [p] ps
      simpa using this
    rw [this, List.length_append, ih]
    simp [cells, posLen]

theorem cells_line_mem {prs : List PR} {c : Nat × Nat} (h : c ∈ cells prs) : ∃ q ∈ prs, q.line = c.1 := by
  simp only [cells, List.mem_flatMap, List.mem_map] at h
  obtain ⟨q, hq, k, _, rfl⟩ := h
  exact ⟨q, hq, rfl⟩

theorem first_cell_mem {prs : List PR} {p : PR} (hp : p ∈ prs) (hw : p.first ≤ p.last) : (p.line, p.first) ∈ cells prs := by
  simp only [cells, List.mem_flatMap, List.mem_map, List.mem_range]
  exact ⟨p, hp, 0, by omega, by simp⟩

theorem foldl_max_mem (ps : List PR) (m : Nat) :
    ps.foldl (fun m q => max m q.line) m = m ∨ ∃ q ∈ ps, ps.foldl (fun m q => max m q.line) m = q.line := by
  induction ps generalizing m with
  | nil => simp
  | cons p ps ih =>
    simp only [List.foldl_cons]
    rcases ih (max m p.line) with h | ⟨q, hq, h⟩
    · rw [h]
      by_cases hm : p.line ≤ m
      · left; omega
      · right; exact ⟨p, by simp, by omega⟩
    · right; exact ⟨q, by simp [hq], h⟩

/-- `Lines().Last` of a non-empty list of positions is the line of one of them -/
theorem linesLast_mem {prs : List PR} (h : prs ≠ []) : ∃ q ∈ prs, linesLast prs = q.line := by
  cases prs with
  | nil => exact absurd rfl h
  | cons p ps =>
    simp only [linesLast]
    rcases foldl_max_mem ps p.line with h1 | ⟨q, hq, h1⟩
    · exact ⟨p, by simp, h1⟩
    · exact ⟨q, by simp [hq], h1⟩

theorem compress_WF (cs : List (Nat × Nat)) : WF (compress cs) := by
  have := (cells_foldl_appendPos cs [] (by intro p hp; simp at hp)).2
  intro p hp
  exact this p (by simpa [compress] using hp)

/-- the columns a diagnostic asks for are clamped into the value: never an empty selection when the value has
positions (fix 9ada206: a diagnostic about `for: ""` used to lose its message) -/
theorem diagPositions_nonempty (d : Diag) (hlen : 1 ≤ posLen d.pos) : diagPositions d ≠ [] := by
  intro h
  have hc := readRange_cells (clampFirst d) (clampLast d) d.pos
  unfold diagPositions at h
  rw [h] at hc
  have hl : (((cells d.pos).drop (clampFirst d - 1)).take (clampLast d - (clampFirst d - 1))).length = 0 := by
    rw [← hc]; simp [cells]
  simp only [List.length_take, List.length_drop, cells_length] at hl
  unfold clampLast clampFirst at hl
  omega

/-- the line a diagnostic's message is written under is a line of the diagnostic's own positions -/
theorem message_line_is_own_line (d : Diag) (hlen : 1 ≤ posLen d.pos) :
    ∃ q ∈ d.pos, linesLast (diagPositions d) = q.line := by
  obtain ⟨p, hp, hl⟩ := linesLast_mem (diagPositions_nonempty d hlen)
  have hw : p.first ≤ p.last := compress_WF _ p (by simpa [diagPositions, readRange] using hp)
  have hcell := first_cell_mem hp hw
  unfold diagPositions at hcell
  rw [readRange_cells] at hcell
  have hcell' : (p.line, p.first) ∈ cells d.pos := List.mem_of_mem_drop (List.mem_of_mem_take hcell)
  obtain ⟨q, hq, hql⟩ := cells_line_mem hcell'
  exact ⟨q, hq, by rw [hl]; exact hql.symm⟩

/-- **every diagnostic's message is written**: a diagnostic with at least one well-formed position, all of whose lines
exist in the file, has its message under one of the lines `InjectDiagnostics` writes -/
theorem message_written (n : Nat) (ds : List Diag) (i : Nat) (hi : i < ds.length)
    (hlen : 1 ≤ posLen (ds.getD i default).pos)
    (hfile : ∀ q ∈ (ds.getD i default).pos, 1 ≤ q.line ∧ q.line ≤ n) :
    ∃ out, inject n ds = some out ∧ ∃ e ∈ out, i ∈ e.2 := by
  have hd : ds.getD i default ∈ ds := by
    rw [List.getD_eq_getElem?_getD, List.getElem?_eq_getElem hi]
    simp
  obtain ⟨q, hq, hl⟩ := message_line_is_own_line (ds.getD i default) hlen
  have hqa : q.line ∈ allLines ds := by
    simp only [allLines, List.mem_flatMap, List.mem_map]
    exact ⟨_, hd, q, hq, rfl⟩
  obtain ⟨last, hlast⟩ : ∃ last, (allLines ds).max? = some last := by
    cases hm : (allLines ds).max? with
    | some l => exact ⟨l, rfl⟩
    | none => rw [List.max?_eq_none_iff.mp hm] at hqa; simp at hqa
  have hle : q.line ≤ last := by
    have := List.le_max?_getD_of_mem (k := 0) hqa
    simpa [hlast] using this
  obtain ⟨h1, h2⟩ := hfile q hq
  have hinj : inject n ds = some ((List.range n).filterMap fun k =>
      if k + 1 ≤ last ∧ covered ds (k + 1) = true then
        some (k + 1, (List.range ds.length).filter fun i => linesLast (diagPositions (ds.getD i default)) = k + 1)
      else none) := by simp only [inject, hlast]
  refine ⟨_, hinj, ?_⟩
  refine ⟨(q.line, (List.range ds.length).filter fun j => linesLast (diagPositions (ds.getD j default)) = q.line), ?_, ?_⟩
  · simp only [List.mem_filterMap, List.mem_range]
    refine ⟨q.line - 1, by omega, ?_⟩
    have e : q.line - 1 + 1 = q.line := by omega
    simp only [e, covered, List.contains_iff_mem, hqa, hle, and_self, if_true]
  · simp only [List.mem_filter, List.mem_range, decide_eq_true_eq]
    exact ⟨hi, hl⟩

/-- non-vacuity: two diagnostics on a 3-line file, one about an empty value (`first = last = 0`) -/
example :
    inject 3 [⟨[⟨2, 5, 9⟩], 2, 3⟩, ⟨[⟨3, 7, 7⟩], 0, 0⟩] = some [(2, [0]), (3, [1])] ∧
    inject 3 [⟨[], 1, 1⟩] = none := by decide

end inject

end Pint.Props.C02
