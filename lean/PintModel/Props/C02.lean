import PintModel.Model.Comments
namespace Pint.Props.C02
theorem placeholder : True := trivial
end Pint.Props.C02
