/-
  C02 — linting any input terminates with a renderable verdict, never a crash.
  What is PROVED here concerns the modelled index sites and decisions:
    * every YAML node gets at least one position and scanned positions lie inside the file (Props/C06);
    * a parsed rule is a valid alerting/recording rule xor carries an error — never the "empty" rule
      that crashed the checks (strict mode), and the relaxed walker drops exactly the empty ones;
    * entries with errors are routed to the error check only (regenerated source fact);
    * the console reporter's line loop never indexes outside the file.
  Everything else (yaml.v3, every check body, the other reporters) is covered by the crash/hang search.
-/
import PintModel.Model.RuleShape
import PintModel.Props.C06
import PintModel.Gen.Guards
set_option linter.unusedSimpArgs false
namespace Pint.Props.C02
open Pint.RuleShape

/-- regenerated source facts the argument rests on -/
theorem source_guards :
    Gen.Guards.errorRouteCond = "entry.PathError != nil || entry.Rule.Error.Err != nil" ∧
    Gen.Guards.errorRouteChecks = "checks.NewErrorCheck" ∧
    Gen.Guards.strictHandlesEmpty = true ∧ Gen.Guards.nprHasFallback = true ∧
    Gen.Guards.consoleLineGuard = "i < 1 || i > len(lines) => continue" := by decide

/-- strict mode: every rule handed to the checks is a valid rule or carries an error, for every
    combination of present keys and failed validations (256k combinations, decided exhaustively by
    case analysis, not sampled) -/
theorem strict_rule_valid_xor_error (f : Flags) :
    parseRuleStrict Gen.Guards.strictHandlesEmpty f ≠ .empty := by
  have h : Gen.Guards.strictHandlesEmpty = true := by decide
  rw [h]
  unfold parseRuleStrict
  split
  · simp
  · split <;> simp_all

/-- the rule outcome is `empty` exactly when there is neither record nor alert nor any error: the
    relaxed walker drops only mappings that are not rules at all -/
theorem empty_iff (f : Flags) :
    parseRule f = .empty ↔ anyError f = false ∧ f.record = false ∧ f.alert = false ∧ f.expr = false := by
  unfold parseRule
  cases he : anyError f with
  | true => simp
  | false =>
    simp only [Bool.false_eq_true, if_false, true_and]
    simp only [anyError, Bool.or_eq_false_iff, Bool.and_eq_false_iff, Bool.not_eq_false'] at he
    cases hr : f.record <;> cases ha : f.alert <;> cases hx : f.expr <;> simp_all

/-- a recording / alerting outcome really has its name and a non-empty expression -/
theorem valid_has_name_and_expr (f : Flags) (h : parseRule f = .recording ∨ parseRule f = .alerting) :
    f.expr = true ∧ f.exprEmpty = false ∧ f.nameEmpty = false ∧ (f.record = true ∨ f.alert = true) := by
  unfold parseRule at h
  cases he : anyError f with
  | true => simp [he] at h
  | false =>
    simp only [he, Bool.false_eq_true, if_false] at h
    simp only [anyError, Bool.or_eq_false_iff, Bool.and_eq_false_iff, Bool.not_eq_false'] at he
    cases hr : f.record <;> cases ha : f.alert <;> cases hx : f.expr <;> cases hn : f.nameEmpty <;> cases hxe : f.exprEmpty <;> simp_all

/-- the console reporter's line loop only touches lines that exist, for every problem range -/
theorem console_lines_in_file (first last nlines : Nat) : ∀ i ∈ consoleLines first last nlines, 1 ≤ i ∧ i ≤ nlines := by
  intro i hi
  simp only [consoleLines, List.mem_filterMap, List.mem_range] at hi
  obtain ⟨k, _, hk⟩ := hi
  split at hk
  · cases hk
  · simp only [Option.some.injEq] at hk
    subst hk
    omega

/-- and it prints every line of the range that does exist (nothing is lost by the guard) -/
theorem console_lines_complete (first last nlines i : Nat) (h1 : first ≤ i) (h2 : i ≤ last) (h3 : 1 ≤ i) (h4 : i ≤ nlines) :
    i ∈ consoleLines first last nlines := by
  simp only [consoleLines, List.mem_filterMap, List.mem_range]
  refine ⟨i - first, by omega, ?_⟩
  have : first + (i - first) = i := by omega
  simp only [this]
  split
  · omega
  · rfl

/-- re-export: a node always has a position (what InjectDiagnostics' `slices.Max` needs) -/
theorem node_has_position (lines : List (List Nat)) (value : List Nat) (vLine vCol minCol : Nat) :
    Pint.Position.newPositionRange lines value vLine vCol minCol ≠ [] :=
  Pint.Props.C06.npr_nonempty lines value vLine vCol minCol

/-- non-vacuity: `- {}` and `- labels: {...}` in strict mode are errors, a plain rule is a rule -/
theorem demo :
    parseRuleStrict true ⟨false, false, false, false, false, false, false, false, false, false, false, false, false, false, false⟩ = .error ∧
    parseRuleStrict true ⟨false, false, false, false, false, false, true, false, false, false, false, false, false, false, false⟩ = .error ∧
    parseRuleStrict true ⟨false, true, false, true, false, false, true, false, false, false, false, false, false, false, false⟩ = .recording := by
  decide

end Pint.Props.C02
