import PintModel.Model.Enable
namespace Pint.Props.C12
theorem placeholder : True := trivial
end Pint.Props.C12
