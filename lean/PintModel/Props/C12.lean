import PintModel.Props.C04
/-!
# C12 — a "dead code" report is never a false positive

The analyser declares a join operand dead when `canJoin` fails.  `canJoin_false_no_match`: if `canJoin` says no, then
no series of the left side can be matched with any series of the right side — *provided* the left series really carry
the labels the analyser assumes they carry (`MustHave`, the assumption pint makes silently; it is what C12's data
hypothesis "every series carries every label the query names" provides for selector sources: `mustHave_selector`) and
the right source accounts for the right series (C04's `analyse_sound`).  Matching is judged on label names: two
series whose matching signatures name different labels cannot be matched, whatever the values.

What is recorded instead of proved (known findings, all with engine replays): the per-`or`-branch reporting, constant
folding under `bool`, through value-changing aggregations and through joins, `or` right-hand sides, metric names
dropped by functions.  C12 is claimed at the level of this lemma plus the engine differential runs.
-/
namespace Pint.Props.C12
open Pint.LabelFlow Pint.Props.C04

/-- port of `canJoin` (after fix d2925e0): `on` = vm.On, `m` = vm.MatchingLabels -/
def canJoin (on : Bool) (m : LS) (ls rs : Src) : Bool :=
  if on then
    if m.isEmpty then true
    else m.all fun n => !(canHave ls n && !canHave rs n)
  else
    ls.guar.all fun n => m.contains n || !(canHave ls n && !canHave rs n)

/-- the label names that take part in the matching -/
def signature (on : Bool) (m : LS) (a : LS) : LS :=
  if on then a.filter m.contains else a.filter fun n => !m.contains n && n != nameL

def sameNames (a b : LS) : Prop := ∀ n, n ∈ a ↔ n ∈ b

/-- what the analyser assumes about a left-hand series `a`: labels it says the source can have are there, as far as the
matching looks at them -/
def MustHave (on : Bool) (m : LS) (ls : Src) (a : LS) : Prop :=
  ∀ n, CanHave ls n → (if on then n ∈ m else n ∈ ls.guar ∧ n ∉ m ∧ n ≠ nameL) → n ∈ a

/-- **C12, join feasibility**: when `canJoin` fails, no left series (under `MustHave`) has the same matching
signature as any right series the right source accounts for: the operation has no matching pair. -/
theorem canJoin_false_no_match (on : Bool) (m : LS) (ls rs : Src) (a b : LS)
    (hc : canJoin on m ls rs = false) (hl : MustHave on m ls a) (hr : Accounts rs b)
    (hname : on = false → nameL ∉ ls.guar) :
    ¬ sameNames (signature on m a) (signature on m b) := by
  intro hsame
  cases on with
  | true =>
    simp only [canJoin, if_true] at hc
    by_cases he : m.isEmpty = true
    · simp [he] at hc
    · simp only [he, if_false] at hc
      have hex : ∃ n ∈ m, (canHave ls n && !canHave rs n) = true := by
        have := List.all_eq_false.mp hc
        obtain ⟨n, hn, hp⟩ := this
        exact ⟨n, hn, by simpa using hp⟩
      obtain ⟨n, hnm, hp⟩ := hex
      simp only [Bool.and_eq_true, Bool.not_eq_true'] at hp
      have hna : n ∈ a := hl n ((canHave_iff ls n).mp hp.1) (by simpa using hnm)
      have hsa : n ∈ signature true m a := by simp [signature, hna, hnm]
      have hsb : n ∈ signature true m b := (hsame n).mp hsa
      have hnb : n ∈ b := by simp [signature] at hsb; exact hsb.1
      have := (canHave_iff rs n).mpr (hr n hnb)
      rw [hp.2] at this; exact absurd this (by simp)
  | false =>
    simp only [canJoin, Bool.false_eq_true, if_false] at hc
    have := List.all_eq_false.mp hc
    obtain ⟨n, hng, hp⟩ := this
    simp only [Bool.or_eq_true, Bool.not_eq_true', not_or, Bool.not_eq_true, Bool.and_eq_false_imp] at hp
    have hnm : n ∉ m := by simpa using hp.1
    have hcl : canHave ls n = true := by
      cases h : canHave ls n with
      | true => rfl
      | false => simp [h] at hp
    have hcr : canHave rs n = false := by
      cases h : canHave rs n with
      | false => rfl
      | true => simp [hcl, h] at hp
    have hnn : n ≠ nameL := fun e => hname rfl (e ▸ hng)
    have hna : n ∈ a := hl n ((canHave_iff ls n).mp hcl) (by simp [hng, hnm, hnn])
    have hsa : n ∈ signature false m a := by simp [signature, hna, hnm, hnn]
    have hsb : n ∈ signature false m b := (hsame n).mp hsa
    have hnb : n ∈ b := by simp [signature] at hsb; exact hsb.1
    have := (canHave_iff rs n).mpr (hr n hnb)
    rw [hcr] at this; exact absurd this (by simp)

/-- the data hypothesis of C12 gives `MustHave` for selector sources: a series that carries every label of the universe
carries whatever the matching asks for -/
theorem mustHave_selector (on : Bool) (m : LS) (ms : List Matcher) (U a : LS)
    (hfull : ∀ n ∈ U, n ∈ a) (hm : ∀ n ∈ m, n ∈ U) (hg : ∀ x ∈ ms, x.label ∈ U) :
    MustHave on m (selSrc ms) a := by
  intro n _ hcond
  cases on with
  | true => exact hfull n (hm n (by simpa using hcond))
  | false =>
    simp only [Bool.false_eq_true, if_false] at hcond
    have : n ∈ (selSrc ms).guar := hcond.1
    simp only [selSrc, excludeLabel, mem_removeFrom, mem_appendTo, List.mem_map, List.mem_filter, List.not_mem_nil, false_or] at this
    obtain ⟨⟨x, ⟨hx, _⟩, rfl⟩, _⟩ := this
    exact hfull _ (hg x hx)

/-- `on()` with no labels never makes a join impossible; non-vacuity of the lemma's premise -/
example (ls rs : Src) : canJoin true [] ls rs = true := by simp [canJoin]

example :
    let l := selSrc [{ label := "job", kind := .eq }]
    let r := excludeMetricName (aggBySrc ["instance"] (selSrc [])) true ["instance"]
    canJoin true ["job"] l r = false ∧ canJoin false [] l r = false ∧ canJoin false ["job"] l r = true := by decide

end Pint.Props.C12
