import PintModel.Props.C04
import PintModel.Model.StaticFlow
/-!
# C12 — a "dead code" report is never a false positive

The analyser declares a join operand dead when `canJoin` fails.  `canJoin_false_no_match`: if `canJoin` says no, then
no series of the left side can be matched with any series of the right side — *provided* the left series really carry
the labels the analyser assumes they carry (`MustHave`, the assumption pint makes silently; it is what C12's data
hypothesis "every series carries every label the query names" provides for selector sources: `mustHave_selector`) and
the right source accounts for the right series (C04's `analyse_sound`).  Matching is judged on label names: two
series whose matching signatures name different labels cannot be matched, whatever the values.

What is recorded instead of proved (known findings, all with engine replays): the per-`or`-branch reporting, constant
folding under `bool`, through value-changing aggregations and through joins, `or` right-hand sides, metric names
dropped by functions.  C12 is claimed at the level of this lemma plus the engine differential runs.
-/
namespace Pint.Props.C12
open Pint.LabelFlow Pint.Props.C04

def sameNames (a b : LS) : Prop := ∀ n, n ∈ a ↔ n ∈ b

/-- what the analyser assumes about a left-hand series `a`: labels it says the source can have are there, as far as the
matching looks at them -/
def MustHave (on : Bool) (m : LS) (ls : Src) (a : LS) : Prop :=
  ∀ n, CanHave ls n → (if on then n ∈ m else n ∈ ls.guar ∧ n ∉ m ∧ n ≠ nameL) → n ∈ a

/-- **C12, join feasibility**: when `canJoin` fails, no left series (under `MustHave`) has the same matching
signature as any right series the right source accounts for: the operation has no matching pair. -/
theorem canJoin_false_no_match (on : Bool) (m : LS) (ls rs : Src) (a b : LS)
    (hc : canJoin on m ls rs = false) (hl : MustHave on m ls a) (hr : Accounts rs b)
    (hname : on = false → nameL ∉ ls.guar) :
    ¬ sameNames (signature on m a) (signature on m b) := by
  intro hsame
  cases on with
  | true =>
    simp only [canJoin, if_true] at hc
    by_cases he : m.isEmpty = true
    · simp [he] at hc
    · simp only [he, if_false] at hc
      have hex : ∃ n ∈ m, (canHave ls n && !canHave rs n) = true := by
        have := List.all_eq_false.mp hc
        obtain ⟨n, hn, hp⟩ := this
        exact ⟨n, hn, by simpa using hp⟩
      obtain ⟨n, hnm, hp⟩ := hex
      simp only [Bool.and_eq_true, Bool.not_eq_true'] at hp
      have hna : n ∈ a := hl n ((canHave_iff ls n).mp hp.1) (by simpa using hnm)
      have hsa : n ∈ signature true m a := by simp [signature, hna, hnm]
      have hsb : n ∈ signature true m b := (hsame n).mp hsa
      have hnb : n ∈ b := by simp [signature] at hsb; exact hsb.1
      have := (canHave_iff rs n).mpr (hr n hnb)
      rw [hp.2] at this; exact absurd this (by simp)
  | false =>
    simp only [canJoin, Bool.false_eq_true, if_false] at hc
    have := List.all_eq_false.mp hc
    obtain ⟨n, hng, hp⟩ := this
    simp only [Bool.or_eq_true, Bool.not_eq_true', not_or, Bool.not_eq_true, Bool.and_eq_false_imp] at hp
    have hnm : n ∉ m := by simpa using hp.1
    have hcl : canHave ls n = true := by
      cases h : canHave ls n with
      | true => rfl
      | false => simp [h] at hp
    have hcr : canHave rs n = false := by
      cases h : canHave rs n with
      | false => rfl
      | true => simp [hcl, h] at hp
    have hnn : n ≠ nameL := fun e => hname rfl (e ▸ hng)
    have hna : n ∈ a := hl n ((canHave_iff ls n).mp hcl) (by simp [hng, hnm, hnn])
    have hsa : n ∈ signature false m a := by simp [signature, hna, hnm, hnn]
    have hsb : n ∈ signature false m b := (hsame n).mp hsa
    have hnb : n ∈ b := by simp [signature] at hsb; exact hsb.1
    have := (canHave_iff rs n).mpr (hr n hnb)
    rw [hcr] at this; exact absurd this (by simp)

/-- the data hypothesis of C12 gives `MustHave` for selector sources: a series that carries every label of the universe
carries whatever the matching asks for -/
theorem mustHave_selector (on : Bool) (m : LS) (ms : List Matcher) (U a : LS)
    (hfull : ∀ n ∈ U, n ∈ a) (hm : ∀ n ∈ m, n ∈ U) (hg : ∀ x ∈ ms, x.label ∈ U) :
    MustHave on m (selSrc ms) a := by
  intro n _ hcond
  cases on with
  | true => exact hfull n (hm n (by simpa using hcond))
  | false =>
    simp only [Bool.false_eq_true, if_false] at hcond
    have : n ∈ (selSrc ms).guar := hcond.1
    simp only [selSrc, excludeLabel, mem_removeFrom, mem_appendTo, List.mem_map, List.mem_filter, List.not_mem_nil, false_or] at this
    obtain ⟨⟨x, ⟨hx, _⟩, rfl⟩, _⟩ := this
    exact hfull _ (hg x hx)

/-- `on()` with no labels never makes a join impossible; non-vacuity of the lemma's premise -/
example (ls rs : Src) : canJoin true [] ls rs = true := by simp [canJoin]

example :
    let l := selSrc [{ label := "job", kind := .eq }]
    let r := excludeMetricName (aggBySrc ["instance"] (selSrc [])) true ["instance"]
    canJoin true ["job"] l r = false ∧ canJoin false [] l r = false ∧ canJoin false ["job"] l r = true := by decide

/-! ## the must-analysis behind `MustHave`: on the fragment where labels only disappear, a label the source can have is
on every series, when every stored series carries every label of the universe -/

theorem canHave_excludeLabel_inv {s : Src} {ns : LS} {n : String} (h : CanHave (excludeLabel s ns) n) : n ∉ ns ∧ CanHave s n := by
  simp only [CanHave, excludeLabel, mem_removeFrom, mem_appendTo] at h
  obtain ⟨hex, hin⟩ := h
  have hn : n ∉ ns := fun hh => hex (Or.inr hh)
  refine ⟨hn, fun hh => hex (Or.inl hh), ?_⟩
  rcases hin with h1 | h1 | h1
  · exact Or.inl h1.1
  · exact Or.inr (Or.inl h1.1)
  · exact Or.inr (Or.inr h1)

theorem canHave_includeLabel_inv {s : Src} {ns : LS} {n : String} (h : CanHave (includeLabel s ns) n) : n ∈ ns ∨ CanHave s n := by
  simp only [CanHave, includeLabel, mem_removeFrom, mem_appendTo] at h
  obtain ⟨hex, hin⟩ := h
  by_cases hn : n ∈ ns
  · exact Or.inl hn
  · right
    refine ⟨fun hh => hex ⟨hh, hn⟩, ?_⟩
    rcases hin with (h1 | h1) | h1 | h1
    · exact Or.inl h1
    · exact absurd h1 hn
    · exact Or.inr (Or.inl h1)
    · exact Or.inr (Or.inr h1)

theorem canHave_guaranteeLabel_inv {s : Src} {ns : LS} {n : String} (h : CanHave (guaranteeLabel s ns) n) : n ∈ ns ∨ CanHave s n := by
  simp only [CanHave, guaranteeLabel, mem_removeFrom, mem_appendTo] at h
  obtain ⟨hex, hin⟩ := h
  by_cases hn : n ∈ ns
  · exact Or.inl hn
  · right
    refine ⟨fun hh => hex ⟨hh, hn⟩, ?_⟩
    rcases hin with h1 | (h1 | h1) | h1
    · exact Or.inl h1
    · exact Or.inr (Or.inl h1)
    · exact absurd h1 hn
    · exact Or.inr (Or.inr h1)

theorem canHave_includeMatching_inv (ns : LS) : ∀ {s : Src} {n : String}, CanHave (includeMatching s ns) n → CanHave s n := by
  unfold includeMatching
  induction ns with
  | nil => intro s n h; exact h
  | cons x xs ih =>
    intro s n h
    simp only [List.foldl_cons] at h
    by_cases hc : canHave s x = true
    · rw [if_pos hc] at h
      rcases canHave_includeLabel_inv (ih h) with hx | hx
      · have : n = x := by simpa using hx
        subst this; exact (canHave_iff s n).mp hc
      · exact hx
    · rw [if_neg hc] at h; exact ih h

theorem canHave_reguarantee_inv {s : Src} {n : String} (h : CanHave (reguarantee s) n) : CanHave s n := by
  unfold reguarantee at h
  generalize s.selGuar = ns at h
  induction ns generalizing s with
  | nil => exact h
  | cons x xs ih =>
    simp only [List.foldl_cons] at h
    by_cases hc : canHave s x = true
    · rw [if_pos hc] at h
      rcases canHave_guaranteeLabel_inv (ih h) with hx | hx
      · have : n = x := by simpa using hx
        subst this; exact (canHave_iff s n).mp hc
      · exact hx
    · rw [if_neg hc] at h; exact ih h

theorem canHave_aggBySrc_inv {s : Src} {g : LS} {n : String} (h : CanHave (aggBySrc g s) n) : n ∈ g ∧ CanHave s n := by
  unfold aggBySrc at h
  by_cases he : g.isEmpty = true
  · rw [if_pos he] at h
    simp [CanHave] at h
  · rw [if_neg he] at h
    by_cases hf : s.fixed = true
    · rw [if_pos hf] at h
      simp only [CanHave, restrictTo, List.mem_filter] at h
      obtain ⟨hex, hin⟩ := h
      rcases hin with h1 | h1 | h1
      · exact ⟨by simpa using h1.2, hex, Or.inl h1.1⟩
      · exact ⟨by simpa using h1.2, hex, Or.inr (Or.inl h1.1)⟩
      · simp at h1
    · rw [if_neg hf] at h
      have hfix : s.fixed = false := by cases hh : s.fixed with | false => rfl | true => exact absurd hh hf
      have hexcl : (maybeInclude s g).excl = s.excl := by
        unfold maybeInclude; split <;> rfl
      simp only [CanHave, restrictTo, List.mem_filter] at h
      obtain ⟨hex, hin⟩ := h
      rw [hexcl] at hex
      rcases hin with h1 | h1 | h1
      · exact ⟨by simpa using h1.2, hex, Or.inr (Or.inr hfix)⟩
      · exact ⟨by simpa using h1.2, hex, Or.inr (Or.inr hfix)⟩
      · simp at h1

theorem canHave_excludeMetricName_inv {s : Src} {b : Bool} {g : LS} {n : String} (h : CanHave (excludeMetricName s b g) n) : CanHave s n := by
  unfold excludeMetricName at h
  split at h
  · exact h
  · exact (canHave_excludeLabel_inv h).2

theorem map_eq_singleton {α β : Type} {f : α → β} {l : List α} {y : β} (h : l.map f = [y]) : ∃ x, l = [x] ∧ f x = y := by
  cases l with
  | nil => simp at h
  | cons x xs =>
    cases xs with
    | nil => simp at h; exact ⟨x, rfl, h⟩
    | cons _ _ => simp at h

theorem mem_wOWN_keeps {L : List LS} {ls : LS} (h : ls ∈ withOrWithoutName L) : ∃ ls' ∈ L, ∀ n, n ≠ nameL → n ∈ ls' → n ∈ ls := by
  simp only [withOrWithoutName, List.mem_append, List.mem_map] at h
  rcases h with h | ⟨t, ht, rfl⟩
  · exact ⟨ls, h, fun _ _ hn => hn⟩
  · exact ⟨t, ht, fun n hne hn => by simp [dropName, hn, hne]⟩

/-- **must-analysis**: under the data hypothesis, on the label-removing fragment, what the single source "can have"
(other than the metric name) is on every returned series -/
theorem must_have (U : LS) : ∀ (e : Expr), frag12 e = true → ∀ s, analyse e = [s] → ∀ ls ∈ full U e,
    ∀ n ∈ U, n ≠ nameL → CanHave s n → n ∈ ls := by
  intro e
  induction e with
  | sel ms =>
    intro _ s hs ls hls n hn _ _
    simp only [full] at hls
    split at hls
    · simp at hls
    · have : ls = nameL :: U := by simpa using hls
      subst this; exact List.mem_cons_of_mem _ hn
  | aggBy g e ih =>
    intro hf s hs ls hls n hn hne hc
    simp only [analyse] at hs
    obtain ⟨s0, hs0, rfl⟩ := map_eq_singleton hs
    simp only [full, List.mem_map] at hls
    obtain ⟨ls', hls', rfl⟩ := hls
    have h1 := canHave_aggBySrc_inv (canHave_excludeMetricName_inv hc)
    exact List.mem_filter.mpr ⟨ih (by simpa [frag12] using hf) s0 hs0 ls' hls' n hn hne h1.2, by simpa using h1.1⟩
  | aggWithout g e ih =>
    intro hf s hs ls hls n hn hne hc
    simp only [analyse] at hs
    obtain ⟨s0, hs0, rfl⟩ := map_eq_singleton hs
    simp only [full, List.mem_map] at hls
    obtain ⟨ls', hls', rfl⟩ := hls
    have h1 := canHave_excludeLabel_inv (canHave_excludeMetricName_inv hc)
    exact List.mem_filter.mpr ⟨ih (by simpa [frag12] using hf) s0 hs0 ls' hls' n hn hne h1.2, by simp [h1.1, hne]⟩
  | topk e ih =>
    intro hf s hs ls hls n hn hne hc
    exact ih (by simpa [frag12] using hf) s (by simpa [analyse] using hs) ls (by simpa [full] using hls) n hn hne hc
  | func e ih =>
    intro hf s hs ls hls n hn hne hc
    simp only [analyse] at hs
    obtain ⟨s0, hs0, rfl⟩ := map_eq_singleton hs
    obtain ⟨ls', hls', hkeep⟩ := mem_wOWN_keeps (by simpa [full] using hls)
    exact hkeep n hne (ih (by simpa [frag12] using hf) s0 hs0 ls' hls' n hn hne (canHave_reguarantee_inv hc))
  | binOn m l r ihl _ =>
    intro hf s hs ls hls n hn hne hc
    simp only [analyse] at hs
    obtain ⟨s0, hs0, rfl⟩ := map_eq_singleton hs
    obtain ⟨ls', hls', hkeep⟩ := mem_wOWN_keeps (by simpa [full] using hls)
    simp only [List.mem_map] at hls'
    obtain ⟨a, ha, rfl⟩ := hls'
    -- the restricted source can have n only if n is an on() label the matched source could have
    simp only [CanHave, restrictTo, List.mem_filter] at hc
    obtain ⟨hex, hin⟩ := hc
    have hfix : (includeMatching s0 m).fixed = s0.fixed := includeMatching_fixed s0 m
    have hnm : n ∈ m ∧ CanHave (includeMatching s0 m) n := by
      rcases hin with h1 | h1 | h1
      · exact ⟨by simpa using h1.2, hex, Or.inl h1.1⟩
      · exact ⟨by simpa using h1.2, hex, Or.inr (Or.inl h1.1)⟩
      · simp at h1
    apply hkeep n hne
    exact List.mem_filter.mpr ⟨ihl (by simpa [frag12] using hf) s0 hs0 a ha n hn hne (canHave_includeMatching_inv m hnm.2), by simpa using hnm.1⟩
  | binIgn m l r ihl _ =>
    intro hf s hs ls hls n hn hne hc
    simp only [analyse] at hs
    obtain ⟨s0, hs0, rfl⟩ := map_eq_singleton hs
    obtain ⟨ls', hls', hkeep⟩ := mem_wOWN_keeps (by simpa [full] using hls)
    simp only [List.mem_map] at hls'
    obtain ⟨a, ha, rfl⟩ := hls'
    have h1 := canHave_excludeLabel_inv hc
    apply hkeep n hne
    exact List.mem_filter.mpr ⟨ihl (by simpa [frag12] using hf) s0 hs0 a ha n hn hne h1.2, by simp [h1.1]⟩
  | setAnd on m l r ihl _ =>
    intro hf s hs ls hls n hn hne hc
    simp only [analyse] at hs
    obtain ⟨s0, hs0, rfl⟩ := map_eq_singleton hs
    have hc0 : CanHave s0 n := by
      cases on with
      | true => exact canHave_includeMatching_inv m hc
      | false => exact hc
    exact ihl (by simpa [frag12] using hf) s0 hs0 ls (by simpa [full] using hls) n hn hne hc0
  | withScalar e ih =>
    intro hf s hs ls hls n hn hne hc
    obtain ⟨ls', hls', hkeep⟩ := mem_wOWN_keeps (by simpa [full] using hls)
    exact hkeep n hne (ih (by simpa [frag12] using hf) s (by simpa [analyse] using hs) ls' hls' n hn hne hc)
  | countValuesBy g v e _ => intro hf; simp [frag12] at hf
  | labelReplace d e _ => intro hf; simp [frag12] at hf
  | absent ms => intro hf; simp [frag12] at hf
  | vec => intro hf; simp [frag12] at hf
  | groupLeft o m i l r _ _ => intro hf; simp [frag12] at hf
  | groupRight o m i l r _ _ => intro hf; simp [frag12] at hf
  | setOr o m l r _ _ => intro hf; simp [frag12] at hf

/-- **C12 for `on(...)` joins**: if the left operand is in the label-removing fragment, every stored series carries
every label of `U`, and `canJoin` rejects the pair of sources, then no series the left operand returns can be matched
with any series the right operand can return — the operand reported as "never matched" is never matched. -/
theorem C12_on_join_never_matches (U m : LS) (e1 e2 : Expr) (hf1 : frag12 e1 = true) (hw2 : wf e2 = true)
    (s1 s2 : Src) (h1 : analyse e1 = [s1]) (h2 : analyse e2 = [s2])
    (hm : ∀ n ∈ m, n ∈ U ∧ n ≠ nameL) (hc : canJoin true m s1 s2 = false) :
    ∀ a ∈ full U e1, ∀ b ∈ possible U e2, ¬ sameNames (signature true m a) (signature true m b) := by
  intro a ha b hb
  obtain ⟨s, hs, hacc⟩ := analyse_sound U e2 hw2 b hb
  rw [h2] at hs
  have : s = s2 := by simpa using hs
  subst this
  refine canJoin_false_no_match true m s1 s a b hc ?_ hacc (by simp)
  intro n hcn hcond
  have hnm : n ∈ m := by simpa using hcond
  exact must_have U e1 hf1 s1 h1 a ha n (hm n hnm).1 (hm n hnm).2 hcn

/-- non-vacuity: `m1{job="x"} * on(job) sum by (instance) (m2)` over labels job, instance -/
example :
    let e1 := Expr.sel [{ label := "job", kind := .eq }]
    let e2 := Expr.aggBy ["instance"] (.sel [])
    frag12 e1 = true ∧ (analyse e1).length = 1 ∧ (analyse e2).length = 1 ∧
    (match analyse e1, analyse e2 with | [a], [b] => canJoin true ["job"] a b | _, _ => true) = false ∧
    (full ["job", "instance"] e1).length = 1 := by decide

/-! ## the reporting structure: which operation raised a flag, and what it returns then -/

theorem neverMatched_length : ∀ e : Expr, (neverMatched e).length = (analyse e).length := by
  intro e
  induction e with
  | sel ms => simp [neverMatched, analyse]
  | aggBy g e ih => simpa [neverMatched, analyse] using ih
  | aggWithout g e ih => simpa [neverMatched, analyse] using ih
  | topk e ih => simpa [neverMatched, analyse] using ih
  | countValuesBy g v e ih => simpa [neverMatched, analyse] using ih
  | func e ih => simpa [neverMatched, analyse] using ih
  | labelReplace d e ih => simpa [neverMatched, analyse] using ih
  | absent ms => simp [neverMatched, analyse]
  | vec => simp [neverMatched, analyse]
  | binOn m l r ihl _ => simp [neverMatched, analyse, ihl]
  | binIgn m l r ihl _ => simp [neverMatched, analyse, ihl]
  | groupLeft o m i l r ihl _ => simp [neverMatched, analyse, ihl]
  | groupRight o m i l r _ ihr => simp [neverMatched, analyse, ihr]
  | setAnd o m l r ihl _ => simp [neverMatched, analyse, ihl]
  | setOr o m l r ihl ihr => simp [neverMatched, analyse, ihl, ihr]
  | withScalar e ih => simpa [neverMatched, analyse] using ih

/-- a flag count above what the other side brought along means `canJoin` rejected one of its sources -/
theorem joinFlags_pos (on : Bool) (m : LS) (s : Src) : ∀ (rs : List Src) (cs : List Nat),
    cs.sum < joinFlags on m s rs cs → ∃ r ∈ rs, canJoin on m s r = false := by
  intro rs
  induction rs with
  | nil => intro cs h; cases cs <;> simp [joinFlags] at h
  | cons r rs ih =>
    intro cs h
    cases cs with
    | nil => simp [joinFlags] at h
    | cons c cs =>
      simp only [joinFlags, List.sum_cons] at h
      by_cases hc : canJoin on m s r = true
      · simp only [hc, if_true] at h
        obtain ⟨r', hr', hj⟩ := ih cs (by omega)
        exact ⟨r', List.mem_cons_of_mem _ hr', hj⟩
      · exact ⟨r, List.mem_cons_self, by simpa using hc⟩

/-- the flags an operation adds are all there is when nothing was flagged below it: with one source on the other side,
"a flag was raised here" is exactly "`canJoin` said no" -/
theorem joinFlags_single (on : Bool) (m : LS) (s r : Src) :
    joinFlags on m s [r] [0] = if canJoin on m s r then 0 else 1 := by
  simp [joinFlags]

theorem sigEq_of_sameNames_false {on : Bool} {m a b : LS} (h : ¬ sameNames (signature on m a) (signature on m b)) :
    sigEq on m a b = false := by
  cases hs : sigEq on m a b with
  | false => rfl
  | true =>
    exfalso; apply h
    simp only [sigEq, Bool.and_eq_true, List.all_eq_true, List.contains_iff_mem] at hs
    intro n
    exact ⟨fun hn => by simpa using hs.1 n hn, fun hn => by simpa using hs.2 n hn⟩

theorem joined_nil {U : LS} {on : Bool} {m : LS} {l r : Expr}
    (h : ∀ a ∈ full U l, ∀ b ∈ possible U r, ¬ sameNames (signature on m a) (signature on m b)) :
    joined U on m l r = [] := by
  simp only [joined, List.filter_eq_nil_iff, List.any_eq_true, not_exists, not_and, Bool.not_eq_true]
  intro a ha b hb
  exact sigEq_of_sameNames_false (h a ha b hb)

/-- the source `parseBinOps` hands to `canJoin` is the transformed one; what it can have among the matching labels the
untransformed one could have too -/
theorem canHave_binOnSrc_inv {s : Src} {m : LS} {n : String}
    (hc : CanHave (restrictTo { includeMatching s m with fixed := true } m) n) : n ∈ m ∧ CanHave s n := by
  simp only [CanHave, restrictTo, List.mem_filter] at hc
  obtain ⟨hex, hin⟩ := hc
  rcases hin with h1 | h1 | h1
  · exact ⟨by simpa using h1.2, canHave_includeMatching_inv m ⟨hex, Or.inl h1.1⟩⟩
  · exact ⟨by simpa using h1.2, canHave_includeMatching_inv m ⟨hex, Or.inr (Or.inl h1.1)⟩⟩
  · simp at h1

theorem canJoin_on_false_elim {m : LS} {s r : Src} (hc : canJoin true m s r = false) :
    ∃ n ∈ m, canHave s n = true ∧ canHave r n = false := by
  simp only [canJoin, if_true] at hc
  by_cases he : m.isEmpty = true
  · simp [he] at hc
  · simp only [he] at hc
    obtain ⟨n, hn, hp⟩ := List.all_eq_false.mp hc
    have hp' : (canHave s n && !canHave r n) = true := by simpa using hp
    simp only [Bool.and_eq_true, Bool.not_eq_true'] at hp'
    exact ⟨n, hn, hp'.1, hp'.2⟩

theorem canJoin_on_false_intro {m : LS} {s r : Src} {n : String} (hn : n ∈ m) (h1 : canHave s n = true)
    (h2 : canHave r n = false) : canJoin true m s r = false := by
  simp only [canJoin, if_true]
  have he : m.isEmpty = false := by cases m with | nil => simp at hn | cons _ _ => rfl
  simp only [he, Bool.false_eq_true, if_false]
  apply List.all_eq_false.mpr
  exact ⟨n, hn, by simp [h1, h2]⟩

/-- the verdict about the transformed left source of `l op on(m) r` is a verdict about the source of `l` -/
theorem canJoin_binOn_transfer {m : LS} {s r : Src}
    (hc : canJoin true m (restrictTo { includeMatching s m with fixed := true } m) r = false) :
    canJoin true m s r = false := by
  obtain ⟨n, hn, h1, h2⟩ := canJoin_on_false_elim hc
  exact canJoin_on_false_intro hn ((canHave_iff s n).mpr (canHave_binOnSrc_inv ((canHave_iff _ n).mp h1)).2) h2

/-- the same for `and on(m)` / `unless on(m)`, where the left source only gets the matching labels included -/
theorem canJoin_setOn_transfer {m : LS} {s r : Src}
    (hc : canJoin true m (includeMatching s m) r = false) : canJoin true m s r = false := by
  obtain ⟨n, hn, h1, h2⟩ := canJoin_on_false_elim hc
  exact canJoin_on_false_intro hn ((canHave_iff s n).mpr (canHave_includeMatching_inv m ((canHave_iff _ n).mp h1))) h2

/-- **C12, `on(...)` joins with any number of right-hand branches**: if `canJoin` rejects *every* source of the right
operand, no series of the left operand finds a partner (the case of one source is `C12_on_join_never_matches`; with
several sources - `or` on the right - pint reports each rejected branch on its own, which is the recorded finding
`C12-never-matched-per-branch`: the theorem needs all of them rejected). -/
theorem C12_on_all_branches_rejected (U m : LS) (e1 e2 : Expr) (hf1 : frag12 e1 = true) (hw2 : wf e2 = true)
    (s1 : Src) (h1 : analyse e1 = [s1])
    (hm : ∀ n ∈ m, n ∈ U ∧ n ≠ nameL) (hc : ∀ s2 ∈ analyse e2, canJoin true m s1 s2 = false) :
    ∀ a ∈ full U e1, ∀ b ∈ possible U e2, ¬ sameNames (signature true m a) (signature true m b) := by
  intro a ha b hb
  obtain ⟨s, hs, hacc⟩ := analyse_sound U e2 hw2 b hb
  refine canJoin_false_no_match true m s1 s a b (hc s hs) ?_ hacc (by simp)
  intro n hcn hcond
  have hnm : n ∈ m := by simpa using hcond
  exact must_have U e1 hf1 s1 h1 a ha n (hm n hnm).1 (hm n hnm).2 hcn

/-- **C12, joins without `on`** (`ignoring(m)`, or no modifier: `m = []`): `canJoin` then looks at the labels the left
source guarantees.  Under the data hypothesis (the guaranteed labels are labels of the universe - they come from the
matchers the query spells out) a rejected right operand is never matched. -/
theorem C12_ignoring_all_branches_rejected (U m : LS) (e1 e2 : Expr) (hf1 : frag12 e1 = true) (hw2 : wf e2 = true)
    (s1 : Src) (h1 : analyse e1 = [s1])
    (hg : ∀ n ∈ s1.guar, n ∈ U ∧ n ≠ nameL) (hc : ∀ s2 ∈ analyse e2, canJoin false m s1 s2 = false) :
    ∀ a ∈ full U e1, ∀ b ∈ possible U e2, ¬ sameNames (signature false m a) (signature false m b) := by
  intro a ha b hb
  obtain ⟨s, hs, hacc⟩ := analyse_sound U e2 hw2 b hb
  refine canJoin_false_no_match false m s1 s a b (hc s hs) ?_ hacc (fun _ hn => (hg _ hn).2 rfl)
  intro n hcn hcond
  simp only [Bool.false_eq_true, if_false] at hcond
  exact must_have U e1 hf1 s1 h1 a ha n (hg n hcond.1).1 (hg n hcond.1).2 hcn

theorem canJoin_ign_false_elim {m : LS} {s r : Src} (hc : canJoin false m s r = false) :
    ∃ n ∈ s.guar, n ∉ m ∧ canHave s n = true ∧ canHave r n = false := by
  simp only [canJoin, Bool.false_eq_true, if_false] at hc
  obtain ⟨n, hng, hp⟩ := List.all_eq_false.mp hc
  simp only [Bool.or_eq_true, Bool.not_eq_true', not_or, Bool.not_eq_true, Bool.and_eq_false_imp] at hp
  have hcl : canHave s n = true := by
    cases h : canHave s n with
    | true => rfl
    | false => simp [h] at hp
  have hcr : canHave r n = false := by
    cases h : canHave r n with
    | false => rfl
    | true => simp [hcl, h] at hp
  exact ⟨n, hng, by simpa using hp.1, hcl, hcr⟩

theorem canJoin_ign_false_intro {m : LS} {s r : Src} {n : String} (hg : n ∈ s.guar) (hn : n ∉ m)
    (h1 : canHave s n = true) (h2 : canHave r n = false) : canJoin false m s r = false := by
  simp only [canJoin, Bool.false_eq_true, if_false]
  apply List.all_eq_false.mpr
  exact ⟨n, hg, by simp [hn, h1, h2]⟩

/-- the verdict about the transformed left source of `l op ignoring(m) r` is a verdict about the source of `l` -/
theorem canJoin_binIgn_transfer {m : LS} {s r : Src}
    (hc : canJoin false m (excludeLabel s m) r = false) : canJoin false m s r = false := by
  obtain ⟨n, hg, hn, h1, h2⟩ := canJoin_ign_false_elim hc
  have hg' : n ∈ s.guar := by
    simp only [excludeLabel, mem_removeFrom] at hg
    exact hg.1
  exact canJoin_ign_false_intro hg' hn ((canHave_iff s n).mpr (canHave_excludeLabel_inv ((canHave_iff _ n).mp h1)).2) h2

/-- **C12, the report**: `l op on(m) r` (arithmetic or comparison, one-to-one).  If the operation raises a "never
matched" flag that was not already there below it (`neverMatched` of the node exceeds what both operands brought
along) and the right operand has one source, the operation returns no series on any database whose series carry every
label of `U`. -/
theorem C12_report_on (U m : LS) (l r : Expr) (hf : frag12 l = true) (hw : wf r = true)
    (s1 s2 : Src) (h1 : analyse l = [s1]) (h2 : analyse r = [s2])
    (hm : ∀ n ∈ m, n ∈ U ∧ n ≠ nameL)
    (hflag : (neverMatched l).sum + (neverMatched r).sum < (neverMatched (.binOn m l r)).sum) :
    joined U true m l r = [] := by
  have hl1 : (neverMatched l).length = 1 := by rw [neverMatched_length, h1]; rfl
  have hr1 : (neverMatched r).length = 1 := by rw [neverMatched_length, h2]; rfl
  obtain ⟨c1, hc1⟩ : ∃ c, neverMatched l = [c] := by
    match hx : neverMatched l, hl1 with
    | [c], _ => exact ⟨c, rfl⟩
  obtain ⟨c2, hc2⟩ : ∃ c, neverMatched r = [c] := by
    match hx : neverMatched r, hr1 with
    | [c], _ => exact ⟨c, rfl⟩
  simp only [neverMatched, analyse, h1, h2, hc1, hc2, List.map_cons, List.map_nil, List.zipWith_cons_cons,
    List.zipWith_nil_right, List.sum_cons, List.sum_nil, joinFlags] at hflag
  have hcj : canJoin true m (restrictTo { includeMatching s1 m with fixed := true } m) s2 = false := by
    cases h : canJoin true m (restrictTo { includeMatching s1 m with fixed := true } m) s2 with
    | false => rfl
    | true => simp [h] at hflag
  apply joined_nil
  exact C12_on_join_never_matches U m l r hf hw s1 s2 h1 h2 hm (canJoin_binOn_transfer hcj)

/-- **C12, the report** for `l op ignoring(m) r` and `l op r` (`m = []`) -/
theorem C12_report_ignoring (U m : LS) (l r : Expr) (hf : frag12 l = true) (hw : wf r = true)
    (s1 s2 : Src) (h1 : analyse l = [s1]) (h2 : analyse r = [s2])
    (hg : ∀ n ∈ s1.guar, n ∈ U ∧ n ≠ nameL)
    (hflag : (neverMatched l).sum + (neverMatched r).sum < (neverMatched (.binIgn m l r)).sum) :
    joined U false m l r = [] := by
  have hl1 : (neverMatched l).length = 1 := by rw [neverMatched_length, h1]; rfl
  have hr1 : (neverMatched r).length = 1 := by rw [neverMatched_length, h2]; rfl
  obtain ⟨c1, hc1⟩ : ∃ c, neverMatched l = [c] := by
    match hx : neverMatched l, hl1 with
    | [c], _ => exact ⟨c, rfl⟩
  obtain ⟨c2, hc2⟩ : ∃ c, neverMatched r = [c] := by
    match hx : neverMatched r, hr1 with
    | [c], _ => exact ⟨c, rfl⟩
  simp only [neverMatched, analyse, h1, h2, hc1, hc2, List.map_cons, List.map_nil, List.zipWith_cons_cons,
    List.zipWith_nil_right, List.sum_cons, List.sum_nil, joinFlags] at hflag
  have hcj : canJoin false m (excludeLabel s1 m) s2 = false := by
    cases h : canJoin false m (excludeLabel s1 m) s2 with
    | false => rfl
    | true => simp [h] at hflag
  apply joined_nil
  apply C12_ignoring_all_branches_rejected U m l r hf hw s1 h1 hg
  intro s hs
  rw [h2] at hs
  have : s = s2 := by simpa using hs
  subst this
  exact canJoin_binIgn_transfer hcj

/-- **C12, the report** for `l and on(m) r` (and, read as "the right side changes nothing", `l unless on(m) r`) -/
theorem C12_report_and_on (U m : LS) (l r : Expr) (hf : frag12 l = true) (hw : wf r = true)
    (s1 s2 : Src) (h1 : analyse l = [s1]) (h2 : analyse r = [s2])
    (hm : ∀ n ∈ m, n ∈ U ∧ n ≠ nameL)
    (hflag : (neverMatched l).sum + (neverMatched r).sum < (neverMatched (.setAnd true m l r)).sum) :
    joined U true m l r = [] := by
  have hl1 : (neverMatched l).length = 1 := by rw [neverMatched_length, h1]; rfl
  have hr1 : (neverMatched r).length = 1 := by rw [neverMatched_length, h2]; rfl
  obtain ⟨c1, hc1⟩ : ∃ c, neverMatched l = [c] := by
    match hx : neverMatched l, hl1 with
    | [c], _ => exact ⟨c, rfl⟩
  obtain ⟨c2, hc2⟩ : ∃ c, neverMatched r = [c] := by
    match hx : neverMatched r, hr1 with
    | [c], _ => exact ⟨c, rfl⟩
  simp only [neverMatched, analyse, h1, h2, hc1, hc2, List.map_cons, List.map_nil, List.zipWith_cons_cons,
    List.zipWith_nil_right, List.sum_cons, List.sum_nil, joinFlags, if_true] at hflag
  have hcj : canJoin true m (includeMatching s1 m) s2 = false := by
    cases h : canJoin true m (includeMatching s1 m) s2 with
    | false => rfl
    | true => simp [h] at hflag
  apply joined_nil
  exact C12_on_join_never_matches U m l r hf hw s1 s2 h1 h2 hm (canJoin_setOn_transfer hcj)

/-- non-vacuity of the report theorems: `m1{job="x"} * on(job) sum by (instance) (m2)` raises one flag at the top
operation and none below; `m1{job="x"} * sum by (instance) (m2)` too (the guaranteed label `job`); and a query where
nothing is flagged -/
example :
    let l := Expr.sel [{ label := "job", kind := .eq }]
    let r := Expr.aggBy ["instance"] (.sel [])
    neverMatched l = [0] ∧ neverMatched r = [0] ∧ neverMatched (.binOn ["job"] l r) = [1] ∧
    neverMatched (.binIgn [] l r) = [1] ∧ neverMatched (.setAnd true ["job"] l r) = [1] ∧
    neverMatched (.binOn ["instance"] l r) = [0] ∧
    joined ["job", "instance"] true ["job"] l r = [] ∧ joined ["job", "instance"] true ["instance"] l r ≠ [] := by decide

/-! ## no flag without a rejection: every "never matched" verdict anywhere in the `Joins` / `Unless` tree goes back to a
`canJoin` call, inside the query, that rejected a pair of sources -/

/-- some operation inside `e` hands `canJoin` a pair of sources (its own transformed source, a source of the other
operand) that it rejects -/
def rejectsSomewhere : Expr → Bool
  | .sel _ => false
  | .aggBy _ e => rejectsSomewhere e
  | .aggWithout _ e => rejectsSomewhere e
  | .topk e => rejectsSomewhere e
  | .countValuesBy _ _ e => rejectsSomewhere e
  | .func e => rejectsSomewhere e
  | .labelReplace _ e => rejectsSomewhere e
  | .absent _ => false
  | .vec => false
  | .binOn m l r => rejectsSomewhere l || rejectsSomewhere r ||
      (analyse (.binOn m l r)).any fun s => (analyse r).any fun x => !canJoin true m s x
  | .binIgn m l r => rejectsSomewhere l || rejectsSomewhere r ||
      (analyse (.binIgn m l r)).any fun s => (analyse r).any fun x => !canJoin false m s x
  | .groupLeft on m incl l r => rejectsSomewhere l || rejectsSomewhere r ||
      (analyse (.groupLeft on m incl l r)).any fun s => (analyse r).any fun x => !canJoin on m s x
  | .groupRight on m incl l r => rejectsSomewhere l || rejectsSomewhere r ||
      (analyse (.groupRight on m incl l r)).any fun s => (analyse l).any fun x => !canJoin on m s x
  | .setAnd on m l r => rejectsSomewhere l || rejectsSomewhere r ||
      (analyse (.setAnd on m l r)).any fun s => (analyse r).any fun x => !canJoin on m s x
  | .setOr _ _ l r => rejectsSomewhere l || rejectsSomewhere r
  | .withScalar e => rejectsSomewhere e

theorem joinFlags_pos_or (on : Bool) (m : LS) (s : Src) (rs : List Src) (cs : List Nat)
    (h : 0 < joinFlags on m s rs cs) : 0 < cs.sum ∨ ∃ r ∈ rs, canJoin on m s r = false := by
  by_cases hc : 0 < cs.sum
  · exact Or.inl hc
  · exact Or.inr (joinFlags_pos on m s rs cs (by omega))

theorem zipWith_flags_pos (on : Bool) (m : LS) (rs : List Src) (rc : List Nat) :
    ∀ (ss : List Src) (cs : List Nat),
    0 < (List.zipWith (fun s c => c + joinFlags on m s rs rc) ss cs).sum →
    0 < cs.sum ∨ 0 < rc.sum ∨ ∃ s ∈ ss, ∃ r ∈ rs, canJoin on m s r = false := by
  intro ss
  induction ss with
  | nil => intro cs h; simp at h
  | cons s ss ih =>
    intro cs h
    cases cs with
    | nil => simp at h
    | cons c cs =>
      simp only [List.zipWith_cons_cons, List.sum_cons] at h ⊢
      by_cases hc : 0 < c
      · exact Or.inl (by omega)
      · by_cases hj : 0 < joinFlags on m s rs rc
        · rcases joinFlags_pos_or on m s rs rc hj with h1 | ⟨r, hr, hrej⟩
          · exact Or.inr (Or.inl h1)
          · exact Or.inr (Or.inr ⟨s, by simp, r, hr, hrej⟩)
        · rcases ih cs (by omega) with h1 | h1 | ⟨s', hs', r, hr, hrej⟩
          · exact Or.inl (by omega)
          · exact Or.inr (Or.inl h1)
          · exact Or.inr (Or.inr ⟨s', by simp [hs'], r, hr, hrej⟩)

theorem any_rejects {on : Bool} {m : LS} {ss rs : List Src}
    (h : ∃ s ∈ ss, ∃ r ∈ rs, canJoin on m s r = false) :
    (ss.any fun s => rs.any fun x => !canJoin on m s x) = true := by
  obtain ⟨s, hs, r, hr, hrej⟩ := h
  simp only [List.any_eq_true, Bool.not_eq_true']
  exact ⟨s, hs, r, hr, hrej⟩

/-- **C12, no flag without a rejection**: if `WalkSources` finds a "never matched" verdict anywhere below a source of
the query, some operation inside the query handed `canJoin` a pair of sources that it rejected -/
theorem flag_has_rejection : ∀ e : Expr, 0 < (neverMatched e).sum → rejectsSomewhere e = true := by
  intro e
  induction e with
  | sel ms => intro h; simp [neverMatched] at h
  | aggBy g e ih => intro h; exact ih (by simpa [neverMatched] using h)
  | aggWithout g e ih => intro h; exact ih (by simpa [neverMatched] using h)
  | topk e ih => intro h; exact ih (by simpa [neverMatched] using h)
  | countValuesBy g v e ih => intro h; exact ih (by simpa [neverMatched] using h)
  | func e ih => intro h; exact ih (by simpa [neverMatched] using h)
  | labelReplace d e ih => intro h; exact ih (by simpa [neverMatched] using h)
  | absent ms => intro h; simp [neverMatched] at h
  | vec => intro h; simp [neverMatched] at h
  | withScalar e ih => intro h; exact ih (by simpa [neverMatched] using h)
  | setOr o m l r ihl ihr =>
    intro h
    simp only [neverMatched, List.sum_append] at h
    simp only [rejectsSomewhere, Bool.or_eq_true]
    by_cases hl : 0 < (neverMatched l).sum
    · exact Or.inl (ihl hl)
    · exact Or.inr (ihr (by omega))
  | binOn m l r ihl ihr =>
    intro h
    simp only [neverMatched] at h
    simp only [rejectsSomewhere, Bool.or_eq_true]
    rcases zipWith_flags_pos true m (analyse r) (neverMatched r) _ _ h with h1 | h1 | h1
    · exact Or.inl (Or.inl (ihl h1))
    · exact Or.inl (Or.inr (ihr h1))
    · exact Or.inr (any_rejects h1)
  | binIgn m l r ihl ihr =>
    intro h
    simp only [neverMatched] at h
    simp only [rejectsSomewhere, Bool.or_eq_true]
    rcases zipWith_flags_pos false m (analyse r) (neverMatched r) _ _ h with h1 | h1 | h1
    · exact Or.inl (Or.inl (ihl h1))
    · exact Or.inl (Or.inr (ihr h1))
    · exact Or.inr (any_rejects h1)
  | groupLeft o m i l r ihl ihr =>
    intro h
    simp only [neverMatched] at h
    simp only [rejectsSomewhere, Bool.or_eq_true]
    rcases zipWith_flags_pos o m (analyse r) (neverMatched r) _ _ h with h1 | h1 | h1
    · exact Or.inl (Or.inl (ihl h1))
    · exact Or.inl (Or.inr (ihr h1))
    · exact Or.inr (any_rejects h1)
  | groupRight o m i l r ihl ihr =>
    intro h
    simp only [neverMatched] at h
    simp only [rejectsSomewhere, Bool.or_eq_true]
    rcases zipWith_flags_pos o m (analyse l) (neverMatched l) _ _ h with h1 | h1 | h1
    · exact Or.inl (Or.inr (ihr h1))
    · exact Or.inl (Or.inl (ihl h1))
    · exact Or.inr (any_rejects h1)
  | setAnd o m l r ihl ihr =>
    intro h
    simp only [neverMatched] at h
    simp only [rejectsSomewhere, Bool.or_eq_true]
    rcases zipWith_flags_pos o m (analyse r) (neverMatched r) _ _ h with h1 | h1 | h1
    · exact Or.inl (Or.inl (ihl h1))
    · exact Or.inl (Or.inr (ihr h1))
    · exact Or.inr (any_rejects h1)

/-- the converse fails, and that is pint's behaviour: `or` records no joins, so a rejection below it is never reported -/
example :
    let e := Expr.setOr true ["job"] (.sel [{ label := "job", kind := .eq }]) (.aggBy ["instance"] (.sel []))
    rejectsSomewhere e = false ∧ (neverMatched e).sum = 0 := by decide

/-! ## static comparison folding (`calculateStaticReturn`): a query declared dead returns nothing

On the closed, `bool`-free expressions of `Model/StaticFlow` (integer literals, `vector(...)`, unary minus, `+ - *`,
comparisons): the number pint computes is the value the query returns whenever it returns one, and a query it declares
dead returns no sample.  With `bool` the statement is false (`static_bool_not_sound`, the recorded finding
`C12-static-bool`). -/
section staticFold
open Pint.StaticFlow
set_option linter.unusedSimpArgs false

theorem static_bin_all (op : Op) (b : Bool) (l r : SE)
    (la : (static l).always = true) (lk : (static l).known = true)
    (ra : (static r).always = true) (rk : (static r).known = true) :
    static (.bin op b l r) =
      if isVec l && isVec r then
        { (static l) with num := (fold op (static l).num (static r).num (static l).dead).1,
                          dead := (fold op (static l).num (static r).num (static l).dead).2,
                          cond := (static l).cond || op.isCmp }
      else
        { (if isVec l then static l else if isVec r then static r else static l) with
            dead := (fold op (static l).num (static r).num (static l).dead).2,
            num := if op.isCmp then (if isVec l then static l else if isVec r then static r else static l).num
                   else (fold op (static l).num (static r).num (static l).dead).1,
            cond := (if isVec l then static l else if isVec r then static r else static l).cond || op.isCmp } := by
  simp [static, la, lk, ra, rk]

theorem fold_arith (op : Op) (a b : Int) (d : Bool) (hc : op.isCmp = false) : fold op a b d = (op.arith a b, d) := by
  simp [fold, hc]
theorem fold_cmp_true (op : Op) (a b : Int) (d : Bool) (hc : op.isCmp = true) (hh : op.holds a b = true) : fold op a b d = (a, d) := by
  simp [fold, hc, hh]
theorem fold_cmp_false (op : Op) (a b : Int) (d : Bool) (hc : op.isCmp = true) (hh : op.holds a b = false) : fold op a b d = (a, true) := by
  simp [fold, hc, hh]
theorem apply_arith (op : Op) (a b k : Int) (hc : op.isCmp = false) : apply op false a b k = some (op.arith a b) := by
  simp [apply, hc]
theorem apply_cmp_true (op : Op) (a b k : Int) (hc : op.isCmp = true) (hh : op.holds a b = true) : apply op false a b k = some k := by
  simp [apply, hc, hh]
theorem apply_cmp_false (op : Op) (a b k : Int) (hc : op.isCmp = true) (hh : op.holds a b = false) : apply op false a b k = none := by
  simp [apply, hc, hh]

/-- what the analysis knows about `e`, against what `e` evaluates to -/
def Agrees (e : SE) : Prop :=
  (static e).always = true ∧ (static e).known = true ∧
  (isVec e = false → eval e = .s (static e).num ∧ (static e).dead = false) ∧
  (isVec e = true → ∃ x, eval e = .v x ∧ (∀ k, x = some k → k = (static e).num) ∧ ((static e).dead = true → x = none))

theorem agrees_bin (op : Op) (l r : SE) (hl : Agrees l) (hr : Agrees r)
    (ht : (isVec l || isVec r || !op.isCmp) = true) : Agrees (.bin op false l r) := by
  obtain ⟨la, lk, ls, lv⟩ := hl
  obtain ⟨ra, rk, rs, rv⟩ := hr
  have hst := static_bin_all op false l r la lk ra rk
  cases hvl : isVec l <;> cases hvr : isVec r
  · -- scalar op scalar: arithmetic only
    have hcmp : op.isCmp = false := by simpa [hvl, hvr] using ht
    obtain ⟨el, dl⟩ := ls hvl
    obtain ⟨er, _⟩ := rs hvr
    simp only [hvl, hvr, Bool.and_self, Bool.false_eq_true, if_false, hcmp, fold_arith op _ _ _ hcmp] at hst
    refine ⟨by rw [hst]; exact la, by rw [hst]; exact lk, ?_, ?_⟩
    · intro _
      rw [hst]
      simp [eval, el, er, evalBin, hcmp, dl]
    · intro h; simp [isVec, hvl, hvr] at h
  · -- scalar op vector
    obtain ⟨el, dl⟩ := ls hvl
    obtain ⟨y, ey, hy, hdy⟩ := rv hvr
    simp only [hvl, hvr, Bool.false_and, Bool.false_eq_true, if_false, if_true] at hst
    refine ⟨by rw [hst]; exact ra, by rw [hst]; exact rk, ?_, ?_⟩
    · intro h; simp [isVec, hvl, hvr] at h
    · intro _
      refine ⟨y.bind fun b => apply op false (static l).num b b, by simp [eval, el, ey, evalBin], ?_, ?_⟩
      · intro k hk
        cases y with
        | none => simp at hk
        | some b =>
          have hb := hy b rfl
          subst hb
          simp only [Option.bind_some] at hk
          rw [hst]
          cases hc : op.isCmp
          · rw [apply_arith _ _ _ _ hc] at hk
            simp [hc, fold_arith _ _ _ _ hc]
            exact (Option.some.inj hk).symm
          · cases hh : op.holds (static l).num (static r).num
            · rw [apply_cmp_false _ _ _ _ hc hh] at hk; cases hk
            · rw [apply_cmp_true _ _ _ _ hc hh] at hk
              simp [hc]
              exact (Option.some.inj hk).symm
      · intro hd
        rw [hst] at hd
        cases y with
        | none => rfl
        | some b =>
          have hb := hy b rfl
          subst hb
          simp only [Option.bind_some]
          cases hc : op.isCmp
          · rw [fold_arith _ _ _ _ hc] at hd
            simp [dl] at hd
          · cases hh : op.holds (static l).num (static r).num
            · exact apply_cmp_false _ _ _ _ hc hh
            · rw [fold_cmp_true _ _ _ _ hc hh] at hd
              simp [dl] at hd
  · -- vector op scalar
    obtain ⟨x, ex, hx, hdx⟩ := lv hvl
    obtain ⟨er, _⟩ := rs hvr
    simp only [hvl, hvr, Bool.and_false, Bool.false_eq_true, if_false, if_true] at hst
    refine ⟨by rw [hst]; exact la, by rw [hst]; exact lk, ?_, ?_⟩
    · intro h; simp [isVec, hvl, hvr] at h
    · intro _
      refine ⟨x.bind fun a => apply op false a (static r).num a, by simp [eval, er, ex, evalBin], ?_, ?_⟩
      · intro k hk
        cases x with
        | none => simp at hk
        | some a =>
          have ha := hx a rfl
          subst ha
          simp only [Option.bind_some] at hk
          rw [hst]
          cases hc : op.isCmp
          · rw [apply_arith _ _ _ _ hc] at hk
            simp [fold_arith _ _ _ _ hc]
            exact (Option.some.inj hk).symm
          · cases hh : op.holds (static l).num (static r).num
            · rw [apply_cmp_false _ _ _ _ hc hh] at hk; cases hk
            · rw [apply_cmp_true _ _ _ _ hc hh] at hk
              simp
              exact (Option.some.inj hk).symm
      · intro hd
        rw [hst] at hd
        cases x with
        | none => rfl
        | some a =>
          have ha := hx a rfl
          subst ha
          simp only [Option.bind_some]
          cases hc : op.isCmp
          · rw [fold_arith _ _ _ _ hc] at hd
            exact absurd (hdx hd) (by simp)
          · cases hh : op.holds (static l).num (static r).num
            · exact apply_cmp_false _ _ _ _ hc hh
            · rw [fold_cmp_true _ _ _ _ hc hh] at hd
              exact absurd (hdx hd) (by simp)
  · -- vector op vector (one-to-one, neither side has labels)
    obtain ⟨x, ex, hx, hdx⟩ := lv hvl
    obtain ⟨y, ey, hy, _⟩ := rv hvr
    simp only [hvl, hvr, Bool.and_self, if_true] at hst
    refine ⟨by rw [hst]; exact la, by rw [hst]; exact lk, ?_, ?_⟩
    · intro h; simp [isVec, hvl, hvr] at h
    · intro _
      refine ⟨x.bind fun a => y.bind fun b => apply op false a b a, by simp [eval, ex, ey, evalBin], ?_, ?_⟩
      · intro k hk
        cases x with
        | none => simp at hk
        | some a =>
          cases y with
          | none => simp at hk
          | some b =>
            have ha := hx a rfl
            have hb := hy b rfl
            subst ha; subst hb
            simp only [Option.bind_some] at hk
            rw [hst]
            cases hc : op.isCmp
            · rw [apply_arith _ _ _ _ hc] at hk
              simp [fold_arith _ _ _ _ hc]
              exact (Option.some.inj hk).symm
            · cases hh : op.holds (static l).num (static r).num
              · rw [apply_cmp_false _ _ _ _ hc hh] at hk; cases hk
              · rw [apply_cmp_true _ _ _ _ hc hh] at hk
                simp [fold_cmp_true _ _ _ _ hc hh]
                exact (Option.some.inj hk).symm
      · intro hd
        rw [hst] at hd
        cases x with
        | none => rfl
        | some a =>
          cases y with
          | none => rfl
          | some b =>
            have ha := hx a rfl
            have hb := hy b rfl
            subst ha; subst hb
            simp only [Option.bind_some]
            cases hc : op.isCmp
            · rw [fold_arith _ _ _ _ hc] at hd
              exact absurd (hdx hd) (by simp)
            · cases hh : op.holds (static l).num (static r).num
              · exact apply_cmp_false _ _ _ _ hc hh
              · rw [fold_cmp_true _ _ _ _ hc hh] at hd
                exact absurd (hdx hd) (by simp)

/-- a closed expression that is not a vector evaluates to a scalar -/
theorem scalar_eval : ∀ e : SE, closed e = true → wellTyped e = true → isVec e = false → ∃ k, eval e = .s k := by
  intro e
  induction e with
  | num k => intro _ _ _; exact ⟨k, rfl⟩
  | sel => intro hc; simp [closed] at hc
  | vector e _ => intro _ _ hv; simp [isVec] at hv
  | fn k e _ => intro _ _ hv; simp [isVec] at hv
  | agg k e _ => intro _ _ hv; simp [isVec] at hv
  | unlessOn l r _ _ => intro _ _ hv; simp [isVec] at hv
  | neg e ih =>
    intro hc ht hv
    simp only [closed] at hc
    simp only [wellTyped] at ht
    simp only [isVec] at hv
    obtain ⟨k, hk⟩ := ih hc ht hv
    exact ⟨-k, by simp [eval, hk]⟩
  | bin op b l r ihl ihr =>
    intro hc ht hv
    simp only [closed, Bool.and_eq_true] at hc
    simp only [wellTyped, Bool.and_eq_true] at ht
    simp only [isVec, Bool.or_eq_false_iff] at hv
    obtain ⟨a, ha⟩ := ihl hc.1 ht.1.1 hv.1
    obtain ⟨c, hc'⟩ := ihr hc.2 ht.1.2 hv.2
    simp only [eval, ha, hc', evalBin]
    split <;> exact ⟨_, rfl⟩

theorem static_bin_cond (op : Op) (b : Bool) (l r : SE) (hvv : (isVec l && isVec r) = false) :
    (static (.bin op b l r)).cond = ((if isVec l then static l else if isVec r then static r else static l).cond || op.isCmp) := by
  simp only [static, hvv, Bool.false_eq_true, if_false]
  split <;> rfl

/-- **what `AlwaysReturns && !IsConditional` promises**, where no two vectors meet: a closed vector expression that no
comparison guards returns a sample -/
theorem vec_nonEmpty : ∀ e : SE, closed e = true → boolFree e = true → wellTyped e = true → noVV e = true →
    (static e).cond = false → isVec e = true → ∃ k, eval e = .v (some k) := by
  intro e
  induction e with
  | num k => intro _ _ _ _ _ hv; simp [isVec] at hv
  | sel => intro hc; simp [closed] at hc
  | unlessOn l r _ _ => intro _ _ _ hn; simp [noVV] at hn
  | vector e _ =>
    intro hc _ ht _ _ _
    simp only [closed] at hc
    simp only [wellTyped, Bool.and_eq_true, Bool.not_eq_true'] at ht
    obtain ⟨k, hk⟩ := scalar_eval e hc ht.2 ht.1
    exact ⟨k, by simp [eval, hk]⟩
  | neg e ih =>
    intro hc hb ht hn hcond hv
    simp only [closed] at hc
    simp only [boolFree] at hb
    simp only [wellTyped] at ht
    simp only [noVV] at hn
    simp only [isVec] at hv
    have hc' : (static e).cond = false := by
      simp only [static] at hcond
      split at hcond <;> simpa using hcond
    obtain ⟨k, hk⟩ := ih hc hb ht hn hc' hv
    exact ⟨-k, by simp [eval, hk]⟩
  | fn keeps e ih =>
    intro hc hb ht hn hcond _
    simp only [closed] at hc
    simp only [boolFree] at hb
    simp only [wellTyped, Bool.and_eq_true] at ht
    simp only [noVV] at hn
    have hc' : (static e).cond = false := by
      simp only [static] at hcond
      split at hcond <;> simpa using hcond
    obtain ⟨k, hk⟩ := ih hc hb ht.2 hn hc' ht.1
    cases keeps
    · exact ⟨Int.natAbs k, by simp [eval, hk]⟩
    · exact ⟨k, by simp [eval, hk]⟩
  | agg keeps e ih =>
    intro hc hb ht hn hcond _
    simp only [closed] at hc
    simp only [boolFree] at hb
    simp only [wellTyped, Bool.and_eq_true] at ht
    simp only [noVV] at hn
    have hc' : (static e).cond = false := by simpa [static] using hcond
    obtain ⟨k, hk⟩ := ih hc hb ht.2 hn hc' ht.1
    cases keeps
    · exact ⟨1, by simp [eval, hk]⟩
    · exact ⟨k, by simp [eval, hk]⟩
  | bin op b l r ihl ihr =>
    intro hc hb ht hn hcond hv
    simp only [closed, Bool.and_eq_true] at hc
    simp only [boolFree, Bool.and_eq_true, Bool.not_eq_true'] at hb
    simp only [wellTyped, Bool.and_eq_true] at ht
    simp only [noVV, Bool.and_eq_true, Bool.not_eq_true'] at hn
    simp only [isVec, Bool.or_eq_true] at hv
    obtain ⟨⟨hbool, hbl⟩, hbr⟩ := hb
    subst hbool
    obtain ⟨⟨hvv, hnl⟩, hnr⟩ := hn
    rw [static_bin_cond op false l r hvv] at hcond
    simp only [Bool.or_eq_false_iff] at hcond
    obtain ⟨hside, hcmp⟩ := hcond
    cases hvl : isVec l
    · -- the right side is the vector
      have hvr : isVec r = true := by rcases hv with h | h; · rw [hvl] at h; cases h
                                      · exact h
      simp only [hvl, hvr, Bool.false_eq_true, if_false, if_true] at hside
      obtain ⟨a, ha⟩ := scalar_eval l hc.1 ht.1.1 hvl
      obtain ⟨k, hk⟩ := ihr hc.2 hbr ht.1.2 hnr hside hvr
      exact ⟨op.arith a k, by simp [eval, ha, hk, evalBin, apply, hcmp]⟩
    · have hvr : isVec r = false := by simpa [hvl] using hvv
      simp only [hvl, if_true] at hside
      obtain ⟨k, hk⟩ := ihl hc.1 hbl ht.1.1 hnl hside hvl
      obtain ⟨c, hc'⟩ := scalar_eval r hc.2 ht.1.2 hvr
      exact ⟨op.arith k c, by simp [eval, hk, hc', evalBin, apply, hcmp]⟩

theorem agrees : ∀ e : SE, closed e = true → boolFree e = true → wellTyped e = true → valueKeeping e = true →
    unlessSimple e = true → Agrees e := by
  intro e
  induction e with
  | num k => intro _ _ _ _ _; simp [Agrees, static, eval, isVec]
  | sel => intro hc; simp [closed] at hc
  | unlessOn l r ihl ihr =>
    intro hc hb ht hk hu
    simp only [closed, Bool.and_eq_true] at hc
    simp only [boolFree, Bool.and_eq_true] at hb
    simp only [wellTyped, Bool.and_eq_true] at ht
    simp only [valueKeeping, Bool.and_eq_true] at hk
    simp only [unlessSimple, Bool.and_eq_true] at hu
    obtain ⟨⟨⟨hvl, hvr⟩, htl⟩, htr⟩ := ht
    obtain ⟨⟨hnr, hul⟩, hur⟩ := hu
    obtain ⟨la, lk, _, lv⟩ := ihl hc.1 hb.1 htl hk.1 hul
    obtain ⟨ra, _, _, rv⟩ := ihr hc.2 hb.2 htr hk.2 hur
    obtain ⟨x, ex, hx, hdx⟩ := lv hvl
    obtain ⟨y, ey, _, _⟩ := rv hvr
    have hstd : (static (.unlessOn l r)) = if (static r).always && !(static r).cond then { (static l) with dead := true } else static l := by
      simp [static]
    refine ⟨?_, ?_, fun h => by simp [isVec] at h, fun _ => ?_⟩
    · rw [hstd]; split <;> exact la
    · rw [hstd]; split <;> exact lk
    · refine ⟨if y.isSome then none else x, by simp only [eval, ex, ey]; split <;> rfl, ?_, ?_⟩
      · intro k hk'
        have hnum : (static (.unlessOn l r)).num = (static l).num := by rw [hstd]; split <;> rfl
        rw [hnum]
        cases hy : y.isSome
        · simp [hy] at hk'; exact hx k hk'
        · simp [hy] at hk'
      · intro hd
        rw [hstd] at hd
        by_cases hcnd : ((static r).always && !(static r).cond) = true
        · simp only [Bool.and_eq_true, Bool.not_eq_true'] at hcnd
          obtain ⟨k, hk'⟩ := vec_nonEmpty r hc.2 hb.2 htr hnr hcnd.2 hvr
          rw [ey] at hk'
          cases hk'
          simp
        · simp only [hcnd, Bool.false_eq_true, if_false] at hd
          simp [hdx hd]
  | fn keeps e ih =>
    intro hc hb ht hk hu
    simp only [unlessSimple] at hu
    simp only [closed] at hc
    simp only [boolFree] at hb
    simp only [wellTyped, Bool.and_eq_true] at ht
    simp only [valueKeeping, Bool.and_eq_true] at hk
    obtain ⟨hkeeps, hk⟩ := hk
    subst hkeeps
    obtain ⟨ha, hkn, _, hv⟩ := ih hc hb ht.2 hk hu
    refine ⟨by simpa [static] using ha, by simpa [static] using hkn, fun h => by simp [isVec] at h, fun _ => ?_⟩
    simpa [static, eval] using hv ht.1
  | agg keeps e ih =>
    intro hc hb ht hk hu
    simp only [unlessSimple] at hu
    simp only [closed] at hc
    simp only [boolFree] at hb
    simp only [wellTyped, Bool.and_eq_true] at ht
    simp only [valueKeeping, Bool.and_eq_true] at hk
    obtain ⟨hkeeps, hk⟩ := hk
    subst hkeeps
    obtain ⟨ha, hkn, _, hv⟩ := ih hc hb ht.2 hk hu
    refine ⟨by simpa [static] using ha, by simpa [static] using hkn, fun h => by simp [isVec] at h, fun _ => ?_⟩
    simpa [static, eval] using hv ht.1
  | vector e ih =>
    intro hc hb ht hvk hu
    simp only [unlessSimple] at hu
    simp only [valueKeeping] at hvk
    simp only [closed] at hc
    simp only [boolFree] at hb
    simp only [wellTyped, Bool.and_eq_true, Bool.not_eq_true'] at ht
    obtain ⟨_, hk, hs, _⟩ := ih hc hb ht.2 hvk hu
    obtain ⟨he, _⟩ := hs ht.1
    simp [Agrees, static, eval, isVec, hk, he]
  | neg e ih =>
    intro hc hb ht hvk hu
    simp only [unlessSimple] at hu
    simp only [valueKeeping] at hvk
    simp only [closed] at hc
    simp only [boolFree] at hb
    simp only [wellTyped] at ht
    obtain ⟨ha, hk, hs, hv⟩ := ih hc hb ht hvk hu
    have hst : static (.neg e) = { (static e) with num := -(static e).num } := by simp [static, hk]
    refine ⟨by rw [hst]; exact ha, by rw [hst]; exact hk, ?_, ?_⟩
    · intro hve
      simp only [isVec] at hve
      obtain ⟨he, hd⟩ := hs hve
      rw [hst]
      simp [eval, he, hd]
    · intro hve
      simp only [isVec] at hve
      obtain ⟨x, hx, hnum, hdead⟩ := hv hve
      refine ⟨x.map fun k => -k, by simp [eval, hx], ?_, ?_⟩
      · intro k hk'
        rw [hst]
        cases x with
        | none => simp at hk'
        | some a =>
          have := hnum a rfl
          simp at hk'
          simp
          omega
      · intro hd
        rw [hst] at hd
        simp [hdead hd]
  | bin op isBool l r ihl ihr =>
    intro hc hb ht hvk hu
    simp only [unlessSimple, Bool.and_eq_true] at hu
    simp only [valueKeeping, Bool.and_eq_true] at hvk
    simp only [closed, Bool.and_eq_true] at hc
    simp only [boolFree, Bool.and_eq_true, Bool.not_eq_true'] at hb
    simp only [wellTyped, Bool.and_eq_true] at ht
    obtain ⟨⟨hbool, hbl⟩, hbr⟩ := hb
    subst hbool
    exact agrees_bin op l r (ihl hc.1 hbl ht.1.1 hvk.1 hu.1) (ihr hc.2 hbr ht.1.2 hvk.2 hu.2) (by simpa using ht.2)

/-- **C12, static verdicts**: a closed, `bool`-free query that `calculateStaticReturn` declares dead returns nothing -/
theorem static_dead_returns_nothing (e : SE) (hc : closed e = true) (hb : boolFree e = true) (ht : wellTyped e = true)
    (hk : valueKeeping e = true) (hu : unlessSimple e = true) (hd : (static e).dead = true) : eval e = .v none := by
  obtain ⟨_, _, hs, hv⟩ := agrees e hc hb ht hk hu
  cases hve : isVec e
  · have := (hs hve).2; rw [hd] at this; cases this
  · obtain ⟨x, hx, _, hdead⟩ := hv hve
    rw [hx, hdead hd]

/-- and the number pint folds further is the value the query returns, whenever it returns one -/
theorem static_number_is_the_value (e : SE) (hc : closed e = true) (hb : boolFree e = true) (ht : wellTyped e = true)
    (hk : valueKeeping e = true) (hu : unlessSimple e = true) (k : Int) (hv : eval e = .v (some k) ∨ eval e = .s k) :
    (static e).num = k := by
  obtain ⟨_, _, hs, hvec⟩ := agrees e hc hb ht hk hu
  cases hve : isVec e
  · have he := (hs hve).1
    rcases hv with h | h
    · rw [he] at h; cases h
    · rw [he] at h; cases h; rfl
  · obtain ⟨x, hx, hnum, _⟩ := hvec hve
    rcases hv with h | h
    · rw [hx] at h; cases h; exact (hnum k rfl).symm
    · rw [hx] at h; cases h

/-- with `bool` the statement is false of the model, as it is of the code (recorded finding `C12-static-bool`:
`vector(0) > bool 2` is reported as dead code and returns 0) -/
theorem static_bool_not_sound :
    ∃ e : SE, closed e = true ∧ wellTyped e = true ∧ (static e).dead = true ∧ eval e = .v (some 0) :=
  ⟨.bin .gt true (.vector (.num 0)) (.num 2), by decide⟩

/-- a function that changes values makes the number unknown (fix 5cb81d1: `abs(vector(-1)) > 0` was folded to `-1 > 0`
and reported as dead code) - but a known number next to it survives a vector-vector operation: `(vector(2) +
abs(vector(-1))) > 2` is still folded to `2 > 2` and declared dead although it returns 3. That is the recorded
finding `C12-unless-through-join` (constant-through-vector-matching) at the level of the model, and the reason the
theorems above ask for `valueKeeping`. -/
theorem static_stale_through_join_not_sound :
    (static (.bin .gt false (.fn false (.vector (.num (-1)))) (.num 0))).dead = false ∧
    ∃ e : SE, closed e = true ∧ boolFree e = true ∧ wellTyped e = true ∧ (static e).dead = true ∧ eval e = .v (some 3) :=
  ⟨by decide, .bin .gt false (.bin .add false (.vector (.num 2)) (.fn false (.vector (.num (-1))))) (.num 2), by decide⟩

/-- `AlwaysReturns` survives an operation between two vectors although the result can be empty:
`vector(1) unless on() (vector(1) + (vector(1) > 2))` is declared dead (the `unless` query "always returns something")
and returns 1 - the recorded finding `C12-unless-through-join` at the level of the model, and the reason for
`unlessSimple` -/
theorem static_unless_through_join_not_sound :
    ∃ e : SE, closed e = true ∧ boolFree e = true ∧ wellTyped e = true ∧ valueKeeping e = true ∧
      (static e).dead = true ∧ eval e = .v (some 1) :=
  ⟨.unlessOn (.vector (.num 1)) (.bin .add false (.vector (.num 1)) (.bin .gt false (.vector (.num 1)) (.num 2))), by decide⟩

/-- aggregations keep the number known for their input whatever they do to the value: `count(vector(0)) > 0` is folded
to `0 > 0` and declared dead although it returns 1 - the recorded finding `C12-static-aggregated` (pinned by the
existing tests) at the level of the model -/
theorem static_aggregated_not_sound :
    ∃ e : SE, closed e = true ∧ boolFree e = true ∧ wellTyped e = true ∧ (static e).dead = true ∧ eval e = .v (some 1) :=
  ⟨.bin .gt false (.agg false (.vector (.num 0))) (.num 0), by decide⟩

/-- non-vacuity: `vector(1) > 2` is declared dead, `(vector(3) > 2) + 1` is not and is known to return 4 -/
example :
    (static (.bin .gt false (.vector (.num 1)) (.num 2))).dead = true ∧
    closed (.bin .gt false (.vector (.num 1)) (.num 2)) = true ∧ wellTyped (.bin .gt false (.vector (.num 1)) (.num 2)) = true ∧
    static (.bin .add false (.bin .gt false (.vector (.num 3)) (.num 2)) (.num 1)) = ⟨true, true, 4, false, true⟩ ∧
    eval (.bin .add false (.bin .gt false (.vector (.num 3)) (.num 2)) (.num 1)) = .v (some 4) := by decide

/-- **C12, `or on()`**: when pint declares the right-hand side of `l or on() r` unused and no two vectors meet
inside `l`, the operation returns what `l` returns, whatever `r` returns. (Without `on()` the verdict is the recorded
finding `C12-or-rhs-declared-dead`: right-hand series with other labels are returned too.) -/
theorem or_on_rhs_unused (l : SE) (hc : closed l = true) (hb : boolFree l = true) (ht : wellTyped l = true)
    (hn : noVV l = true) (hv : isVec l = true) (hd : orRhsDead l = true) (y : Val) :
    evalOrOn (eval l) y = eval l := by
  simp only [orRhsDead, Bool.and_eq_true, Bool.not_eq_true'] at hd
  obtain ⟨k, hk⟩ := vec_nonEmpty l hc hb ht hn hd.2 hv
  rw [hk]
  cases y <;> simp [evalOrOn]

example : orRhsDead (.vector (.num 1)) = true ∧ orRhsDead (.bin .gt false (.vector (.num 1)) (.num 0)) = false ∧
    orRhsDead .sel = false := by decide

end staticFold

end Pint.Props.C12
