import PintModel.Model.Enable
namespace Pint.Props.C18
theorem placeholder : True := trivial
end Pint.Props.C18
