import PintModel.Gen.ConfigUse
/-!
# C18 — an accepted configuration never crashes a later lint run

What is decided here:

* `validated_before_use` — over the table regenerated from `internal/config` on every run: every constructor call
  whose error is dropped after the configuration was accepted (`x, _ := f(field)`, `Must*(field)`) has a call of the
  same constructor family on the same field of the same settings type inside a `validate` method with the error
  returned, *compiling the same pattern text* (for regexps the extractor follows helpers such as `fullMatchRegex` down to
  the string handed to `regexp.Compile`; see `sameValidity`). Two listed exceptions remain (optional durations whose empty value is
  harmless by construction); `Match.KeepFiringFor`, never validated before, is validated since 87d8211.
* `dropped_error_is_safe` — why that is enough for pure constructors: a constructor is a function of its argument,
  so if validation saw `ok v`, the later call with the error dropped yields the same `v`.
* `mustExpand_total` — the one constructor that also depends on the rule (`TemplatedRegexp.Expand`): after fix
  9274a61 `MustExpand` returns a pattern for every rule (the expansion's result or the never-matching pattern), so
  the checks never see a nil regexp.

The rest of the property (every block and option × hostile rule files) is decided by running generated
configurations through `config.Load` and, when accepted, a full in-process lint under `recover`.
-/
namespace Pint.Props.C18
open Pint.Gen.ConfigUse

/-- the pattern text a use compiles against the one validation compiled (`$` = the configuration field): the same
text, or the validated pattern between `^` and `$` WITHOUT a group — anchors alone neither close nor open anything, so
they keep a valid pattern valid (assumption about Go's regexp syntax, listed in the trusted base). A group around the
pattern is a different matter: `\Qabc` is valid, `^(?:\Qabc)$` is not (the crash fixed by 9b0be7b) -/
def sameValidity (usePat validatedPat : String) : Bool :=
  usePat == validatedPat || (validatedPat == "$" && usePat == "\"^\" + $ + \"$\"")

/-- the condition the validation sits under (the field written `$`): none, or one of the conditions the use sits under. `if $ != "" { validate }` with an unconditional use lets the empty string through unvalidated (the
`report { severity = "" }` defect) -/
def guardCovers (u v : Row) : Bool := v.guards.all u.guards.contains

def sameField (u v : Row) : Bool :=
  v.typ == u.typ && v.field == u.field && v.fam == u.fam && sameValidity u.pat v.pat && guardCovers u v

/-- dropped errors that no validate method covers, and why they cannot crash -/
def exceptions : List (String × String × String) :=
  [ -- validated only when not empty, used always: the empty string gives the zero duration, which means "no limit"
    ("CostSettings", "MaxEvaluationDuration", "duration"),
    -- validated only when not empty; an empty value is replaced by the two minute default right before the use
    ("PrometheusQuery", "Timeout", "duration") ]
  -- Match.KeepFiringFor used to be here (never validated); validated since fix 87d8211

def covered (u : Row) : Bool :=
  validates.any (sameField u) || exceptions.contains (u.typ, u.field, u.fam)

theorem validated_before_use : uses.all covered = true := by decide

/-- the table is not trivially small: the extractor recognised the construction sites -/
theorem table_not_empty : 35 ≤ uses.length ∧ 35 ≤ validates.length := by decide

/-- a constructor with its error: `Except` in Go clothing -/
def dropError {α : Type} (dflt : α) : Except String α → α
  | .ok v => v
  | .error _ => dflt

/-- validation succeeded on `s` ⇒ constructing again from `s` and dropping the error gives the validated value -/
theorem dropped_error_is_safe {α : Type} (ctor : String → Except String α) (dflt : α) (s : String) (v : α)
    (h : ctor s = .ok v) : dropError dflt (ctor s) = v := by
  simp [dropError, h]

/-- `MustExpand` after the fix: total, whatever `Expand` does for the rule at hand -/
def mustExpand {Re Rule : Type} (expand : Rule → Except String Re) (neverMatches : Re) (r : Rule) : Re :=
  dropError neverMatches (expand r)

theorem mustExpand_total {Re Rule : Type} (expand : Rule → Except String Re) (neverMatches : Re) (r : Rule) :
    mustExpand expand neverMatches r = neverMatches ∨ expand r = .ok (mustExpand expand neverMatches r) := by
  unfold mustExpand dropError
  cases h : expand r with
  | ok v => exact Or.inr rfl
  | error e => exact Or.inl rfl

end Pint.Props.C18
