import PintModel.Model.Series
import PintModel.Model.Range
/-!
# C16 — promql/series verdicts agree with what the server actually holds

The two clauses of the property over the modelled decision steps, for every combination of probe answers:

* `present_now_never_missing`: a selector that currently returns series gets no problem, whatever the later probes
  would say;
* `never_present_is_bug`: a base metric without any time range in the lookback window, no producing rule and no
  exemption gets the Bug (Warning under ignoreMetrics, Information with a producer: the stated exemptions).

`no_samples_no_ranges` / `samples_give_ranges` link "no time range" to "no sample on the lookback grid" through the C13
model of `AppendSampleToRanges`.  The probes themselves (count(...) evaluated by the server, range slicing and
merging) are C13's and the engine's; what the real check does with real probe answers is compared with `verdict`
case by case (correspondence `seriesverdict`), and the property is checked end to end against a fake Prometheus
backed by the real PromQL engine.
-/
namespace Pint.Props.C16
open Pint.Series

theorem present_now_never_missing (p : Probe) (hi : p.isAlerts = false) (he : p.instantErr = false)
    (h : p.instantCount > 0) : verdict p = .none := by
  unfold verdict
  by_cases hd : (p.disabled || p.snoozed) = true
  · simp [hd]
  · simp [hd, hi, he, h]

theorem never_present_is_bug (p : Probe) (hd : p.disabled = false) (hs : p.snoozed = false) (ha : p.isAlerts = false)
    (he : p.instantErr = false) (hc : p.instantCount = 0) (hb : p.bareEmpty = false) (hbe : p.baseErr = false)
    (hr : p.baseRanges = 0) (hp : p.producer = false) (ho : p.otherServers = true) (hi : p.ignored = false) :
    verdict p = .bug := by
  simp [verdict, hd, hs, ha, he, hc, hb, hbe, hr, hp, ho, hi]

/-- the stated exemptions and nothing else turn the Bug into something milder -/
theorem never_present_verdicts (p : Probe) (hd : p.disabled = false) (hs : p.snoozed = false) (ha : p.isAlerts = false)
    (he : p.instantErr = false) (hc : p.instantCount = 0) (hb : p.bareEmpty = false) (hbe : p.baseErr = false)
    (hr : p.baseRanges = 0) :
    verdict p = (if p.producer then .information else if !p.otherServers then .none else if p.ignored then .warning else .bug) := by
  simp [verdict, hd, hs, ha, he, hc, hb, hbe, hr]

/-- a problem for a selector that is there now can only be an API error or the ALERTS rule -/
theorem problem_implies_absent_or_error (p : Probe) (h : verdict p ≠ .none) (hne : verdict p ≠ .error) (hna : verdict p ≠ .unknownAlert) :
    p.instantCount = 0 := by
  cases hc : p.instantCount with
  | zero => rfl
  | succ n =>
    exfalso
    unfold verdict at h hne hna
    by_cases hd : (p.disabled || p.snoozed) = true
    · simp [hd] at h
    · by_cases hal : p.isAlerts = true
      · by_cases hq : (p.alertNamed && !p.alertRuleStays) = true
        · simp [hd, hal, hq] at hna
        · simp [hd, hal, hq] at h
      · by_cases her : p.instantErr = true
        · simp [hd, hal, her] at hne
        · simp [hd, hal, her, hc] at h

/-- step 0: an ALERTS selector is a problem exactly when an equality matcher names an alert that no rule of the checked
set will fire (a `!=` or regexp matcher names nothing; a rule that is being removed fires nothing) -/
theorem alerts_selector_verdict (p : Probe) (hd : p.disabled = false) (hs : p.snoozed = false) (ha : p.isAlerts = true) :
    (verdict p = .unknownAlert ↔ (p.alertNamed = true ∧ p.alertRuleStays = false)) ∧
    (verdict p ≠ .unknownAlert → verdict p = .none) := by
  unfold verdict
  cases hn : p.alertNamed <;> cases hr : p.alertRuleStays <;> simp [hd, hs, ha]

example : verdict { (default : Probe) with isAlerts := true, alertNamed := true, alertRuleStays := false } = .unknownAlert := by decide
example : verdict { (default : Probe) with isAlerts := true, alertNamed := false } = .none := by decide

/-! "no time range" is "no sample on the grid" (C13 model of AppendSampleToRanges) -/
open Pint.Range in
theorem no_samples_no_ranges (step : Int) (fp : Nat) : appendSamples step fp [] [] = [] := by
  simp [appendSamples]

open Pint.Range in
theorem samples_give_ranges (step : Int) (fp : Nat) (t : Int) (ts : List Int) : appendSamples step fp (t :: ts) [] ≠ [] := by
  have grow : ∀ (l : List Int) (acc : List MTR), acc ≠ [] → appendSamples step fp l acc ≠ [] := by
    intro l
    induction l with
    | nil => intro acc h; simpa [appendSamples] using h
    | cons x xs ih =>
      intro acc h
      simp only [appendSamples, List.foldl_cons]
      apply ih
      cases acc with
      | nil => exact absurd rfl h
      | cons a as =>
        simp only [appendSample]
        by_cases h1 : a.fp ≠ fp
        · simp [h1]
        · by_cases h2 : a.s - step ≤ x ∧ x ≤ a.s
          · simp [h1, h2]
          · by_cases h3 : a.s ≤ x ∧ x ≤ a.e + step
            · simp [h1, h2, h3]
            · simp [h1, h2, h3]
  simp only [appendSamples, List.foldl_cons]
  exact grow ts _ (by simp [appendSample])

/-! non-vacuity -/
def neverThere : Probe := { isAlerts := false, alertNamed := false, alertRuleStays := false, disabled := false, snoozed := false, instantErr := false, instantCount := 0, bareEmpty := false, baseErr := false, baseRanges := 0, producer := false, otherServers := true, ignored := false }
example : verdict neverThere = .bug := by decide
example : verdict { neverThere with instantCount := 3 } = .none := by decide

end Pint.Props.C16
