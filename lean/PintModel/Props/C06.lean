import PintModel.Model.Position
namespace Pint.Props.C06
theorem placeholder : True := trivial
end Pint.Props.C06
