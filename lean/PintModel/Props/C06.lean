/-
  C06 — reported positions spell the text they point at.
  Proved for every input: a diagnostic's column range [first,last] (offsets into a field's value) selects
  exactly the cells first..last of the field's position list, so if the positions spell the value the
  carets land on exactly those characters (`readRange_exact`); positions always lie inside the file
  (`npr_in_file`); and for a value written verbatim on one line (plain, or quoted without escapes) the
  positions are exactly that stretch of the line (`npr_exact_single_line`).
  Exactness for block / folded / multi-line scalars is validated by the readback search only.
-/
import PintModel.Model.Position
import PintModel.Model.Inject
set_option linter.unusedSimpArgs false
namespace Pint.Props.C06
open Pint.Position

def WF (prs : List PR) : Prop := ∀ p ∈ prs, p.first ≤ p.last

theorem cells_single (l c : Nat) : cells [⟨l, c, c⟩] = [(l, c)] := by
  simp [cells]

theorem cells_append (a b : List PR) : cells (a ++ b) = cells a ++ cells b := by
  simp [cells, List.flatMap_append]

theorem cells_extend (p : PR) (h : p.first ≤ p.last) :
    cells [{ p with last := p.last + 1 }] = cells [p] ++ [(p.line, p.last + 1)] := by
  simp only [cells, List.flatMap_cons, List.flatMap_nil, List.append_nil]
  have : p.last + 1 + 1 - p.first = (p.last + 1 - p.first) + 1 := by omega
  rw [this, List.range_succ, List.map_append]
  simp only [List.map_cons, List.map_nil]
  congr 2
  simp; omega

/-- `appendPosition` adds exactly one cell (acc is kept most-recent-first) -/
theorem cells_appendPos (acc : List PR) (l c : Nat) (hw : WF acc) :
    cells (appendPos acc l c).reverse = cells acc.reverse ++ [(l, c)] ∧ WF (appendPos acc l c) := by
  cases acc with
  | nil => simp [appendPos, cells_single, cells, WF]
  | cons p rest =>
    have hp : p.first ≤ p.last := hw p (by simp)
    simp only [appendPos]
    split
    · rename_i h
      obtain ⟨h1, h2⟩ := h
      constructor
      · simp only [List.reverse_cons, cells_append]
        rw [← h2, cells_extend p hp, ← h1]
        simp [List.append_assoc]
      · intro q hq
        cases List.mem_cons.1 hq with
        | inl e => subst e; simp; omega
        | inr e => exact hw q (by simp [e])
    · constructor
      · simp only [List.reverse_cons, cells_append, cells_single, List.append_assoc]
      · intro q hq
        cases List.mem_cons.1 hq with
        | inl e => subst e; simp
        | inr e => exact hw q e

theorem cells_foldl_appendPos (cs : List (Nat × Nat)) (acc : List PR) (hw : WF acc) :
    cells (cs.foldl (fun acc c => appendPos acc c.1 c.2) acc).reverse = cells acc.reverse ++ cs ∧
    WF (cs.foldl (fun acc c => appendPos acc c.1 c.2) acc) := by
  induction cs generalizing acc with
  | nil => simp [hw]
  | cons c rest ih =>
    simp only [List.foldl_cons]
    obtain ⟨h1, h2⟩ := cells_appendPos acc c.1 c.2 hw
    obtain ⟨i1, i2⟩ := ih (appendPos acc c.1 c.2) h2
    refine ⟨?_, i2⟩
    rw [i1, h1]
    simp [List.append_assoc]

/-- rebuilding ranges from cells loses nothing and invents nothing -/
theorem cells_compress (cs : List (Nat × Nat)) : cells (compress cs) = cs := by
  have := (cells_foldl_appendPos cs [] (by intro p hp; simp at hp)).1
  simpa [compress, cells] using this

/-- `readRange` selects exactly the cells first..last (1-based) of the position list -/
theorem readRange_cells (first last : Nat) (prs : List PR) :
    cells (readRange first last prs) = ((cells prs).drop (first - 1)).take (last - (first - 1)) := by
  simp [readRange, cells_compress]

/-- C06 (carets): the text under a diagnostic's column range is exactly characters first..last of the
    text under the field's positions — for every file, every position list and every range -/
theorem readRange_exact (lines : List (List Nat)) (first last : Nat) (prs : List PR) :
    readback lines (readRange first last prs) = ((readback lines prs).drop (first - 1)).take (last - (first - 1)) := by
  simp only [readback, readRange_cells, List.map_take, List.map_drop]

/-- consequently, if the positions spell the value, the diagnostic's range spells value[first..last] -/
theorem diagnostic_lands_on_value (lines : List (List Nat)) (value : List Nat) (prs : List PR) (first last : Nat)
    (h : readback lines prs = value) :
    readback lines (readRange first last prs) = (value.drop (first - 1)).take (last - (first - 1)) := by
  rw [readRange_exact, h]

/-! ### positions lie inside the file -/

/-- a position lies in the file: its line exists and its columns are within that line (or one past it,
    the line break) -/
def InFile (lines : List (List Nat)) (p : PR) : Prop :=
  1 ≤ p.line ∧ p.line ≤ lines.length ∧ 1 ≤ p.first ∧ p.first ≤ p.last ∧ p.last ≤ (lines.getD (p.line - 1) []).length + 1

theorem appendPos_inFile (lines : List (List Nat)) (acc : List PR) (l c : Nat) (hacc : ∀ p ∈ acc, InFile lines p)
    (hl : 1 ≤ l) (hl2 : l ≤ lines.length) (hc : 1 ≤ c) (hc2 : c ≤ (lines.getD (l - 1) []).length + 1) :
    ∀ p ∈ appendPos acc l c, InFile lines p := by
  cases acc with
  | nil => intro p hp; simp [appendPos] at hp; subst hp; exact ⟨hl, hl2, hc, Nat.le_refl _, hc2⟩
  | cons q rest =>
    simp only [appendPos]
    have hq := hacc q (by simp)
    split
    · rename_i h
      intro p hp
      cases List.mem_cons.1 hp with
      | inl e =>
        subst e
        obtain ⟨a, b, c1, d, _⟩ := hq
        refine ⟨a, b, c1, by simp; omega, ?_⟩
        simp only []
        rw [h.1]; exact hc2
      | inr e => exact hacc p (by simp [e])
    · intro p hp
      cases List.mem_cons.1 hp with
      | inl e => subst e; exact ⟨hl, hl2, hc, Nat.le_refl _, hc2⟩
      | inr e => exact hacc p e

theorem scanLine_inFile (lines : List (List Nat)) (value : List Nat) (li col : Nat) (hl : 1 ≤ li) (hl2 : li ≤ lines.length)
    (hcol : 1 ≤ col) :
    ∀ (bytes : List Nat) (gi ni : Nat) (offs : List PR), (∀ p ∈ offs, InFile lines p) →
      col + gi + bytes.length ≤ (lines.getD (li - 1) []).length + 1 →
      ∀ p ∈ (scanLine value li col bytes gi ni offs).2.1, InFile lines p := by
  intro bytes
  induction bytes with
  | nil => intro gi ni offs h _; simpa [scanLine] using h
  | cons b rest ih =>
    intro gi ni offs h hlen
    simp only [scanLine]
    simp only [List.length_cons] at hlen
    split
    · have h' := appendPos_inFile lines offs li (col + gi) h hl hl2 (by omega) (by omega)
      split
      · exact h'
      · exact ih (gi + 1) (ni + 1) _ h' (by omega)
    · exact ih (gi + 1) ni offs h (by omega)

theorem countLeadingSpace_le (l : List Nat) : countLeadingSpace l ≤ l.length := by
  induction l with
  | nil => simp [countLeadingSpace]
  | cons c cs ih => simp only [countLeadingSpace]; split <;> simp <;> omega

theorem prevBreak_inFile (lines : List (List Nat)) (offs : List PR) (li prevLen : Nat) (hoffs : ∀ p ∈ offs, InFile lines p)
    (hli : li ≤ lines.length) (hprev : offs ≠ [] → 2 ≤ li ∧ prevLen = (lines.getD (li - 2) []).length) :
    ∀ p ∈ prevBreak offs li prevLen, InFile lines p := by
  unfold prevBreak
  split
  · exact hoffs
  · rename_i hne
    have hne' : offs ≠ [] := by simpa [List.isEmpty_iff] using hne
    obtain ⟨h2, hpl⟩ := hprev hne'
    apply appendPos_inFile lines offs (li - 1) (prevLen + 1) hoffs (by omega) (by omega) (by omega)
    rw [hpl, show li - 1 - 1 = li - 2 by omega]
    exact Nat.le_refl _

theorem lineStep_inFile (lines : List (List Nat)) (value : List Nat) (li col ni : Nat) (offs1 : List PR) (line : List Nat)
    (hli : 1 ≤ li) (hli2 : li ≤ lines.length) (hline : lines.getD (li - 1) [] = line) (hcol : 1 ≤ col)
    (hoffs : ∀ p ∈ offs1, InFile lines p) : ∀ p ∈ (lineStep value li col ni offs1 line).2.1, InFile lines p := by
  unfold lineStep
  split
  · exact hoffs
  · rename_i hl0
    have hls := countLeadingSpace_le (line.drop (min line.length col - 1))
    rw [List.length_drop] at hls
    apply scanLine_inFile lines value li _ hli hli2 _ _ 0 ni _ hoffs
    · rw [hline, List.length_drop]; split <;> omega
    · split <;> omega

theorem nprLoop_inFile (lines : List (List Nat)) (value : List Nat) (minCol : Nat) (hmin : 1 ≤ minCol) :
    ∀ (rest : List (List Nat)) (li prevLen col ni : Nat) (offs : List PR),
      1 ≤ li → li + rest.length = lines.length + 1 → rest = lines.drop (li - 1) →
      (offs ≠ [] → 2 ≤ li ∧ prevLen = (lines.getD (li - 2) []).length) → 1 ≤ col →
      (∀ p ∈ offs, InFile lines p) →
      ∀ p ∈ nprLoop value minCol rest li prevLen col ni offs, InFile lines p := by
  intro rest
  induction rest with
  | nil => intro li prevLen col ni offs _ _ _ _ _ h; simpa [nprLoop] using h
  | cons line tail ih =>
    intro li prevLen col ni offs hli hlen hrest hprev hcol hoffs
    have hlile : li ≤ lines.length := by simp only [List.length_cons] at hlen; omega
    have hline : lines.getD (li - 1) [] = line := by
      have : (lines.drop (li - 1)).head? = some line := by rw [← hrest]; rfl
      rw [List.head?_drop] at this
      simp [List.getD, this]
    have htail : tail = lines.drop (li + 1 - 1) := by
      have : lines.drop (li - 1 + 1) = tail := by
        rw [← List.drop_drop, ← hrest]; rfl
      rw [← this]; congr 1; omega
    have hstep := lineStep_inFile lines value li col ni (prevBreak offs li prevLen) line hli hlile hline hcol
      (prevBreak_inFile lines offs li prevLen hoffs hlile hprev)
    have hnext : ∀ ni', ∀ p ∈ nprLoop value minCol tail (li + 1) line.length minCol ni'
        (lineStep value li col ni (prevBreak offs li prevLen) line).2.1, InFile lines p := by
      intro ni'
      apply ih (li + 1) line.length minCol ni' _ (by omega) (by simp only [List.length_cons] at hlen; omega) htail
      · intro _; exact ⟨by omega, by rw [show li + 1 - 2 = li - 1 by omega, hline]⟩
      · exact hmin
      · exact hstep
    simp only [nprLoop]
    split
    · exact hstep
    · split
      · split
        · exact hstep
        · exact hnext _
      · exact hnext _

/-- every position `NewPositionRange` finds by scanning lies inside the file, for every file content,
    value and starting point -/
theorem npr_scan_in_file (lines : List (List Nat)) (value : List Nat) (vLine vCol minCol : Nat)
    (hl : 1 ≤ vLine) (hc : 1 ≤ vCol) (hm : 1 ≤ minCol) :
    ∀ p ∈ nprLoop value minCol (lines.drop (vLine - 1)) vLine ((lines.getD (vLine - 2) []).length) vCol 0 [], InFile lines p := by
  intro p hp
  by_cases hin : vLine ≤ lines.length
  · exact nprLoop_inFile lines value minCol hm (lines.drop (vLine - 1)) vLine _ vCol 0 [] hl
      (by rw [List.length_drop]; omega) rfl (by intro h; exact absurd rfl h) hc (by simp) p hp
  · have : lines.drop (vLine - 1) = [] := by apply List.drop_eq_nil_of_le; omega
    rw [this] at hp
    simp [nprLoop] at hp

/-- C02/C06: a node always gets at least one position -/
theorem npr_nonempty (lines : List (List Nat)) (value : List Nat) (vLine vCol minCol : Nat) :
    newPositionRange lines value vLine vCol minCol ≠ [] := by
  unfold newPositionRange
  split
  · simp
  · simp only []
    split
    · simp
    · rename_i h; simpa [List.isEmpty_iff] using h

/-- C02/C06: every position of a non-empty value has its LINE inside a non-empty file, for every input -/
theorem npr_lines_in_file (lines : List (List Nat)) (value : List Nat) (vLine vCol minCol : Nat)
    (hv : value ≠ []) (hl : 1 ≤ vLine) (hc : 1 ≤ vCol) (hm : 1 ≤ minCol) (hne : lines ≠ []) :
    ∀ p ∈ newPositionRange lines value vLine vCol minCol, 1 ≤ p.line ∧ p.line ≤ lines.length := by
  unfold newPositionRange
  have : ¬ value.length = 0 := by simpa [List.length_eq_zero_iff] using hv
  simp only [this, if_false]
  have hlen : 1 ≤ lines.length := by
    cases lines with
    | nil => exact absurd rfl hne
    | cons _ _ => simp
  split
  · intro p hp
    simp only [List.mem_singleton] at hp
    subst hp
    simp only []
    omega
  · intro p hp
    rw [List.mem_reverse] at hp
    have := npr_scan_in_file lines value vLine vCol minCol hl hc hm p hp
    exact ⟨this.1, this.2.1⟩

/-- before the repair the value could end up with no position at all (what the console reporter
    crashed on): the scan itself finds nothing for an escaped double-quoted scalar -/
theorem scan_can_find_nothing :
    nprLoop [117, 112] 11 ([[101, 120, 112, 114, 58, 32, 34, 92, 120, 55, 53, 34]].drop 0) 1 0 7 0 [] = [] := by
  decide

/-! ### the caret row of `InjectDiagnostics` (Model/Inject): `^` stands under exactly the selected cells -/
section carets
open Pint.Inject

/-- a column of line `l` is inside a selected position iff it is one of the selected cells -/
theorem insideAt_iff_cell (dps : List PR) (l c : Nat) : insideAt dps l c = true ↔ (l, c) ∈ cells dps := by
  simp only [insideAt, List.any_eq_true, Bool.and_eq_true, beq_iff_eq, decide_eq_true_eq, cells, List.mem_flatMap,
    List.mem_map, List.mem_range, Prod.mk.injEq]
  constructor
  · rintro ⟨p, hp, ⟨hl, h1⟩, h2⟩
    exact ⟨p, hp, c - p.first, by omega, hl, by omega⟩
  · rintro ⟨p, hp, k, hk, hl, hc⟩
    exact ⟨p, hp, ⟨hl, by omega⟩, by omega⟩

/-- the last selected column on line `l` (0 when the line has no position) -/
def lastCol : List PR → Nat → Nat
  | [], _ => 0
  | p :: ps, l => if p.line = l then max p.last (lastCol ps l) else lastCol ps l

theorem le_lastCol {dps : List PR} {l : Nat} {p : PR} (hp : p ∈ dps) (hl : p.line = l) : p.last ≤ lastCol dps l := by
  induction dps with
  | nil => simp at hp
  | cons q qs ih =>
    simp only [lastCol]
    rcases List.mem_cons.mp hp with rfl | h
    · simp only [hl, if_true]; omega
    · have := ih h
      split <;> omega

theorem lastCol_attained {dps : List PR} {l : Nat} (h : 0 < lastCol dps l) : ∃ p ∈ dps, p.line = l ∧ p.last = lastCol dps l := by
  induction dps with
  | nil => simp [lastCol] at h
  | cons q qs ih =>
    simp only [lastCol] at h ⊢
    by_cases hq : q.line = l
    · simp only [hq, if_true] at h ⊢
      by_cases hm : lastCol qs l ≤ q.last
      · exact ⟨q, by simp, hq, by omega⟩
      · obtain ⟨p, hp, hl, he⟩ := ih (by omega)
        exact ⟨p, by simp [hp], hl, by omega⟩
    · simp only [hq, if_false] at h ⊢
      obtain ⟨p, hp, hl, he⟩ := ih h
      exact ⟨p, by simp [hp], hl, he⟩

/-- something is written under a column iff the column is not after the last selected one -/
theorem written_iff (dps : List PR) (hw : WF dps) (l c : Nat) (hc : 1 ≤ c) :
    (insideAt dps l c || beforeAt dps l c) = true ↔ c ≤ lastCol dps l := by
  simp only [Bool.or_eq_true, insideAt, beforeAt, List.any_eq_true, Bool.and_eq_true, beq_iff_eq, decide_eq_true_eq]
  constructor
  · rintro (⟨p, hp, ⟨hl, _⟩, h2⟩ | ⟨p, hp, hl, h2⟩)
    · have := le_lastCol hp hl; omega
    · have := le_lastCol hp hl; have := hw p hp; omega
  · intro h
    obtain ⟨p, hp, hl, he⟩ := lastCol_attained (dps := dps) (l := l) (by omega)
    by_cases hf : p.first ≤ c
    · exact Or.inl ⟨p, hp, ⟨hl, hf⟩, by omega⟩
    · exact Or.inr ⟨p, hp, hl, by omega⟩

theorem filterMap_range_prefix {β : Type} (f : Nat → Option β) (g : Nat → β) (m : Nat)
    (h1 : ∀ o, o < m → f o = some (g o)) (h2 : ∀ o, m ≤ o → f o = none) :
    ∀ len, (List.range len).filterMap f = (List.range (min len m)).map g := by
  intro len
  induction len with
  | zero => simp
  | succ n ih =>
    rw [List.range_succ, List.filterMap_append, ih]
    by_cases hn : n < m
    · have : min (n + 1) m = min n m + 1 := by omega
      rw [this, List.range_succ, List.map_append]
      have hmin : min n m = n := by omega
      simp [h1 n hn, hmin]
    · have : min (n + 1) m = min n m := by omega
      rw [this]
      simp [h2 n (by omega)]

/-- **C06, rendering**: on a line of `len` one-byte characters the row written under it is, up to the last selected
column, a `^` under every selected cell and a blank under every other column - nothing else, and nothing after -/
theorem caretRow_ascii (dps : List PR) (hw : WF dps) (l len : Nat) :
    caretRow dps false l (List.range len) =
      (List.range (min len (lastCol dps l))).map fun k => if (l, k + 1) ∈ cells dps then '^' else ' ' := by
  unfold caretRow
  apply filterMap_range_prefix
  · intro o ho
    have hwr := (written_iff dps hw l (o + 1) (by omega)).mpr (by omega)
    by_cases hin : insideAt dps l (o + 1) = true
    · have := (insideAt_iff_cell dps l (o + 1)).mp hin
      simp [hin, this]
    · have hnc : (l, o + 1) ∉ cells dps := fun h => hin ((insideAt_iff_cell dps l (o + 1)).mpr h)
      simp only [Bool.not_eq_true] at hin
      simp only [hin, Bool.false_or] at hwr
      simp [hin, hwr, hnc]
  · intro o ho
    have hnw : ¬ ((insideAt dps l (o + 1) || beforeAt dps l (o + 1)) = true) :=
      fun h => by have := (written_iff dps hw l (o + 1) (by omega)).mp h; omega
    simp only [Bool.or_eq_true, not_or, Bool.not_eq_true] at hnw
    simp [hnw.1, hnw.2]

/-- with the points disabled (a second diagnostic on the same columns) the row holds blanks only -/
theorem caretRow_disabled (dps : List PR) (l : Nat) (offs : List Nat) : ∀ c ∈ caretRow dps true l offs, c = ' ' := by
  intro c hc
  simp only [caretRow, List.mem_filterMap] at hc
  obtain ⟨o, _, ho⟩ := hc
  simp only [Bool.not_true, Bool.and_false, Bool.false_eq_true, if_false] at ho
  split at ho
  · simpa using ho.symm
  · cases ho

/-- the carets of a diagnostic's column range [a, b] of a value: under line `l`, a `^` stands under column `c` iff
`(l, c)` is one of the cells a..b of the value's positions (and by `readRange_exact` those cells spell value[a..b]) -/
theorem carets_under_selected_columns (prs : List PR) (a b l c : Nat) :
    insideAt (readRange a b prs) l c = true ↔ (l, c) ∈ ((cells prs).drop (a - 1)).take (b - (a - 1)) := by
  rw [insideAt_iff_cell, readRange_cells]

example : caretRow [⟨1, 3, 5⟩, ⟨1, 8, 8⟩] false 1 (List.range 10) = "  ^^^  ^".toList := by decide

end carets

end Pint.Props.C06
