/-
  C08 — every check is switched on and off by the name it reports under.
  Table theorems are decided over the WHOLE registration table regenerated from the source;
  the filter theorem is unbounded in configurations, entries and instances.
-/
import PintModel.Lemmas.Enable
import PintModel.Gen.Checks
set_option linter.unusedSimpArgs false
namespace Pint.Props.C08
open Pint.Enable Pint.Gen.Checks

/-! ### facts about the source, over the whole regenerated table -/

def kindOf (typ : String) : Option Gen.Checks.Kind := kinds.find? (·.typ = typ)

/-- every registration (baseRules and every configurable block of parseRule) registers its check
    under the name its problems are reported with -/
theorem registered_eq_reporter :
    ∀ r ∈ registrations, (kindOf r.typ).map (·.reporter) = some r.name := by decide

/-- every check type builds its problems with `c.Reporter()` -/
theorem problems_use_reporter : ∀ k ∈ kinds, ∀ p ∈ k.problemReporters, p = "c.Reporter()" := by decide

/-- every reporter is a documented check name (the parse-error check reports under the error's own name) -/
theorem reporter_in_checkNames : ∀ k ∈ kinds, k.typ ≠ "ErrorCheck" → k.reporter ∈ checkNames := by decide

/-- `String()` is the reporter name, optionally followed by "(...)" -/
theorem string_has_name_prefix : ∀ k ∈ kinds, k.typ ≠ "ErrorCheck" → k.stringHead = k.reporter := by decide

/-- a check is marked online iff its name is in the documented OnlineChecks list, so `--offline`
    removes nothing that reports under another name -/
theorem online_iff_listed : ∀ k ∈ kinds, k.online = onlineChecks.contains k.reporter := by decide

theorem online_subset_names : ∀ n ∈ onlineChecks, n ∈ checkNames := by decide

/-- only the parse-error check is unconditional -/
theorem always_enabled_only_error : ∀ k ∈ kinds, k.alwaysEnabled = true ↔ k.typ = "ErrorCheck" := by decide

/-! ### the filter theorem -/

/-- N names instance i in one of the three accepted spellings -/
def hit (N : String) (i : Inst) : Bool := N = i.name || N = i.str || (tagged i.name i.tags).contains N

theorem isEnabledBy_cons_of_not_hit (enabled d : List String) (N : String) (e : Entry) (i : Inst) (h : hit N i = false) :
    isEnabledBy enabled (N :: d) e i = isEnabledBy enabled d e i := by
  simp only [hit, Bool.or_eq_false_iff, decide_eq_false_iff_not] at h
  obtain ⟨⟨h1, h2⟩, h3⟩ := h
  have h3' : N ∉ tagged i.name i.tags := by simpa using h3
  simp [isEnabledBy, List.any_cons, h1, h2, h3']

theorem isEnabledBy_cons_of_hit (enabled d : List String) (N : String) (e : Entry) (i : Inst)
    (h : hit N i = true) (ha : i.always = false) : isEnabledBy enabled (N :: d) e i = false := by
  have hany : ((N :: d).any fun c => c = i.name || c = i.str || (tagged i.name i.tags).contains c) = true := by
    simp only [List.any_cons, Bool.or_eq_true]
    left
    simpa [hit] using h
  unfold isEnabledBy
  simp only [ha, Bool.false_eq_true, if_false, hany, if_true]
  split <;> rfl

/-- hypotheses under which "disable N" is a pure filter: N names exactly the instances reporting under N,
    equal `String()` means equal reporter (table theorem string_has_name_prefix), no instance of N is
    unconditional, and no matching `rule { enable = [N] }` re-enables it. -/
structure Clean (N : String) (rules : List CfgRule) (all : List Inst) : Prop where
  hit_iff : ∀ i ∈ all, hit N i = decide (i.reporter = N)
  str_inj : ∀ i ∈ all, ∀ j ∈ all, i.str = j.str → i.reporter = j.reporter
  not_always : ∀ i ∈ all, i.reporter = N → i.always = false
  not_enabled : ∀ i ∈ all, i.reporter = N → ∀ r ∈ rules, i.name ∉ r.enable

theorem instEnabled_cons (re : Re) (cmd : String) (enabled d : List String) (rules : List CfgRule)
    (dup : Bool) (e : Entry) (i : Inst) (N : String) (h : hit N i = false) :
    instEnabled re cmd enabled (N :: d) rules dup e i = instEnabled re cmd enabled d rules dup e i := by
  unfold instEnabled
  simp only [isEnabledBy_cons_of_not_hit enabled d N e i h]

theorem go_none_or_false (i : Inst) (rs : List CfgRule) (en : Bool)
    (h : ∀ r ∈ rs, i.name ∉ r.enable) (hen : en = false) :
    instEnabled.go i rs en = none ∨ instEnabled.go i rs en = some false := by
  induction rs generalizing en with
  | nil => right; simp [instEnabled.go, hen]
  | cons r rest ih =>
    simp only [instEnabled.go]
    split
    · left; rfl
    · apply ih
      · intro r' hr'; exact h r' (by simp [hr'])
      · have hx : i.name ∉ r.enable := h r (by simp)
        simp [hen, hx]

theorem instEnabled_hit (re : Re) (cmd : String) (enabled d : List String) (rules : List CfgRule)
    (dup : Bool) (e : Entry) (i : Inst) (N : String) (h : hit N i = true) (ha : i.always = false)
    (hne : ∀ r ∈ rules, i.name ∉ r.enable) :
    instEnabled re cmd enabled (N :: d) rules dup e i = false := by
  unfold instEnabled
  split
  · rfl
  · split
    · rfl
    · have hgo := go_none_or_false i (rules.filter fun r => isMatch re cmd e r.ignore r.match_) false
        (fun r hr => hne r (List.mem_filter.1 hr).1) rfl
      cases hgo with
      | inl h0 => simp [h0]
      | inr h0 => simp [h0, isEnabledBy_cons_of_hit enabled d N e i h ha]

/-- C08 (disable): adding N to the disabled list removes exactly the checks reporting under N and
    leaves the selection of every other check unchanged, for every configuration, entry and command. -/
theorem disable_by_name_exact (re : Re) (cmd : String) (enabled d : List String) (rules : List CfgRule) (e : Entry)
    (N : String) (insts : List Inst) (hc : Clean N rules insts) :
    getChecks re cmd enabled (N :: d) rules e insts =
      (getChecks re cmd enabled d rules e insts).filter fun i => !decide (i.reporter = N) := by
  unfold getChecks
  rw [selectFrom_eq_gen, selectFrom_eq_gen]
  have := selectGen_filter
    (fun dup i => isMatch re cmd e i.ignore i.match_ && instEnabled re cmd enabled d rules dup e i)
    (fun dup i => isMatch re cmd e i.ignore i.match_ && instEnabled re cmd enabled (N :: d) rules dup e i)
    (fun i => decide (i.reporter = N)) insts
    (by
      intro i hi hd b
      have hh : hit N i = false := by rw [hc.hit_iff i hi]; exact hd
      simp only [instEnabled_cons re cmd enabled d rules b e i N hh])
    (by
      intro i hi hd b
      have hN : i.reporter = N := by simpa using hd
      have hh : hit N i = true := by rw [hc.hit_iff i hi]; exact hd
      simp [instEnabled_hit re cmd enabled d rules b e i N hh (hc.not_always i hi hN) (hc.not_enabled i hi hN)])
    (by
      intro i hi j hj hs
      simp [hc.str_inj i hi j hj hs])
    insts [] (fun _ h => h) (by simp)
  simpa using this

/-- `--offline` = disabling the documented online names, one by one -/
theorem offline_eq_disable_online (disabled : List String) :
    ∀ n, n ∈ disableOnline onlineChecks disabled ↔ n ∈ disabled ∨ n ∈ onlineChecks := by
  intro n
  unfold disableOnline
  generalize onlineChecks = on
  induction on generalizing disabled with
  | nil => simp
  | cons a rest ih =>
    simp only [List.foldl_cons]
    rw [ih]
    by_cases h : disabled.contains a = true
    · have : a ∈ disabled := by simpa using h
      simp only [h, if_true]
      grind
    · simp only [h, Bool.false_eq_true, if_false]
      grind

end Pint.Props.C08
