/-
  C10 — text excluded by ignore comments cannot influence the result (reader level).
  Property theorems only; helper lemmas live in Lemmas/Reader.lean.
-/
import PintModel.Lemmas.Reader
set_option linter.unusedSimpArgs false
namespace Pint.Props.C10
open Pint.Comments Pint.Reader Pint.Spec.Exclude

/-- what the rest of pint sees of a file: per line the (canonical) masked text, the forwarded
    file comments and the diagnostics -/
def readerOut (tsOk : List Char → Bool) (lastNL : Bool) (ls : List Line) : List COut :=
  (run tsOk lastNL ls).2.map canon

/-- FULL statement: files that agree outside excluded text (whatever the excluded text is,
    including text that looks like pint comments) give the same reader output. -/
def C10_statement : Prop :=
  ∀ (tsOk : List Char → Bool) (lastNL : Bool) (ls ls' : List Line),
    SameOutside tsOk false .normal ls ls' → readerOut tsOk lastNL ls = readerOut tsOk lastNL ls'

/-- abstraction relation between the documented state and the reader's four flags -/
def Abs : SState → RState → Prop
  | .normal, r => r.skipAll = false ∧ r.skipNext = false ∧ r.inBegin = false
  | .nextLine, r => r.skipAll = false ∧ r.skipNext = true ∧ r.autoReset = true ∧ r.inBegin = false
  | .block, r => r.skipAll = false ∧ r.skipNext = true ∧ r.autoReset = false ∧ r.inBegin = true
  | .file, r => r.skipAll = true ∧ r.inBegin = false

theorem abs_init : Abs .normal {} := by simp [Abs]

/-- one line, two files: the reader follows the documented state machine and produces equal
    canonical output, provided wholly excluded lines carry no control comment. -/
theorem step_rel (tsOk : List Char → Bool) (s : SState) (r r' : RState) (n : Nat) (nl : Bool) (l l' : Line)
    (ha : Abs s r) (ha' : Abs s r') (hrel : LineRel tsOk true s l l') :
    Abs (specStep tsOk s l).1 (stepLine tsOk r n nl l).1 ∧
    Abs (specStep tsOk s l).1 (stepLine tsOk r' n nl l').1 ∧
    canon (stepLine tsOk r n nl l).2 = canon (stepLine tsOk r' n nl l').2 := by
  obtain ⟨hspec, hcls⟩ := hrel
  cases s with
  | file =>
    simp only [specStep] at hcls ⊢
    obtain ⟨h1, h2⟩ := hcls trivial
    obtain ⟨a1, a2⟩ := ha
    obtain ⟨b1, b2⟩ := ha'
    simp [stepLine, stepCore, h1, h2, a1, a2, b1, b2, Abs, emptyLine_none, canon, canonLine_spaces]
  | nextLine =>
    simp only [specStep] at hcls ⊢
    obtain ⟨h1, h2⟩ := hcls trivial
    obtain ⟨a1, a2, a3, a4⟩ := ha
    obtain ⟨b1, b2, b3, b4⟩ := ha'
    simp [stepLine, stepCore, h1, h2, a1, a2, a3, a4, b1, b2, b3, b4, Abs, emptyLine_none, canon, canonLine_spaces]
  | block =>
    obtain ⟨a1, a2, a3, a4⟩ := ha
    obtain ⟨b1, b2, b3, b4⟩ := ha'
    by_cases hend : ctypeOf tsOk l = some .ignoreEnd
    · have hend' : ctypeOf tsOk l' = some .ignoreEnd := by
        apply Classical.byContradiction
        intro hne
        simp [specStep, hend, hne] at hspec
      simp only [specStep, hend, if_true] at hcls ⊢
      subst hcls
      simp only [ctypeOf, Option.map_eq_some_iff] at hend
      obtain ⟨c, hc, hct⟩ := hend
      simp [stepLine, stepCore, hc, hct, skipOf, forwarded, a1, b1, Abs, canon]
    · have hend' : ¬ ctypeOf tsOk l' = some .ignoreEnd := by
        intro he
        simp [specStep, hend, he] at hspec
      simp only [specStep, hend, if_false] at hcls ⊢
      obtain ⟨h1, h2⟩ := hcls trivial
      simp [stepLine, stepCore, h1, h2, a1, a2, a3, a4, b1, b2, b3, b4, Abs, emptyLine_none, canon, canonLine_spaces]
  | normal =>
    obtain ⟨a1, a2, a3⟩ := ha
    obtain ⟨b1, b2, b3⟩ := ha'
    cases hp : parseComment tsOk l with
    | none =>
      have hct : ctypeOf tsOk l = none := by simp [ctypeOf, hp]
      simp only [specStep, hct] at hcls ⊢
      subst hcls
      simp [stepLine, stepCore, hp, a1, a2, a3, b1, b2, b3, Abs, canon]
    | some c =>
      have hct : ctypeOf tsOk l = some c.ctype := by simp [ctypeOf, hp]
      cases hcc : c.ctype <;> simp only [specStep, hct, hcc] at hcls hspec ⊢
      case ignoreFile =>
        obtain ⟨p, p', t, c1, c1', hl, hl', hp1, hp1', ho, ho'⟩ := hcls
        have hc1 : c1 = c := by rw [hp] at hp1; exact (Option.some.inj hp1).symm
        subst hc1
        have hc1' : c1'.ctype = .ignoreFile := by
          cases h : c1'.ctype <;> simp [specStep, ctypeOf, hp1', h] at hspec
          rfl
        subst hl hl'
        simp [stepLine, stepCore, hp1, hp1', hcc, hc1', skipOf, forwarded, a1, a2, a3, b1, b2, b3, Abs, canon,
          emptyLine_own _ _ _ ho, emptyLine_own _ _ _ ho', canonLine_spaces_hash]
      case ignoreLine =>
        obtain ⟨p, p', t, c1, c1', hl, hl', hp1, hp1', ho, ho'⟩ := hcls
        have hc1 : c1 = c := by rw [hp] at hp1; exact (Option.some.inj hp1).symm
        subst hc1
        have hc1' : c1'.ctype = .ignoreLine := by
          cases h : c1'.ctype <;> simp [specStep, ctypeOf, hp1', h] at hspec
          rfl
        subst hl hl'
        simp [stepLine, stepCore, hp1, hp1', hcc, hc1', skipOf, forwarded, a1, a2, a3, b1, b2, b3, Abs, canon,
          emptyLine_own _ _ _ ho, emptyLine_own _ _ _ ho', canonLine_spaces_hash]
      all_goals
        subst hcls
        simp [stepLine, stepCore, hp, hcc, skipOf, forwarded, a1, a2, a3, b1, b2, b3, Abs, canon]


/-- every reachable state: induction over the line list, from any pair of related reader states -/
theorem run_rel (tsOk : List Char → Bool) (lastNL : Bool) (s : SState) (ls ls' : List Line)
    (h : SameOutside tsOk true s ls ls') :
    ∀ (r r' : RState) (n : Nat), Abs s r → Abs s r' →
      (Reader.runFrom tsOk r n lastNL ls).2.map canon = (Reader.runFrom tsOk r' n lastNL ls').2.map canon := by
  induction h with
  | nil s => intro r r' n _ _; simp [Reader.runFrom]
  | cons s l l' ls ls' hrel hrest ih =>
    intro r r' n ha ha'
    have hlen : ls.isEmpty = ls'.isEmpty := by
      cases hrest <;> simp
    have hs := step_rel tsOk s r r' n (if ls.isEmpty then lastNL else true) l l' ha ha' hrel
    obtain ⟨h1, h2, h3⟩ := hs
    simp only [Reader.runFrom, List.map_cons, ← hlen]
    rw [h3, ih _ _ (n + 1) h1 h2]

/-- C10 for payloads that carry no pint control comment on wholly excluded lines:
    for every file pair, any number of lines, all four forms in any nesting/adjacency. -/
theorem C10_partial (tsOk : List Char → Bool) (lastNL : Bool) (ls ls' : List Line)
    (h : SameOutside tsOk true .normal ls ls') :
    readerOut tsOk lastNL ls = readerOut tsOk lastNL ls' := by
  unfold readerOut run
  exact run_rel tsOk lastNL .normal ls ls' h {} {} 1 abs_init abs_init

/-- the masked file has exactly as many lines as the input, whatever the input -/
theorem mask_preserves_line_count (tsOk : List Char → Bool) (lastNL : Bool) (ls : List Line) :
    (run tsOk lastNL ls).2.length = ls.length := by
  unfold run
  generalize (1 : Nat) = n
  generalize ({} : RState) = r
  induction ls generalizing r n with
  | nil => simp [Reader.runFrom]
  | cons l ls ih => simp [Reader.runFrom, ih]

/-! ### the full statement is false on the current code: concrete witnesses (model level; the
    same inputs are replayed on the real reader by the harness, see known_findings.json) -/

def noTs : List Char → Bool := fun _ => false

/-- `ignore/next-line` inside a begin/end block re-exposes the line after next -/
def witnessA : List Line := ["# pint ignore/begin", "# pint ignore/next-line", "x", "secret: 1", "# pint ignore/end"].map String.toList
def witnessB : List Line := ["# pint ignore/begin", "{% jinja %}", "x", "secret: 1", "# pint ignore/end"].map String.toList

theorem witness_same_outside : SameOutside noTs false .normal witnessA witnessB := by
  unfold witnessA witnessB
  simp only [List.map]
  refine .cons _ _ _ _ _ (.of_visible (by decide) (by decide) (by decide)) ?_
  refine .cons _ _ _ _ _ (.of_excluded (by decide) (by decide) (by simp)) ?_
  refine .cons _ _ _ _ _ (.of_excluded (by decide) (by decide) (by simp)) ?_
  refine .cons _ _ _ _ _ (.of_excluded (by decide) (by decide) (by simp)) ?_
  refine .cons _ _ _ _ _ (.of_visible (by decide) (by decide) (by decide)) ?_
  exact .nil _

theorem witness_outputs_differ : readerOut noTs true witnessA ≠ readerOut noTs true witnessB := by decide

theorem C10_not_full : ¬ C10_statement := fun h =>
  witness_outputs_differ (h noTs true witnessA witnessB witness_same_outside)

/-- non-vacuity of `C10_partial`: a pair of files with a jinja payload in a block, a next-line
    payload and an ignore/line payload meets the hypothesis (and the payloads really differ). -/
def demoA : List Line := ["# pint ignore/begin", "{% a %}", "# pint ignore/end", "- record: x", "# pint ignore/next-line", "junk: [", "foo # pint ignore/line"].map String.toList
def demoB : List Line := ["# pint ignore/begin", "- alert: zzz", "# pint ignore/end", "- record: x", "# pint ignore/next-line", "}}}", "barbaz  # pint ignore/line"].map String.toList

theorem demo_same_outside : SameOutside noTs true .normal demoA demoB := by
  unfold demoA demoB
  simp only [List.map]
  refine .cons _ _ _ _ _ (.of_visible (by decide) (by decide) (by decide)) ?_
  refine .cons _ _ _ _ _ (.of_excluded (by decide) (by decide) (fun _ => by decide)) ?_
  refine .cons _ _ _ _ _ (.of_visible (by decide) (by decide) (by decide)) ?_
  refine .cons _ _ _ _ _ (.of_visible (by decide) (by decide) (by decide)) ?_
  refine .cons _ _ _ _ _ (.of_visible (by decide) (by decide) (by decide)) ?_
  refine .cons _ _ _ _ _ (.of_excluded (by decide) (by decide) (fun _ => by decide)) ?_
  refine .cons _ _ _ _ _ (.of_own (by decide) (by decide) "foo ".toList "barbaz  ".toList " pint ignore/line".toList
    ⟨.ignoreLine, 4, .none, []⟩ ⟨.ignoreLine, 8, .none, []⟩ (by decide) (by decide) (by decide) (by decide) (by decide) (by decide)) ?_
  exact .nil _

example : demoA ≠ demoB ∧ readerOut noTs true demoA = readerOut noTs true demoB :=
  ⟨by decide, C10_partial noTs true demoA demoB demo_same_outside⟩

end Pint.Props.C10
