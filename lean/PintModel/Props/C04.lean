import PintModel.Model.Enable
namespace Pint.Props.C04
theorem placeholder : True := trivial
end Pint.Props.C04
