import PintModel.Model.LabelFlow
/-!
# C04 — a "non-existent label" template report is never a false positive

`analyse_sound`: for every expression of the modelled fragment (any depth) and every label universe, every label set
that a series returned by Prometheus can carry (`possible`, the may-semantics validated against the real engine) is
accounted for by some source pint derives (`analyse`, validated against the real `LabelsSource`): that source can have
every label of the set.  `C04_single_branch`: when pint derives a single source and says a label cannot be there, no
returned series carries it — the "non-existent label" report is not a false positive.

Liveness (`IsDead`) is outside this model: the general clause of C04 ("some *live* branch") holds up to the
dead-code findings recorded for C12.
-/
namespace Pint.Props.C04
open Pint.LabelFlow

/-! ## list helpers -/

theorem mem_appendTo (dst vs : LS) (x : String) : x ∈ appendTo dst vs ↔ x ∈ dst ∨ x ∈ vs := by
  unfold appendTo
  induction vs generalizing dst with
  | nil => simp
  | cons v vs ih =>
    simp only [List.foldl_cons]
    rw [ih]
    by_cases hd : dst.contains v = true
    · have hv : v ∈ dst := by simpa using hd
      rw [if_pos hd]
      simp only [List.mem_cons]
      constructor
      · rintro (h | h)
        · exact Or.inl h
        · exact Or.inr (Or.inr h)
      · rintro (h | h | h)
        · exact Or.inl h
        · exact Or.inl (h ▸ hv)
        · exact Or.inr h
    · rw [if_neg hd]
      simp only [List.mem_append, List.mem_cons, List.not_mem_nil, or_false]
      constructor
      · rintro ((h | h) | h)
        · exact Or.inl h
        · exact Or.inr (Or.inl h)
        · exact Or.inr (Or.inr h)
      · rintro (h | h | h)
        · exact Or.inl (Or.inl h)
        · exact Or.inl (Or.inr h)
        · exact Or.inr h

theorem mem_removeFrom (sl vs : LS) (x : String) : x ∈ removeFrom sl vs ↔ x ∈ sl ∧ x ∉ vs := by
  simp [removeFrom, List.mem_filter]

/-- `CanHaveLabel` as a proposition -/
def CanHave (s : Src) (n : String) : Prop := n ∉ s.excl ∧ (n ∈ s.incl ∨ n ∈ s.guar ∨ s.fixed = false)

theorem canHave_iff (s : Src) (n : String) : canHave s n = true ↔ CanHave s n := by
  simp [canHave, CanHave, or_assoc]

/-- a source accounts for a label set -/
def Accounts (s : Src) (ls : LS) : Prop := ∀ n ∈ ls, CanHave s n

theorem accounts_iff (s : Src) (ls : LS) : accounts s ls = true ↔ Accounts s ls := by
  simp [accounts, Accounts, canHave_iff]

theorem accounts_subset {s : Src} {ls ls' : LS} (h : Accounts s ls) (hs : ∀ n ∈ ls', n ∈ ls) : Accounts s ls' :=
  fun n hn => h n (hs n hn)

/-! ## the transfer functions only ever add possibilities for the labels they talk about -/

theorem canHave_includeLabel {s : Src} {ns : LS} {n : String} (h : CanHave s n ∨ n ∈ ns) : CanHave (includeLabel s ns) n := by
  simp only [CanHave, includeLabel, mem_removeFrom, mem_appendTo]
  rcases h with h | h
  · exact ⟨fun hh => h.1 hh.1, by rcases h.2 with h2 | h2 | h2 <;> simp [h2]⟩
  · exact ⟨fun hh => hh.2 h, Or.inl (Or.inr h)⟩

theorem canHave_guaranteeLabel {s : Src} {ns : LS} {n : String} (h : CanHave s n ∨ n ∈ ns) : CanHave (guaranteeLabel s ns) n := by
  simp only [CanHave, guaranteeLabel, mem_removeFrom, mem_appendTo]
  rcases h with h | h
  · exact ⟨fun hh => h.1 hh.1, by rcases h.2 with h2 | h2 | h2 <;> simp [h2]⟩
  · exact ⟨fun hh => hh.2 h, Or.inr (Or.inl (Or.inr h))⟩

theorem canHave_excludeLabel {s : Src} {ns : LS} {n : String} (h : CanHave s n) (hn : n ∉ ns) : CanHave (excludeLabel s ns) n := by
  simp only [CanHave, excludeLabel, mem_removeFrom, mem_appendTo]
  refine ⟨fun hh => hh.elim h.1 hn, ?_⟩
  rcases h.2 with h2 | h2 | h2
  · exact Or.inl ⟨h2, hn⟩
  · exact Or.inr (Or.inl ⟨h2, hn⟩)
  · exact Or.inr (Or.inr h2)

theorem includeMatching_fixed (s : Src) (ns : LS) : (includeMatching s ns).fixed = s.fixed := by
  unfold includeMatching
  induction ns generalizing s with
  | nil => rfl
  | cons x xs ih =>
    simp only [List.foldl_cons]
    by_cases hc : canHave s x = true
    · rw [if_pos hc, ih]; rfl
    · rw [if_neg hc, ih]

theorem canHave_includeMatching {s : Src} (ns : LS) {n : String} (h : CanHave s n) :
    CanHave (includeMatching s ns) n ∧ (n ∈ ns → n ∈ (includeMatching s ns).incl) := by
  unfold includeMatching
  induction ns generalizing s with
  | nil => exact ⟨h, fun hh => by simp at hh⟩
  | cons x xs ih =>
    simp only [List.foldl_cons]
    by_cases hc : canHave s x = true
    · rw [if_pos hc]
      have h1 : CanHave (includeLabel s [x]) n := canHave_includeLabel (Or.inl h)
      have := ih h1
      refine ⟨this.1, fun hn => ?_⟩
      rcases List.mem_cons.mp hn with rfl | hn'
      · -- n = x was just included and stays included
        have hin : n ∈ (includeLabel s [n]).incl := by simp [includeLabel, mem_appendTo]
        clear this ih
        -- inclusion only grows along the fold
        have grow : ∀ (t : Src) (ys : LS), n ∈ t.incl → n ∈ (ys.foldl (fun s n => if canHave s n = true then includeLabel s [n] else s) t).incl := by
          intro t ys
          induction ys generalizing t with
          | nil => intro ht; exact ht
          | cons y ys ihy =>
            intro ht
            simp only [List.foldl_cons]
            by_cases hcy : canHave t y = true
            · rw [if_pos hcy]; exact ihy _ (by simp [includeLabel, mem_appendTo, ht])
            · rw [if_neg hcy]; exact ihy _ ht
        exact grow _ xs hin
      · exact this.2 hn'
    · rw [if_neg hc]
      have := ih h
      refine ⟨this.1, fun hn => ?_⟩
      rcases List.mem_cons.mp hn with rfl | hn'
      · exact absurd ((canHave_iff s n).mpr h) hc
      · exact this.2 hn'

theorem canHave_maybeInclude {s : Src} (g : LS) {n : String} (h : CanHave s n) :
    CanHave (maybeInclude s g) n ∧ (n ∈ g → n ∈ (maybeInclude s g).incl) ∧ (maybeInclude s g).excl = s.excl := by
  unfold maybeInclude
  by_cases ha : (g.any fun n => !s.excl.contains n) = true
  · rw [if_pos ha]
    refine ⟨⟨h.1, ?_⟩, fun hn => by simp [mem_appendTo, hn], rfl⟩
    rcases h.2 with h2 | h2 | h2
    · exact Or.inl (by simp [mem_appendTo, h2])
    · exact Or.inr (Or.inl h2)
    · exact Or.inr (Or.inr h2)
  · rw [if_neg ha]
    refine ⟨h, fun hn => ?_, rfl⟩
    -- every name of g is excluded, but n is not
    have hall : ∀ x ∈ g, x ∈ s.excl := by
      intro x hx
      have hfalse : (g.any fun n => !s.excl.contains n) = false := by
        cases hb : (g.any fun n => !s.excl.contains n) with
        | false => rfl
        | true => exact absurd hb ha
      have := List.any_eq_false.mp hfalse x hx
      simpa using this
    exact absurd (hall n hn) h.1

theorem canHave_aggBySrc {s : Src} (g : LS) {n : String} (h : CanHave s n) (hn : n ∈ g) : CanHave (aggBySrc g s) n := by
  unfold aggBySrc
  have hne : g.isEmpty = false := by cases g with | nil => simp at hn | cons _ _ => rfl
  rw [if_neg (by simp [hne])]
  have hg : g.contains n = true := by simpa using hn
  by_cases hf : s.fixed = true
  · rw [if_pos hf]
    simp only [CanHave, restrictTo, List.mem_filter]
    refine ⟨h.1, ?_⟩
    rcases h.2 with h2 | h2 | h2
    · exact Or.inl ⟨h2, hg⟩
    · exact Or.inr (Or.inl ⟨h2, hg⟩)
    · rw [hf] at h2; exact absurd h2 (by simp)
  · rw [if_neg hf]
    have hm := canHave_maybeInclude (s := s) g h
    simp only [CanHave, restrictTo, List.mem_filter]
    refine ⟨?_, Or.inl ⟨hm.2.1 hn, hg⟩⟩
    rw [hm.2.2]; exact h.1

theorem canHave_excludeMetricName {s : Src} (by_ : Bool) (g : LS) {n : String} (h : CanHave s n)
    (hn : n ≠ nameL ∨ (by_ = true ∧ nameL ∈ g)) : CanHave (excludeMetricName s by_ g) n := by
  unfold excludeMetricName
  by_cases hc : (by_ && g.contains nameL && canHave s nameL) = true
  · rw [if_pos hc]; exact h
  · rw [if_neg hc]
    rcases hn with hn | ⟨hb, hg⟩
    · exact canHave_excludeLabel h (by simp [hn])
    · by_cases hnn : n = nameL
      · subst hnn
        have : canHave s nameL = true := (canHave_iff s nameL).mpr h
        simp [hb, hg, this] at hc
      · exact canHave_excludeLabel h (by simp [hnn])

theorem canHave_reguarantee {s : Src} {n : String} (h : CanHave s n) : CanHave (reguarantee s) n := by
  unfold reguarantee
  generalize s.selGuar = ns
  induction ns generalizing s with
  | nil => exact h
  | cons x xs ih =>
    simp only [List.foldl_cons]
    by_cases hc : canHave s x = true
    · rw [if_pos hc]; exact ih (canHave_guaranteeLabel (Or.inl h))
    · rw [if_neg hc]; exact ih h

/-! ## soundness of the analysis -/

theorem mem_subsets : ∀ (l ls : LS), ls ∈ subsets l → ∀ n ∈ ls, n ∈ l
  | [], ls, h, n, hn => by simp [subsets] at h; subst h; simp at hn
  | x :: xs, ls, h, n, hn => by
    simp only [subsets, List.mem_append, List.mem_map] at h
    rcases h with h | ⟨t, ht, rfl⟩
    · exact List.mem_cons_of_mem _ (mem_subsets xs ls h n hn)
    · rcases List.mem_cons.mp hn with rfl | hn'
      · exact List.mem_cons_self
      · exact List.mem_cons_of_mem _ (mem_subsets xs t ht n hn')

theorem mem_withOrWithoutName {L : List LS} {ls : LS} (h : ls ∈ withOrWithoutName L) : ∃ ls' ∈ L, ∀ n ∈ ls, n ∈ ls' := by
  simp only [withOrWithoutName, List.mem_append, List.mem_map] at h
  rcases h with h | ⟨t, ht, rfl⟩
  · exact ⟨ls, h, fun _ hn => hn⟩
  · exact ⟨t, ht, fun n hn => (List.mem_filter.mp hn).1⟩

theorem selSrc_excl (ms : List Matcher) (n : String) :
    n ∈ (selSrc ms).excl ↔ ∃ m ∈ ms, m.kind = .eqEmpty ∧ m.label = n := by
  simp only [selSrc, excludeLabel, mem_appendTo, List.mem_map, List.mem_filter, List.not_mem_nil, false_or]
  constructor
  · rintro ⟨m, ⟨hm, hk⟩, hl⟩
    exact ⟨m, hm, by simpa using hk, hl⟩
  · rintro ⟨m, hm, hk, hl⟩
    exact ⟨m, ⟨hm, by simp [hk]⟩, hl⟩

theorem selSrc_fixed (ms : List Matcher) : (selSrc ms).fixed = false := rfl

theorem absent_fold_canHave (eqs : LS) : ∀ (s : Src), (∀ n, CanHave s n → True) →
    ∀ n ∈ eqs, CanHave (eqs.foldl (fun s n => guaranteeLabel (includeLabel s [n]) [n]) s) n := by
  induction eqs with
  | nil => intro _ _ n hn; simp at hn
  | cons x xs ih =>
    intro s _ n hn
    simp only [List.foldl_cons]
    -- once a label can be there, the rest of the fold keeps it
    have keep : ∀ (ys : LS) (t : Src), CanHave t n → CanHave (ys.foldl (fun s n => guaranteeLabel (includeLabel s [n]) [n]) t) n := by
      intro ys
      induction ys with
      | nil => intro t ht; exact ht
      | cons y ys ihy =>
        intro t ht
        simp only [List.foldl_cons]
        exact ihy _ (canHave_guaranteeLabel (Or.inl (canHave_includeLabel (Or.inl ht))))
    rcases List.mem_cons.mp hn with rfl | hn'
    · exact keep xs _ (canHave_guaranteeLabel (Or.inr (by simp)))
    · exact ih _ (fun _ _ => trivial) n hn'

/-- **C04, soundness**: every label set a returned series can carry is accounted for by one of pint's sources. -/
theorem analyse_sound (U : LS) : ∀ (e : Expr), wf e = true → ∀ ls ∈ possible U e, ∃ s ∈ analyse e, Accounts s ls := by
  intro e
  induction e with
  | sel ms =>
    intro _ ls h
    simp only [possible, List.mem_filter, List.mem_map] at h
    obtain ⟨_, hok⟩ := h
    refine ⟨selSrc ms, by simp [analyse], fun n hn => ⟨?_, Or.inr (Or.inr (selSrc_fixed ms))⟩⟩
    intro hex
    obtain ⟨m, hm, hk, hl⟩ := (selSrc_excl ms n).mp hex
    have := List.all_eq_true.mp hok m hm
    simp only [hk] at this
    subst hl
    exact absurd hn (by simpa using this)
  | aggBy g e ih =>
    intro hw ls h
    simp only [possible, List.mem_map] at h
    obtain ⟨ls', hls', rfl⟩ := h
    obtain ⟨s, hs, hacc⟩ := ih (by simpa [wf] using hw) ls' hls'
    refine ⟨excludeMetricName (aggBySrc g s) true g, by simp only [analyse, List.mem_map]; exact ⟨s, hs, rfl⟩, fun n hn => ?_⟩
    have hn' := List.mem_filter.mp hn
    have hg : n ∈ g := by simpa using hn'.2
    refine canHave_excludeMetricName true g (canHave_aggBySrc g (hacc n hn'.1) hg) ?_
    by_cases hname : n = nameL
    · exact Or.inr ⟨rfl, hname ▸ hg⟩
    · exact Or.inl hname
  | aggWithout g e ih =>
    intro hw ls h
    simp only [possible, List.mem_map] at h
    obtain ⟨ls', hls', rfl⟩ := h
    obtain ⟨s, hs, hacc⟩ := ih (by simpa [wf] using hw) ls' hls'
    refine ⟨excludeMetricName (excludeLabel s g) false g, by simp only [analyse, List.mem_map]; exact ⟨s, hs, rfl⟩, fun n hn => ?_⟩
    have hn' := List.mem_filter.mp hn
    have hcond : n ∉ g ∧ n ≠ nameL := by simpa using hn'.2
    exact canHave_excludeMetricName false g (canHave_excludeLabel (hacc n hn'.1) hcond.1) (Or.inl hcond.2)
  | topk e ih =>
    intro hw ls h
    exact ih (by simpa [wf] using hw) ls (by simpa [possible] using h)
  | countValuesBy g v e ih =>
    intro hw ls h
    simp only [possible, List.mem_map] at h
    obtain ⟨ls', hls', rfl⟩ := h
    obtain ⟨s, hs, hacc⟩ := ih (by simpa [wf] using hw) ls' hls'
    refine ⟨guaranteeLabel (includeLabel (excludeMetricName (aggBySrc g s) true g) [v]) [v],
      by simp only [analyse, List.mem_map]; exact ⟨s, hs, rfl⟩, fun n hn => ?_⟩
    rcases List.mem_cons.mp hn with rfl | hn'
    · exact canHave_guaranteeLabel (Or.inr (by simp))
    · have hn'' := List.mem_filter.mp hn'
      have hg : n ∈ g := by simpa using hn''.2
      refine canHave_guaranteeLabel (Or.inl (canHave_includeLabel (Or.inl
        (canHave_excludeMetricName true g (canHave_aggBySrc g (hacc n hn''.1) hg) ?_))))
      by_cases hname : n = nameL
      · exact Or.inr ⟨rfl, hname ▸ hg⟩
      · exact Or.inl hname
  | func e ih =>
    intro hw ls h
    obtain ⟨ls', hls', hsub⟩ := mem_withOrWithoutName (by simpa [possible] using h)
    obtain ⟨s, hs, hacc⟩ := ih (by simpa [wf] using hw) ls' hls'
    exact ⟨reguarantee s, by simp only [analyse, List.mem_map]; exact ⟨s, hs, rfl⟩, fun n hn => canHave_reguarantee (hacc n (hsub n hn))⟩
  | labelReplace dst e ih =>
    intro hw ls h
    simp only [possible, List.mem_flatMap] at h
    obtain ⟨ls', hls', hmem⟩ := h
    obtain ⟨s, hs, hacc⟩ := ih (by simpa [wf] using hw) ls' hls'
    refine ⟨guaranteeLabel s [dst], by simp only [analyse, List.mem_map]; exact ⟨s, hs, rfl⟩, fun n hn => ?_⟩
    simp only [List.mem_cons, List.not_mem_nil, or_false] at hmem
    rcases hmem with rfl | rfl | rfl
    · exact canHave_guaranteeLabel (Or.inl (hacc n hn))
    · rcases List.mem_cons.mp hn with rfl | hn'
      · exact canHave_guaranteeLabel (Or.inr (by simp))
      · exact canHave_guaranteeLabel (Or.inl (hacc n hn'))
    · exact canHave_guaranteeLabel (Or.inl (hacc n (List.mem_filter.mp hn).1))
  | absent ms =>
    intro _ ls h
    simp only [possible] at h
    refine ⟨absentSrc ms, by simp [analyse], fun n hn => ?_⟩
    have hin : n ∈ eqLabels ms := mem_subsets _ ls h n hn
    unfold absentSrc
    apply absent_fold_canHave _ _ (fun _ _ => trivial)
    simp only [eqLabels, List.mem_map, List.mem_filter] at hin
    obtain ⟨m, ⟨hm, hk⟩, rfl⟩ := hin
    rw [mem_appendTo]
    right
    simp only [List.mem_map, List.mem_filter]
    exact ⟨m, ⟨hm, by simp at hk; simp [hk]⟩, rfl⟩
  | vec =>
    intro _ ls h
    simp only [possible, List.mem_singleton] at h
    subst h
    exact ⟨vecSrc, by simp [analyse], fun n hn => by simp at hn⟩
  | binOn m l r ihl _ =>
    intro hw ls h
    simp only [wf, Bool.and_eq_true] at hw
    obtain ⟨ls', hls', hsub⟩ := mem_withOrWithoutName (by simpa [possible] using h)
    simp only [List.mem_map] at hls'
    obtain ⟨a, ha, rfl⟩ := hls'
    obtain ⟨s, hs, hacc⟩ := ihl hw.1 a ha
    refine ⟨restrictTo { includeMatching s m with fixed := true } m, by simp only [analyse, List.mem_map]; exact ⟨s, hs, rfl⟩, fun n hn => ?_⟩
    have hn' := List.mem_filter.mp (hsub n hn)
    have hm : n ∈ m := by simpa using hn'.2
    have him := canHave_includeMatching (s := s) m (hacc n hn'.1)
    simp only [CanHave, restrictTo, List.mem_filter]
    exact ⟨him.1.1, Or.inl ⟨him.2 hm, hn'.2⟩⟩
  | binIgn m l r ihl _ =>
    intro hw ls h
    simp only [wf, Bool.and_eq_true] at hw
    obtain ⟨ls', hls', hsub⟩ := mem_withOrWithoutName (by simpa [possible] using h)
    simp only [List.mem_map] at hls'
    obtain ⟨a, ha, rfl⟩ := hls'
    obtain ⟨s, hs, hacc⟩ := ihl hw.1 a ha
    refine ⟨excludeLabel s m, by simp only [analyse, List.mem_map]; exact ⟨s, hs, rfl⟩, fun n hn => ?_⟩
    have hn' := List.mem_filter.mp (hsub n hn)
    exact canHave_excludeLabel (hacc n hn'.1) (by simpa using hn'.2)
  | groupLeft on m incl l r ihl _ =>
    intro hw ls h
    simp only [wf, Bool.and_eq_true] at hw
    obtain ⟨ls', hls', hsub⟩ := mem_withOrWithoutName (by simpa [possible] using h)
    simp only [List.mem_flatMap, List.mem_map] at hls'
    obtain ⟨a, ha, b, _, rfl⟩ := hls'
    obtain ⟨s, hs, hacc⟩ := ihl hw.1 a ha
    refine ⟨if on then includeMatching (includeLabel s incl) m else includeLabel s incl,
      by simp only [analyse, List.mem_map]; exact ⟨s, hs, rfl⟩, fun n hn => ?_⟩
    have hbase : CanHave (includeLabel s incl) n := by
      rcases List.mem_append.mp (hsub n hn) with h1 | h1
      · exact canHave_includeLabel (Or.inl (hacc n (List.mem_filter.mp h1).1))
      · exact canHave_includeLabel (Or.inr (by simpa using (List.mem_filter.mp h1).2))
    cases on with
    | true => exact (canHave_includeMatching m hbase).1
    | false => exact hbase
  | groupRight on m incl l r _ ihr =>
    intro hw ls h
    simp only [wf, Bool.and_eq_true] at hw
    obtain ⟨ls', hls', hsub⟩ := mem_withOrWithoutName (by simpa [possible] using h)
    simp only [List.mem_flatMap, List.mem_map] at hls'
    obtain ⟨a, ha, b, _, rfl⟩ := hls'
    obtain ⟨s, hs, hacc⟩ := ihr hw.2 a ha
    refine ⟨if on then includeMatching (includeLabel s incl) m else includeLabel s incl,
      by simp only [analyse, List.mem_map]; exact ⟨s, hs, rfl⟩, fun n hn => ?_⟩
    have hbase : CanHave (includeLabel s incl) n := by
      rcases List.mem_append.mp (hsub n hn) with h1 | h1
      · exact canHave_includeLabel (Or.inl (hacc n (List.mem_filter.mp h1).1))
      · exact canHave_includeLabel (Or.inr (by simpa using (List.mem_filter.mp h1).2))
    cases on with
    | true => exact (canHave_includeMatching m hbase).1
    | false => exact hbase
  | setAnd on m l r ihl _ =>
    intro hw ls h
    simp only [wf, Bool.and_eq_true] at hw
    obtain ⟨s, hs, hacc⟩ := ihl hw.1 ls (by simpa [possible] using h)
    refine ⟨if on then includeMatching s m else s, by simp only [analyse, List.mem_map]; exact ⟨s, hs, rfl⟩, fun n hn => ?_⟩
    cases on with
    | true => exact (canHave_includeMatching m (hacc n hn)).1
    | false => exact hacc n hn
  | setOr on m l r ihl ihr =>
    intro hw ls h
    simp only [wf, Bool.and_eq_true] at hw
    simp only [possible, List.mem_append] at h
    rcases h with h | h
    · obtain ⟨s, hs, hacc⟩ := ihl hw.1 ls h
      refine ⟨if on then includeMatching s m else s, by simp only [analyse, List.mem_append, List.mem_map]; exact Or.inl ⟨s, hs, rfl⟩, fun n hn => ?_⟩
      cases on with
      | true => exact (canHave_includeMatching m (hacc n hn)).1
      | false => exact hacc n hn
    · obtain ⟨s, hs, hacc⟩ := ihr hw.2 ls h
      exact ⟨s, by simp only [analyse, List.mem_append]; exact Or.inr hs, hacc⟩
  | withScalar e ih =>
    intro hw ls h
    obtain ⟨ls', hls', hsub⟩ := mem_withOrWithoutName (by simpa [possible] using h)
    obtain ⟨s, hs, hacc⟩ := ih (by simpa [wf] using hw) ls' hls'
    exact ⟨s, by simpa [analyse] using hs, accounts_subset hacc hsub⟩

/-- **C04, single result branch**: when pint derives one source for the query and decides that label `n` cannot be on
it — the condition under which alerts/template reports "template uses non-existent label" — no series Prometheus can
return for the query, whatever data is stored, carries `n`. -/
theorem C04_single_branch (U : LS) (e : Expr) (hw : wf e = true) (s : Src) (h1 : analyse e = [s]) (n : String)
    (hn : canHave s n = false) : ∀ ls ∈ possible U e, n ∉ ls := by
  intro ls hls hmem
  obtain ⟨s', hs', hacc⟩ := analyse_sound U e hw ls hls
  rw [h1] at hs'
  have : s' = s := by simpa using hs'
  subst this
  have := (canHave_iff s' n).mpr (hacc n hmem)
  rw [hn] at this
  exact absurd this (by simp)

/-- the general clause, up to liveness: every returned series is consistent with at least one derived branch -/
theorem C04_some_branch (U : LS) (e : Expr) (hw : wf e = true) (ls : LS) (h : ls ∈ possible U e) :
    (analyse e).any (fun s => accounts s ls) = true := by
  obtain ⟨s, hs, hacc⟩ := analyse_sound U e hw ls h
  exact List.any_eq_true.mpr ⟨s, hs, (accounts_iff s ls).mpr hacc⟩

/-! non-vacuity: `sum by (job) (up{env="prod"})` over labels job, env, instance -/
example :
    let e := Expr.aggBy ["job"] (.sel [{ label := "env", kind := .eq }])
    (possible ["job", "env", "instance"] e).length = 4 ∧ (analyse e).map (fun s => (canHave s "job", canHave s "instance", canHave s "env")) = [(true, false, false)] := by
  decide

/-- what the fix 0da997e was about: `sum by (__name__) (m)` keeps the metric name -/
example : (analyse (.aggBy [nameL] (.sel []))).map (fun s => canHave s nameL) = [true] ∧
    [nameL] ∈ possible [] (.aggBy [nameL] (.sel [])) := by decide

end Pint.Props.C04
