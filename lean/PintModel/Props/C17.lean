/-
  C17 — pull-request commenting converges and is idempotent.
-/
import PintModel.Model.Reconcile
set_option linter.unusedSimpArgs false
namespace Pint.Props.C17
open Pint.Reconcile

variable {P E : Type}

def Covered (isEq : E → P → Bool) (existing : List E) (p : P) : Prop := ∃ e ∈ existing, isEq e p = true

theorem covered_iff_any (isEq : E → P → Bool) (existing : List E) (p : P) :
    (existing.any fun e => isEq e p) = true ↔ Covered isEq existing p := by
  simp [Covered, List.any_eq_true]

/-- at most `maxComments` new comments are created per run, whatever was created before in this run -/
theorem creates_le_budget (isEq : E → P → Bool) (existing : List E) (budget : Nat) (pending : List P) (created : Nat) :
    (creates isEq existing budget pending created).length + created ≤ max budget created := by
  induction pending generalizing created with
  | nil => simp [creates]; omega
  | cons p ps ih =>
    simp only [creates]
    split
    · exact ih created
    · split
      · have := ih (created + 1)
        simp only [List.length_cons]
        omega
      · exact ih created

/-- no comment equal to one that already existed is created -/
theorem no_equal_to_existing_created (isEq : E → P → Bool) (existing : List E) (budget : Nat) (pending : List P) (created : Nat) :
    ∀ p ∈ creates isEq existing budget pending created, ¬ Covered isEq existing p := by
  induction pending generalizing created with
  | nil => simp [creates]
  | cons q ps ih =>
    intro p hp
    simp only [creates] at hp
    split at hp
    · exact ih created p hp
    · rename_i hq
      split at hp
      · cases List.mem_cons.1 hp with
        | inl h => subst h; rw [← covered_iff_any]; exact hq
        | inr h => exact ih (created + 1) p h
      · exact ih created p hp

/-- every reported problem's comment is covered by an existing comment, or created now, or the
    budget of this run is exhausted (it waits for a later run) -/
theorem covered_or_created_or_deferred (isEq : E → P → Bool) (existing : List E) (budget : Nat) (pending : List P) (created : Nat) :
    ∀ p ∈ pending, Covered isEq existing p ∨ p ∈ creates isEq existing budget pending created ∨
      budget ≤ (creates isEq existing budget pending created).length + created := by
  induction pending generalizing created with
  | nil => simp
  | cons q ps ih =>
    intro p hp
    simp only [creates]
    cases List.mem_cons.1 hp with
    | inl h =>
      subst h
      split
      · rename_i hc; exact Or.inl ((covered_iff_any _ _ _).1 hc)
      · split
        · exact Or.inr (Or.inl (by simp))
        · rename_i hb
          right; right
          have := creates_le_budget isEq existing budget ps created
          omega
    | inr h =>
      split
      · exact ih created p h
      · split
        · rcases ih (created + 1) p h with h1 | h1 | h1
          · exact Or.inl h1
          · exact Or.inr (Or.inl (by simp [h1]))
          · right; right; simp only [List.length_cons]; omega
        · exact ih created p h

/-- exactly the stale comments pint may delete are removed -/
theorem deletes_exactly_stale_deletable (isEq : E → P → Bool) (canDelete : E → Bool) (existing : List E) (pending : List P) (e : E) :
    e ∈ deletes isEq canDelete existing pending ↔
      e ∈ existing ∧ canDelete e = true ∧ ∀ p ∈ pending, isEq e p = false := by
  simp only [deletes, List.mem_filter, Bool.and_eq_true, Bool.not_eq_true', List.any_eq_false]
  constructor
  · rintro ⟨h1, h2, h3⟩; exact ⟨h1, h3, fun p hp => by simpa using h2 p hp⟩
  · rintro ⟨h1, h2, h3⟩; exact ⟨h1, fun p hp => by simp [h3 p hp], h2⟩

/-- comments pint may not delete (foreign ones) survive every run -/
theorem foreign_comments_untouched (isEq : E → P → Bool) (canDelete : E → Bool) (store : P → E) (budget : Nat)
    (pending : List P) (existing : List E) (e : E) (he : e ∈ existing) (hf : canDelete e = false) :
    e ∈ step isEq canDelete store budget pending existing := by
  simp [step, he, hf]

/-- a comment that covers a pending comment is never deleted, so it still covers it after the run -/
theorem covered_stays_covered (isEq : E → P → Bool) (canDelete : E → Bool) (store : P → E) (budget : Nat)
    (pending : List P) (existing : List E) (p : P) (hp : p ∈ pending) (hc : Covered isEq existing p) :
    Covered isEq (step isEq canDelete store budget pending existing) p := by
  obtain ⟨e, he, heq⟩ := hc
  refine ⟨e, ?_, heq⟩
  simp only [step, List.mem_append, List.mem_filter]
  left
  refine ⟨he, ?_⟩
  have : (pending.any fun p => isEq e p) = true := List.any_eq_true.2 ⟨p, hp, heq⟩
  simp [this]

/-- a created comment is recognised next time (store faithfulness: the platform lists back what pint posted) -/
theorem created_is_covered (isEq : E → P → Bool) (canDelete : E → Bool) (store : P → E) (budget : Nat)
    (pending : List P) (existing : List E) (hstore : ∀ p, isEq (store p) p = true) (p : P)
    (hp : p ∈ creates isEq existing budget pending 0) :
    Covered isEq (step isEq canDelete store budget pending existing) p := by
  refine ⟨store p, ?_, hstore p⟩
  simp only [step, List.mem_append, List.mem_map]
  right
  exact ⟨p, hp, rfl⟩

theorem creates_nil_of_all_covered (isEq : E → P → Bool) (existing : List E) (budget : Nat) (pending : List P) (created : Nat)
    (h : ∀ p ∈ pending, Covered isEq existing p) : creates isEq existing budget pending created = [] := by
  induction pending generalizing created with
  | nil => rfl
  | cons q ps ih =>
    have hq := (covered_iff_any isEq existing q).2 (h q (by simp))
    simp only [creates, hq, if_true]
    exact ih created (fun p hp => h p (by simp [hp]))

/-- idempotence: once nothing is being deferred by the budget, repeating the run with unchanged
    results creates nothing and deletes nothing -/
theorem idempotent_when_not_deferred (isEq : E → P → Bool) (canDelete : E → Bool) (store : P → E) (budget : Nat)
    (pending : List P) (existing : List E) (hstore : ∀ p, isEq (store p) p = true)
    (hnd : ∀ p ∈ pending, Covered isEq existing p ∨ p ∈ creates isEq existing budget pending 0) :
    let existing' := step isEq canDelete store budget pending existing
    creates isEq existing' budget pending 0 = [] ∧ deletes isEq canDelete existing' pending = [] := by
  intro existing'
  have hcov : ∀ p ∈ pending, Covered isEq existing' p := by
    intro p hp
    cases hnd p hp with
    | inl h => exact covered_stays_covered isEq canDelete store budget pending existing p hp h
    | inr h => exact created_is_covered isEq canDelete store budget pending existing hstore p h
  refine ⟨creates_nil_of_all_covered isEq existing' budget pending 0 hcov, ?_⟩
  rw [List.eq_nil_iff_forall_not_mem]
  intro e he
  rw [deletes_exactly_stale_deletable] at he
  obtain ⟨hmem, hdel, hstale⟩ := he
  simp only [existing', step, List.mem_append, List.mem_filter, List.mem_map] at hmem
  rcases hmem with ⟨_, hkeep⟩ | ⟨p, hp, rfl⟩
  · -- survivors of the first run were either covering something or not deletable
    simp only [Bool.not_eq_true', Bool.and_eq_false_iff, Bool.not_eq_false', List.any_eq_true] at hkeep
    rcases hkeep with ⟨p, hp, hpe⟩ | hnd'
    · rw [hstale p hp] at hpe; cases hpe
    · rw [hdel] at hnd'; cases hnd'
  · -- a comment created in the first run covers its own pending comment
    have hpp : p ∈ pending := by
      clear hstale hdel hcov hnd
      generalize 0 = c at hp
      induction pending generalizing c with
      | nil => simp [creates] at hp
      | cons q ps ih =>
        simp only [creates] at hp
        split at hp
        · exact List.mem_cons_of_mem _ (ih c hp)
        · split at hp
          · cases List.mem_cons.1 hp with
            | inl h => subst h; simp
            | inr h => exact List.mem_cons_of_mem _ (ih (c + 1) h)
          · exact List.mem_cons_of_mem _ (ih c hp)
    have := hstale p hpp
    rw [hstore p] at this
    cases this

/-! ### convergence over rounds -/

theorem creates_sublist (isEq : E → P → Bool) (existing : List E) (budget : Nat) (pending : List P) (created : Nat) :
    (creates isEq existing budget pending created).Sublist (pending.filter fun p => !(existing.any fun e => isEq e p)) := by
  induction pending generalizing created with
  | nil => simp [creates]
  | cons q ps ih =>
    simp only [creates, List.filter_cons]
    split
    · rename_i h; simp only [h, Bool.not_true, Bool.false_eq_true, if_false]; exact ih created
    · rename_i h
      have h' : (existing.any fun e => isEq e q) = false := by simpa using h
      simp only [h', Bool.not_false, if_true]
      split
      · exact (ih (created + 1)).cons₂ q
      · exact (ih created).cons q

theorem creates_length (isEq : E → P → Bool) (existing : List E) (budget : Nat) (pending : List P) (created : Nat) :
    (creates isEq existing budget pending created).length = min (budget - created) (uncovered isEq existing pending) := by
  induction pending generalizing created with
  | nil => simp [creates, uncovered]
  | cons q ps ih =>
    simp only [creates, uncovered, List.filter_cons]
    split
    · rename_i h; simp only [h, Bool.not_true, Bool.false_eq_true, if_false]; exact ih created
    · rename_i h
      have h' : (existing.any fun e => isEq e q) = false := by simpa using h
      simp only [h', Bool.not_false, if_true, List.length_cons]
      split
      · have := ih (created + 1); simp only [uncovered] at this; rw [List.length_cons, this]; omega
      · have := ih created; simp only [uncovered] at this; rw [this]; omega

theorem filter_split_length (l : List P) (q : P → Bool) :
    (l.filter q).length + (l.filter fun x => !q x).length = l.length := by
  induction l with
  | nil => rfl
  | cons x xs ih => cases h : q x <;> simp [List.filter_cons, h] <;> omega

theorem filter_length_le_of_imp (l : List P) (q r : P → Bool) (h : ∀ x ∈ l, q x = true → r x = true) :
    (l.filter q).length ≤ (l.filter r).length := by
  induction l with
  | nil => simp
  | cons x xs ih =>
    have ih' := ih (fun y hy => h y (by simp [hy]))
    cases hq : q x with
    | false =>
      cases hr : r x <;> simp [List.filter_cons, hq, hr] <;> omega
    | true =>
      have hr := h x (by simp) hq
      simp [List.filter_cons, hq, hr]; omega

/-- one run covers as many more pending comments as it creates -/
theorem uncovered_step_le [DecidableEq P] (isEq : E → P → Bool) (canDelete : E → Bool) (store : P → E) (budget : Nat)
    (pending : List P) (existing : List E) (hstore : ∀ p, isEq (store p) p = true) :
    uncovered isEq (step isEq canDelete store budget pending existing) pending +
      (creates isEq existing budget pending 0).length ≤ uncovered isEq existing pending := by
  let C := creates isEq existing budget pending 0
  let U := pending.filter fun p => !(existing.any fun e => isEq e p)
  let ex' := step isEq canDelete store budget pending existing
  -- still-uncovered pending comments were uncovered before and are not among the created ones
  have hsub : ∀ p ∈ pending, (!(ex'.any fun e => isEq e p)) = true →
      ((!(existing.any fun e => isEq e p)) && !decide (p ∈ C)) = true := by
    intro p hp hun
    have hun' : (ex'.any fun e => isEq e p) = false := by simpa using hun
    have h1 : (existing.any fun e => isEq e p) = false := by
      cases hc : (existing.any fun e => isEq e p) with
      | false => rfl
      | true =>
        have := covered_stays_covered isEq canDelete store budget pending existing p hp ((covered_iff_any _ _ _).1 hc)
        rw [← covered_iff_any] at this
        rw [this] at hun'; cases hun'
    have h2 : p ∉ C := by
      intro hmem
      have := created_is_covered isEq canDelete store budget pending existing hstore p hmem
      rw [← covered_iff_any] at this
      rw [this] at hun'; cases hun'
    simp [h1, h2]
  have hA : (pending.filter fun p => !(ex'.any fun e => isEq e p)).length ≤ (U.filter fun p => !decide (p ∈ C)).length := by
    have := filter_length_le_of_imp pending _ _ hsub
    simpa [U, List.filter_filter, Bool.and_comm] using this
  have hsplit := filter_split_length U (fun p => decide (p ∈ C))
  have hC : C.length ≤ (U.filter fun p => decide (p ∈ C)).length := by
    have hs : C.Sublist U := creates_sublist isEq existing budget pending 0
    have hf : (C.filter fun p => decide (p ∈ C)).Sublist (U.filter fun p => decide (p ∈ C)) := hs.filter _
    have hCC : (C.filter fun p => decide (p ∈ C)) = C := by
      apply List.filter_eq_self.2
      intro x hx; simpa using hx
    rw [hCC] at hf
    exact hf.length_le
  show (pending.filter fun p => !(ex'.any fun e => isEq e p)).length + C.length ≤ U.length
  omega

/-- with the same reported problems and a budget of m new comments per run, after k runs at most
    `n - k*m` pending comments are still uncovered: every problem is covered after ⌈n/m⌉ runs -/
theorem converges [DecidableEq P] (isEq : E → P → Bool) (canDelete : E → Bool) (store : P → E) (budget : Nat)
    (pending : List P) (hstore : ∀ p, isEq (store p) p = true) (k : Nat) (existing : List E) :
    uncovered isEq (runs isEq canDelete store budget pending k existing) pending ≤
      uncovered isEq existing pending - k * budget := by
  induction k generalizing existing with
  | zero => simp [runs]
  | succ k ih =>
    simp only [runs]
    have h1 := ih (step isEq canDelete store budget pending existing)
    have h2 := uncovered_step_le isEq canDelete store budget pending existing hstore
    have h3 := creates_length isEq existing budget pending 0
    have : (k + 1) * budget = k * budget + budget := by rw [Nat.add_mul]; simp
    omega

/-! ### grouping of problems into comments -/

/-- every group is non-empty and all its members share the head's grouping key -/
def GroupsOk (dst : List (List Rep)) : Prop :=
  ∀ g ∈ dst, ∃ h t, g = h :: t ∧ ∀ r ∈ g, r.key = h.key

def headKeys (dst : List (List Rep)) : List GKey := dst.filterMap fun g => g.head?.map (·.key)

theorem addReport_ok (dst : List (List Rep)) (r : Rep) (h : GroupsOk dst) : GroupsOk (addReport dst r) := by
  induction dst with
  | nil =>
    intro g hg
    simp only [addReport, List.mem_singleton] at hg
    subst hg
    exact ⟨r, [], rfl, by simp⟩
  | cons g rest ih =>
    have hrest : GroupsOk rest := fun x hx => h x (by simp [hx])
    obtain ⟨hd, tl, hgeq, hkeys⟩ := h g (by simp)
    subst hgeq
    simp only [addReport]
    split
    · rename_i hk
      intro x hx
      cases List.mem_cons.1 hx with
      | inl hxe =>
        subst hxe
        split
        · exact ⟨hd, tl, rfl, hkeys⟩
        · refine ⟨hd, tl ++ [r], by simp, ?_⟩
          intro y hy
          simp only [List.cons_append, List.mem_cons, List.mem_append, List.not_mem_nil, or_false] at hy
          rcases hy with hy | hy | hy
          · subst hy; rfl
          · exact hkeys y (by simp [hy])
          · subst hy; exact hk.symm
      | inr hxr => exact hrest x hxr
    · intro x hx
      cases List.mem_cons.1 hx with
      | inl hxe => subst hxe; exact ⟨hd, tl, rfl, hkeys⟩
      | inr hxr => exact ih hrest x hxr

theorem headKeys_addReport (dst : List (List Rep)) (r : Rep) (h : GroupsOk dst) :
    headKeys (addReport dst r) = if r.key ∈ headKeys dst then headKeys dst else headKeys dst ++ [r.key] := by
  induction dst with
  | nil => simp [addReport, headKeys]
  | cons g rest ih =>
    have hrest : GroupsOk rest := fun x hx => h x (by simp [hx])
    obtain ⟨hd, tl, hgeq, _⟩ := h g (by simp)
    subst hgeq
    simp only [addReport]
    split
    · rename_i hk
      have : r.key ∈ headKeys ((hd :: tl) :: rest) := by simp [headKeys, hk]
      simp only [this, if_true]
      split <;> simp [headKeys]
    · rename_i hk
      have ih' := ih hrest
      simp only [headKeys, List.filterMap_cons, List.head?_cons, Option.map_some] at ih' ⊢
      rw [ih']
      have hne : r.key ≠ hd.key := fun e => hk e.symm
      by_cases hm : r.key ∈ List.filterMap (fun g => Option.map (fun x => x.key) g.head?) rest
      · simp [hm]
      · simp [hm, hne]

/-- problems of one check on the same lines share a comment: after grouping, every group holds
    reports of one (severity, reporter, path, first line, last line, anchor) and no two groups have
    the same key -/
theorem groups_share_comment (src : List Rep) (showDup : Bool) :
    GroupsOk (dedupReports src showDup) ∧ (headKeys (dedupReports src showDup)).Nodup := by
  unfold dedupReports
  suffices ∀ dst, GroupsOk dst → (headKeys dst).Nodup →
      GroupsOk (src.foldl (fun dst r => if (!showDup && r.isDup) = true then dst else addReport dst r) dst) ∧
      (headKeys (src.foldl (fun dst r => if (!showDup && r.isDup) = true then dst else addReport dst r) dst)).Nodup from
    this [] (by intro g hg; simp at hg) (by simp [headKeys])
  induction src with
  | nil => intro dst h1 h2; exact ⟨h1, h2⟩
  | cons r rs ih =>
    intro dst h1 h2
    simp only [List.foldl_cons]
    split
    · exact ih dst h1 h2
    · apply ih
      · exact addReport_ok dst r h1
      · rw [headKeys_addReport dst r h1]
        split
        · exact h2
        · rename_i hm
          rw [List.nodup_append]
          refine ⟨h2, by simp, ?_⟩
          intro a ha b hb
          simp only [List.mem_singleton] at hb
          subst hb
          intro e; subst e; exact hm ha

/-- the comment goes on a line of the problem's range; on a modified one whenever the range has one -/
theorem pickLine_in_range (first last : Nat) (modified : List Nat) (h : first ≤ last) :
    first ≤ pickLine first last modified ∧ pickLine first last modified ≤ last := by
  unfold pickLine
  suffices ∀ fuel i, first ≤ last → i ≤ last → first ≤ pickLine.go first last modified fuel i ∧ pickLine.go first last modified fuel i ≤ last from
    this _ _ h (Nat.le_refl _)
  intro fuel
  induction fuel with
  | zero => intro i h1 _; simp [pickLine.go, h1]
  | succ f ih =>
    intro i h1 h2
    simp only [pickLine.go]
    split
    · exact ⟨h1, Nat.le_refl _⟩
    · split
      · exact ⟨by omega, h2⟩
      · split
        · exact ⟨h1, Nat.le_refl _⟩
        · exact ih (i - 1) h1 (by omega)

/-- non-vacuity: budget 1, two uncovered pending comments, one stale deletable and one foreign comment -/
theorem demo :
    let isEq : Nat → Nat → Bool := fun e p => e == p
    creates isEq [10, 99] 1 [10, 20, 30] 0 = [20] ∧
    deletes isEq (fun e => e != 77) [10, 99, 77] [10, 20, 30] = [99] ∧
    runs isEq (fun e => e != 77) id 1 [10, 20, 30] 3 [10, 99, 77] = [10, 77, 20, 30] := by
  decide

end Pint.Props.C17
