/-
  C05 — exit status is non-zero exactly when a problem reaches the fail-on severity.
-/
import PintModel.Model.Exit
set_option linter.unusedSimpArgs false
namespace Pint.Props.C05
open Pint.Exit

/-! ### regenerated facts the theorems rest on (a mutation of the source changes Gen and breaks these) -/

theorem lint_threshold_shape :
    Gen.Severity.lint.op = ">=" ∧ Gen.Severity.lint.lhs = "s" ∧ Gen.Severity.lint.rhs = "failOn" ∧
    Gen.Severity.lint.rhsFrom = "checks.ParseSeverity(c.String(failOnFlag))" ∧
    Gen.Severity.lint.finalCond = "failProblems > 0" := by decide

theorem ci_threshold_shape :
    Gen.Severity.ci.op = ">=" ∧ Gen.Severity.ci.lhs = "s" ∧
    Gen.Severity.ci.rhsFrom = "checks.ParseSeverity(c.String(failOnFlag))" ∧
    Gen.Severity.ci.finalCond = "problemsFound" := by decide

/-- info < warning < bug < fatal, as parsed from the flag spelling; the default threshold is bug -/
theorem parseSeverity_monotone :
    parseSeverity "info" = some 0 ∧ parseSeverity "warning" = some 1 ∧
    parseSeverity "bug" = some 2 ∧ parseSeverity "fatal" = some 3 ∧
    Gen.Severity.failOnDefaults = ["bug", "bug"] ∧
    (∀ s, s ∉ ["info", "warning", "bug", "fatal"] → Gen.Severity.parseTable.lookup s = none) := by
  refine ⟨by decide, by decide, by decide, by decide, by decide, ?_⟩
  intro s hs
  simp only [List.mem_cons, List.not_mem_nil, or_false, not_or] at hs
  obtain ⟨h1, h2, h3, h4⟩ := hs
  have e1 : (s == "info") = false := by simpa using h1
  have e2 : (s == "warning") = false := by simpa using h2
  have e3 : (s == "bug") = false := by simpa using h3
  have e4 : (s == "fatal") = false := by simpa using h4
  simp [Gen.Severity.parseTable, List.lookup, e1, e2, e3, e4]

/-- printing a severity names the constant (JSON report spelling), so the harness can read severities back -/
theorem string_roundtrip : ∀ p ∈ Gen.Severity.stringTable, p.1 = p.2 ∧ (rank p.1).isSome := by decide

/-! ### the decision -/

theorem mem_insert (acc : List Rep) (r x : Rep) : x ∈ Exit.insert acc r ↔ x ∈ acc ∨ x = r := by
  unfold Exit.insert
  split
  · rename_i h
    constructor
    · intro hx; exact Or.inl hx
    · intro hx
      cases hx with
      | inl h' => exact h'
      | inr h' => subst h'; simpa using h
  · simp

theorem mem_foldl_insert (rs acc : List Rep) (x : Rep) : x ∈ rs.foldl Exit.insert acc ↔ x ∈ acc ∨ x ∈ rs := by
  induction rs generalizing acc with
  | nil => simp
  | cons r rs ih =>
    simp only [List.foldl_cons, ih, mem_insert, List.mem_cons]
    constructor
    · rintro ((h | h) | h)
      · exact Or.inl h
      · exact Or.inr (Or.inl h)
      · exact Or.inr (Or.inr h)
    · rintro (h | h | h)
      · exact Or.inl (Or.inl h)
      · exact Or.inl (Or.inr h)
      · exact Or.inr h

/-- insertion-time de-duplication neither loses nor invents a report (as a set) -/
theorem mem_insertAll (rs : List Rep) (x : Rep) : x ∈ insertAll rs ↔ x ∈ rs := by
  simp [insertAll, mem_foldl_insert]

/-- `pint lint` fails iff some reported problem has severity at or above `--fail-on`,
    for every report stream, every threshold, every `--min-severity` and `--show-duplicates`. -/
theorem C05_lint (stream : List Rep) (failOn minSev : Nat) (showDup : Bool) :
    (lint stream failOn minSev showDup).fail = true ↔ ∃ r ∈ stream, failOn ≤ r.sev := by
  have hop : Gen.Severity.lint.op = ">=" := by decide
  simp only [lint, hop, cmpOp, if_true, decide_eq_true_eq, gt_iff_lt, List.length_pos_iff_exists_mem,
    List.mem_filter, ge_iff_le]
  constructor
  · rintro ⟨r, hr, hs⟩; exact ⟨r, (mem_insertAll _ _).1 hr, hs⟩
  · rintro ⟨r, hr, hs⟩; exact ⟨r, (mem_insertAll _ _).2 hr, hs⟩

/-- `pint ci` likewise -/
theorem C05_ci (stream : List Rep) (failOn : Nat) :
    ci stream failOn = true ↔ ∃ r ∈ stream, failOn ≤ r.sev := by
  have hop : Gen.Severity.ci.op = ">=" := by decide
  simp only [ci, hop, cmpOp, if_true, List.any_eq_true, decide_eq_true_eq, ge_iff_le]
  constructor
  · rintro ⟨r, hr, hs⟩; exact ⟨r, (mem_insertAll _ _).1 hr, hs⟩
  · rintro ⟨r, hr, hs⟩; exact ⟨r, (mem_insertAll _ _).2 hr, hs⟩

/-- display filtering and duplicate display never change the exit status -/
theorem exit_indep_display (stream : List Rep) (failOn m1 m2 : Nat) (d1 d2 : Bool) :
    (lint stream failOn m1 d1).fail = (lint stream failOn m2 d2).fail := by
  simp [lint]

/-- duplicates in the stream (same report arriving twice) never change the exit status -/
theorem exit_indep_duplicates (stream : List Rep) (r : Rep) (failOn minSev : Nat) (d : Bool) (h : r ∈ stream) :
    (lint (stream ++ [r]) failOn minSev d).fail = (lint stream failOn minSev d).fail := by
  rw [Bool.eq_iff_iff, C05_lint, C05_lint]
  constructor
  · rintro ⟨x, hx, hs⟩
    simp only [List.mem_append, List.mem_singleton] at hx
    cases hx with
    | inl h' => exact ⟨x, h', hs⟩
    | inr h' => subst h'; exact ⟨x, h, hs⟩
  · rintro ⟨x, hx, hs⟩; exact ⟨x, by simp [hx], hs⟩

/-- problems strictly below the threshold never fail the run -/
theorem below_threshold_passes (stream : List Rep) (failOn minSev : Nat) (d : Bool)
    (h : ∀ r ∈ stream, r.sev < failOn) : (lint stream failOn minSev d).fail = false := by
  rw [Bool.eq_false_iff]
  intro hf
  obtain ⟨r, hr, hs⟩ := (C05_lint stream failOn minSev d).1 hf
  have := h r hr
  omega

/-- non-vacuity: a stream with a Warning and a Bug fails at `bug`, passes at `fatal` -/
theorem demo : (lint [⟨1, 7⟩, ⟨2, 8⟩, ⟨2, 8⟩] 2 0 false).fail = true ∧ (lint [⟨1, 7⟩, ⟨2, 8⟩] 3 3 true).fail = false := by
  decide

end Pint.Props.C05
