import PintModel.Model.Enable
namespace Pint.Props.C14
theorem placeholder : True := trivial
end Pint.Props.C14
