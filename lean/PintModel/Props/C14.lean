import PintModel.Model.Flight
import PintModel.Gen.Keys
import PintModel.Model.Cache
/-!
# C14 — identical questions reach a Prometheus server once; concurrency stays bounded

Theorems about every reachable state of the transition system `Model/Flight.lean` — any number of callers, questions,
workers and any interleaving of the atomic steps:

* `single_flight`   — the requests in flight at the server have pairwise different cache keys;
* `bounded`         — at most `W` (= `concurrency`) requests are in flight;
* `at_most_once`    — whenever a request for question `k` can be sent, the previous request for `k` (if any) has failed
  or its answer has been evicted since: a successful answer is never asked for again during its cache lifetime;
* `answer_reused`   — a worker that finds `k` in the cache cannot miss, and hands out exactly the cached answer.

The hypothesis that makes them true is in the model's `acquire` guard: the lock key is a function of the cache key.
`Gen/Keys` (regenerated from the Go source on every run) carries the lock-key and cache-key expressions of every
endpoint; `keys_determined` decides that hypothesis over that table.
-/
namespace Pint.Props.C14
open Pint.Flight

/-! ## helpers -/

theorem nodup_map_inj {α β : Type} {f : α → β} : ∀ {l : List α}, (l.map f).Nodup → ∀ x ∈ l, ∀ y ∈ l, f x = f y → x = y := by
  intro l
  induction l with
  | nil => intro _ x hx; simp at hx
  | cons z zs ih =>
    intro hn x hx y hy hf
    simp only [List.map_cons, List.nodup_cons, List.mem_map, not_exists, not_and] at hn
    rcases List.mem_cons.mp hx with rfl | hx' <;> rcases List.mem_cons.mp hy with rfl | hy'
    · rfl
    · exact absurd hf.symm (hn.1 y hy')
    · exact absurd hf (hn.1 x hx')
    · exact ih hn.2 x hx' y hy' hf

theorem map_lk_setStage (lk : Nat) (s : Stage) (hs : List Holder) : (setStage lk s hs).map (·.lk) = hs.map (·.lk) := by
  simp only [setStage, List.map_map]
  apply List.map_congr_left
  intro h _
  by_cases hh : h.lk = lk <;> simp [hh]

theorem mem_setStage {lk : Nat} {s : Stage} {hs : List Holder} {h' : Holder} (hm : h' ∈ setStage lk s hs) :
    ∃ h ∈ hs, h'.lk = h.lk ∧ h'.key = h.key ∧ ((h.lk ≠ lk ∧ h' = h) ∨ (h.lk = lk ∧ h'.stage = s)) := by
  simp only [setStage, List.mem_map] at hm
  obtain ⟨h, hh, rfl⟩ := hm
  refine ⟨h, hh, ?_⟩
  by_cases hl : h.lk = lk
  · simp [hl]
  · simp [hl]

theorem holderAt_spec {hs : List Holder} {lk : Nat} {p : Holder → Bool} (h : ((holderAt hs lk).any p) = true) :
    ∃ x, holderAt hs lk = some x ∧ x ∈ hs ∧ x.lk = lk ∧ p x = true := by
  cases hf : holderAt hs lk with
  | none => simp [hf] at h
  | some x =>
    rw [hf] at h
    have hx := List.find?_some (show hs.find? (fun h => h.lk == lk) = some x from hf)
    exact ⟨x, rfl, List.mem_of_find?_eq_some hf, by simpa using hx, by simpa using h⟩

theorem keyAt_eq {s : St} {lk : Nat} {x : Holder} (h : holderAt s.holders lk = some x) : keyAt s lk = x.key := by
  simp [keyAt, h]

theorem find_filter_ne (c : List (Nat × Nat)) {k0 k : Nat} (h : ¬k0 = k) :
    (c.filter fun e => e.1 != k0).find? (fun e => e.1 == k) = c.find? (fun e => e.1 == k) := by
  have h' : ¬k = k0 := fun hh => h hh.symm
  induction c with
  | nil => rfl
  | cons e es ih =>
    by_cases he : e.1 = k0
    · have hek : ¬e.1 = k := by rw [he]; exact h
      simp [List.filter_cons, he, List.find?_cons, h, ih]
    · by_cases hk : e.1 = k
      · simp [List.filter_cons, he, List.find?_cons, hk]
        simp [← hk, he]
      · simp [List.filter_cons, he, List.find?_cons, hk, ih]

theorem lookup_cacheSet (c : List (Nat × Nat)) (k0 a k : Nat) :
    lookup (cacheSet c k0 a) k = if k0 = k then some a else lookup c k := by
  unfold lookup cacheSet
  by_cases h : k0 = k
  · simp [h]
  · have hne : (k0 == k) = false := by simp [h]
    simp only [List.find?_cons, hne, h, if_false]
    rw [find_filter_ne c h]

theorem lookup_cacheDel (c : List (Nat × Nat)) (k0 k : Nat) :
    lookup (cacheDel c k0) k = if k0 = k then none else lookup c k := by
  unfold lookup cacheDel
  by_cases h : k0 = k
  · subst h
    simp only [if_true, Option.map_eq_none_iff]
    apply List.find?_eq_none.mpr
    intro e he
    have := (List.mem_filter.mp he).2
    simpa using this
  · simp only [h, if_false]
    rw [find_filter_ne c h]

/-! ## the invariant -/

structure Inv (W : Nat) (lockOf : Nat → Nat) (s : St) : Prop where
  lks : (s.holders.map (·.lk)).Nodup
  own : ∀ h ∈ s.holders, lockOf h.key = h.lk
  bound : active s.holders ≤ W
  wait : ∀ h ∈ s.holders, waitingB h.stage = true → lookup s.cache h.key = none
  fr : ∀ k, fresh k s.log = true →
    (s.holders.any fun h => h.key == k && flyingB h.stage) = true ∨ (lookup s.cache k).isSome = true

theorem inv_init (W : Nat) (lockOf : Nat → Nat) : Inv W lockOf init :=
  ⟨by simp [init], by simp [init], by simp [init, active], by simp [init], by simp [init, fresh]⟩

/-- two holders with one cache key are the same holder -/
theorem key_inj {W : Nat} {lockOf : Nat → Nat} {s : St} (hI : Inv W lockOf s) {x y : Holder}
    (hx : x ∈ s.holders) (hy : y ∈ s.holders) (hk : x.key = y.key) : x = y :=
  nodup_map_inj hI.lks x hx y hy (by rw [← hI.own x hx, ← hI.own y hy, hk])

theorem lk_inj {W : Nat} {lockOf : Nat → Nat} {s : St} (hI : Inv W lockOf s) {x y : Holder}
    (hx : x ∈ s.holders) (hy : y ∈ s.holders) (hk : x.lk = y.lk) : x = y :=
  nodup_map_inj hI.lks x hx y hy hk

/-! ## stage changes -/

def anyFly (hs : List Holder) (k : Nat) : Bool := hs.any fun h => h.key == k && flyingB h.stage

theorem setStage_same {W : Nat} {lockOf : Nat → Nat} {s : St} (hI : Inv W lockOf s) {x h : Holder}
    (hx : x ∈ s.holders) (hh : h ∈ s.holders) (hl : h.lk = x.lk) : h = x := lk_inj hI hh hx hl

theorem active_setStage_le {W : Nat} {lockOf : Nat → Nat} {s : St} (hI : Inv W lockOf s) {x : Holder}
    (hx : x ∈ s.holders) (s1 : Stage) (hb : activeB s1 = true → activeB x.stage = true) :
    active (setStage x.lk s1 s.holders) ≤ active s.holders := by
  simp only [active, setStage, List.countP_map]
  apply List.countP_mono_left
  intro h hh hp
  simp only [Function.comp] at hp
  by_cases hl : h.lk = x.lk
  · have := setStage_same hI hx hh hl
    subst this
    simp at hp
    exact hb hp
  · simpa [hl] using hp

theorem countP_or_le {α : Type} (p q : α → Bool) (l : List α) :
    l.countP (fun a => p a || q a) ≤ l.countP p + l.countP q := by
  induction l with
  | nil => simp
  | cons a as ih =>
    simp only [List.countP_cons]
    cases hp : p a <;> cases hq : q a <;> simp <;> omega

theorem countP_lk_le_one : ∀ {hs : List Holder}, (hs.map (·.lk)).Nodup → ∀ lk, hs.countP (fun h => h.lk == lk) ≤ 1 := by
  intro hs
  induction hs with
  | nil => intro _ _; simp
  | cons h hs ih =>
    intro hn lk
    simp only [List.map_cons, List.nodup_cons, List.mem_map, not_exists, not_and] at hn
    simp only [List.countP_cons]
    by_cases hl : h.lk = lk
    · have : hs.countP (fun h => h.lk == lk) = 0 := by
        apply List.countP_eq_zero.mpr
        intro y hy
        have := hn.1 y hy
        simp [← hl]
        exact this
      simp [hl, this]
    · have := ih hn.2 lk
      simp [hl]
      exact this

theorem active_setStage_take {W : Nat} {lockOf : Nat → Nat} {s : St} (hI : Inv W lockOf s) (lk : Nat) (s1 : Stage) :
    active (setStage lk s1 s.holders) ≤ active s.holders + 1 := by
  simp only [active, setStage, List.countP_map]
  have h1 : s.holders.countP ((fun h => activeB h.stage) ∘ fun h => if (h.lk == lk) = true then { h with stage := s1 } else h) ≤
      s.holders.countP (fun h => activeB h.stage || h.lk == lk) := by
    apply List.countP_mono_left
    intro h _ hp
    simp only [Function.comp] at hp
    by_cases hl : h.lk = lk
    · simp [hl]
    · simp [hl] at hp; simp [hp]
  have h2 := countP_or_le (fun h : Holder => activeB h.stage) (fun h => h.lk == lk) s.holders
  have h3 := countP_lk_le_one hI.lks lk
  omega

theorem anyFly_setStage_other {W : Nat} {lockOf : Nat → Nat} {s : St} (hI : Inv W lockOf s) {x : Holder}
    (hx : x ∈ s.holders) (s1 : Stage) {k : Nat} (hk : x.key ≠ k) (h : anyFly s.holders k = true) :
    anyFly (setStage x.lk s1 s.holders) k = true := by
  simp only [anyFly, List.any_eq_true, Bool.and_eq_true, beq_iff_eq] at h ⊢
  obtain ⟨y, hy, hyk, hyf⟩ := h
  refine ⟨y, ?_, hyk, hyf⟩
  simp only [setStage, List.mem_map]
  refine ⟨y, hy, ?_⟩
  have : y.lk ≠ x.lk := by
    intro hl
    have := setStage_same hI hx hy hl
    rw [this] at hyk
    exact hk hyk
  simp [this]

theorem anyFly_setStage_mono {W : Nat} {lockOf : Nat → Nat} {s : St} (hI : Inv W lockOf s) {x : Holder}
    (hx : x ∈ s.holders) (s1 : Stage) (hm : flyingB x.stage = true → flyingB s1 = true) {k : Nat}
    (h : anyFly s.holders k = true) : anyFly (setStage x.lk s1 s.holders) k = true := by
  simp only [anyFly, List.any_eq_true, Bool.and_eq_true, beq_iff_eq] at h ⊢
  obtain ⟨y, hy, hyk, hyf⟩ := h
  by_cases hl : y.lk = x.lk
  · have := setStage_same hI hx hy hl
    subst this
    refine ⟨{ y with stage := s1 }, ?_, hyk, hm hyf⟩
    simp only [setStage, List.mem_map]
    exact ⟨y, hy, by simp⟩
  · refine ⟨y, ?_, hyk, hyf⟩
    simp only [setStage, List.mem_map]
    exact ⟨y, hy, by simp [hl]⟩

theorem anyFly_setStage_self {s : St} {x : Holder} (hx : x ∈ s.holders) (s1 : Stage) (hf : flyingB s1 = true) :
    anyFly (setStage x.lk s1 s.holders) x.key = true := by
  simp only [anyFly, List.any_eq_true, Bool.and_eq_true, beq_iff_eq]
  refine ⟨{ x with stage := s1 }, ?_, rfl, hf⟩
  simp only [setStage, List.mem_map]
  exact ⟨x, hx, by simp⟩

/-- everything but the log-and-cache part of a stage change -/
theorem pres_core {W : Nat} {lockOf : Nat → Nat} {s : St} (hI : Inv W lockOf s) {x : Holder} (hx : x ∈ s.holders)
    (s1 : Stage) (cache' : List (Nat × Nat)) (log' : List Ev)
    (hbound : active (setStage x.lk s1 s.holders) ≤ W)
    (hw : ∀ h ∈ s.holders, h ≠ x → waitingB h.stage = true → lookup cache' h.key = none)
    (hw1 : waitingB s1 = true → lookup cache' x.key = none)
    (hf : ∀ k, fresh k log' = true → anyFly (setStage x.lk s1 s.holders) k = true ∨ (lookup cache' k).isSome = true) :
    Inv W lockOf { holders := setStage x.lk s1 s.holders, cache := cache', log := log' } := by
  refine ⟨?_, ?_, hbound, ?_, hf⟩
  · simp only [map_lk_setStage]; exact hI.lks
  · intro h' hm
    obtain ⟨h, hh, hl, hk, _⟩ := mem_setStage hm
    rw [hl, hk]; exact hI.own h hh
  · intro h' hm hwait
    obtain ⟨h, hh, hl, hk, hcase⟩ := mem_setStage hm
    rcases hcase with ⟨hne, heq⟩ | ⟨heq, hst⟩
    · subst heq
      have : h' ≠ x := fun e => hne (by rw [e])
      exact hw h' hh this hwait
    · have := setStage_same hI hx hh heq
      subst this
      rw [hk]
      exact hw1 (by rw [← hst]; exact hwait)

theorem fresh_cons_deliver (k k' : Nat) (r : Option Nat) (l : List Ev) : fresh k (.deliver k' r :: l) = fresh k l := rfl
theorem fresh_cons_respOk (k k' a : Nat) (l : List Ev) : fresh k (.respOk k' a :: l) = fresh k l := rfl

/-- old `fr` transported through a stage change that keeps flying holders flying, cache unchanged -/
theorem fr_mono {W : Nat} {lockOf : Nat → Nat} {s : St} (hI : Inv W lockOf s) {x : Holder} (hx : x ∈ s.holders)
    (s1 : Stage) (hm : flyingB x.stage = true → flyingB s1 = true) :
    ∀ k, fresh k s.log = true → anyFly (setStage x.lk s1 s.holders) k = true ∨ (lookup s.cache k).isSome = true := by
  intro k hk
  rcases hI.fr k hk with h | h
  · exact Or.inl (anyFly_setStage_mono hI hx s1 hm h)
  · exact Or.inr h

theorem wait_keep {W : Nat} {lockOf : Nat → Nat} {s : St} (hI : Inv W lockOf s) (x : Holder) :
    ∀ h ∈ s.holders, h ≠ x → waitingB h.stage = true → lookup s.cache h.key = none :=
  fun h hh _ hw => hI.wait h hh hw

/-- one step preserves the invariant -/
theorem step_inv {W : Nat} {lockOf : Nat → Nat} {s : St} (hI : Inv W lockOf s) (a : Act)
    (he : enabled W lockOf s a = true) : Inv W lockOf (apply s a) := by
  cases a with
  | acquire lk key =>
    simp only [enabled, Bool.and_eq_true, beq_iff_eq, Bool.not_eq_true', List.any_eq_false] at he
    refine ⟨?_, ?_, ?_, ?_, ?_⟩
    · simp only [apply, List.map_cons, List.nodup_cons, List.mem_map, not_exists, not_and]
      refine ⟨fun h hh hl => ?_, hI.lks⟩
      have := he.2 h hh
      simp [hl] at this
    · intro h hh
      simp only [apply] at hh
      rcases List.mem_cons.mp hh with rfl | h'
      · exact he.1
      · exact hI.own h h'
    · have : active ({ lk := lk, key := key, stage := Stage.acquired } :: s.holders) = active s.holders := by
        simp [active, List.countP_cons, activeB]
      simp only [apply]; rw [this]; exact hI.bound
    · intro h hh hw
      simp only [apply] at hh
      rcases List.mem_cons.mp hh with rfl | h'
      · simp [waitingB] at hw
      · exact hI.wait h h' hw
    · intro k hk
      rcases hI.fr k hk with h | h
      · left
        simp only [apply, List.any_cons]
        simp [h]
      · exact Or.inr h
  | enqueue lk =>
    obtain ⟨x, hxa, hx, hxl, hp⟩ := holderAt_spec he
    subst hxl
    have hst : x.stage = .acquired := by simpa using hp
    have hc := pres_core hI hx .queued s.cache s.log
      (Nat.le_trans (active_setStage_le hI hx .queued (by simp [activeB])) hI.bound)
      (wait_keep hI x) (by simp [waitingB]) (fr_mono hI hx .queued (by simp [hst, flyingB]))
    simpa [apply] using hc
  | take lk =>
    simp only [enabled, Bool.and_eq_true, decide_eq_true_eq] at he
    obtain ⟨x, hxa, hx, hxl, hp⟩ := holderAt_spec he.1
    subst hxl
    have hst : x.stage = .queued := by simpa using hp
    have hb : active (setStage x.lk .got s.holders) ≤ W := by
      have := active_setStage_take hI x.lk .got
      omega
    have hc := pres_core hI hx .got s.cache s.log hb (wait_keep hI x) (by simp [waitingB])
      (fr_mono hI hx .got (by simp [hst, flyingB]))
    simpa [apply] using hc
  | hit lk =>
    obtain ⟨x, hxa, hx, hxl, hp⟩ := holderAt_spec he
    subst hxl
    simp only [Bool.and_eq_true, beq_iff_eq] at hp
    have hst : x.stage = .got := hp.1
    have hc := pres_core hI hx (.delivered (lookup s.cache x.key)) s.cache (.deliver x.key (lookup s.cache x.key) :: s.log)
      (Nat.le_trans (active_setStage_le hI hx _ (by simp [activeB])) hI.bound)
      (wait_keep hI x) (by simp [waitingB])
      (fun k hk => fr_mono hI hx _ (by simp [hst, flyingB]) k (by simpa [fresh_cons_deliver] using hk))
    simpa [apply, keyAt_eq hxa] using hc
  | miss lk =>
    obtain ⟨x, hxa, hx, hxl, hp⟩ := holderAt_spec he
    subst hxl
    simp only [Bool.and_eq_true, beq_iff_eq, Option.isNone_iff_eq_none] at hp
    have hst : x.stage = .got := hp.1
    have hc := pres_core hI hx .missed s.cache s.log
      (Nat.le_trans (active_setStage_le hI hx .missed (by simp [hst, activeB])) hI.bound)
      (wait_keep hI x) (fun _ => hp.2) (fr_mono hI hx .missed (by simp [hst, flyingB]))
    simpa [apply] using hc
  | unsupported lk =>
    obtain ⟨x, hxa, hx, hxl, hp⟩ := holderAt_spec he
    subst hxl
    have hst : x.stage = .missed := by simpa using hp
    have hc := pres_core hI hx (.delivered none) s.cache (.deliver x.key none :: s.log)
      (Nat.le_trans (active_setStage_le hI hx _ (by simp [activeB])) hI.bound)
      (wait_keep hI x) (by simp [waitingB])
      (fun k hk => fr_mono hI hx _ (by simp [hst, flyingB]) k (by simpa [fresh_cons_deliver] using hk))
    simpa [apply, keyAt_eq hxa] using hc
  | send lk =>
    obtain ⟨x, hxa, hx, hxl, hp⟩ := holderAt_spec he
    subst hxl
    have hst : x.stage = .missed := by simpa using hp
    have hwx : lookup s.cache x.key = none := hI.wait x hx (by simp [hst, waitingB])
    have hc := pres_core hI hx .inflight s.cache (.send x.key :: s.log)
      (Nat.le_trans (active_setStage_le hI hx _ (by simp [hst, activeB])) hI.bound)
      (wait_keep hI x) (fun _ => hwx)
      (fun k hk => by
        by_cases hkx : x.key = k
        · subst hkx; exact Or.inl (anyFly_setStage_self hx .inflight (by simp [flyingB]))
        · have : fresh k s.log = true := by simpa [fresh, hkx] using hk
          exact fr_mono hI hx _ (by simp [hst, flyingB]) k this)
    simpa [apply, keyAt_eq hxa] using hc
  | respOk lk a =>
    obtain ⟨x, hxa, hx, hxl, hp⟩ := holderAt_spec he
    subst hxl
    have hst : x.stage = .inflight := by simpa using hp
    have hwx : lookup s.cache x.key = none := hI.wait x hx (by simp [hst, waitingB])
    have hc := pres_core hI hx (.filling a) s.cache (.respOk x.key a :: s.log)
      (Nat.le_trans (active_setStage_le hI hx _ (by simp [hst, activeB])) hI.bound)
      (wait_keep hI x) (fun _ => hwx)
      (fun k hk => fr_mono hI hx _ (by simp [flyingB]) k (by simpa [fresh_cons_respOk] using hk))
    simpa [apply, keyAt_eq hxa] using hc
  | respErr lk =>
    obtain ⟨x, hxa, hx, hxl, hp⟩ := holderAt_spec he
    subst hxl
    have hst : x.stage = .inflight := by simpa using hp
    have hc := pres_core hI hx (.delivered none) s.cache (.respErr x.key :: s.log)
      (Nat.le_trans (active_setStage_le hI hx _ (by simp [activeB])) hI.bound)
      (wait_keep hI x) (by simp [waitingB])
      (fun k hk => by
        by_cases hkx : x.key = k
        · subst hkx; simp [fresh] at hk
        · have hfr : fresh k s.log = true := by simpa [fresh, hkx] using hk
          rcases hI.fr k hfr with h | h
          · exact Or.inl (anyFly_setStage_other hI hx _ hkx h)
          · exact Or.inr h)
    simpa [apply, keyAt_eq hxa] using hc
  | cacheSet lk =>
    obtain ⟨x, hxa, hx, hxl, hp⟩ := holderAt_spec he
    subst hxl
    cases hst : x.stage with
    | filling a =>
      have hc := pres_core hI hx (.delivered (some a)) (cacheSet s.cache x.key a) (.deliver x.key (some a) :: s.log)
        (Nat.le_trans (active_setStage_le hI hx _ (by simp [activeB])) hI.bound)
        (fun h hh hne hw => by
          have hk : x.key ≠ h.key := fun e => hne (key_inj hI hh hx e.symm)
          rw [lookup_cacheSet]; simp only [hk, if_false]; exact hI.wait h hh hw)
        (by simp [waitingB])
        (fun k hk => by
          by_cases hkx : x.key = k
          · subst hkx; right; rw [lookup_cacheSet]; simp
          · have hfr : fresh k s.log = true := by simpa [fresh_cons_deliver] using hk
            rcases hI.fr k hfr with h | h
            · exact Or.inl (anyFly_setStage_other hI hx _ hkx h)
            · right; rw [lookup_cacheSet]; simpa [hkx] using h)
      simpa [apply, hxa, hst, keyAt_eq hxa] using hc
    | _ => simp [hst] at hp
  | gc k0 =>
    refine ⟨hI.lks, hI.own, hI.bound, ?_, ?_⟩
    · intro h hh hw
      simp only [apply]
      rw [lookup_cacheDel]
      by_cases hk : k0 = h.key
      · simp [hk]
      · simp only [hk, if_false]; exact hI.wait h hh hw
    · intro k hk
      simp only [apply] at hk ⊢
      by_cases hkk : k0 = k
      · subst hkk; simp [fresh] at hk
      · have hfr : fresh k s.log = true := by simpa [fresh, hkk] using hk
        rcases hI.fr k hfr with h | h
        · exact Or.inl h
        · right; rw [lookup_cacheDel]; simpa [hkk] using h
  | release lk =>
    obtain ⟨x, hxa, hx, hxl, hp⟩ := holderAt_spec he
    subst hxl
    have hnf : flyingB x.stage = false := by
      cases hst : x.stage <;> simp [hst] at hp <;> simp [flyingB]
    have hsub : (s.holders.filter fun h => h.lk != x.lk).Sublist s.holders := List.filter_sublist
    refine ⟨?_, ?_, ?_, ?_, ?_⟩
    · exact List.Nodup.sublist (List.Sublist.map _ hsub) hI.lks
    · intro h hh; exact hI.own h (hsub.subset hh)
    · exact Nat.le_trans (List.Sublist.countP_le hsub) hI.bound
    · intro h hh hw; exact hI.wait h (hsub.subset hh) hw
    · intro k hk
      rcases hI.fr k hk with h | h
      · left
        simp only [List.any_eq_true, Bool.and_eq_true, beq_iff_eq] at h
        obtain ⟨y, hy, hyk, hyf⟩ := h
        simp only [apply, List.any_eq_true, Bool.and_eq_true, beq_iff_eq, List.mem_filter, bne_iff_ne, ne_eq]
        refine ⟨y, ⟨hy, fun hl => ?_⟩, hyk, hyf⟩
        have := lk_inj hI hy hx hl
        subst this
        rw [hyf] at hnf; exact absurd hnf (by simp)
      · exact Or.inr h

theorem reach_inv {W : Nat} {lockOf : Nat → Nat} {s : St} (h : Reach W lockOf s) : Inv W lockOf s := by
  induction h with
  | init => exact inv_init W lockOf
  | step a _ he ih => exact step_inv ih a he

/-! ## the property -/

/-- **single flight**: in every reachable state the requests in flight at the server have pairwise different cache
keys — identical requests are never in flight at the same time. -/
theorem single_flight {W : Nat} {lockOf : Nat → Nat} {s : St} (h : Reach W lockOf s) : (inflightKeys s).Nodup := by
  have hI := reach_inv h
  unfold inflightKeys
  have hsub : (s.holders.filter fun h => h.stage == .inflight).Sublist s.holders := List.filter_sublist
  have hn : ((s.holders.filter fun h => h.stage == .inflight).map (·.lk)).Nodup :=
    List.Nodup.sublist (List.Sublist.map _ hsub) hI.lks
  -- keys determine lock keys, so a repeated key would be a repeated lock key
  generalize hl : (s.holders.filter fun h => h.stage == .inflight) = l at hn hsub
  have hown : ∀ h ∈ l, lockOf h.key = h.lk := fun h hh => hI.own h (hsub.subset hh)
  clear hl hsub
  induction l with
  | nil => simp
  | cons x xs ih =>
    simp only [List.map_cons, List.nodup_cons, List.mem_map, not_exists, not_and] at hn ⊢
    refine ⟨fun y hy hk => hn.1 y hy ?_, ih hn.2 (fun h hh => hown h (by simp [hh]))⟩
    rw [← hown y (by simp [hy]), ← hown x (by simp), hk]

/-- **bounded concurrency**: never more than `W` requests in flight. -/
theorem bounded {W : Nat} {lockOf : Nat → Nat} {s : St} (h : Reach W lockOf s) : (inflightKeys s).length ≤ W := by
  have hI := reach_inv h
  unfold inflightKeys
  rw [List.length_map, ← List.countP_eq_length_filter]
  refine Nat.le_trans (List.countP_mono_left ?_) hI.bound
  intro x _ hx
  have : x.stage = .inflight := by simpa using hx
  simp [this, activeB]

/-- **at most once per cache lifetime**: whenever a request for question `k` can be sent, the most recent event about
`k` at the server is not an unanswered-or-successful request — it failed, or its answer was evicted, or there was
none.  So between two requests for one question there is always an error or an eviction. -/
theorem at_most_once {W : Nat} {lockOf : Nat → Nat} {s : St} (h : Reach W lockOf s) (lk : Nat)
    (he : enabled W lockOf s (.send lk) = true) : fresh (keyAt s lk) s.log = false := by
  have hI := reach_inv h
  obtain ⟨x, hxa, hx, hxl, hp⟩ := holderAt_spec he
  have hst : x.stage = .missed := by simpa using hp
  rw [keyAt_eq hxa]
  cases hf : fresh x.key s.log with
  | false => rfl
  | true =>
    rcases hI.fr x.key hf with h1 | h1
    · simp only [List.any_eq_true, Bool.and_eq_true, beq_iff_eq] at h1
      obtain ⟨y, hy, hyk, hyf⟩ := h1
      have := key_inj hI hy hx hyk
      subst this
      rw [hst] at hyf; simp [flyingB] at hyf
    · have := hI.wait x hx (by simp [hst, waitingB])
      rw [this] at h1; simp at h1

/-- **a cached answer is reused**: a worker holding a job whose key is cached cannot take the miss branch, and the
result it hands to the caller is the cached answer. -/
theorem answer_reused {W : Nat} {lockOf : Nat → Nat} (s : St) (lk a : Nat) (x : Holder)
    (hx : holderAt s.holders lk = some x) (hc : lookup s.cache x.key = some a) :
    enabled W lockOf s (.miss lk) = false ∧
    (enabled W lockOf s (.hit lk) = true → (apply s (.hit lk)).log.head? = some (.deliver x.key (some a))) := by
  constructor
  · simp [enabled, hx, hc]
  · intro _
    simp [apply, keyAt_eq hx, hc]

/-- all callers of one question get equal results while the answer is cached: a hit leaves the cache as it is, so the
next hit for the same key (by `answer_reused`) delivers the same answer -/
theorem hit_keeps_cache (s : St) (lk : Nat) : (apply s (.hit lk)).cache = s.cache := rfl

/-- only a successful answer enters the cache, and only evictions remove entries: the other steps keep every lookup -/
theorem cache_changes_only_by_set_or_gc (s : St) (a : Act) (k : Nat)
    (h1 : ∀ lk, a ≠ .cacheSet lk) (h2 : ∀ k', a ≠ .gc k') : lookup (apply s a).cache k = lookup s.cache k := by
  cases a <;> simp [apply] at * 

/-! non-vacuity: a run in which two callers ask the same question with one worker: the second waits for the lock,
finds the answer in the cache and the server sees one request -/
def demoLockOf (k : Nat) : Nat := k + 100

def demoRun : List Act :=
  [ .acquire 107 7, .enqueue 107, .take 107, .miss 107, .send 107, .respOk 107 42, .cacheSet 107, .release 107,
    .acquire 107 7, .enqueue 107, .take 107, .hit 107, .release 107 ]

example : ((runActs 1 demoLockOf init demoRun).map fun s => s.log.reverse) =
    some [.send 7, .respOk 7 42, .deliver 7 (some 42), .deliver 7 (some 42)] := by decide

/-- the second caller cannot acquire the lock while the first holds it -/
example : runActs 1 demoLockOf init [.acquire 107 7, .acquire 107 7] = none := by decide

/-- with a lock key that is NOT a function of the cache key the model itself refuses the acquisition — this is the
hypothesis the key table has to provide -/
example : enabled 1 demoLockOf init (.acquire 5 7) = false := by decide

theorem runActs_reach {W : Nat} {lockOf : Nat → Nat} : ∀ (as : List Act) (s s' : St), Reach W lockOf s →
    runActs W lockOf s as = some s' → Reach W lockOf s'
  | [], s, s', hr, h => by simp [runActs] at h; exact h ▸ hr
  | a :: as, s, s', hr, h => by
    simp only [runActs] at h
    by_cases he : enabled W lockOf s a = true
    · simp only [he, if_true] at h
      exact runActs_reach as (apply s a) s' (Reach.step a hr he) h
    · simp [he] at h

/-! ## the key table of the Go code (regenerated from `internal/promapi` on every run) -/
section Keys
open Pint.Gen.Keys

/-- the lock that guards the job: the last one taken before the job is queued -/
def jobLock (e : Endpoint) : Option LockKey := e.locks.getLast?

def sliceLockShape : List (Bool × String) :=
  [(false, "strconv.FormatUint"), (false, "query.query.CacheKey()"), (false, "10")]

/-- the lock key is a function of the cache key: it is built from constants and from fields that the cache key hashes,
or it is the cache key itself -/
def lockDetermined (e : Endpoint) (q : QueryType) : Bool :=
  match jobLock e with
  | none => false
  | some l =>
    if l.kind == "concat" then l.parts.all fun p => p.1 || q.cacheFields.contains ("q." ++ p.2)
    else l.parts == sliceLockShape

def queryTypeOf (e : Endpoint) : Option QueryType := queryTypes.find? fun q => q.name == e.queryType

/-- hypothesis of the model (`acquire` needs `lockOf key = lk`), decided for every endpoint of the current source -/
theorem keys_determined : endpoints.all (fun e => (queryTypeOf e).any (lockDetermined e)) = true := by decide

/-- every lock is released by a deferred unlock of the same key, no lock call sits under a condition inside its function
(every question takes its lock on every path), and the job is queued and awaited under the lock -/
theorem locks_released_and_ordered :
    endpoints.all (fun e => e.locks.all (·.deferredUnlock)) = true ∧
    endpoints.all (fun e => e.locks.all (·.guard == "")) = true ∧
    endpoints.map (·.order) =
      [["lock", "defer-unlock", "enqueue", "receive"],
       ["lock", "defer-unlock", "lock", "defer-unlock", "enqueue", "receive"],
       ["lock", "defer-unlock", "enqueue", "receive"],
       ["lock", "defer-unlock", "enqueue", "receive"],
       ["lock", "defer-unlock", "enqueue", "receive"]] := by decide

/-- the answer depends only on what the cache key hashes: every field the request is built from is in the cache key
(together with the server URI and the endpoint) -/
theorem cache_key_covers_request :
    queryTypes.all (fun q => q.requestFields.all q.cacheFields.contains &&
      (q.cacheArgs.take 2 == ["q.prom.unsafeURI", "q.Endpoint()"])) = true := by decide

/-- the two ends of a range question enter the cache key to the step, both of them (fix e6e801d: Start used to keep one
second resolution, so a question with a lookback below the slice size never met its own answer again) -/
theorem range_key_ends_rounded :
    ((queryTypes.find? fun q => q.name == "rangeQuery").map (·.cacheArgs)) =
      some ["q.prom.unsafeURI", "q.Endpoint()", "q.expr", "q.r.Start.Round(q.r.Step).Format(time.RFC3339)",
            "q.r.End.Round(q.r.Step).Format(time.RFC3339)", "output.HumanizeDuration(q.r.Step)"] := by decide

def expectedProcessJob : List String :=
  ["cache.get", "if-cached{", "return", "}", "isSupported", "if-unsupported{", "return", "}", "ratelimit", "run",
   "if-error{", "return", "apis.disable", "return", "return", "}", "cache.set", "return"]

/-- `processJob`: cache lookup first, the request only after a miss, the cache is filled only after the error branch
has returned — the step order the model's worker actions have -/
theorem processJob_shape : processJob = expectedProcessJob := by decide

def expectedWorkerLoop : String := "w := 1; w <= prom.concurrency"
def expectedWorkerBody : String := "{ job.result <- processJob(prom, job) }"
def expectedLockBody : String := "{ p.l.Lock() defer p.l.Unlock() for p.locked(id) { p.c.Wait() } p.s[id] = struct{}{} verifTrace(\"lock\", id, 0) }"
def expectedUnlockBody : String := "{ p.l.Lock() defer p.l.Unlock() verifTrace(\"unlock\", id, 0) delete(p.s, id) p.c.Broadcast() }"

/-- `concurrency` workers, one job at a time each; the keyed lock waits while the key is held -/
theorem pool_and_lock_shape :
    workerLoop = expectedWorkerLoop ∧ workerBody = expectedWorkerBody ∧
    lockBody = expectedLockBody ∧ unlockBody = expectedUnlockBody := by decide

/-- why a range query needs the per-slice lock: its outer lock key mentions the lookback (`params.String()`), which the
slice cache key does not hash, so it is not a function of the cache key -/
theorem range_outer_lock_not_determined_by_slice :
    ((endpoints.find? fun e => e.method == "RangeQuery").bind fun e => e.locks.head?).any
      (fun l => l.parts.any fun p => p.2 == "params.String()") = true ∧
    ((queryTypes.find? fun q => q.name == "rangeQuery").any fun q => q.cacheArgs.any fun a => a == "params.String()") = false := by
  decide

end Keys

/-! ## the cache with its clock: an answer lives for its cache lifetime -/
section CacheLife
open Pint.Cache

/-- a sweep keeps every entry that is neither expired nor stale -/
theorem gc_keeps_live (c : Cache) (e : Entry) (he : e ∈ c.entries) (hd : dead c e = false) : e ∈ (sweep c).entries := by
  simp [sweep, he, hd]

/-- a sweep removes only entries that are expired or stale -/
theorem gc_removes_only_dead (c : Cache) (e : Entry) (he : e ∈ c.entries) (hn : e ∉ (sweep c).entries) : dead c e = true := by
  cases h : dead c e with
  | true => rfl
  | false => exact absurd (gc_keeps_live c e he h) hn

theorem find_put_self (c : Cache) (k v ttl : Nat) :
    find (put c k v ttl) k = some { key := k, val := v, expires := if ttl > 0 then some (c.now + ttl) else none, lastGet := c.now } := by
  simp [find, put]

/-- **cache lifetime**: an answer stored with a positive ttl is still handed out after any number of sweeps, as long as
no more than its ttl and less than `maxStale` has passed since it was stored — whatever else is in the cache -/
theorem stored_answer_survives_sweep (c : Cache) (k v ttl d : Nat) (hd : d ≤ ttl) (hs : d < c.maxStale) :
    (look (sweep (advance (put c k v ttl) d)) k).2 = some v := by
  have hfind := find_put_self c k v ttl
  have hmem : ({ key := k, val := v, expires := if ttl > 0 then some (c.now + ttl) else none, lastGet := c.now } : Entry) ∈
      (advance (put c k v ttl) d).entries := by simp [advance, put]
  have hlive : dead (advance (put c k v ttl) d)
      { key := k, val := v, expires := if ttl > 0 then some (c.now + ttl) else none, lastGet := c.now } = false := by
    simp only [dead, advance, put]
    by_cases ht : ttl > 0
    · simp [ht]; omega
    · simp [ht]; omega
  have hkeep := gc_keeps_live _ _ hmem hlive
  -- it is the first entry with key k, before and after the sweep
  have hfirst : find (sweep (advance (put c k v ttl) d)) k =
      some { key := k, val := v, expires := if ttl > 0 then some (c.now + ttl) else none, lastGet := c.now } := by
    simp only [find, sweep, advance, put, List.filter_cons]
    have : dead { now := c.now + d, maxStale := c.maxStale, entries := { key := k, val := v, expires := if ttl > 0 then some (c.now + ttl) else none, lastGet := c.now } :: List.filter (fun e => e.key != k) c.entries, evictions := c.evictions }
        { key := k, val := v, expires := if ttl > 0 then some (c.now + ttl) else none, lastGet := c.now } = false := hlive
    simp [this]
  have hnotexp : expired (sweep (advance (put c k v ttl) d))
      { key := k, val := v, expires := if ttl > 0 then some (c.now + ttl) else none, lastGet := c.now } = false := by
    simp only [expired, sweep, advance, put]
    by_cases ht : ttl > 0
    · simp [ht]; omega
    · simp [ht]
  simp [look, hfirst, hnotexp]

/-- **and not longer**: once more than its (positive) ttl has passed the answer is a miss at the very next lookup,
whether or not a sweep has run in between (before fix 926463a only `gc`, every two minutes, looked at expiry) -/
theorem expired_answer_is_a_miss (c : Cache) (k v ttl d : Nat) (ht : 0 < ttl) (hd : ttl < d) :
    (look (advance (put c k v ttl) d) k).2 = none := by
  have hfind : find (advance (put c k v ttl) d) k =
      some { key := k, val := v, expires := some (c.now + ttl), lastGet := c.now } := by
    simp [find, advance, put, ht]
  have hexp : expired (advance (put c k v ttl) d) { key := k, val := v, expires := some (c.now + ttl), lastGet := c.now } = true := by
    simp only [expired, advance, put]; simp; omega
  simp [look, hfind, hexp]

/-- non-vacuity, and the two ways an entry dies -/
example : (look (advance (put (empty 100 0) 7 42 50) 51) 7).2 = none := by decide
example : (look (advance (put (empty 100 0) 7 42 50) 50) 7).2 = some 42 := by decide
example : (look (sweep (advance (put (empty 100 0) 7 42 50) 50)) 7).2 = some 42 := by decide
example : (look (sweep (advance (put (empty 100 0) 7 42 50) 51)) 7).2 = none := by decide
example : (look (sweep (advance (put (empty 100 0) 7 42 0) 100)) 7).2 = none := by decide
example : (look (sweep (advance (look (advance (put (empty 100 0) 7 42 0) 99) 7).1 99)) 7).2 = some 42 := by decide

end CacheLife

end Pint.Props.C14
