/-
  C07 — control comments suppress exactly the targeted check on the targeted rules
  (decision level: which check instances run for which rule).
-/
import PintModel.Lemmas.Enable
import PintModel.Model.Comments
import PintModel.Gen.Checks
set_option linter.unusedSimpArgs false
namespace Pint.Props.C07
open Pint.Enable

def addDisable (e : Entry) (m : String) : Entry := { e with ruleDisable := m :: e.ruleDisable }
def addSnooze (e : Entry) (future : Bool) (m : String) : Entry := { e with ruleSnooze := (future, m) :: e.ruleSnooze }
def addFileDisable (e : Entry) (m : String) : Entry := { e with fileDisabled := m :: e.fileDisabled }

/-- the comment text `m` names instance `i` (its name, its String(), or name(+tag)) -/
def names (m : String) (i : Inst) : Bool := (i.name :: i.str :: tagged i.name i.tags).contains m

/-- instances a rule-level `# pint disable m` switches off: named by m, not unconditional, not locked -/
def dropRule (m : String) (i : Inst) : Bool := names m i && !i.always && !i.locked
/-- instances a `# pint file/disable m` switches off: named by m, not unconditional -/
def dropFile (m : String) (i : Inst) : Bool := names m i && !i.always

theorem isDisabledForRule_addDisable (e : Entry) (m : String) (i : Inst) :
    isDisabledForRule (addDisable e m) i = (names m i || isDisabledForRule e i) := by
  simp [isDisabledForRule, addDisable, names, List.any_cons, Bool.or_assoc]

theorem isDisabledForRule_addSnooze (e : Entry) (f : Bool) (m : String) (i : Inst) :
    isDisabledForRule (addSnooze e f m) i = ((f && names m i) || isDisabledForRule e i) := by
  simp only [isDisabledForRule, addSnooze, names, List.any_cons]
  cases f <;> cases h1 : (e.ruleDisable.any fun d => (i.name :: i.str :: tagged i.name i.tags).contains d) <;> simp

theorem isEnabledBy_addDisable_keep (en dis : List String) (e : Entry) (m : String) (i : Inst)
    (h : dropRule m i = false) : isEnabledBy en dis (addDisable e m) i = isEnabledBy en dis e i := by
  unfold isEnabledBy
  rw [isDisabledForRule_addDisable]
  simp only [dropRule, Bool.and_eq_false_iff, Bool.not_eq_false'] at h
  rcases h with (h | h) | h
  · simp [h]
  · simp [h]
  · simp [h]

theorem isEnabledBy_addDisable_drop (en dis : List String) (e : Entry) (m : String) (i : Inst)
    (h : dropRule m i = true) : isEnabledBy en dis (addDisable e m) i = false := by
  unfold isEnabledBy
  rw [isDisabledForRule_addDisable]
  simp only [dropRule, Bool.and_eq_true, Bool.not_eq_true'] at h
  obtain ⟨⟨h1, h2⟩, h3⟩ := h
  simp [h1, h2, h3]

theorem instEnabled_addDisable_keep (re : Re) (cmd : String) (en dis : List String) (rules : List CfgRule)
    (dup : Bool) (e : Entry) (m : String) (i : Inst) (h : dropRule m i = false) :
    instEnabled re cmd en dis rules dup (addDisable e m) i = instEnabled re cmd en dis rules dup e i := by
  unfold instEnabled
  simp only [isEnabledBy_addDisable_keep _ _ e m i h]
  rfl

theorem instEnabled_addDisable_drop (re : Re) (cmd : String) (en dis : List String) (rules : List CfgRule)
    (dup : Bool) (e : Entry) (m : String) (i : Inst) (h : dropRule m i = true) :
    instEnabled re cmd en dis rules dup (addDisable e m) i = false := by
  unfold instEnabled
  split
  · rfl
  · have : isEnabledBy en (addDisable e m).fileDisabled (addDisable e m) i = false :=
      isEnabledBy_addDisable_drop en _ e m i h
    simp [this]

/-- C07 (rule comment): adding `# pint disable m` to a rule removes exactly the check instances m
    names (unless unconditional or locked) for that rule; every other instance's decision is unchanged.
    Unbounded in configuration, instances, other comments. -/
theorem disable_exact (re : Re) (cmd : String) (en dis : List String) (rules : List CfgRule) (e : Entry)
    (m : String) (insts : List Inst)
    (hstr : ∀ i ∈ insts, ∀ j ∈ insts, i.str = j.str → dropRule m i = dropRule m j) :
    getChecks re cmd en dis rules (addDisable e m) insts =
      (getChecks re cmd en dis rules e insts).filter fun i => !dropRule m i := by
  unfold getChecks
  rw [selectFrom_eq_gen, selectFrom_eq_gen]
  have := selectGen_filter
    (fun dup i => isMatch re cmd e i.ignore i.match_ && instEnabled re cmd en dis rules dup e i)
    (fun dup i => isMatch re cmd (addDisable e m) i.ignore i.match_ && instEnabled re cmd en dis rules dup (addDisable e m) i)
    (dropRule m) insts
    (by
      intro i _ hd b
      simp only [instEnabled_addDisable_keep re cmd en dis rules b e m i hd]
      rfl)
    (by
      intro i _ hd b
      simp [instEnabled_addDisable_drop re cmd en dis rules b e m i hd])
    hstr insts [] (fun _ h => h) (by simp)
  simpa using this

/-- a snooze whose time is in the future is a disable -/
theorem snooze_future_eq_disable (re : Re) (cmd : String) (en dis : List String) (rules : List CfgRule) (e : Entry)
    (m : String) (insts : List Inst) :
    getChecks re cmd en dis rules (addSnooze e true m) insts = getChecks re cmd en dis rules (addDisable e m) insts := by
  have hd : ∀ i, isDisabledForRule (addSnooze e true m) i = isDisabledForRule (addDisable e m) i := by
    intro i; rw [isDisabledForRule_addSnooze, isDisabledForRule_addDisable]; simp
  have he : ∀ dis i, isEnabledBy en dis (addSnooze e true m) i = isEnabledBy en dis (addDisable e m) i := by
    intro dis i; unfold isEnabledBy; rw [hd]
  unfold getChecks
  rw [selectFrom_eq_gen, selectFrom_eq_gen]
  have hf : (fun dup i => isMatch re cmd (addSnooze e true m) i.ignore i.match_ && instEnabled re cmd en dis rules dup (addSnooze e true m) i) =
      (fun dup i => isMatch re cmd (addDisable e m) i.ignore i.match_ && instEnabled re cmd en dis rules dup (addDisable e m) i) := by
    funext dup i
    unfold instEnabled
    simp only [he]
    rfl
  rw [hf]

/-- an expired snooze changes nothing -/
theorem snooze_past_noop (re : Re) (cmd : String) (en dis : List String) (rules : List CfgRule) (e : Entry)
    (m : String) (insts : List Inst) :
    getChecks re cmd en dis rules (addSnooze e false m) insts = getChecks re cmd en dis rules e insts := by
  have hd : ∀ i, isDisabledForRule (addSnooze e false m) i = isDisabledForRule e i := by
    intro i; rw [isDisabledForRule_addSnooze]; simp
  have he : ∀ dis i, isEnabledBy en dis (addSnooze e false m) i = isEnabledBy en dis e i := by
    intro dis i; unfold isEnabledBy; rw [hd]
  unfold getChecks
  rw [selectFrom_eq_gen, selectFrom_eq_gen]
  have hf : (fun dup i => isMatch re cmd (addSnooze e false m) i.ignore i.match_ && instEnabled re cmd en dis rules dup (addSnooze e false m) i) =
      (fun dup i => isMatch re cmd e i.ignore i.match_ && instEnabled re cmd en dis rules dup e i) := by
    funext dup i
    unfold instEnabled
    simp only [he]
    rfl
  rw [hf]

/-- checks coming from a `locked` block ignore rule-level disable and snooze comments -/
theorem locked_ignores_rule_comments (en dis : List String) (e : Entry) (m : String) (f : Bool) (i : Inst)
    (hl : i.locked = true) :
    isEnabledBy en dis (addDisable e m) i = isEnabledBy en dis e i ∧
    isEnabledBy en dis (addSnooze e f m) i = isEnabledBy en dis e i := by
  unfold isEnabledBy
  simp [hl]

theorem isEnabledBy_fileDisable_keep (en : List String) (e : Entry) (m : String) (i : Inst)
    (h : dropFile m i = false) :
    isEnabledBy en (m :: e.fileDisabled) e i = isEnabledBy en e.fileDisabled e i := by
  unfold isEnabledBy
  simp only [dropFile, Bool.and_eq_false_iff, Bool.not_eq_false'] at h
  rcases h with h | h
  · have h' : ¬ (m = i.name ∨ m = i.str ∨ m ∈ tagged i.name i.tags) := by
      simpa [names, List.contains_iff_mem] using h
    simp only [not_or] at h'
    simp [List.any_cons, h'.1, h'.2.1, h'.2.2]
  · simp [h]

theorem isEnabledBy_fileDisable_drop (en : List String) (e : Entry) (m : String) (i : Inst)
    (h : dropFile m i = true) : isEnabledBy en (m :: e.fileDisabled) e i = false := by
  simp only [dropFile, Bool.and_eq_true, Bool.not_eq_true'] at h
  obtain ⟨h1, h2⟩ := h
  have h' : (m = i.name ∨ m = i.str ∨ m ∈ tagged i.name i.tags) := by
    simpa [names, List.contains_iff_mem] using h1
  have : ((m :: e.fileDisabled).any fun c => decide (c = i.name) || decide (c = i.str) || (tagged i.name i.tags).contains c) = true := by
    simp only [List.any_cons, Bool.or_eq_true, decide_eq_true_eq, List.contains_iff_mem]
    left
    rcases h' with h | h | h
    · exact Or.inl (Or.inl h)
    · exact Or.inl (Or.inr h)
    · exact Or.inr h
  unfold isEnabledBy
  simp only [h2, Bool.false_eq_true, if_false, this, if_true]
  split <;> rfl

/-- C07 (file comment): `# pint file/disable m` (or a live `file/snooze`) does the same for every rule
    of the file: for each entry, exactly the instances m names (unless unconditional) disappear. -/
theorem file_disable_exact (re : Re) (cmd : String) (en dis : List String) (rules : List CfgRule) (e : Entry)
    (m : String) (insts : List Inst)
    (hstr : ∀ i ∈ insts, ∀ j ∈ insts, i.str = j.str → dropFile m i = dropFile m j) :
    getChecks re cmd en dis rules (addFileDisable e m) insts =
      (getChecks re cmd en dis rules e insts).filter fun i => !dropFile m i := by
  unfold getChecks
  rw [selectFrom_eq_gen, selectFrom_eq_gen]
  have := selectGen_filter
    (fun dup i => isMatch re cmd e i.ignore i.match_ && instEnabled re cmd en dis rules dup e i)
    (fun dup i => isMatch re cmd (addFileDisable e m) i.ignore i.match_ && instEnabled re cmd en dis rules dup (addFileDisable e m) i)
    (dropFile m) insts
    (by
      intro i _ hd b
      have h1 : isEnabledBy en (m :: e.fileDisabled) e i = isEnabledBy en e.fileDisabled e i :=
        isEnabledBy_fileDisable_keep en e m i hd
      have hE : ∀ d, isEnabledBy en d (addFileDisable e m) i = isEnabledBy en d e i := by
        intro d; rfl
      unfold instEnabled
      simp only [addFileDisable, hE] at *
      show (isMatch re cmd e i.ignore i.match_ && _) = (isMatch re cmd e i.ignore i.match_ && _)
      congr 1
      show (if _ then _ else if (!isEnabledBy en (m :: e.fileDisabled) e i) = true then _ else _) = _
      rw [h1]
      rfl)
    (by
      intro i _ hd b
      have h1 : isEnabledBy en (m :: e.fileDisabled) e i = false := isEnabledBy_fileDisable_drop en e m i hd
      unfold instEnabled
      have : isEnabledBy en (addFileDisable e m).fileDisabled (addFileDisable e m) i = false := h1
      split
      · simp
      · simp [this])
    hstr insts [] (fun _ h => h) (by simp)
  simpa using this

/-! ### the comment grammar accepts the documented spellings of every check name (whole table) -/

open Pint.Comments in
/-- `# pint disable <name>` parses to a Disable comment carrying exactly the name, for every check name -/
theorem disable_comment_parses :
    ∀ n ∈ Gen.Checks.checkNames,
      parseComment (fun _ => false) ("# pint disable " ++ n).toList = some ⟨.disable, 0, .text n.toList, []⟩ ∧
      parseComment (fun _ => false) ("#pint   file/disable  " ++ n ++ " ").toList = some ⟨.fileDisable, 0, .text n.toList, []⟩ := by
  decide +kernel

open Pint.Comments in
/-- snooze comments: the text after the timestamp is the match, for every check name -/
theorem snooze_comment_parses :
    ∀ n ∈ Gen.Checks.checkNames,
      parseComment (fun t => t == "2099-01-01".toList) ("  # pint snooze 2099-01-01 " ++ n).toList =
        some ⟨.snooze, 2, .snooze "2099-01-01".toList n.toList, []⟩ := by
  decide +kernel

def demoI1 : Inst := Inst.mk "rule/label" "rule/label(team:true)" "rule/label" [State.noop] false [] false [] []
def demoI2 : Inst := Inst.mk "rule/label" "rule/label(env:true)" "rule/label" [State.noop] false [] false [] []
def demoE : Entry := { path := "a", kind := Kind.recording, name := "x", labels := [], annotations := none, forDur := RuleDur.absent, keepFiringFor := RuleDur.absent, state := State.noop, fileDisabled := [], ruleDisable := [], ruleSnooze := [], hasError := false }

/-- non-vacuity: two instances of rule/label with different String(), a disable comment naming one -/
theorem demo :
    (getChecks (fun _ _ => true) "lint" [] [] [] demoE [demoI1, demoI2]).map (·.str) = ["rule/label(team:true)", "rule/label(env:true)"] ∧
    (getChecks (fun _ _ => true) "lint" [] [] [] (addDisable demoE "rule/label(team:true)") [demoI1, demoI2]).map (·.str) = ["rule/label(env:true)"] := by
  decide +kernel

end Pint.Props.C07
