/-
  C09 — rule{} match/ignore blocks select rules by their documented boolean meaning.
-/
import PintModel.Spec.Match
import PintModel.Gen.States
set_option linter.unusedSimpArgs false
namespace Pint.Props.C09
open Pint.Enable Pint.Spec.Match

theorem stateMatches_iff (states : List String) (st : State) :
    stateMatches states st = true ↔ ∃ s ∈ states, stateIs s st := by
  simp only [stateMatches, List.any_eq_true, stateIs, Bool.or_eq_true, Bool.and_eq_true, decide_eq_true_eq, or_assoc]

theorem durCond_iff (c : Option (DurOp × Nat)) (e : Entry) (d : RuleDur) :
    durCond c (e.kind = .alerting) d = true ↔ durSatisfied c e d := by
  unfold durCond durSatisfied
  cases c with
  | none => simp
  | some p =>
    obtain ⟨op, lim⟩ := p
    by_cases hk : e.kind = .alerting
    · cases d <;> simp [hk]
    · simp [hk]

/-- one sub-block: the nine-condition conjunction of `Match.IsMatch` is exactly `Satisfied` -/
theorem isMatch_iff_satisfied (re : Re) (m : Match) (cmd : String) (e : Entry) :
    m.isMatch re cmd e = true ↔ Satisfied re m cmd e := by
  unfold Match.isMatch
  simp only [Bool.and_eq_true]
  constructor
  · rintro ⟨⟨⟨⟨⟨⟨⟨⟨h1, h2⟩, h3⟩, h4⟩, h5⟩, h6⟩, h7⟩, h8⟩, h9⟩
    refine ⟨?_, ?_, ?_, ?_, ?_, ?_, ?_, (durCond_iff _ _ _).1 h8, (durCond_iff _ _ _).1 h9⟩
    · intro c hc; simpa [hc] using h1
    · intro hne
      have : stateMatches m.states e.state = true := by
        simpa [List.isEmpty_iff, hne] using h2
      exact (stateMatches_iff _ _).1 this
    · intro hne
      have h3' := h3
      simp only [Bool.or_eq_true, decide_eq_true_eq, hne, false_or, Bool.and_eq_true, bne_iff_ne, ne_eq] at h3'
      obtain ⟨ha, hr⟩ := h3'
      exact ⟨fun hk => by simpa [hk] using ha, fun hk => by simpa [hk] using hr⟩
    · intro hne; simpa [hne] using h4
    · intro hne hk; simpa [hne, hk] using h5
    · intro k v hl
      have h6' := h6
      simp only [hl, List.any_eq_true, Bool.and_eq_true] at h6'
      exact h6'
    · intro k v hl
      have h7' := h7
      simp only [hl] at h7'
      cases ha : e.annotations with
      | none => simp [ha] at h7'
      | some as =>
        simp only [ha, Bool.and_eq_true, decide_eq_true_eq, List.any_eq_true] at h7'
        exact ⟨h7'.1, as, rfl, h7'.2⟩
  · intro hs
    refine ⟨⟨⟨⟨⟨⟨⟨⟨?_, ?_⟩, ?_⟩, ?_⟩, ?_⟩, ?_⟩, ?_⟩, (durCond_iff _ _ _).2 hs.for_⟩, (durCond_iff _ _ _).2 hs.keepFiringFor⟩
    · cases hc : m.command with
      | none => simp
      | some c => simpa using hs.command c hc
    · by_cases hne : m.states = []
      · simp [hne]
      · have := (stateMatches_iff _ _).2 (hs.state hne)
        simp [this]
    · by_cases hne : m.kind = ""
      · simp [hne]
      · obtain ⟨ha, hr⟩ := hs.kind hne
        simp only [Bool.or_eq_true, decide_eq_true_eq, hne, false_or, Bool.and_eq_true, bne_iff_ne, ne_eq]
        refine ⟨?_, ?_⟩
        · by_cases hk : e.kind = .alerting
          · exact Or.inr (ha hk)
          · exact Or.inl hk
        · by_cases hk : e.kind = .recording
          · exact Or.inr (hr hk)
          · exact Or.inl hk
    · by_cases hne : m.path = ""
      · simp [hne]
      · simp [hne, hs.path hne]
    · by_cases hne : m.name = ""
      · simp [hne]
      · by_cases hk : e.kind = .invalid
        · simp [hk]
        · simp [hne, hk, hs.name hne hk]
    · cases hl : m.label with
      | none => simp
      | some p =>
        obtain ⟨k, v⟩ := p
        simpa [List.any_eq_true] using hs.label k v hl
    · cases hl : m.annotation with
      | none => simp
      | some p =>
        obtain ⟨k, v⟩ := p
        obtain ⟨hk, as, has, hex⟩ := hs.annotation k v hl
        simp only [has, Bool.and_eq_true, decide_eq_true_eq, List.any_eq_true]
        exact ⟨hk, by simpa using hex⟩

/-- C09: the block decision of pint (`isMatch`) is the documented one, for every configuration
    (any number of match / ignore sub-blocks over all nine condition kinds), entry and command. -/
theorem C09_statement (re : Re) (cmd : String) (e : Entry) (ignore match_ : List Match) :
    isMatch re cmd e ignore match_ = true ↔ Applies re cmd e ignore match_ := by
  unfold isMatch Applies
  simp only [Bool.and_eq_true, Bool.not_eq_true', Bool.or_eq_true, List.isEmpty_iff,
    List.any_eq_true, isMatch_iff_satisfied]
  constructor
  · rintro ⟨h1, h2⟩
    refine ⟨?_, h2⟩
    intro i hi hsat
    have : (ignore.any fun i => i.isMatch re cmd e) = true :=
      List.any_eq_true.2 ⟨i, hi, (isMatch_iff_satisfied _ _ _ _).2 hsat⟩
    simp [this] at h1
  · rintro ⟨h1, h2⟩
    refine ⟨?_, h2⟩
    rw [Bool.eq_false_iff]
    intro hany
    obtain ⟨i, hi, hm⟩ := List.any_eq_true.1 hany
    exact h1 i hi ((isMatch_iff_satisfied _ _ _ _).1 hm)

/-- the state default depends on the command exactly as the generated tables say (ci: added,
    modified, renamed, removed; anything else: any), and a sub-block without `state` gets it -/
theorem state_default_by_command :
    defaultMatchStates "ci" = Gen.States.ciStates ∧
    (∀ cmd, cmd ≠ "ci" → defaultMatchStates cmd = Gen.States.anyStates) ∧
    Gen.States.defaultStatesTable = [("ci", "CIStates")] ∧ Gen.States.defaultStatesDefault = "AnyStates" := by
  refine ⟨by decide, ?_, by decide, by decide⟩
  intro cmd h
  simp [defaultMatchStates, h, Gen.States.anyStates]

/-- the model's `stateMatches` words are the ones of the source switch -/
theorem state_table_matches_source :
    Gen.States.stateTable = [("any", "*"), ("added", "Added"), ("modified", "Modified"), ("renamed", "Moved"),
      ("removed", "Removed"), ("unmodified", "Noop")] := by decide

theorem defaultRuleMatch_fills (ms : List Match) (d : List String) :
    (ms = [] → defaultRuleMatch ms d = [{ states := d }]) ∧
    (∀ m ∈ defaultRuleMatch ms d, ms ≠ [] → m.states ≠ [] ∨ d = []) := by
  constructor
  · intro h; simp [defaultRuleMatch, h]
  · intro m hm hne
    simp only [defaultRuleMatch, List.isEmpty_iff, hne, if_false, List.mem_map] at hm
    obtain ⟨m0, _, rfl⟩ := hm
    by_cases h0 : m0.states = []
    · by_cases hd : d = []
      · exact Or.inr hd
      · left; simp [h0, hd]
    · left; simp [h0]

theorem mem_setValue_of_ne (items : List (String × String)) (kv p : String × String) (h : p.1 ≠ kv.1)
    (hp : p ∈ items) : p ∈ setValue items kv := by
  induction items with
  | nil => simp at hp
  | cons q rest ih =>
    simp only [setValue]
    split
    · rename_i hq
      cases List.mem_cons.1 hp with
      | inl e => subst e; exact absurd hq h
      | inr e => exact List.mem_cons_of_mem _ e
    · cases List.mem_cons.1 hp with
      | inl e => subst e; exact List.mem_cons_self
      | inr e => exact List.mem_cons_of_mem _ (ih e)

/-- label conditions see group-level labels: a group label whose key the rule does not set
    is among the labels the conditions are evaluated on, whatever the rule's own labels are -/
theorem label_sees_group_labels (group rule : List (String × String)) (p : String × String)
    (hp : p ∈ group) (hk : ∀ q ∈ rule, q.1 ≠ p.1) : p ∈ mergeLabels group rule := by
  unfold mergeLabels
  induction rule generalizing group with
  | nil => simpa
  | cons q rest ih =>
    simp only [List.foldl_cons]
    apply ih
    · exact mem_setValue_of_ne group q p (fun h => hk q (by simp) h.symm) hp
    · intro r hr; exact hk r (by simp [hr])

/-- a rule label overrides the group label of the same key (single override shown by evaluation) -/
theorem rule_label_wins_demo :
    mergeLabels [("team", "infra"), ("job", "grp")] [("job", "critical"), ("env", "x")] =
      [("team", "infra"), ("job", "critical"), ("env", "x")] := by decide

/-- non-vacuity: an alerting rule, a block with one ignore and two match sub-blocks -/
theorem demo :
    isMatch (fun p s => p == s) "lint"
      { path := "a.yml", kind := .alerting, name := "Down", labels := [("team", "infra")], annotations := none,
        forDur := .dur 300, keepFiringFor := .absent, state := .noop, fileDisabled := [], ruleDisable := [],
        ruleSnooze := [], hasError := false }
      [{ name := "Other" }] [{ kind := "recording" }, { label := some ("team", "infra"), for_ := some (.ge, 60) }] = true := by
  decide

end Pint.Props.C09
